/-!
Model of `liquid/builtin/loaders/mixins.py` (`CachingLoaderMixin`) on top of `BaseLoader.load /
load_async` (`liquid/loader.py`), `Environment.get_template(_async)` / `make_globals`
(`liquid/environment.py`) and `BoundTemplate.is_up_to_date(_async)` (`liquid/template.py`),
as the code is written **after** the `fix:` commits of this property (globals bound on every hit;
`DictLoader` has an `uptodate`; file-system `uptodate` answers `False` for a vanished file; a
synchronous `is_up_to_date` on an asynchronously loaded template answers `False`).

* strings are `List Char`; `cache_key` really builds the string `f"{ns}/{name}"`;
* the cache is the `OrderedDict`-backed `LRUCache` (association list, least recently used first);
* the underlying loader (`get_source`, `get_source_async`, and what calling the returned
  `uptodate` does) is a **parameter** `Loader σ η` over an arbitrary store type `σ` and
  "uptodate closure" type `η`; four concrete instances (`dict`, `fs`, `choice`, `ns`) are used
  by the driver and by the instance theorems;
* the synchronous and asynchronous code paths (`load`/`load_async`,
  `_check_cache`/`_check_cache_async`, `get_template`/`get_template_async`) are written out
  separately, as in the source.
-/
namespace LiquidVerif.CacheLoader

abbrev Str := List Char

/-! ## globals: `dict[str, object]` as an association list -/

abbrev Globals := List (Nat × Nat)

def gkeys (g : Globals) : List Nat := g.map (·.1)

def glookup (g : Globals) (k : Nat) : Option Nat :=
  match g with
  | [] => none
  | (k', v) :: r => if k' = k then some v else glookup r k

/-- `{**a, **b}` (entries of `b` win) -/
def merge (a b : Globals) : Globals := b ++ a.filter (fun p => !(gkeys b).contains p.1)

/-- `Environment.make_globals`: `if globals: return {**self.globals, **globals}` /
`return dict(self.globals)` — `None` and `{}` are both falsy. -/
def makeGlobals (eg : Globals) (g : Option Globals) : Globals :=
  match g with
  | some (p :: ps) => merge eg (p :: ps)
  | _ => eg

/-! ## the LRU cache (`liquid/utils/lru_cache.py`), keys are strings -/

structure Cache (τ : Type) where
  cap   : Nat
  items : List (Str × τ)        -- least recently used first

def find {τ} (l : List (Str × τ)) (k : Str) : Option τ :=
  match l with
  | [] => none
  | (k', v) :: r => if k' = k then some v else find r k

def eraseKey {τ} (l : List (Str × τ)) (k : Str) : List (Str × τ) := l.filter (fun p => !(p.1 = k))

/-- `self.cache[key]`: `KeyError` (`none`) or the value, moved to the end -/
def Cache.getitem {τ} (c : Cache τ) (k : Str) : Cache τ × Option τ :=
  match find c.items k with
  | none => (c, none)
  | some v => ({ c with items := eraseKey c.items k ++ [(k, v)] }, some v)

/-- `self.cache[key] = value` -/
def Cache.setitem {τ} (c : Cache τ) (k : Str) (v : τ) : Cache τ :=
  match find c.items k with
  | some _ => { c with items := eraseKey c.items k ++ [(k, v)] }
  | none =>
    let its := if c.items.length ≥ c.cap then c.items.tail else c.items
    { c with items := its ++ [(k, v)] }

/-- mutation of the cached object in place (`cached_template.globals = …`): no reordering -/
def Cache.mutate {τ} (c : Cache τ) (k : Str) (v : τ) : Cache τ :=
  { c with items := c.items.map (fun p => if p.1 = k then (k, v) else p) }

def Cache.empty {τ} (cap : Nat) : Cache τ := { cap := cap, items := [] }

/-! ## requests, templates, the underlying loader -/

inductive Mode where | sync | async
  deriving DecidableEq, Repr

inductive Err where
  | notFound        -- TemplateNotFoundError
  | osError         -- an OSError out of `stat`
  | liquidError     -- LiquidError("expected a boolean from uptodate …")
  deriving DecidableEq, Repr

/-- identity of a source text: (origin, version); the text itself is determined by it (assumption) -/
abbrev Text := Str × Nat

/-- One `get_template(_async)` call. `kw` is the keyword argument named by `namespace_key`
(if passed); `ctx` is `none` without a render context, `some none` with a context whose globals
lack the key, `some (some ns)` with a context whose globals have it. -/
structure Req where
  name    : Str
  kw      : Option Str
  ctx     : Option (Option Str)
  mode    : Mode
  globals : Option Globals
  deriving DecidableEq, Repr

/-- The underlying (non-caching) loader.
`getSource s m name ctx kw` is `get_source` (`m = sync`) / `get_source_async` (`m = async`) on store
`s`: `(text, TemplateSource.name, uptodate closure)`.
`uptodate s m h` is `BoundTemplate.is_up_to_date()` (`m = sync`) / `is_up_to_date_async()` on a
template whose `uptodate` is `h`, evaluated on store `s`. -/
structure Loader (σ η : Type) where
  getSource : σ → Mode → Str → Option (Option Str) → Option Str → Except Err (Text × Str × η)
  uptodate  : σ → Mode → η → Except Err Bool

structure Tpl (η : Type) where
  name    : Str
  text    : Text
  full    : Str
  globals : Globals
  h       : η

/-- what a caller can see of a returned template -/
structure Resp where
  name    : Str
  text    : Text
  globals : Globals
  deriving DecidableEq, Repr

def Tpl.obs {η} (t : Tpl η) : Resp := { name := t.name, text := t.text, globals := t.globals }

structure Cfg where
  autoReload : Bool
  nsKey      : Bool          -- `bool(self.namespace_key)`
  eg         : Globals       -- `env.globals`

/-- `Path(full_name).name` for the names used here: the part after the last `/` -/
def basenameGo : Str → Str → Str
  | [], acc => acc.reverse
  | c :: cs, acc => if c = '/' then basenameGo cs [] else basenameGo cs (c :: acc)

def basename (s : Str) : Str := basenameGo s []

/-- `BaseLoader.load` (`m = sync`) and `BaseLoader.load_async` (`m = async`): `get_source`, then
`env.from_string(source, name=path.name, path=path, globals=globals, matter=matter)` which binds
`env.make_globals(globals)`, then `template.uptodate = uptodate`. -/
def baseLoad {σ η} (L : Loader σ η) (cfg : Cfg) (s : σ) (m : Mode) (name : Str)
    (g : Option Globals) (ctx : Option (Option Str)) (kw : Option Str) : Except Err (Tpl η) :=
  match L.getSource s m name ctx kw with
  | .error e => .error e
  | .ok (text, full, h) =>
    .ok { name := basename full, text := text, full := full, globals := makeGlobals cfg.eg g, h := h }

/-- `CachingLoaderMixin.cache_key(name, context, args)` -/
def cacheKey (cfg : Cfg) (name : Str) (ctx : Option (Option Str)) (kw : Option Str) : Str :=
  if !cfg.nsKey then name            -- `if not self.namespace_key: return name`
  else match kw with
    | some ns => ns ++ '/' :: name   -- `with suppress(KeyError): return f"{args[key]}/{name}"`
    | none =>
      match ctx with
      | none => name                 -- `if context is None: return name`
      | some (some ns) => ns ++ '/' :: name
      | some none => name            -- `except KeyError: return name`

/-- `_check_cache(env, cache_key, globals, load_func)` -/
def checkCache {σ η} (L : Loader σ η) (cfg : Cfg) (c : Cache (Tpl η)) (s : σ) (key : Str)
    (g : Option Globals) (loadFunc : Except Err (Tpl η)) : Cache (Tpl η) × Except Err (Tpl η) :=
  match c.getitem key with
  | (c1, none) =>                                   -- except KeyError
    match loadFunc with
    | .error e => (c1, .error e)
    | .ok t => (c1.setitem key t, .ok t)
  | (c1, some cached) =>
    let hit : Cache (Tpl η) × Except Err (Tpl η) :=
      let t' := { cached with globals := makeGlobals cfg.eg g }
      (c1.mutate key t', .ok t')
    if cfg.autoReload then                          -- `self.auto_reload and not cached.is_up_to_date()`
      match L.uptodate s .sync cached.h with
      | .error e => (c1, .error e)
      | .ok false =>
        match loadFunc with
        | .error e => (c1, .error e)
        | .ok t => (c1.setitem key t, .ok t)
      | .ok true => hit
    else hit

/-- `_check_cache_async` -/
def checkCacheAsync {σ η} (L : Loader σ η) (cfg : Cfg) (c : Cache (Tpl η)) (s : σ) (key : Str)
    (g : Option Globals) (loadFunc : Except Err (Tpl η)) : Cache (Tpl η) × Except Err (Tpl η) :=
  match c.getitem key with
  | (c1, none) =>
    match loadFunc with
    | .error e => (c1, .error e)
    | .ok t => (c1.setitem key t, .ok t)
  | (c1, some cached) =>
    let hit : Cache (Tpl η) × Except Err (Tpl η) :=
      let t' := { cached with globals := makeGlobals cfg.eg g }
      (c1.mutate key t', .ok t')
    if cfg.autoReload then
      match L.uptodate s .async cached.h with       -- `await cached.is_up_to_date_async()`
      | .error e => (c1, .error e)
      | .ok false =>
        match loadFunc with
        | .error e => (c1, .error e)
        | .ok t => (c1.setitem key t, .ok t)
      | .ok true => hit
    else hit

/-- `CachingLoaderMixin.load`: key from `(name, context, kwargs)`, the loader function is
`partial(super().load, env, name, globals=globals, context=context, **kwargs)` -/
def load {σ η} (L : Loader σ η) (cfg : Cfg) (c : Cache (Tpl η)) (s : σ) (name : Str)
    (g : Option Globals) (ctx : Option (Option Str)) (kw : Option Str) :
    Cache (Tpl η) × Except Err (Tpl η) :=
  let key := cacheKey cfg name ctx kw
  checkCache L cfg c s key g (baseLoad L cfg s .sync name g ctx kw)

/-- `CachingLoaderMixin.load_async` -/
def loadAsync {σ η} (L : Loader σ η) (cfg : Cfg) (c : Cache (Tpl η)) (s : σ) (name : Str)
    (g : Option Globals) (ctx : Option (Option Str)) (kw : Option Str) :
    Cache (Tpl η) × Except Err (Tpl η) :=
  let key := cacheKey cfg name ctx kw
  checkCacheAsync L cfg c s key g (baseLoad L cfg s .async name g ctx kw)

/-- `Environment.get_template` / `get_template_async` with a caching loader:
`self.loader.load(env=self, name=name, globals=self.make_globals(globals), context=context, **kwargs)` -/
def getTemplate {σ η} (L : Loader σ η) (cfg : Cfg) (c : Cache (Tpl η)) (s : σ) (r : Req) :
    Cache (Tpl η) × Except Err (Tpl η) :=
  match r.mode with
  | .sync => load L cfg c s r.name (some (makeGlobals cfg.eg r.globals)) r.ctx r.kw
  | .async => loadAsync L cfg c s r.name (some (makeGlobals cfg.eg r.globals)) r.ctx r.kw

/-- the same request on the corresponding **non-caching** loader (`BaseLoader.load/_async`) -/
def refGetTemplate {σ η} (L : Loader σ η) (cfg : Cfg) (s : σ) (r : Req) : Except Err (Tpl η) :=
  baseLoad L cfg s r.mode r.name (some (makeGlobals cfg.eg r.globals)) r.ctx r.kw

def obsOf {η} : Except Err (Tpl η) → Except Err Resp
  | .error e => .error e
  | .ok t => .ok t.obs

/-! ## histories: requests interleaved with arbitrary changes of the store -/

inductive Event (σ : Type) where
  | req (r : Req)
  | store (s : σ)          -- the sources change (any edit, any number of edits)

/-- responses of the caching loader along a history -/
def run {σ η} (L : Loader σ η) (cfg : Cfg) : Cache (Tpl η) → σ → List (Event σ) → List (Except Err Resp)
  | _, _, [] => []
  | c, _, .store s' :: evs => run L cfg c s' evs
  | c, s, .req r :: evs =>
    let (c', out) := getTemplate L cfg c s r
    obsOf out :: run L cfg c' s evs

/-- responses of the non-caching loader along the same history -/
def refRun {σ η} (L : Loader σ η) (cfg : Cfg) : σ → List (Event σ) → List (Except Err Resp)
  | _, [] => []
  | _, .store s' :: evs => refRun L cfg s' evs
  | s, .req r :: evs => obsOf (refGetTemplate L cfg s r) :: refRun L cfg s evs

/-- did the request return the **cached object itself** (a hit that was not reloaded)? The caller then
shares the object with every earlier caller that was handed it. -/
def servedCached {σ η} (L : Loader σ η) (cfg : Cfg) (c : Cache (Tpl η)) (s : σ) (r : Req) : Bool :=
  match (c.getitem (cacheKey cfg r.name r.ctx r.kw)).2 with
  | none => false
  | some cached =>
    if cfg.autoReload then
      match L.uptodate s r.mode cached.h with
      | .ok true => true
      | _ => false
    else true

/-- for every request of a history: was the cached object itself returned? -/
def runShared {σ η} (L : Loader σ η) (cfg : Cfg) : Cache (Tpl η) → σ → List (Event σ) → List Bool
  | _, _, [] => []
  | c, _, .store s' :: evs => runShared L cfg c s' evs
  | c, s, .req r :: evs => servedCached L cfg c s r :: runShared L cfg (getTemplate L cfg c s r).1 s evs

/-! ## concurrent requests (`thread_safe=True`)

`ThreadSafeLRUCache` makes each cache operation atomic, but `_check_cache` is **not** one critical
section: look-up, `is_up_to_date()`, `load_func()` and the store are separate steps, and other threads
(and edits of the sources) may run in between. A thread is a request plus a program counter; a
schedule says which thread takes its next step, or that the store changes. -/

inductive PC (η : Type) where
  | start                                   -- about to do `self.cache[cache_key]`
  | check (cached : Tpl η)                  -- about to call `cached_template.is_up_to_date()`
  | loading                                 -- about to call `load_func()`
  | storing (t : Tpl η)                     -- about to do `self.cache[cache_key] = template`
  | done (o : Except Err (Tpl η))           -- returned / raised

structure Thread (η : Type) where
  r  : Req
  pc : PC η

/-- `cached_template.globals = …` on the object the thread holds: it changes the cache entry only if
that object is still the entry (objects are told apart by their text identity) -/
def Cache.rebind {η} (c : Cache (Tpl η)) (k : Str) (cached : Tpl η) (g : Globals) : Cache (Tpl η) :=
  { c with items := c.items.map (fun p =>
      if p.1 = k ∧ p.2.text = cached.text ∧ p.2.full = cached.full then (p.1, { p.2 with globals := g }) else p) }

/-- one atomic step of one thread (synchronous `_check_cache`) on the shared cache and current store -/
def threadStep {σ η} (L : Loader σ η) (cfg : Cfg) (c : Cache (Tpl η)) (s : σ) (th : Thread η) :
    Cache (Tpl η) × Thread η :=
  let key := cacheKey cfg th.r.name th.r.ctx th.r.kw
  let g := makeGlobals cfg.eg (some (makeGlobals cfg.eg th.r.globals))
  let hit (c : Cache (Tpl η)) (cached : Tpl η) : Cache (Tpl η) × Thread η :=
    (c.rebind key cached g, { th with pc := .done (.ok { cached with globals := g }) })
  match th.pc with
  | .start =>
    match c.getitem key with
    | (c1, none) => (c1, { th with pc := .loading })
    | (c1, some cached) => if cfg.autoReload then (c1, { th with pc := .check cached }) else hit c1 cached
  | .check cached =>
    match L.uptodate s th.r.mode cached.h with
    | .error e => (c, { th with pc := .done (.error e) })
    | .ok false => (c, { th with pc := .loading })
    | .ok true => hit c cached
  | .loading =>
    match refGetTemplate L cfg s th.r with
    | .error e => (c, { th with pc := .done (.error e) })
    | .ok t => (c, { th with pc := .storing t })
  | .storing t => (c.setitem key t, { th with pc := .done (.ok t) })
  | .done o => (c, { th with pc := .done o })

structure CState (σ η : Type) where
  cache   : Cache (Tpl η)
  store   : σ
  threads : List (Thread η)

inductive CEvent (σ : Type) where
  | step (i : Nat)          -- thread `i` takes its next step
  | store (s : σ)           -- the sources change

def cstep {σ η} (L : Loader σ η) (cfg : Cfg) (st : CState σ η) : CEvent σ → CState σ η
  | .store s => { st with store := s }
  | .step i =>
    match st.threads[i]? with
    | none => st
    | some th =>
      let (c', th') := threadStep L cfg st.cache st.store th
      { st with cache := c', threads := st.threads.set i th' }

def crun {σ η} (L : Loader σ η) (cfg : Cfg) : CState σ η → List (CEvent σ) → CState σ η
  | st, [] => st
  | st, e :: es => crun L cfg (cstep L cfg st e) es

def cinit {σ η} (cap : Nat) (s : σ) (rs : List Req) : CState σ η :=
  { cache := Cache.empty cap, store := s, threads := rs.map (fun r => { r := r, pc := .start }) }

/-! ## the namespace a request selects, as `cache_key` resolves it -/

def resolveNs (cfg : Cfg) (ctx : Option (Option Str)) (kw : Option Str) : Option Str :=
  if !cfg.nsKey then none
  else match kw with
    | some ns => some ns
    | none => match ctx with
      | some (some ns) => some ns
      | _ => none

/-- what a request asks for: a name in a namespace -/
def ident (cfg : Cfg) (r : Req) : Str × Option Str := (r.name, resolveNs cfg r.ctx r.kw)

/-! ## concrete loaders (used by the driver and the instance theorems)

The store maps `(dictionary index, full name)` to the current version of that source, or `none`.
Version = mtime for the file-system loader, = the source string for dictionary loaders: **equal
versions of one origin have equal text** is built into this representation (the harness gives every
edit a new mtime and a new text). -/

abbrev Store := Nat → Str → Option Nat

def Store.set (s : Store) (i : Nat) (f : Str) (v : Option Nat) : Store :=
  fun i' f' => if i' = i ∧ f' = f then v else s i' f'

def Store.emptyStore : Store := fun _ _ => none

/-- `uptodate` closure: which dictionary, which entry, the version loaded, loaded by which path -/
structure Handle where
  idx  : Nat
  full : Str
  ver  : Nat
  mode : Mode
  deriving DecidableEq, Repr

/-- `DictLoader` (after the fix): `uptodate = partial(self._uptodate, name, source)`,
`_uptodate = self.templates.get(name) == source`; `get_source_async` is the inherited default. -/
def dictLoader : Loader Store Handle where
  getSource s m name _ _ :=
    match s 0 name with
    | none => .error .notFound
    | some v => .ok ((name, v), name, { idx := 0, full := name, ver := v, mode := m })
  uptodate s _ h := .ok (s h.idx h.full == some h.ver)

/-- `DictLoader` before the fix: `TemplateSource(source, name, None)` — always up to date. -/
def dictLoaderStale : Loader Store Handle where
  getSource := dictLoader.getSource
  uptodate _ _ _ := .ok true

/-- `FileSystemLoader` (one search path, after the fixes). The namespace arguments are ignored.
`get_source` binds `_uptodate`, `get_source_async` binds `_uptodate_async` (a coroutine function):
`is_up_to_date()` on the latter answers `False`; a vanished file answers `False`. -/
def fsLoader : Loader Store Handle where
  getSource s m name _ _ :=
    match s 0 name with
    | none => .error .notFound
    | some v => .ok ((name, v), name, { idx := 0, full := name, ver := v, mode := m })
  uptodate s m h :=
    match m, h.mode with
    | .sync, .async => .ok false
    | _, _ => .ok (s h.idx h.full == some h.ver)

/-- `FileSystemLoader` before the fixes: synchronous check of an asynchronously loaded template
raises `LiquidError`; `stat` of a vanished file raises `FileNotFoundError`. -/
def fsLoaderOld : Loader Store Handle where
  getSource := fsLoader.getSource
  uptodate s m h :=
    match m, h.mode with
    | .sync, .async => .error .liquidError
    | _, _ =>
      match s h.idx h.full with
      | none => .error .osError
      | some v => .ok (v == h.ver)

/-- `ChoiceLoader([DictLoader(d0), DictLoader(d1)])`: first loader that has the name wins; the
`uptodate` is the one of the loader that answered. -/
def choiceLoader : Loader Store Handle where
  getSource s m name _ _ :=
    match s 0 name with
    | some v => .ok ((name, v), name, { idx := 0, full := name, ver := v, mode := m })
    | none =>
      match s 1 name with
      | some v => .ok ((name, v), name, { idx := 1, full := name, ver := v, mode := m })
      | none => .error .notFound
  uptodate s _ h := .ok (s h.idx h.full == some h.ver)

/-- `FileSystemLoader([dir0, dir1])` (after the fixes): the first search path that has the file wins;
the `uptodate` closure watches only the file that was found. -/
def fs2Loader : Loader Store Handle where
  getSource s m name _ _ :=
    match s 0 name with
    | some v => .ok ((name, v), name, { idx := 0, full := name, ver := v, mode := m })
    | none =>
      match s 1 name with
      | some v => .ok ((name, v), name, { idx := 1, full := name, ver := v, mode := m })
      | none => .error .notFound
  uptodate s m h :=
    match m, h.mode with
    | .sync, .async => .ok false
    | _, _ => .ok (s h.idx h.full == some h.ver)

/-- the entry the namespace-aware test loader looks up: `f"{ns}/{name}"`, keyword argument first,
then the context global, else the bare name -/
def nsFull (name : Str) (ctx : Option (Option Str)) (kw : Option Str) : Str :=
  match kw with
  | some ns => ns ++ '/' :: name
  | none =>
    match ctx with
    | some (some ns) => ns ++ '/' :: name
    | _ => name

/-- the namespace-aware test loader of the harness (`NsLoader`): a dictionary keyed by
`f"{ns}/{name}"` (or `name` without a namespace). -/
def nsLoader : Loader Store Handle where
  getSource s m name ctx kw :=
    match s 0 (nsFull name ctx kw) with
    | none => .error .notFound
    | some v => .ok ((nsFull name ctx kw, v), nsFull name ctx kw,
                     { idx := 0, full := nsFull name ctx kw, ver := v, mode := m })
  uptodate s _ h := .ok (s h.idx h.full == some h.ver)

end LiquidVerif.CacheLoader
