/-!
Model of the mechanisms of python-liquid that cut off recursive rendering (property C09, sentence
"rendering finishes for every template, including templates that include, render, extend or call
themselves directly or indirectly at any block depth").

Anchors (all under `liquid/`), mirrored as written:

* `context.py`  `RenderContext.extend`: `if self.scope.size() > env.context_depth_limit: raise ContextDepthError`;
                 push one map; body; pop.  A fresh context has a scope of 4 maps.
                `RenderContext.copy`: `if self._copy_depth > env.context_depth_limit: raise ContextDepthError`;
                 new context with `_copy_depth + 1`, a fresh 4-map scope, the given `disabled_tags`, a fresh
                 `tag_namespace` (no macros; no block stacks unless `block_scope=True`, which shares
                 `tag_namespace["extends"]`).
* `template.py` `BoundTemplate.render_with_context`: `with context.extend(namespace)`: `for node in self.nodes:`
                 `try: node.render` / `except StopRender: break` / `except LiquidError: env.error(err)`
                 (STRICT re-raises, LAX and WARN continue with the next top-level node).
* `ast.py`      `Node.render`: disabled-tag test, then `render_to_output`;
                `BlockNode.render_to_output`: `sum(node.render(...) for node in self.nodes)` (no `try`).
* `builtin/tags/include_tag.py`: `get_template`; `context.extend(namespace, template=template)`;
                 `template.render_with_context(context, partial=True)` (a second `extend`). Same context: macros
                 and block stacks written by the partial stay.
* `builtin/tags/render_tag.py`:  `get_template`; `context.copy(disabled_tags=["include"], template=template)`;
                 `template.render_with_context(ctx, partial=True, block_scope=True)`; the copy is discarded.
* `extra/tags/macro_tag.py`:     `MacroNode` stores `(name → block)` in `tag_namespace["macros"]`; `CallNode`: unknown
                 macro → writes the undefined, else `context.copy(disabled_tags=["include","block"])` and
                 `macro.block.render(macro_context)` (no `render_with_context`, hence no `extend`, no `try`).
* `extra/tags/extends_tag.py`:   `ExtendsNode.render_to_output`: `_build_block_stacks(context, context.template)`
                 (`_find_inheritance_nodes` walks `children(include_partials=False)`; more than one `extends` or a
                 duplicate block name → TemplateInheritanceError; `_store_blocks` appends to the per-name stack;
                 the walk up the chain keeps a `seen` set: a parent name seen before → TemplateInheritanceError
                 "circular extends"; a template without `extends` ends the walk; `assert base`);
                 `base.render_with_context(context)`; `tag_namespace["extends"].clear()`; `raise StopRender`.
                 `BlockNode.render_to_output`: no stack for the name → `context.extend({"block": …})` and the own
                 body; else `context.copy(block_scope=True, disabled_tags=context.disabled_tags)` (repo fix c3aa6de: the
                 overriding block keeps the tags disabled where the block stands) and the body of `stack[0]`.

Abstracted: expressions are already evaluated (an `if`-like block that is not taken is simply absent, a `for`
carries its length), output is reduced to the sequence of `probe` executions (an output statement
`{{ id | probe }}`), `required` blocks, `block.super`, `break`/`continue`, the loop iteration limit (C06), the
namespace contents.  WARN behaves like LAX for control flow.

**Ghost state** (only copied into the emitted events; no test of the model reads it — theorem
`LiquidVerif.C09.ghost_erasure`): `frames`, the number of
Python frames between the first `Node.render` of the render and the current `Node.render` call, accumulated from the
per-construct costs below (measured with `sys._getframe` walks by the harness and compared on every case of the
`depth` stream; the constants are those of the `sum(<genexpr>)` path of `BlockNode.render_to_output` — with
`suppress_blank_control_flow_blocks` on, a block whose children are all blank takes a plain loop, one frame less);
`path`, the number of enclosing partial / macro / block / extends activations; `blocks`, the number of enclosing
block-tag levels.

The functions are accepted by Lean without fuel: every recursive call either goes to a syntactically smaller
node in the same context, or increases `scope` (bounded by the `extend` test) or `copyDepth` (bounded by the
`copy` test).  That lexicographic measure is the termination argument for rendering.
-/
namespace LiquidVerif.Recur

/-! ### Python frame cost of each construct (CPython 3.12, synchronous path) -/
/-- `X.render → X.render_to_output → BlockNode.render → BlockNode.render_to_output → <genexpr> →` child:
if/unless/elsif/else, case-else, for, for-else, tablerow, capture, ifchanged, with, liquid -/
def kBlock : Nat := 5
/-- a `when` branch of `case`: two more (`MultiExpressionBlockNode.render → render_to_output`, list comprehension is inlined) -/
def kWhen : Nat := 7
/-- `IncludeNode/RenderNode/ExtendsNode.render → render_to_output → BoundTemplate.render_with_context →` child -/
def kPartial : Nat := 3
/-- `CallNode.render → render_to_output → BlockNode.render → render_to_output → <genexpr> →` child; same for `block` -/
def kCall : Nat := 5

inductive BKind where
  | plain | when
  deriving DecidableEq, Repr

def BKind.frames : BKind → Nat
  | .plain => kBlock
  | .when => kWhen

inductive Node where
  /-- `{{ id | probe }}`: an output statement; one event per execution -/
  | probe (id : Nat)
  /-- a taken branch of `if`/`unless`/`case`, `capture`, `ifchanged`, `liquid`, the `else` of an empty `for` -/
  | blk (k : BKind) (body : List Node)
  /-- `for`/`tablerow` over `n ≥ 1` items, `with`: `context.extend`, then the body `n` times (`n = 0`: nothing) -/
  | forn (n : Nat) (body : List Node)
  | include (name : String)
  | render (name : String)
  | macro (name : String) (body : List Node)
  | call (name : String)
  | extends (parent : String)
  | block (name : String) (body : List Node)

abbrev Tpls := List (String × List Node)

def lookup {α} (l : List (String × α)) (k : String) : Option α :=
  match l with
  | [] => none
  | (k', v) :: r => if k' == k then some v else lookup r k

inductive Err where
  | contextDepth   -- ContextDepthError
  | inheritance    -- TemplateInheritanceError
  | notFound       -- TemplateNotFoundError
  | disabledTag    -- DisabledTagError
  | assertion      -- AssertionError (`assert base` in `_build_block_stacks`): not a Liquid error
  deriving Repr, DecidableEq

/-- result of `Node.render`: returned, raised `StopRender`, or raised an error -/
inductive Outcome where
  | ok | stop | err (e : Err)
  deriving Repr, DecidableEq

structure Ev where
  id : Nat
  copyDepth : Nat
  scope : Nat
  frames : Nat   -- ghost
  path : Nat     -- ghost
  blocks : Nat   -- ghost
  deriving Repr, DecidableEq

structure Env where
  lax : Bool              -- `env.mode != Mode.STRICT`
  depth : Nat             -- context_depth_limit
  templates : Tpls        -- the loader

/-- what a `RenderContext` hands downwards -/
structure Cx where
  copyDepth : Nat         -- _copy_depth
  scope : Nat             -- scope.size()
  noInclude : Bool        -- "include" in disabled_tags
  noBlock : Bool          -- "block" in disabled_tags
  tname : String          -- context.template (its loader name)
  frames : Nat            -- GHOST
  path : Nat              -- GHOST
  blocks : Nat            -- GHOST

abbrev Macros := List (String × List Node)
abbrev Stacks := List (String × List (List Node))

/-- the mutable part of `tag_namespace` -/
structure St where
  macros : Macros
  stacks : Stacks

structure Res where
  evs : List Ev
  st : St
  out : Outcome

/-! ### `_find_inheritance_nodes`, `_stack_blocks`, `_store_blocks`, `_build_block_stacks` -/
mutual
def extsOf : Node → List String
  | .extends p => [p]
  | .blk _ body => extsOfList body
  | .forn _ body => extsOfList body
  | .macro _ body => extsOfList body
  | .block _ body => extsOfList body
  | _ => []
def extsOfList : List Node → List String
  | [] => []
  | n :: ns => extsOf n ++ extsOfList ns
end

mutual
def blocksOf : Node → List (String × List Node)
  | .block name body => (name, body) :: blocksOfList body
  | .blk _ body => blocksOfList body
  | .forn _ body => blocksOfList body
  | .macro _ body => blocksOfList body
  | _ => []
def blocksOfList : List Node → List (String × List Node)
  | [] => []
  | n :: ns => blocksOf n ++ blocksOfList ns
end

def hasDupFrom (seen : List String) : List (String × List Node) → Bool
  | [] => false
  | b :: bs => if seen.contains b.1 then true else hasDupFrom (b.1 :: seen) bs

def storeOne (st : Stacks) (b : String × List Node) : Stacks :=
  match st with
  | [] => [(b.1, [b.2])]
  | (k, stack) :: r => if k == b.1 then (k, stack ++ [b.2]) :: r else (k, stack) :: storeOne r b

def storeBlocks (st : Stacks) : List (String × List Node) → Stacks
  | [] => st
  | b :: bs => storeBlocks (storeOne st b) bs

def stackBlocks (st : Stacks) (body : List Node) : Except Err (Stacks × Option String) :=
  if (extsOfList body).length > 1 then .error .inheritance
  else if hasDupFrom [] (blocksOfList body) then .error .inheritance
  else .ok (storeBlocks st (blocksOfList body), (extsOfList body).head?)

def unseen (ld : Tpls) (seen : List String) : List String :=
  (ld.map (·.1)).filter (fun k => !seen.contains k)

theorem lookup_mem_keys {α} {l : List (String × α)} {k : String} {v : α} (h : lookup l k = some v) :
    k ∈ l.map (·.1) := by
  induction l with
  | nil => simp [lookup] at h
  | cons p r ih =>
    obtain ⟨k', v'⟩ := p
    simp only [lookup] at h
    by_cases hk : (k' == k) = true
    · simp at hk; simp [hk]
    · simp [hk] at h; simp [ih h]

theorem filter_length_lt_of_mem (l : List String) (p q : String → Bool) (x : String)
    (hx : x ∈ l) (hp : p x = true) (hq : q x = false) (himp : ∀ y, q y = true → p y = true) :
    (l.filter q).length < (l.filter p).length := by
  induction l with
  | nil => cases hx
  | cons a r ih =>
    have hle : ∀ (r : List String), (r.filter q).length ≤ (r.filter p).length := by
      intro r
      induction r with
      | nil => simp
      | cons b r ih =>
        simp only [List.filter]
        cases hqb : q b with
        | true => simp [himp b hqb]; exact ih
        | false => cases hpb : p b <;> simp <;> omega
    simp only [List.filter]
    rcases List.mem_cons.mp hx with rfl | hmem
    · simp [hp, hq]; have := hle r; omega
    · have := ih hmem
      cases hqa : q a with
      | true => simp [himp a hqa]; exact this
      | false => cases hpa : p a <;> simp <;> omega

theorem unseen_lt (ld : Tpls) (seen : List String) (p : String) (t : List Node)
    (hseen : seen.contains p = false) (hfound : lookup ld p = some t) :
    (unseen ld (p :: seen)).length < (unseen ld seen).length := by
  unfold unseen
  apply filter_length_lt_of_mem _ _ _ p (lookup_mem_keys hfound)
  · simpa using hseen
  · simp
  · intro y hy
    simp at hy ⊢
    exact hy.2

/-- the `while next_template` loop of `_build_block_stacks`; `first` = still at the template that holds the
`extends` node being rendered (`assert base` fails when that template has no `extends` of its own).  The stacks are a mutable
dictionary: what was stored before an error stays stored (first component).
Terminates because every round adds a loader name that was not in `seen`. -/
def buildFrom (ld : Tpls) (st : Stacks) (seen : List String) (first : Bool) (body : List Node) :
    Stacks × Except Err (List Node) :=
  match stackBlocks st body with
  | .error e => (st, .error e)                       -- raised before `_store_blocks`
  | .ok (st', none) => if first then (st', .error .assertion) else (st', .ok body)
  | .ok (st', some p) =>
    if _hseen : seen.contains p then (st', .error .inheritance)           -- circular extends
    else
      match _hfound : lookup ld p with
      | none => (st', .error .notFound)
      | some t' => buildFrom ld st' (p :: seen) false t'
termination_by (unseen ld seen).length
decreasing_by exact unseen_lt ld seen p t' (by simpa using _hseen) _hfound

/-! ### rendering -/

def Cx.copied (c : Cx) (noInclude noBlock : Bool) (tname : String) (k : Nat) : Cx :=
  { copyDepth := c.copyDepth + 1, scope := 4, noInclude := noInclude, noBlock := noBlock, tname := tname,
    frames := c.frames + k, path := c.path + 1, blocks := c.blocks }

/-- sequencing inside a `BlockNode`: the first non-`ok` outcome propagates -/
def seq (a : Res) (b : St → Res) : Res :=
  match a.out with
  | .ok => let r := b a.st; ⟨a.evs ++ r.evs, r.st, r.out⟩
  | _ => a

mutual
/-- `Node.render(context, buffer)` -/
def render (E : Env) (c : Cx) (s : St) : Node → Res
  | .probe id => ⟨[⟨id, c.copyDepth, c.scope, c.frames, c.path, c.blocks⟩], s, .ok⟩
  | .blk k body => renderList E { c with frames := c.frames + k.frames, blocks := c.blocks + 1 } s body
  | .forn n body =>
      if n = 0 then ⟨[], s, .ok⟩ else
      if _h : c.scope > E.depth then ⟨[], s, .err .contextDepth⟩ else
      iter E { c with scope := c.scope + 1, frames := c.frames + kBlock, blocks := c.blocks + 1 } s body n
  | .include name =>
      if c.noInclude then ⟨[], s, .err .disabledTag⟩ else
      match lookup E.templates name with
      | none => ⟨[], s, .err .notFound⟩
      | some body =>
        if _h : c.scope > E.depth then ⟨[], s, .err .contextDepth⟩ else       -- extend(namespace, template)
        if _h2 : c.scope + 1 > E.depth then ⟨[], s, .err .contextDepth⟩ else  -- render_with_context: extend
        bodyLoop E { c with scope := c.scope + 2, tname := name, frames := c.frames + kPartial, path := c.path + 1 } s body
  | .render name =>
      match lookup E.templates name with
      | none => ⟨[], s, .err .notFound⟩
      | some body =>
        if _h : c.copyDepth > E.depth then ⟨[], s, .err .contextDepth⟩ else   -- copy
        if 4 > E.depth then ⟨[], s, .err .contextDepth⟩ else                  -- render_with_context: extend
        let r := bodyLoop E { c.copied true false name kPartial with scope := 5 } ⟨[], []⟩ body
        ⟨r.evs, s, r.out⟩
  | .macro name body => ⟨[], { s with macros := (name, body) :: s.macros }, .ok⟩
  | .call name =>
      match lookup s.macros name with
      | none => ⟨[], s, .ok⟩
      | some body =>
        if _h : c.copyDepth > E.depth then ⟨[], s, .err .contextDepth⟩ else
        let r := renderList E (c.copied true true c.tname kCall) ⟨[], []⟩ body
        ⟨r.evs, s, r.out⟩
  | .extends _ =>
      match lookup E.templates c.tname with
      | none => ⟨[], s, .err .notFound⟩
      | some self =>
        match buildFrom E.templates s.stacks [] true self with
        | (st', .error e) => ⟨[], { s with stacks := st' }, .err e⟩
        | (st', .ok base) =>
          if _h : c.scope > E.depth then ⟨[], { s with stacks := st' }, .err .contextDepth⟩ else
          let r := bodyLoop E { c with scope := c.scope + 1, frames := c.frames + kPartial, path := c.path + 1 }
                     { s with stacks := st' } base
          match r.out with
          | .err e => ⟨r.evs, r.st, .err e⟩
          | _ => ⟨r.evs, { r.st with stacks := [] }, .stop⟩
  | .block name body =>
      if c.noBlock then ⟨[], s, .err .disabledTag⟩ else
      match (lookup s.stacks name).getD [] with
      | [] =>
        if _h : c.scope > E.depth then ⟨[], s, .err .contextDepth⟩ else
        renderList E { c with scope := c.scope + 1, frames := c.frames + kCall, path := c.path + 1 } s body
      | d :: _ =>
        if _h : c.copyDepth > E.depth then ⟨[], s, .err .contextDepth⟩ else
        let r := renderList E (c.copied c.noInclude c.noBlock c.tname kCall) ⟨[], s.stacks⟩ d
        ⟨r.evs, { s with stacks := r.st.stacks }, r.out⟩
termination_by n => (E.depth + 2 - c.copyDepth, E.depth + 2 - c.scope, sizeOf n, 0)
decreasing_by all_goals (simp_wf; simp only [Prod.lex_def, Cx.copied, true_and]; omega)

/-- `BlockNode.render_to_output`: the child nodes in order, nothing caught -/
def renderList (E : Env) (c : Cx) (s : St) : List Node → Res
  | [] => ⟨[], s, .ok⟩
  | n :: ns => seq (render E c s n) (fun s1 => renderList E c s1 ns)
termination_by ns => (E.depth + 2 - c.copyDepth, E.depth + 2 - c.scope, sizeOf ns, 0)
decreasing_by all_goals (simp_wf; simp only [Prod.lex_def, true_and]; omega)

/-- `k` more iterations of a loop body -/
def iter (E : Env) (c : Cx) (s : St) (body : List Node) : Nat → Res
  | 0 => ⟨[], s, .ok⟩
  | k + 1 => seq (renderList E c s body) (fun s1 => iter E c s1 body k)
termination_by k => (E.depth + 2 - c.copyDepth, E.depth + 2 - c.scope, sizeOf body, k + 1)
decreasing_by all_goals (simp_wf; simp only [Prod.lex_def, true_and]; omega)

/-- the `for node in self.nodes` loop of `render_with_context` (inside its `extend`): `StopRender` ends the
loop, a Liquid error is re-raised in STRICT mode and dropped otherwise -/
def bodyLoop (E : Env) (c : Cx) (s : St) : List Node → Res
  | [] => ⟨[], s, .ok⟩
  | n :: ns =>
    let r := render E c s n
    match r.out with
    | .ok => let r2 := bodyLoop E c r.st ns; ⟨r.evs ++ r2.evs, r2.st, r2.out⟩
    | .stop => ⟨r.evs, r.st, .ok⟩
    | .err e =>
      if e = .assertion then r                     -- not a LiquidError: never caught
      else if E.lax then let r2 := bodyLoop E c r.st ns; ⟨r.evs ++ r2.evs, r2.st, r2.out⟩
      else r
termination_by ns => (E.depth + 2 - c.copyDepth, E.depth + 2 - c.scope, sizeOf ns, 0)
decreasing_by all_goals (simp_wf; simp only [Prod.lex_def, true_and]; omega)
end

/-- the context `BoundTemplate.render` creates -/
def Cx.root (name : String) : Cx :=
  { copyDepth := 0, scope := 4, noInclude := false, noBlock := false, tname := name, frames := 0, path := 0, blocks := 0 }

/-- `env.get_template(name).render()` -/
def renderTemplate (E : Env) (name : String) : Res :=
  match lookup E.templates name with
  | none => ⟨[], ⟨[], []⟩, .err .notFound⟩
  | some body =>
    if 4 > E.depth then ⟨[], ⟨[], []⟩, .err .contextDepth⟩
    else bodyLoop E { Cx.root name with scope := 5 } ⟨[], []⟩ body

end LiquidVerif.Recur
