import LiquidVerif.Model.Inherit
/-!
Declarative reading of C18 ("flatten the chain"), independent of block stacks, `seen` sets and the order in
which templates are visited:

* the *definition* of block `name` in a template is the block node of that name in it (`defOf`);
* along a chain `leaf :: … :: root` the definitions of `name` are listed most-derived first (`defsOf`);
* the output is the root's nodes where every block tag is replaced by the first definition of its name on the
  chain, `block.super` by the next one, and block tags inside a definition are resolved in the same way
  (`flatten`).  The recursion "resolve again" need not be well-founded (a child may nest `b` in `a` while the
  parent nests `a` in `b` and calls `block.super`), so the flattening carries the same context-depth budget as
  the renderer and reports `contextDepth` when it is exhausted.
-/
namespace LiquidVerif.Inherit

def Blk.toDef (b : Blk) : Def := ⟨b.required, b.body⟩

/-- the definition of block `name` in template `t` (first block node of that name, document order) -/
def defOf (t : Template) (name : String) : Option Def :=
  (t.blocks.find? (fun b => b.name == name)).map Blk.toDef

/-- definitions of `name` along a chain (leaf first): most-derived first, each one's successor is its `super` -/
def defsOf (chain : List Template) (name : String) : List Def :=
  chain.filterMap (fun t => defOf t name)

def rootOf (chain : List Template) : List Item :=
  match chain.getLast? with
  | some r => r.nodes
  | none => []

/-- the root template with every block replaced by its most-derived definition -/
def flatten (lim : Nat) (chain : List Template) (data : Scope) : Except Err String :=
  renderItems lim (defsOf chain) 0 none [] data (rootOf chain)

/-- output of `x` followed by output of `y` (an error in `x` wins, `y` is not run) -/
def seqOut (x y : Except Err String) : Except Err String :=
  match x with
  | .error e => .error e
  | .ok a =>
    match y with
    | .error e => .error e
    | .ok b => .ok (a ++ b)

/-- the walk of `_build_block_stacks` started at `t` (with `seen`) arrives at template `u` after visiting only
well-formed templates (one `extends`, found, not yet seen, no duplicate block names). -/
inductive Reaches (ld : Loader) : List String → Template → Template → Prop where
  | here (seen : List String) (t : Template) : Reaches ld seen t t
  | step (seen : List String) (t : Template) (p : String) (t' u : Template) :
      t.exts = [p] → hasDup t.blocks = false → seen.contains p = false → lookup ld p = some t' →
      Reaches ld (p :: seen) t' u → Reaches ld seen t u

/-- `ts = t :: … :: root` is an inheritance chain in loader `ld`, walked with `seen` already visited:
every template but the last has exactly one `extends`, naming the next one, which the loader finds and which was
not named before (no cycle); the last has none; no template defines a block name twice. -/
inductive Linked (ld : Loader) : List String → Template → List Template → Prop where
  | root (seen : List String) (t : Template) :
      t.exts = [] → hasDup t.blocks = false → Linked ld seen t [t]
  | step (seen : List String) (t : Template) (p : String) (t' : Template) (rest : List Template) :
      t.exts = [p] → hasDup t.blocks = false → seen.contains p = false → lookup ld p = some t' →
      Linked ld (p :: seen) t' rest → Linked ld seen t (t :: rest)

end LiquidVerif.Inherit
