/-!
Model of argument binding for `macro` / `call` (`liquid/extra/tags/macro_tag.py`, `CallNode.macro_args`,
and `Parameter.parse` / `parse_arguments` of `liquid/builtin/expressions/arguments.py`).

Python `dict`s are association lists in insertion order with unique keys (`dictSet` = `d[k] = v`:
replace in place when the key exists, append otherwise).

    args = {name: param.value for name, param in macro.args.items()}           -- defaults (None = no default)
    for name, expr in zip_longest(macro.args, self.args, fillvalue=None):
        if name is None: excess_args.append(expr.value); continue               -- more arguments than names
        if expr is None: break                                                 -- more names than arguments
        args[name] = expr.value
    for arg in self.kwargs:
        if arg.name in macro.args: args[arg.name] = arg.value                   -- may override a positional
        else: excess_kwargs[arg.name] = arg.value
-/
namespace LiquidVerif.MacroArgs

abbrev Name := String

/-- a primitive expression (`parse_primitive`): a literal or a variable -/
inductive Expr where
  | lit (s : String)
  | var (n : Name)
  deriving Repr, DecidableEq

/-- `d[k] = v` -/
def dictSet {α} (d : List (Name × α)) (k : Name) (v : α) : List (Name × α) :=
  match d with
  | [] => [(k, v)]
  | (k', v') :: r => if k' = k then (k, v) :: r else (k', v') :: dictSet r k v

/-- `d.get(k)` -/
def dictGet {α} (d : List (Name × α)) (k : Name) : Option α :=
  match d with
  | [] => none
  | (k', v) :: r => if k' = k then some v else dictGet r k

def keys {α} (d : List (Name × α)) : List Name := d.map (·.1)

/-- `{k: v for k, v in pairs}` -/
def dictOf {α} (pairs : List (Name × α)) : List (Name × α) := pairs.foldl (fun d p => dictSet d p.1 p.2) []

/-- `Parameter.parse`: `params[token.value] = Parameter(...)` for each parameter in source order -/
def parseParams (ps : List (Name × Option Expr)) : List (Name × Option Expr) := dictOf ps

structure Bound where
  args : List (Name × Option Expr)
  excessArgs : List Expr
  excessKwargs : List (Name × Expr)
  deriving Repr, DecidableEq

/-- the `zip_longest` loop -/
def bindPositional : List Name → List Expr → List (Name × Option Expr) → List Expr →
    List (Name × Option Expr) × List Expr
  | n :: ns, e :: es, args, ex => bindPositional ns es (dictSet args n (some e)) ex   -- args[name] = expr.value
  | [], e :: es, args, ex => bindPositional [] es args (ex ++ [e])                    -- name is None
  | _ :: _, [], args, ex => (args, ex)                                                -- expr is None: break
  | [], [], args, ex => (args, ex)

/-- the keyword loop -/
def bindKeywords (paramNames : List Name) : List (Name × Expr) → List (Name × Option Expr) →
    List (Name × Expr) → List (Name × Option Expr) × List (Name × Expr)
  | [], args, ek => (args, ek)
  | (k, e) :: kws, args, ek =>
    if k ∈ paramNames then bindKeywords paramNames kws (dictSet args k (some e)) ek
    else bindKeywords paramNames kws args (dictSet ek k e)

/-- `CallNode.macro_args`; `params` is `macro.args` (a dict) -/
def macroArgs (params : List (Name × Option Expr)) (pos : List Expr) (kw : List (Name × Expr)) : Bound :=
  let p := bindPositional (keys params) pos params []
  let k := bindKeywords (keys params) kw p.1 []
  { args := k.1, excessArgs := p.2, excessKwargs := k.2 }

/-- the last binding of `n` in a list of pairs (what sequential assignment leaves behind) -/
def lastOf {α} : List (Name × α) → Name → Option α
  | [], _ => none
  | (k, v) :: r, n =>
    match lastOf r n with
    | some x => some x
    | none => if k = n then some v else none

end LiquidVerif.MacroArgs
