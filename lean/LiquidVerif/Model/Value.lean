/-!
# Model of the values a Liquid condition can see, with CPython's `==` / `<` on them

Mirrors the data model that `liquid/builtin/expressions/logical.py` (`is_truthy`, `_eq`, `_lt`,
`_contains`) and `liquid/builtin/expressions/primitive.py` (`Nil`, `Empty`, `Blank`) operate on.

* numbers are exact: `int` is an `Int`; a `float` is an exact rational `num / (dm1+1)` (what
  `float.as_integer_ratio()` returns) or one of `inf`, `-inf`, `nan`; a `Decimal` is a finite exact
  rational.  CPython compares `int` / `float` / `Decimal` exactly, so cross-multiplication is its order.
* `markup` is `markupsafe.Markup` (a `str` subclass: equal to, ordered with and searched like a `str`).
* `dict` is a key-sorted association list with `str` keys (Python dict equality ignores insertion order;
  the harness canonicalises by sorting).
* `range start stop` is Python `range(start, stop)` (step 1), what `RangeLiteral.evaluate` returns.
* `undef` is `liquid.Undefined` (`__liquid__()` returns `None`), `empty` / `blank` are the `Empty` / `Blank`
  expression objects that the literals `empty` / `blank` evaluate to.

`pyEq` is CPython's `left == right` for these classes **including `True == 1`** — the code relies on it and
guards against it only at the top level (`_eq`).
Core Lean only (the driver links this file).
-/
namespace LiquidVerif.Value

/-- exact rational `num / (dm1 + 1)` -/
structure Q where
  num : Int
  dm1 : Nat
  deriving DecidableEq, Repr

def Q.den (q : Q) : Int := (q.dm1 : Int) + 1
def Q.lt (a b : Q) : Bool := decide (a.num * b.den < b.num * a.den)
def Q.eq (a b : Q) : Bool := decide (a.num * b.den = b.num * a.den)
def Q.ofInt (i : Int) : Q := ⟨i, 0⟩

/-- a Python `float`: finite (exact ratio) or special -/
inductive Flt
  | fin (q : Q) | inf | ninf | nan
  deriving DecidableEq, Repr

inductive Val
  | nil
  | bool (b : Bool)
  | int (i : Int)
  | float (f : Flt)
  | dec (q : Q)
  | str (s : String)
  | markup (s : String)
  | list (xs : List Val)
  | dict (kvs : List (String × Val))
  | range (start stop : Int)
  | undef
  | empty
  | blank
  deriving Repr

/-- extended rationals: the numeric reading of `int`, `float`, `Decimal` (and, for Python's `==`, of `bool`) -/
inductive Ext
  | fin (q : Q) | inf | ninf | nan
  deriving DecidableEq, Repr

def Ext.ofFlt : Flt → Ext
  | .fin q => .fin q | .inf => .inf | .ninf => .ninf | .nan => .nan

/-- numeric `==` (IEEE: nan equals nothing) -/
def Ext.eq : Ext → Ext → Bool
  | .fin a, .fin b => a.eq b
  | .inf, .inf => true
  | .ninf, .ninf => true
  | _, _ => false

/-- numeric `<` (IEEE: nan is below/above nothing) -/
def Ext.lt : Ext → Ext → Bool
  | .fin a, .fin b => a.lt b
  | .fin _, .inf => true
  | .ninf, .fin _ => true
  | .ninf, .inf => true
  | _, _ => false

/-- `isinstance(v, (int, float, Decimal))` **and not bool** read as a number -/
def Val.num? : Val → Option Ext
  | .int i => some (.fin (Q.ofInt i))
  | .float f => some (Ext.ofFlt f)
  | .dec q => some (.fin q)
  | _ => none

/-- Python's numeric tower for `==`: `bool` is an `int` (`True == 1`, `False == 0`) -/
def Val.pyNum? : Val → Option Ext
  | .bool b => some (.fin (Q.ofInt (if b then 1 else 0)))
  | v => v.num?

/-- `isinstance(v, str)` (Markup is a `str`) -/
def Val.text? : Val → Option String
  | .str s => some s
  | .markup s => some s
  | _ => none

def Val.isBool : Val → Bool | .bool _ => true | _ => false
def Val.isSentinel : Val → Bool | .empty => true | .blank => true | _ => false

/-- `str.isspace()` for one character: CPython's `_PyUnicode_IsWhitespace` table (checked exhaustively over
    every code point by the `prim` correspondence stream) -/
def isSpaceChar (c : Char) : Bool :=
  let n := c.toNat
  (9 ≤ n && n ≤ 13) || (28 ≤ n && n ≤ 32) || n == 0x85 || n == 0xa0 || n == 0x1680 ||
  (0x2000 ≤ n && n ≤ 0x200a) || n == 0x2028 || n == 0x2029 || n == 0x202f || n == 0x205f || n == 0x3000

/-- `not other or other.isspace()` -/
def blankText (s : String) : Bool := s.toList.all isSpaceChar

/-- `Empty.__eq__(other)` -/
def emptyEq : Val → Bool
  | .empty => true
  | .list xs => xs.isEmpty
  | .dict kvs => kvs.isEmpty
  | .str s => s.toList.isEmpty
  | .markup s => s.toList.isEmpty
  | _ => false

/-- `Blank.__eq__(other)` -/
def blankEq : Val → Bool
  | .str s => blankText s
  | .markup s => blankText s
  | .list xs => xs.isEmpty
  | .dict kvs => kvs.isEmpty
  | .blank => true
  | _ => false

/-- Python `range.__eq__` for step-1 ranges: equal as sequences -/
def rangeEq (a b c d : Int) : Bool :=
  (decide (b ≤ a) && decide (d ≤ c)) || (decide (a < b) && a == c && b == d)

mutual
/-- CPython `left == right` on the modelled classes, dispatched on the left operand's class first (as
    `type(left).__eq__` is); where that returns `NotImplemented` the reflected `type(right).__eq__` is what the
    line says (`'' == Empty` ends in `Empty.__eq__('')`). -/
def pyEq : Val → Val → Bool
  | .empty, v => emptyEq v
  | .blank, v => blankEq v
  | .nil, v => (match v with | .nil => true | .undef => true | _ => false)
  | .undef, v => (match v with | .nil => true | .undef => true | _ => false)   -- Undefined.__eq__
  | .str a, v => (match v with
      | .str b => a == b | .markup b => a == b | .empty => a.toList.isEmpty | .blank => blankText a | _ => false)
  | .markup a, v => (match v with
      | .str b => a == b | .markup b => a == b | .empty => a.toList.isEmpty | .blank => blankText a | _ => false)
  | .list xs, v => (match v with
      | .list ys => pyEqL xs ys | .empty => xs.isEmpty | .blank => xs.isEmpty | _ => false)
  | .dict xs, v => (match v with
      | .dict ys => pyEqD xs ys | .empty => xs.isEmpty | .blank => xs.isEmpty | _ => false)
  | .range a b, v => (match v with | .range c d => rangeEq a b c d | _ => false)
  | .bool a, v => (match v.pyNum? with | some y => (Ext.fin (Q.ofInt (if a then 1 else 0))).eq y | none => false)
  | .int a, v => (match v.pyNum? with | some y => (Ext.fin (Q.ofInt a)).eq y | none => false)
  | .float a, v => (match v.pyNum? with | some y => (Ext.ofFlt a).eq y | none => false)
  | .dec a, v => (match v.pyNum? with | some y => (Ext.fin a).eq y | none => false)
/-- `list.__eq__` (identity shortcut not modelled: the harness never shares objects) -/
def pyEqL : List Val → List Val → Bool
  | [], [] => true
  | x :: xs, y :: ys => pyEq x y && pyEqL xs ys
  | _, _ => false
/-- `dict.__eq__` on key-sorted association lists -/
def pyEqD : List (String × Val) → List (String × Val) → Bool
  | [], [] => true
  | (k, x) :: xs, (k', y) :: ys => k == k' && pyEq x y && pyEqD xs ys
  | _, _ => false
end

/-- `obj.__liquid__()` when the object has one: only `Undefined` does among the modelled classes -/
def toLiquid : Val → Val
  | .undef => .nil
  | v => v

/-- `is_truthy` (logical.py): `__liquid__`, `is_undefined`, then `not (obj is False or obj is None)` -/
def isTruthy (v : Val) : Bool :=
  match toLiquid v with
  | .undef => false
  | .bool false => false
  | .nil => false
  | _ => true

end LiquidVerif.Value
