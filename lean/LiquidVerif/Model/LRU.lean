/-!
Model of `liquid/utils/lru_cache.py`.

`LRUCache._cache` is an `OrderedDict`; we model it as an association list ordered from least
recently used (head) to most recently used (last), exactly the iteration order of the
`OrderedDict`.  Every method is modelled as written:

* `__getitem__`  : `value = self._cache[key]` (KeyError) ; `move_to_end(key)`
* `__setitem__`  : `try: move_to_end(key) except KeyError: if len >= capacity: popitem(last=False)` ; `self._cache[key] = value`
* `__delitem__`  : `del self._cache[key]` (KeyError)
* `__contains__`, `__len__`, `get`
* `keys/values/items/__iter__` : `reversed(...)` — most recently used first.
-/
namespace LiquidVerif.LRU

structure Cache where
  cap   : Nat
  items : List (Nat × Nat)      -- least recently used first
  deriving Repr, DecidableEq

def keysOf (l : List (Nat × Nat)) : List Nat := l.map (·.1)

def eraseKey (l : List (Nat × Nat)) (k : Nat) : List (Nat × Nat) := l.filter (fun p => p.1 != k)

def find (l : List (Nat × Nat)) (k : Nat) : Option Nat :=
  match l with
  | [] => none
  | (k', v) :: r => if k' == k then some v else find r k

/-- result of one operation as the caller sees it -/
inductive Out where
  | none_                          -- returns None (set / del)
  | val (v : Nat)                  -- a value
  | keyError
  | bool (b : Bool)
  | len (n : Nat)
  | keys (ks : List Nat)
  | vals (vs : List Nat)
  | pairs (ps : List (Nat × Nat))
  | dflt                           -- `get` returned its default
  deriving Repr, DecidableEq

inductive Op where
  | get (k : Nat) | set (k v : Nat) | del (k : Nat) | contains (k : Nat) | len
  | getd (k : Nat) | keys | values | items | iter
  deriving Repr, DecidableEq

def Cache.getitem (c : Cache) (k : Nat) : Cache × Out :=
  match find c.items k with
  | none => (c, .keyError)
  | some v => ({ c with items := eraseKey c.items k ++ [(k, v)] }, .val v)

def Cache.setitem (c : Cache) (k v : Nat) : Cache :=
  match find c.items k with
  | some _ => { c with items := eraseKey c.items k ++ [(k, v)] }
  | none =>
    let its := if c.items.length ≥ c.cap then c.items.tail else c.items
    { c with items := its ++ [(k, v)] }

def Cache.delitem (c : Cache) (k : Nat) : Cache × Out :=
  match find c.items k with
  | none => (c, .keyError)
  | some _ => ({ c with items := eraseKey c.items k }, .none_)

def step (c : Cache) : Op → Cache × Out
  | .get k => c.getitem k
  | .set k v => (c.setitem k v, .none_)
  | .del k => c.delitem k
  | .contains k => (c, .bool (find c.items k).isSome)
  | .len => (c, .len c.items.length)
  | .getd k => match c.getitem k with
      | (c', .val v) => (c', .val v)
      | (c', _) => (c', .dflt)
  | .keys => (c, .keys (keysOf c.items).reverse)
  | .values => (c, .vals (c.items.map (·.2)).reverse)
  | .items => (c, .pairs c.items.reverse)
  | .iter => (c, .keys (keysOf c.items).reverse)

def run (c : Cache) : List Op → Cache × List Out
  | [] => (c, [])
  | op :: ops =>
    let (c', o) := step c op
    let (c'', os) := run c' ops
    (c'', o :: os)

def final (c : Cache) (ops : List Op) : Cache := (run c ops).1

def empty (cap : Nat) : Cache := { cap := cap, items := [] }

end LiquidVerif.LRU
