import LiquidVerif.Model.Inherit
/-!
Model of `BlockTag.parse` (liquid/extra/tags/extends_tag.py) over a token stream that contains only text,
`{% block name [required] %}` and `{% endblock [name] %}` tags.

`BlockTag.parse` is recursive descent: read the name and the `required` flag, `parse_block(stream, end_block)`
up to the next unconsumed `endblock`, `stream.expect(TOKEN_TAG, "endblock")`, then — when the end tag carries an
expression — `if end_block_name != block_name: raise TemplateInheritanceError`.  The parser's own errors
(`unexpected tag 'endblock'` at top level, `expected tag endblock` at end of input) are LiquidSyntaxError.
The recursion is modelled by its call stack: one `Frame` per `BlockTag.parse` activation, tokens consumed left
to right, so errors come out in the same order.
-/
namespace LiquidVerif.Inherit

inductive Tok where
  | text (s : String)
  | opn (name : String) (required : Bool)       -- `{% block name [required] %}`
  | cls (name : Option String)                   -- `{% endblock [name] %}`
  deriving Repr

inductive PErr where
  | syntax            -- LiquidSyntaxError
  | inheritance       -- TemplateInheritanceError
  deriving DecidableEq, Repr

/-- an activation of `BlockTag.parse` waiting for its `endblock`; `acc` = nodes parsed so far, last first -/
structure Frame where
  name : String
  required : Bool
  acc : List Item

structure PState where
  frames : List Frame        -- innermost first
  top : List Item            -- top-level nodes parsed so far, last first

def PState.push (s : PState) (i : Item) : PState :=
  match s.frames with
  | [] => { s with top := i :: s.top }
  | f :: fs => { s with frames := { f with acc := i :: f.acc } :: fs }

def pstep (s : PState) : Tok → Except PErr PState
  | .text t => .ok (s.push (.text t))
  | .opn n r => .ok { s with frames := ⟨n, r, []⟩ :: s.frames }
  | .cls on =>
    match s.frames with
    | [] => .error .syntax                                   -- unexpected tag 'endblock'
    | f :: fs =>
      let done : PState := ({ s with frames := fs }).push (.block f.name f.required f.acc.reverse)
      match on with
      | none => .ok done
      | some m => if m != f.name then .error .inheritance else .ok done

def prun (s : PState) : List Tok → Except PErr PState
  | [] => .ok s
  | t :: r =>
    match pstep s t with
    | .error e => .error e
    | .ok s' => prun s' r

def pinit : PState := ⟨[], []⟩

/-- `Environment.from_string` restricted to these tokens -/
def parseToks (toks : List Tok) : Except PErr (List Item) :=
  match prun pinit toks with
  | .error e => .error e
  | .ok s =>
    match s.frames with
    | [] => .ok s.top.reverse
    | _ :: _ => .error .syntax                               -- expected tag endblock, found end of input

end LiquidVerif.Inherit
