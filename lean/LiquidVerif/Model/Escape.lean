/-!
`markupsafe.escape` (markupsafe 3.0, both `_native.py` and `_speedups.c`) on code-point lists, and the two
predicates the autoescape property (C05) is stated with.

```
def _escape_inner(s: str, /) -> str:
    return (
        s.replace("&", "&amp;").replace(">", "&gt;").replace("<", "&lt;")
        .replace("'", "&#39;").replace('"', "&#34;")
    )
```
The five replacements are independent per character because `&` is replaced first, hence the per-character table.

* `special c`  — `c` is one of `< > ' "`
* `Clean s`    — no character of `s` is special (the output "contains no raw `<`, `>`, double or single quote")
* `Ent s`      — every `&` of `s` begins one of the five entities that `escape` emits
-/
namespace LiquidVerif.Escape

abbrev Str := List Char

/-- the per-character table of `markupsafe.escape` -/
def escChar (c : Char) : Str :=
  if c == '&' then ['&', 'a', 'm', 'p', ';']
  else if c == '<' then ['&', 'l', 't', ';']
  else if c == '>' then ['&', 'g', 't', ';']
  else if c == '\'' then ['&', '#', '3', '9', ';']
  else if c == '"' then ['&', '#', '3', '4', ';']
  else [c]

/-- `markupsafe.escape(s)` for a plain `str` -/
def escape : Str → Str
  | [] => []
  | c :: cs => escChar c ++ escape cs

/-- `<`, `>`, `'`, `"` -/
def special (c : Char) : Bool := c == '<' || c == '>' || c == '\'' || c == '"'

/-- executable form of `Clean` -/
def isClean (s : Str) : Bool := s.all fun c => !special c

/-- no raw `<`, `>`, `'`, `"` -/
def Clean (s : Str) : Prop := ∀ c ∈ s, special c = false

/-- `p` is a prefix of `s` (boolean, structural) -/
def startsWith : Str → Str → Bool
  | [], _ => true
  | _ :: _, [] => false
  | p :: ps, c :: cs => p == c && startsWith ps cs

/-- the entities `escape` emits -/
def entities : List Str :=
  [['&', 'a', 'm', 'p', ';'], ['&', 'l', 't', ';'], ['&', 'g', 't', ';'], ['&', '#', '3', '9', ';'], ['&', '#', '3', '4', ';']]

/-- `s` begins with one of the five entities -/
def entityAt (s : Str) : Bool := entities.any fun e => startsWith e s

/-- executable form of `Ent`: every `&` begins an entity -/
def isEnt : Str → Bool
  | [] => true
  | c :: cs => (c != '&' || entityAt (c :: cs)) && isEnt cs

def Ent (s : Str) : Prop := isEnt s = true

/-- the "special skeleton" of an output: the sub-sequence of `< > ' "`, with `E` for an `&` that begins an entity and
`&` for one that does not. This is the abstraction at which implementation and model outputs are compared. -/
def skeleton : Str → Str
  | [] => []
  | c :: cs =>
    if special c then c :: skeleton cs
    else if c == '&' then (if entityAt (c :: cs) then 'E' else '&') :: skeleton cs
    else skeleton cs

end LiquidVerif.Escape
