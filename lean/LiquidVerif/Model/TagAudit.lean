/-!
Model of `liquid/analyze_tags.py` (`TagAnalysis._audit_tags`), of the tag-level behaviour of the
lexer (`liquid/lex.py::_tokenize_template`: `raw`, `doc` and `comment` swallowing) and of the block
grammar the real parser accepts in strict mode (`Parser.parse_block` + every registered `Tag.parse`).

Tag names.  `_audit_tags` only ever asks two string questions of a tag name: `startswith("end")` and
`[3:]`.  A name is therefore kept as *(number of leading "end" prefixes, remaining stem)*:
`"endif"` is `⟨1, "if"⟩`, `"endendx"` is `⟨2, "x"⟩`, `"end"` is `⟨1, ""⟩`, `""` is `⟨0, ""⟩`.
The driver and the table emitter convert (a bijection between strings and names whose stem does not
itself start with "end"); `startswith("end")` is `isEnd`, `[3:]` of an end name is `unEnd`.

Everything is modelled **as written** (after the `fix:` commits of branch fix-C21):
the block stack, the inferred block tags (`{tag[3:] for tag in end_tags} | registered blocks`), the
`break`/`continue` special case, the stray-end-tag guard in front of `block_stack.pop()`, the
order-dependent "bad end tag" pass over `all_tags`, and `list.pop` itself as a partial operation
(`pyPop`, `IndexError` on the empty list) so that totality is a theorem and not a definition.
-/
namespace LiquidVerif.TagAudit

/-- a tag name: `ends` leading `"end"` prefixes followed by `stem` -/
structure TagName where
  ends : Nat
  stem : String
  deriving DecidableEq, Repr

/-- `name.startswith("end")` -/
def TagName.isEnd (n : TagName) : Bool := n.ends != 0
/-- `name[3:]` (used by the code only on names that start with "end") -/
def TagName.unEnd (n : TagName) : TagName := { n with ends := n.ends - 1 }
/-- `"end" + name` -/
def TagName.endOf (n : TagName) : TagName := { n with ends := n.ends + 1 }
/-- a plain name (no "end" prefix) -/
def nm (s : String) : TagName := ⟨0, s⟩
/-- `"end" ++ s` -/
def endNm (s : String) : TagName := ⟨1, s⟩
/-- the empty string, `Tag.end`'s default -/
def TagName.empty : TagName := ⟨0, ""⟩

/-- one entry of `env.tags` -/
structure TagInfo where
  key    : TagName     -- the registry key (`env.tags[key]`)
  name   : TagName     -- `tag.name`
  block  : Bool     -- `tag.block`
  endTag : TagName     -- `tag.end` (`""` when not declared)
  lax    : Bool     -- `tag.mode == Mode.LAX` (only `if`/`unless` have the attribute)
  deriving DecidableEq, Repr

/-- what `_audit_tags` and the parser read from the environment -/
structure EnvTable where
  tags         : List TagInfo                 -- `env.tags`, registration order
  inner        : List (TagName × List TagName)      -- `DEFAULT_INNER_TAG_MAP`
  nestingLimit : Nat                          -- `Environment.block_nesting_limit`
  deriving Repr

/-! ## `_audit_tags` -/

structure Report where
  unclosed   : List TagName := []
  unexpected : List TagName := []
  unknown    : List TagName := []
  deriving DecidableEq, Repr

inductive PyErr where
  | indexError
  deriving DecidableEq, Repr

/-- `list.pop()` on the block stack (top of the stack = head of the list) -/
def pyPop : List TagName → Except PyErr (TagName × List TagName)
  | [] => .error .indexError
  | s :: st => .ok (s, st)

/-- `registered_tags = {name for name in env.tags if name not in ("break", "continue")}` -/
def registered (tbl : EnvTable) : List TagName :=
  (tbl.tags.map (·.key)).filter (fun k => k != nm "break" && k != nm "continue")

/-- `inline_tags = {tag.name for tag in env.tags.values() if not tag.block}` -/
def inlineTags (tbl : EnvTable) : List TagName := (tbl.tags.filter (fun t => !t.block)).map (·.name)

/-- `{tag.name for tag in env.tags.values() if tag.block}` -/
def registeredBlocks (tbl : EnvTable) : List TagName := (tbl.tags.filter (·.block)).map (·.name)

/-- `registered_end_blocks = {tag.end for tag in env.tags.values() if tag.block and tag.end}` -/
def registeredEnds (tbl : EnvTable) : List TagName :=
  (tbl.tags.filter (fun t => t.block && t.endTag != TagName.empty)).map (·.endTag)

/-- `self._inner_tags.get(tag_name, [])`: the blocks that may enclose inner tag `t` -/
def enclosing (tbl : EnvTable) (t : TagName) : List TagName :=
  (tbl.inner.filter (fun p => p.2.contains t)).map (·.1)

/-- the `if tag_name not in registered_tags:` paragraph -/
def check (tbl : EnvTable) (t : TagName) (st : List TagName) (r : Report) : Report :=
  if (registered tbl).contains t then r
  else
    let enc := enclosing tbl t
    if enc.isEmpty then { r with unknown := r.unknown ++ [t] }
    else if !(enc.any (fun b => st.contains b)) then { r with unexpected := r.unexpected ++ [t] }
    else r

/-- the main `for token in tokens` loop; `isB`/`isE` are `in block_tags` / `in end_tags` -/
def loop (tbl : EnvTable) (isB isE : TagName → Bool) :
    List TagName → List TagName → Report → Except PyErr (List TagName × Report)
  | [], st, r => .ok (st, r)
  | t :: ts, st, r =>
    if isB t then
      loop tbl isB isE ts (t :: st) (check tbl t (t :: st) r)
    else if isE t then
      if st.isEmpty then
        loop tbl isB isE ts st { r with unexpected := r.unexpected ++ [t] }
      else
        match pyPop st with
        | .error e => .error e
        | .ok (s, st') =>
          loop tbl isB isE ts st' (if s != t.unEnd then { r with unclosed := r.unclosed ++ [s] } else r)
    else
      loop tbl isB isE ts st (check tbl t st r)

/-- keys of `all_tags` in insertion (first appearance) order -/
def dedup : List TagName → List TagName
  | [] => []
  | t :: ts => t :: (dedup ts).filter (· != t)

/-- one step of the "Catch bad end tags" pass; `unk` is `unknown_tags` so far -/
def finalStep (tbl : EnvTable) (unk : List TagName) (t : TagName) : List TagName :=
  if t.isEnd then
    let s := t.unEnd
    if ((inlineTags tbl).contains s && !unk.contains s)
        || (!(registeredEnds tbl).contains t && !unk.contains s) then unk ++ [t] else unk
  else unk

def finalPass (tbl : EnvTable) (names : List TagName) (unk : List TagName) : List TagName :=
  names.foldl (finalStep tbl) unk

def endTagsOf (toks : List TagName) : List TagName := toks.filter (·.isEnd)
def blockTagsOf (tbl : EnvTable) (toks : List TagName) : List TagName :=
  (endTagsOf toks).map (·.unEnd) ++ registeredBlocks tbl

/-- `_audit_tags(env, tokens)` restricted to the tag tokens: the three report maps' keys (with
repetitions, in report order) or the exception that escapes -/
def audit (tbl : EnvTable) (toks : List TagName) : Except PyErr Report :=
  let et := endTagsOf toks
  let bt := blockTagsOf tbl toks
  match loop tbl (fun t => bt.contains t) (fun t => et.contains t) toks [] {} with
  | .error e => .error e
  | .ok (st, r) =>
    let uncl := r.unclosed ++ st.reverse
    .ok { unclosed := uncl, unexpected := r.unexpected, unknown := finalPass tbl (dedup toks) r.unknown }

def Report.clean : Report := {}

/-- `inner_tags = inner_tags or DEFAULT_INNER_TAG_MAP` (the `inner_tags=` argument of
`analyze_tags_from_string`; an empty mapping is falsy and falls back to the default) -/
def withInner (tbl : EnvTable) (m : List (TagName × List TagName)) : EnvTable :=
  if m.isEmpty then tbl else { tbl with inner := m }

/-! ## The lexer, at the level of tag names

Source = one `{% name args %}` per element, with literal text in between.  `raw … endraw` and
`doc … enddoc` are matched by the regular expression as one token when a closer follows (first
closer, non-greedy), otherwise the opener is an ordinary tag token.  After a `comment` tag token the
lexer swallows everything up to the matching (depth-counted) `endcomment`, which it emits. -/

inductive LexMode where
  | normal
  | until (closer : TagName)       -- inside a RAW / DOC match
  deriving DecidableEq, Repr

def lexTagsAux : Nat → LexMode → List TagName → List TagName
  | _, _, [] => []
  | d, .until e, t :: ts => if t == e then lexTagsAux d .normal ts else lexTagsAux d (.until e) ts
  | d, .normal, t :: ts =>
    if t == nm "raw" && ts.contains (endNm "raw") then lexTagsAux d (.until (endNm "raw")) ts
    else if t == nm "doc" && ts.contains (endNm "doc") then lexTagsAux d (.until (endNm "doc")) ts
    else if d != 0 then
      if t == endNm "comment" then
        (if d == 1 then endNm "comment" :: lexTagsAux 0 .normal ts else lexTagsAux (d - 1) .normal ts)
      else if t == nm "comment" then lexTagsAux (d + 1) .normal ts
      else lexTagsAux d .normal ts
    else
      t :: (if t == nm "comment" then lexTagsAux 1 .normal ts else lexTagsAux 0 .normal ts)

/-- the TAG tokens `env.tokenizer()(source)` yields for a source with these tags -/
def lexTags (src : List TagName) : List TagName := lexTagsAux 0 .normal src

/-! ## The block grammar of the strict parser, as a push-down automaton

One frame per open `Tag.parse` activation; each token is one step.  End names are the constants
hard-coded in the tag modules (`TAG_ENDIF`, `ENDFORBLOCK`, `"endblock"` …) — *not* `Tag.end`. -/

inductive Frame where
  | condThen (name endT : TagName) (lax : Bool)   -- if/unless: consequence or an elsif block
  | condElse (name endT : TagName) (lax : Bool)   -- if/unless: the else block
  | condJunk (name endT : TagName)                -- if/unless (tag mode LAX): skipping "extraneous" blocks up to the end tag
  | caseStart                                  -- case: before the first when/else
  | caseBranch                                 -- case: inside a when/else block
  | forBody
  | forElse
  | simple (name endT : TagName)                  -- tablerow, capture, ifchanged, with, block, macro
  | transMsg                                   -- translate: singular message
  | transPlural                                -- translate: plural message
  | skip (name endT : TagName) (noNest : Bool)    -- comment / malformed doc: raw skip up to the end tag
  deriving DecidableEq, Repr

/-- the block tag that opened the frame -/
def Frame.name : Frame → TagName
  | .condThen n _ _ | .condElse n _ _ | .condJunk n _ | .simple n _ | .skip n _ _ => n
  | .caseStart | .caseBranch => nm "case"
  | .forBody | .forElse => nm "for"
  | .transMsg | .transPlural => nm "translate"

/-- the tag that closes the frame -/
def Frame.endT : Frame → TagName
  | .condThen _ e _ | .condElse _ e _ | .condJunk _ e | .simple _ e | .skip _ e _ => e
  | .caseStart | .caseBranch => endNm "case"
  | .forBody | .forElse => endNm "for"
  | .transMsg | .transPlural => endNm "translate"

/-- frames that sit inside a `parse_block` call (`stream.block_depth`) -/
def Frame.counted : Frame → Bool
  | .condJunk _ _ | .caseStart | .skip _ _ _ => false
  | _ => true

def depth (st : List Frame) : Nat := (st.filter (·.counted)).length

def Frame.isFor : Frame → Bool
  | .forBody | .forElse => true
  | _ => false

inductive Dispatch where
  | bad                  -- `Tag.parse` raises for a TAG token with this key (or the tag is not modelled)
  | inline               -- consumes just its own tag
  | openF (f : Frame)
  deriving DecidableEq, Repr

/-- what `env.tags[key].parse` does with the block structure; hand-written from each tag module -/
def dispatch (info : TagInfo) : Dispatch :=
  if info.key.ends != 0 then .bad else
  match info.key.stem with
  | "if" => .openF (.condThen (nm "if") (endNm "if") info.lax)
  | "unless" => .openF (.condThen (nm "unless") (endNm "unless") info.lax)
  | "case" => .openF .caseStart
  | "for" => .openF .forBody
  | "tablerow" => .openF (.simple (nm "tablerow") (endNm "tablerow"))
  | "capture" => .openF (.simple (nm "capture") (endNm "capture"))
  | "ifchanged" => .openF (.simple (nm "ifchanged") (endNm "ifchanged"))
  | "with" => .openF (.simple (nm "with") (endNm "with"))
  | "block" => .openF (.simple (nm "block") (endNm "block"))
  | "macro" => .openF (.simple (nm "macro") (endNm "macro"))
  | "translate" => .openF .transMsg
  | "comment" => .openF (.skip (nm "comment") (endNm "comment") false)
  | "doc" => .openF (.skip (nm "doc") (endNm "doc") true)
  | "break" | "continue" | "cycle" | "assign" | "increment" | "decrement" | "echo" | "liquid"
  | "include" | "render" | "#" | "extends" | "call" => .inline
  | _ => .bad     -- "content", "output", "illegal" and anything not modelled

/-- switches that carve the *restricted* grammar out of the real one -/
structure Opts where
  junk        : Bool   -- tag-mode-LAX if/unless skip "extraneous" else/elsif blocks
  bareBreak   : Bool   -- break/continue accepted outside any for block
  skipContent : Bool   -- tag tokens may occur between a comment/doc TAG token and its end tag
  deriving DecidableEq, Repr

def Opts.real : Opts := ⟨true, true, true⟩
def Opts.restricted : Opts := ⟨false, false, false⟩

def findTag (tbl : EnvTable) (t : TagName) : Option TagInfo := tbl.tags.find? (fun i => i.key == t)

/-- `tags.get(token.value, illegal).get_node(stream)` for a token that does not end the current block -/
def dispatchTok (tbl : EnvTable) (o : Opts) (st : List Frame) (t : TagName) : Option (List Frame) :=
  match findTag tbl t with
  | none => none
  | some info =>
    match dispatch info with
    | .bad => none
    | .inline =>
      if (t == nm "break" || t == nm "continue") && !o.bareBreak && !(st.any (·.isFor)) then none
      else some st
    | .openF f =>
      if f.counted && depth (f :: st) > tbl.nestingLimit then none else some (f :: st)

def pstep (tbl : EnvTable) (o : Opts) (st : List Frame) (t : TagName) : Option (List Frame) :=
  match st with
  | [] => dispatchTok tbl o [] t
  | f :: rest =>
    match f with
    | .condThen n e lax =>
      if t == e then some rest
      else if t == nm "elsif" then some st
      else if t == nm "else" then some (.condElse n e lax :: rest)
      else dispatchTok tbl o st t
    | .condElse n e lax =>
      if t == e then some rest
      else if t == nm "else" || t == nm "elsif" then
        (if lax && o.junk then some (.condJunk n e :: rest) else none)
      else dispatchTok tbl o st t
    | .condJunk _ e => if t == e then some rest else some st
    | .caseStart =>
      if t == endNm "case" then some rest
      else if t == nm "when" || t == nm "else" then
        (if depth (.caseBranch :: rest) > tbl.nestingLimit then none else some (.caseBranch :: rest))
      else none
    | .caseBranch =>
      if t == endNm "case" then some rest
      else if t == nm "when" || t == nm "else" then some st
      else dispatchTok tbl o st t
    | .forBody =>
      if t == endNm "for" then some rest
      else if t == nm "else" then some (.forElse :: rest)
      else dispatchTok tbl o st t
    | .forElse =>
      if t == endNm "for" then some rest
      else dispatchTok tbl o st t
    | .simple _ e =>
      if t == e then some rest
      else dispatchTok tbl o st t
    | .transMsg =>
      if t == endNm "translate" then some rest
      else if t == nm "plural" then some (.transPlural :: rest)
      else none
    | .transPlural =>
      if t == endNm "translate" then some rest
      else none
    | .skip n e noNest =>
      if noNest && t == n then none
      else if t == e then some rest
      else if o.skipContent then some st else none

def prun (tbl : EnvTable) (o : Opts) : List Frame → List TagName → Option (List Frame)
  | st, [] => some st
  | st, t :: ts =>
    match pstep tbl o st t with
    | none => none
    | some st' => prun tbl o st' ts

/-- the template parses without error: every token accepted and every block closed at EOF -/
def parses (tbl : EnvTable) (o : Opts) (toks : List TagName) : Bool := prun tbl o [] toks == some []

/-- the block grammar `Environment.from_string` accepts in strict mode (given well-formed tag expressions) -/
def strictParses (tbl : EnvTable) (toks : List TagName) : Bool := parses tbl Opts.real toks

end LiquidVerif.TagAudit
