import LiquidVerif.Model.PyFormat
/-!
Model of the message handling in `liquid/extra/filters/translate.py` and
`liquid/extra/tags/translate_tag.py` with `gettext.NullTranslations` (no catalogue configured).

Filters (`BaseTranslateFilter.format_message`, after `fix: translation filters output stray percent signs
as literal text`):

    _vars   = {k: str(resolve(k)) for k in re_vars.findall(text)}          re_vars = %\((\w+)\)s
    escaped = re_literal_percent.sub("%%", text)                          re_literal_percent = %(?!\(\w+\)s)
    return escaped % _vars

Tag (`TranslateTag.validate_message_block`, `TranslateNode._format_message`):

    text  = "".join(content.replace("%", "%%") | "%(" + var + ")s")       per node of the block
    text  = re_whitespace.sub(" ", text.strip())   if trim_messages        re_whitespace = \s*\n\s*
    _vars = {k: str(resolve(k)) for k in re_vars.findall(text)}            re_vars = (?<!%)(?:%%)*%\((NAME+)\)s
    return text % _vars

where NAME is `\w` before and `[^()%]` after `fix: translate tag resolves variables whose name is not a \w+
word`; the harness reads the pattern from the code under test and tells the driver which class to use
(`asciiWord` or `tagNameChar`).

`w` is the `\w` character class and `ws` the `\s` class; the theorems hold for every choice of them that
keeps `%`, `(`, `)` out of `\w` (and, for trimming, keeps `%`, `(`, `)`, `s`, `\w` out of `\s`).

Plural choice: `NullTranslations.ngettext/npgettext` return `msgid1 if n == 1 else msgid2`; `gettext` /
`pgettext` return the message.  The count reaches them through `_count` (filter `t`), `int_arg(_, default=1)`
(filters `ngettext`, `npgettext`) or `resolve_count` (tag), all of which end in Python's `int()`.
-/
namespace LiquidVerif.Translate
open LiquidVerif.PyFormat

/-! ## the two regular expressions of the filters -/

/-- `\((\w+)\)s` anchored at the head of `rest` (the text after a `%`): the name and what follows it.
`\w+` is greedy but `)` is not a word character, so the only possible match takes the longest word prefix. -/
def placeholder? (w : Char → Bool) (rest : Str) : Option (Str × Str) :=
  match rest with
  | [] => none
  | c :: t =>
    if c = '(' then
      match t.dropWhile w with
      | c1 :: c2 :: u =>
        if c1 = ')' ∧ c2 = 's' ∧ t.takeWhile w ≠ [] then some (t.takeWhile w, u) else none
      | _ => none
    else none

/-- `re_literal_percent.sub("%%", text)`: every `%` that does not start a `%(name)s` is doubled. -/
def escapePercent (w : Char → Bool) : Str → Str
  | [] => []
  | c :: rest =>
    if c = '%' ∧ (placeholder? w rest).isNone then '%' :: '%' :: escapePercent w rest
    else c :: escapePercent w rest

/-- `re_vars.findall(text)` of the filters: the names of all `%(name)s`, left to right. -/
def findVars (w : Char → Bool) : Str → List Str
  | [] => []
  | c :: rest =>
    if c = '%' then
      match placeholder? w rest with
      | some (n, _) => n :: findVars w rest
      | none => findVars w rest
    else findVars w rest

/-- the `_vars` dict: exactly the names found, each mapped to its (stringified) value -/
def varsEnv (names : List Str) (val : Str → Str) (selfStr : Str) : Env :=
  { lookup := fun k => if k ∈ names then some (val k) else none, selfStr := selfStr }

/-- `BaseTranslateFilter.format_message` (`val k` = `to_liquid_string(context.resolve(k))`, which is total:
a missing variable is the empty string of `Undefined`). -/
def formatMessage (w : Char → Bool) (val : Str → Str) (selfStr : Str) (text : Str) : Except PyExc Str :=
  format (varsEnv (findVars w text) val selfStr) (escapePercent w text)

/-! ## the translate tag -/

inductive Piece where
  | content (s : Str)      -- a `ContentNode`
  | var (name : Str)       -- `{{ name }}`
  deriving Repr, DecidableEq

/-- `str.replace("%", "%%")` -/
def doublePercent : Str → Str
  | [] => []
  | c :: rest => if c = '%' then '%' :: '%' :: doublePercent rest else c :: doublePercent rest

def pieceText : Piece → Str
  | .content s => doublePercent s
  | .var n => '%' :: '(' :: (n ++ [')', 's'])

/-- `"".join(message_text)` in `validate_message_block` -/
def messageText (ps : List Piece) : Str := ps.flatMap pieceText

/-- `str.strip()` -/
def strip (ws : Char → Bool) (s : Str) : Str := ((s.dropWhile ws).reverse.dropWhile ws).reverse

/-- `re.sub(r"\s*\n\s*", " ", s)`: every maximal whitespace run that contains a newline becomes one space;
other runs are kept. -/
def collapse (ws : Char → Bool) (s : Str) : Str :=
  match s with
  | [] => []
  | c :: rest =>
    if ws c then
      if (c :: rest.takeWhile ws).contains '\n' then ' ' :: collapse ws (rest.dropWhile ws)
      else (c :: rest.takeWhile ws) ++ collapse ws (rest.dropWhile ws)
    else c :: collapse ws rest
termination_by s.length
decreasing_by
  all_goals
    have := length_dropWhile_le ws rest
    simp only [List.length_cons]; omega

def trimMessage (ws : Char → Bool) (s : Str) : Str := collapse ws (strip ws s)

/-- `re_vars.findall(text)` of the tag, `(?<!%)(?:%%)*%\((\w+)\)s`: a placeholder is introduced by a `%`
preceded by an even number of `%`. -/
def findVarsTag (w : Char → Bool) : Str → List Str
  | [] => []
  | [_] => []
  | c :: d :: rest =>
    if c = '%' then
      if d = '%' then findVarsTag w rest
      else
        match placeholder? w (d :: rest) with
        | some (n, _) => n :: findVarsTag w (d :: rest)
        | none => findVarsTag w (d :: rest)
    else findVarsTag w (d :: rest)

/-- message text of a block as stored in the `MessageBlock` -/
def blockText (ws : Char → Bool) (trim : Bool) (ps : List Piece) : Str :=
  if trim then trimMessage ws (messageText ps) else messageText ps

/-- `TranslateNode._format_message` applied to a message text -/
def tagFormatText (w : Char → Bool) (val : Str → Str) (selfStr : Str) (text : Str) : Except PyExc Str :=
  format (varsEnv (findVarsTag w text) val selfStr) text

/-! ## counts and null translations -/

/-- the Python value given as a count -/
inductive CountVal where
  | none
  | bool (b : Bool)
  | int (i : Int)
  | float (num : Int) (den : Nat)      -- a finite float as an exact ratio, `den > 0`
  | str (s : Str)
  deriving Repr, DecidableEq

def isAsciiDigit (c : Char) : Bool := '0'.toNat ≤ c.toNat && c.toNat ≤ '9'.toNat
def isPySpace (c : Char) : Bool :=
  c == ' ' || c == '\t' || c == '\n' || c == '\r' || c == '\x0b' || c == '\x0c'
  || c == '\x1c' || c == '\x1d' || c == '\x1e' || c == '\x1f' || c == '\u0085' || c == ' '

/-- `int("…")` for the strings the generators use: optional surrounding whitespace, optional sign, ASCII
digits (no underscores, no non-ASCII digits). -/
def pyIntOfStr (s : Str) : Option Int :=
  let t := strip isPySpace s
  let (neg, ds) := match t with
    | c :: r => if c = '-' then (true, r) else if c = '+' then (false, r) else (false, t)
    | [] => (false, [])
  if ds ≠ [] ∧ ds.all isAsciiDigit then
    let n : Int := digitsVal ds
    some (if neg then -n else n)
  else none

/-- Python `int(val)` -/
def pyInt : CountVal → Except PyExc Int
  | .none => .error .typeError
  | .bool b => .ok (if b then 1 else 0)
  | .int i => .ok i
  | .float n d => .ok (Int.tdiv n d)
  | .str s => match pyIntOfStr s with | some i => .ok i | none => .error .valueError

/-- `NullTranslations.ngettext` / `npgettext` -/
def nullNgettext (msgid1 msgid2 : Str) (n : Int) : Str := if n = 1 then msgid1 else msgid2

/-- `_count` of `filters/translate.py` (fixed: `val is None or isinstance(val, bool)`); `count? = none` is
"no `count` keyword argument" (`kwargs.get("count")` is `None`). A `TypeError` of `int()` is not caught. -/
def tCount (count? : Option CountVal) : Except PyExc (Option Int) :=
  match count? with
  | none => .ok none
  | some .none => .ok none
  | some (.bool _) => .ok none
  | some v =>
    match pyInt v with
    | .ok i => .ok (some i)
    | .error .valueError => .ok none
    | .error e => .error e

/-- message chosen by `Translate.__call__` (filter `t`) with null translations -/
def tChoice (left : Str) (ctx? plural? : Option Str) (count? : Option CountVal) : Except PyExc Str :=
  match tCount count? with
  | .error e => .error e
  | .ok n? =>
    match plural?, n? with
    | some plural, some n =>
      -- npgettext when a context is given, ngettext otherwise: the same choice with null translations
      match ctx? with
      | some _ => .ok (nullNgettext left plural n)
      | none => .ok (nullNgettext left plural n)
    | _, _ =>
      match ctx? with
      | some _ => .ok left     -- pgettext
      | none => .ok left       -- gettext

/-- `int_arg(val, default=1)` -/
def intArgDefault1 (v : CountVal) : Except PyExc Int :=
  match pyInt v with
  | .ok i => .ok i
  | .error .valueError => .ok 1
  | .error e => .error e

/-- message chosen by the `ngettext` and `npgettext` filters -/
def nChoice (left plural : Str) (count : CountVal) : Except PyExc Str :=
  match intArgDefault1 count with
  | .ok n => .ok (nullNgettext left plural n)
  | .error e => .error e

/-- `TranslateNode.resolve_count`: `to_int(block_scope.get("count", 1))`; `ValueError`, `TypeError` and
`OverflowError` → 1 (`fix: translate tag count falls back to one for any non-integer value`) -/
def tagCount (count? : Option CountVal) : Except PyExc Int :=
  match count? with
  | none => .ok 1
  | some v =>
    match pyInt v with
    | .ok i => .ok i
    | .error _ => .ok 1

/-- `TranslateNode.gettext` with null translations (fixed: `count is not None`; `resolve_count` never
returns `None`) -/
def tagChoice (singular : Str) (plural? : Option Str) (count? : Option CountVal) : Except PyExc Str :=
  match tagCount count? with
  | .error e => .error e
  | .ok n =>
    match plural? with
    | some plural => .ok (nullNgettext singular plural n)
    | none => .ok singular

/-! ## whole paths (what the driver runs) -/

def bindE {α β} (x : Except PyExc α) (f : α → Except PyExc β) : Except PyExc β :=
  match x with | .ok a => f a | .error e => .error e

def tFilter (w : Char → Bool) (val : Str → Str) (left : Str) (ctx? plural? : Option Str)
    (count? : Option CountVal) : Except PyExc Str :=
  bindE (tChoice left ctx? plural? count?) (formatMessage w val [])

def nFilter (w : Char → Bool) (val : Str → Str) (left plural : Str) (count : CountVal) : Except PyExc Str :=
  bindE (nChoice left plural count) (formatMessage w val [])

def translateTag (w ws : Char → Bool) (val : Str → Str) (trim : Bool) (singular : List Piece)
    (plural? : Option (List Piece)) (count? : Option CountVal) : Except PyExc Str :=
  bindE (tagChoice (blockText ws trim singular) (plural?.map (blockText ws trim)) count?)
    (tagFormatText w val [])

/-- the `\w` used by the driver: ASCII letters, digits, underscore -/
def asciiWord (c : Char) : Bool := c.isAlphanum || c == '_'

/-- `[^()%]`: the name class of the translate tag's placeholder pattern after the fix -/
def tagNameChar (c : Char) : Bool := c != '(' && c != ')' && c != '%'

end LiquidVerif.Translate
