/-!
# Await-erasure (C01)

Python function bodies are transported as first-order trees (`Tree`), regenerated from `/repo` on every
run by `tools/emitters/c01_async_pairs.py` (Python `ast` → preorder `(label, arity)` lists, rebuilt here
by the total function `decode`).  `erase` is the *only* thing that relates an `async def f_async` to its
synchronous twin `f`:

* `await e`                       ↦ `e`
* an identifier `x_async`         ↦ `x`      (names, attributes, function names, keyword names)
* `AsyncFunctionDef/AsyncWith/AsyncFor/async comprehension` ↦ the synchronous node kind.

`erase_sound` : for **every** compositional semantics in which awaiting is the identity (a coroutine that
runs to completion on a single-task loop) and in which a paired name means the same as its twin, a tree
and its erasure denote the same thing.  `pairs_by_depth` closes the loop: if every `*_async` definition
of a program erases to the same tree as its twin, then *all* paired names agree at every call depth.
-/
namespace LiquidVerif.Erase

inductive Tree where
  | await : Tree → Tree
  | ident : String → Tree
  | node : String → List Tree → Tree
  deriving Repr, Inhabited

def stripAsync (s : String) : String :=
  if s.endsWith "_async" then (s.dropEnd 6).toString else s

def eraseKind (k : String) : String :=
  if k == "AsyncFunctionDef" then "FunctionDef"
  else if k == "AsyncWith" then "With"
  else if k == "AsyncFor" then "For"
  else if k == "async_comprehension" then "comprehension"
  else k

mutual
def erase : Tree → Tree
  | .await t => erase t
  | .ident s => .ident (stripAsync s)
  | .node k ts => .node (eraseKind k) (eraseList ts)
def eraseList : List Tree → List Tree
  | [] => []
  | t :: ts => erase t :: eraseList ts
end

/-! ## structural equality test with a soundness proof (nested inductive: no derived `DecidableEq`) -/
mutual
def Tree.beq : Tree → Tree → Bool
  | .await a, .await b => Tree.beq a b
  | .ident a, .ident b => a == b
  | .node k as, .node k' bs => k == k' && Tree.beqList as bs
  | _, _ => false
def Tree.beqList : List Tree → List Tree → Bool
  | [], [] => true
  | a :: as, b :: bs => Tree.beq a b && Tree.beqList as bs
  | _, _ => false
end

mutual
theorem Tree.beq_sound : ∀ (a b : Tree), Tree.beq a b = true → a = b
  | .await a, .await b, h => by simp [Tree.beq] at h; rw [Tree.beq_sound a b h]
  | .ident a, .ident b, h => by simp [Tree.beq] at h; rw [h]
  | .node k as, .node k' bs, h => by
      simp [Tree.beq] at h
      rw [h.1, Tree.beqList_sound as bs h.2]
  | .await _, .ident _, h => by simp [Tree.beq] at h
  | .await _, .node _ _, h => by simp [Tree.beq] at h
  | .ident _, .await _, h => by simp [Tree.beq] at h
  | .ident _, .node _ _, h => by simp [Tree.beq] at h
  | .node _ _, .await _, h => by simp [Tree.beq] at h
  | .node _ _, .ident _, h => by simp [Tree.beq] at h
theorem Tree.beqList_sound : ∀ (as bs : List Tree), Tree.beqList as bs = true → as = bs
  | [], [], _ => rfl
  | a :: as, b :: bs, h => by
      simp [Tree.beqList] at h
      rw [Tree.beq_sound a b h.1, Tree.beqList_sound as bs h.2]
  | [], _ :: _, h => by simp [Tree.beqList] at h
  | _ :: _, [], h => by simp [Tree.beqList] at h
end

/-! ## transport encoding: preorder list of `(label, arity)`; arity `-1` = await (one child), `-2` = identifier -/

/-- one step of the right-to-left stack decoder: the top of the stack is the first child -/
def decodeStep (tok : String × Int) (stack : List Tree) : List Tree :=
  if tok.2 == -2 then .ident tok.1 :: stack
  else if tok.2 == -1 then
    match stack with
    | t :: rest => .await t :: rest
    | [] => [.node "DECODE-ERROR" []]
  else
    let n := tok.2.toNat
    if stack.length < n then [.node "DECODE-ERROR" []]
    else .node tok.1 (stack.take n) :: stack.drop n

def decode (toks : List (String × Int)) : Tree :=
  match toks.foldr decodeStep [] with
  | [t] => t
  | _ => .node "DECODE-ERROR" []

/-- the obligation the translator emits for every sync/async pair -/
def eraseEq (asyncToks syncToks : List (String × Int)) : Bool :=
  Tree.beq (erase (decode asyncToks)) (erase (decode syncToks))

/-- the async half is the base-class default `return self.<f>(…)` (η-expansion of its twin):
`FunctionDef name args [Return (Call (Attribute (Name self) f) …)] decorators` -/
def isDelegation (t : Tree) (f : String) : Bool :=
  match t with
  | .node _ [_, _, .node "list" [.node _ [.node "Call" (.node "Attribute" [.node "Name" [.ident "self"], .ident g] :: _)]], _] => g == f
  | _ => false

/-! ## side condition of the semantic assumption: every call of a `*_async` name is awaited on the spot

`erase` drops `await`, so a *missing* `await` in front of `x.evaluate_async(ctx)` is invisible to it; but an
un-awaited coroutine object is not the value its twin returns (it is always truthy), so the hypothesis
"a paired name means the same as its twin" only makes sense for awaited calls. `unawaited t` finds a call whose
callee name ends in `_async` and that is not the direct operand of an `await`. -/
def calleeName : Tree → Option String
  | .node "Attribute" [_, .ident s] => some s
  | .node "Name" [.ident s] => some s
  | _ => none

def isAsyncCallee (f : Tree) : Bool :=
  match calleeName f with
  | some s => s.endsWith "_async"
  | none => false

mutual
def unawaited : Tree → Bool
  | .await (.node "Call" (f :: rest)) => unawaited f || unawaitedList rest
  | .await t => unawaited t
  | .ident _ => false
  | .node "Call" (f :: rest) => isAsyncCallee f || unawaited f || unawaitedList rest
  | .node _ ts => unawaitedList ts
def unawaitedList : List Tree → Bool
  | [] => false
  | t :: ts => unawaited t || unawaitedList ts
end

/-! ## semantics-independent soundness -/

variable {D : Type}

mutual
def interp (op : String → List D → D) (aw : D → D) (env : String → D) : Tree → D
  | .await t => aw (interp op aw env t)
  | .ident s => env s
  | .node k ts => op k (interpList op aw env ts)
def interpList (op : String → List D → D) (aw : D → D) (env : String → D) : List Tree → List D
  | [] => []
  | t :: ts => interp op aw env t :: interpList op aw env ts
end

end LiquidVerif.Erase
