import LiquidVerif.Lemmas.LoopLimit
import LiquidVerif.Lemmas.LoopLimitModes
/-!
# C06 — the loop iteration limit bounds nested iteration

Property theorems about `LiquidVerif.Model.LoopLimit` (the model of `RenderContext.loop /
raise_for_loop_limit / copy(carry_loop_iterations) / loop_carry` and of the `for`, `tablerow`, `include`, `render`,
`macro`/`call` nodes, as written after the `fix:` commits on `fix-C06`). Helper lemmas — the ghost invariant
`prod ghost = reduceMul carry loops`, the simulation `Rel` between the unlimited and the limited render and its
functional induction `rel_aux` — live in `Lemmas/LoopLimit.lean`.

A trace is the list of block executions of a render; every execution `e` carries `e.enclosing`, the true
lengths of **all** enclosing repeating constructs (for, tablerow, include with a bound array, render-for, and those
of the callers of the partial template or macro it belongs to). `prod e.enclosing` is "the product of the lengths of
all enclosing repeating constructs" of the property text; for an iteration of a loop it includes that loop's own length.
-/
set_option linter.unusedSimpArgs false
namespace LiquidVerif.C06
open LiquidVerif.LoopLimit

/-- **Sentence 1 of the property.** When a loop iteration limit `N ≥ 1` is configured, a render that completes never
executed a block while the product of the lengths of all enclosing repeating constructs exceeded `N` — for every
template, every pool of partial templates, every nesting depth and every length. -/
theorem loop_product_bounded (E : Env) (N : Nat) (hl : E.limit = some N) (hN : N ≠ 0) (nodes : List Node)
    (m : Macros) (tr : List Ev) (h : renderTemplate E nodes = .ok (m, tr)) :
    ∀ e ∈ tr, prod e.enclosing ≤ N := by
  have hr := rel_template E N hl hN nodes
  cases hu : renderTemplate E.unlimited nodes with
  | error e =>
    rw [hu] at hr
    rcases hr with h' | h' <;> rw [h'] at h <;> cases h
  | ok p =>
    obtain ⟨m1, t1⟩ := p
    rw [hu] at hr
    by_cases ha : AllLe N t1
    · have := hr.1 ha
      rw [this] at h; cases h
      exact ha
    · have := hr.2 ha
      rw [this] at h; cases h

/-- **Sentence 2 of the property, both directions.** Take the render with no limit configured. If it completes with
executions `tr`, then under the limit `N`
* the render completes, with the same executions, **iff** no executed block is nested in repeating constructs whose
  lengths multiply to more than `N`;
* otherwise it raises `LoopIterationLimitError` (and no other error). -/
theorem limit_decides (E : Env) (N : Nat) (hl : E.limit = some N) (hN : N ≠ 0) (nodes : List Node)
    (m : Macros) (tr : List Ev) (hu : renderTemplate E.unlimited nodes = .ok (m, tr)) :
    ((∀ e ∈ tr, prod e.enclosing ≤ N) → renderTemplate E nodes = .ok (m, tr)) ∧
    ((∃ e ∈ tr, prod e.enclosing > N) → renderTemplate E nodes = .error .loopLimit) := by
  have hr := rel_template E N hl hN nodes
  rw [hu] at hr
  refine ⟨fun h => hr.1 h, fun ⟨e, he, hp⟩ => hr.2 (not_allLe_of_mem he hp)⟩

/-- A nest whose lengths multiply to more than `N`, reached by the render, raises `LoopIterationLimitError`. -/
theorem over_limit_raises (E : Env) (N : Nat) (hl : E.limit = some N) (hN : N ≠ 0) (nodes : List Node)
    (m : Macros) (tr : List Ev) (hu : renderTemplate E.unlimited nodes = .ok (m, tr))
    (e : Ev) (he : e ∈ tr) (hp : prod e.enclosing > N) : renderTemplate E nodes = .error .loopLimit :=
  (limit_decides E N hl hN nodes m tr hu).2 ⟨e, he, hp⟩

/-- The limit only aborts: a render that completes under the limit is the unlimited render. -/
theorem limit_only_aborts (E : Env) (N : Nat) (hl : E.limit = some N) (hN : N ≠ 0) (nodes : List Node)
    (r : Macros × List Ev) (h : renderTemplate E nodes = .ok r) : renderTemplate E.unlimited nodes = .ok r := by
  have hr := rel_template E N hl hN nodes
  cases hu : renderTemplate E.unlimited nodes with
  | error e =>
    rw [hu] at hr
    rcases hr with h' | h' <;> rw [h'] at h <;> cases h
  | ok p =>
    obtain ⟨m1, t1⟩ := p
    rw [hu] at hr
    by_cases ha : AllLe N t1
    · rw [hr.1 ha] at h; exact h
    · rw [hr.2 ha] at h; cases h

/-- The limit introduces no error other than `LoopIterationLimitError`. -/
theorem other_errors_unchanged (E : Env) (N : Nat) (hl : E.limit = some N) (hN : N ≠ 0) (nodes : List Node)
    (e : Err) (h : renderTemplate E nodes = .error e) (hne : e ≠ .loopLimit) :
    renderTemplate E.unlimited nodes = .error e := by
  have hr := rel_template E N hl hN nodes
  cases hu : renderTemplate E.unlimited nodes with
  | error e' =>
    rw [hu] at hr
    rcases hr with h' | h' <;> rw [h'] at h <;> cases h
    · rfl
    · exact absurd rfl hne
  | ok p =>
    obtain ⟨m1, t1⟩ := p
    rw [hu] at hr
    by_cases ha : AllLe N t1
    · rw [hr.1 ha] at h; cases h
    · rw [hr.2 ha] at h; cases h; exact absurd rfl hne

/-- With no limit configured — `None`, or `0`, which the code's `if limit and …` treats the same way — a render never
raises `LoopIterationLimitError` (the quantifier of the property starts at limit 1 for this reason). -/
theorem no_limit_never_raises (E : Env) (hl : E.limit = none ∨ E.limit = some 0) (nodes : List Node) :
    renderTemplate E nodes ≠ .error .loopLimit := by
  have hov : ∀ c n, overLimit E.limit c n = false := by
    intro c n
    rcases hl with h | h <;> rw [h]
    · rfl
    · exact overLimit_zero c n
  unfold renderTemplate
  simp only []
  split
  · intro h; cases h
  · exact (never_raises_aux E hov).2.2.1 _ _ _

/-- **The ghost list is only a ghost.** Replacing the list of true enclosing lengths by anything else changes neither
whether the render completes, nor the error raised, nor which blocks execute in which order, nor the macro tables:
the model never reads it, so the theorems above speak about the mechanism itself (loop stack, carry, copies). -/
theorem ghost_erasure (E : Env) (c : Cx) (m : Macros) (nodes : List Node) (g : List Nat) :
    erase (renderList E { c with ghost := g } m nodes) = erase (renderList E c m nodes) :=
  (erase_aux E).2.2.1 c m nodes g

/-! ## Deepening round: the limit `0`, every error mode, `break` / `continue` -/

/-- **The deviation behind the hypothesis `N ≠ 0`.** Read literally, a configured limit of `0` would forbid every block
(the empty product is 1 > 0); the code's `if limit and …` treats `0` like `None`, so the bound fails for `N = 0`
already on a single mark. `loop_product_bounded` is the statement for the limits the property quantifies over (1..200);
`no_limit_never_raises` says what the code does instead. (C08 lists the same falsy test as a known finding.) -/
theorem loop_product_bounded_limit_zero_counterexample :
    ¬ (∀ (nodes : List Node) (m : Macros) (tr : List Ev),
        renderTemplate ⟨some 0, 30, []⟩ nodes = .ok (m, tr) → ∀ e ∈ tr, prod e.enclosing ≤ 0) := by
  intro h
  have h1 := h [.mark 1] [] [⟨1, []⟩] (by simp [renderTemplate, renderList, render, seqRes]) ⟨1, []⟩ (by simp)
  simp [prod, reduceMul] at h1

/-- **Sentence 1 in every error mode, with `break` and `continue`** (model `LoopLimitModes`): whatever the mode
(STRICT, or LAX/WARN where `render_with_context` swallows a node's error and goes on with the next top-level node),
whether the render completes, aborts or continues after suppressed errors, and however loops are cut short by
interrupts travelling through `if` blocks, included partials and macro bodies — no block is ever executed while the
product of the true lengths of all enclosing repeating constructs exceeds the limit `N ≥ 1`. -/
theorem loop_product_bounded_all_modes (E : LoopLimitModes.Env) (N : Nat) (hl : E.limit = some N) (hN : N ≠ 0)
    (nodes : List LoopLimitModes.Node) :
    ∀ e ∈ (LoopLimitModes.renderTemplate E nodes).tr, prod e.enclosing ≤ N := by
  unfold LoopLimitModes.renderTemplate
  simp only []
  split
  · intro e he; simp [LoopLimitModes.fail] at he
  · exact (LoopLimitModes.bounded_aux E N hl hN).2.2.1 _ _ _ _ (by simp [GhostInv, Cx.measured]) (by simp; omega)

/-- In LAX / WARN mode the render itself never raises (with the default `context_depth_limit ≥ 4`): a
`LoopIterationLimitError` can only be *suppressed* there — it cuts the offending top-level node short and the render
goes on. Together with the theorem above: suppressed or raised, the bound on executed blocks holds. -/
theorem lax_render_completes (E : LoopLimitModes.Env) (hs : E.strict = false) (hd : 4 ≤ E.depth)
    (nodes : List LoopLimitModes.Node) : (LoopLimitModes.renderTemplate E nodes).sig = .normal := by
  unfold LoopLimitModes.renderTemplate
  simp only []
  split
  · omega
  · exact LoopLimitModes.renderNodes_lax_sig E hs _ _ _

/-! ## Non-vacuity: the hypotheses are met by concrete nests, on both sides of the limit -/

/-- tablerow over 2 containing a for over 3 raises under limit 5 (the nest the unchanged tree let through) … -/
example : renderTemplate ⟨some 5, 30, []⟩ [.tablerow 1 2 [.forn 2 3 [.mark 3] []]] = .error .loopLimit := by
  simp [renderTemplate, renderList, render, iter, seqRes, overLimit, reduceMul]

/-- … a render-for over 1 whose partial loops over 2 completes under limit 2, every execution under product ≤ 2 -/
example : renderTemplate ⟨some 2, 30, [("p", [.forn 2 2 [.mark 3] []])]⟩ [.render 1 "p" (some 1)]
    = .ok ([], [⟨1, [1]⟩, ⟨2, [1, 2]⟩, ⟨3, [1, 2]⟩, ⟨2, [1, 2]⟩, ⟨3, [1, 2]⟩]) := by
  simp [renderTemplate, renderList, render, iter, iterPartial, renderPartial, seqRes, discardRes, overLimit, reduceMul,
    lookup, Cx.copied]

/-- … and the same nest under limit 1 raises, while with limit 0 (falsy) it completes. -/
example : renderTemplate ⟨some 1, 30, [("p", [.forn 2 2 [.mark 3] []])]⟩ [.render 1 "p" (some 1)]
    = .error .loopLimit := by
  simp [renderTemplate, renderList, render, iter, iterPartial, renderPartial, seqRes, discardRes, overLimit, reduceMul,
    lookup, Cx.copied]

end LiquidVerif.C06
