import LiquidVerif.Lemmas.Lex
/-!
# C10 — literal text, raw blocks, comments and whitespace control

Property theorems about `LiquidVerif/Model/Lex.lean` (`_tokenize_template`, line by line) and
`Model/LexRender.lean` (`Parser._parse` + the anchored tags' `parse` / `render_to_output`), against the
specification `specNodes` of `Model/LexSpec.lean`.  Helper lemmas live in `Lemmas/Lex.lean`.

All theorems quantify over every delimiter set `d`, every item list (no bound on length, on the nesting depth of
block comments, on padding or on text) and — for the output statements — every semantics `sem` of output
statements and ordinary tags.
-/
namespace LiquidVerif.C10
open LiquidVerif.Lex

/-! ## what "removes all whitespace" means -/

/-- `lstrip` removes *all* leading whitespace and nothing else: `s = w ++ lstrip s` with `w` all whitespace and
`lstrip s` not starting with whitespace. -/
theorem lstrip_spec (s : Str) :
    ∃ w, s = w ++ lstrip s ∧ w.all isSpace = true ∧ headIs isSpace (lstrip s) = false := by
  induction s with
  | nil => exact ⟨[], rfl, rfl, rfl⟩
  | cons c cs ih =>
    by_cases h : isSpace c = true
    · obtain ⟨w, h1, h2, h3⟩ := ih
      refine ⟨c :: w, ?_, ?_, ?_⟩
      · simp only [lstrip, h, if_true, List.cons_append]; rw [← h1]
      · simp [List.all_cons, h, h2]
      · simp only [lstrip, h, if_true]; exact h3
    · refine ⟨[], ?_, rfl, ?_⟩
      · simp [lstrip, h]
      · simp [lstrip, h, headIs]

/-- `rstrip` removes *all* trailing whitespace and nothing else. -/
theorem rstrip_spec (s : Str) :
    ∃ w, s = rstrip s ++ w ∧ w.all isSpace = true ∧ lastIs isSpace (rstrip s) = false := by
  obtain ⟨w, h1, h2, h3⟩ := lstrip_spec s.reverse
  refine ⟨w.reverse, ?_, ?_, ?_⟩
  · have := congrArg List.reverse h1
    simpa [rstrip] using this
  · simpa using h2
  · simpa [lastIs, rstrip] using h3

/-! ## the refinement -/

/-- **Main theorem.** Lexing and parsing the source assembled from any list of items yields exactly the
specified node list `specNodes`: every text item is one content node, left-stripped iff the closing delimiter
of the item before carries a hyphen, right-stripped iff the opening delimiter of the item after does
(and dropped only when nothing is left); every raw block is a content node holding its body verbatim; block,
inline and shorthand comments and doc blocks are comment / doc nodes; `lf` is the strip flag inherited from
whatever precedes. Side conditions (`allOk`): top-level text does not begin like markup after stripping, block
comments are balanced. -/
theorem lex_refines_spec (d : Delims) (items : List Item) (lf : Bool) (hok : allOk items = true) :
    nodesFrom d lf (flatten items) = .ok (specNodes d lf items) := by
  obtain ⟨ts, h1, h2⟩ := lex_parse_spec d items 0 lf hok
  have h1' : tokenize { lstrip := lf } (matchesOf d 0 (flatten items)) = .ok ts := h1
  simp only [nodesFrom, h1', parse, h2]

end LiquidVerif.C10
