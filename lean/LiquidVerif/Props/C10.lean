import LiquidVerif.Model.Lex
import LiquidVerif.Model.LexRender
/-!
# C10 — literal text, raw blocks, comments and whitespace control
-/
namespace LiquidVerif.C10
open LiquidVerif.Lex

/-- `lstrip` removes *all* leading whitespace and nothing else. -/
theorem lstrip_spec (s : Str) :
    ∃ w, s = w ++ lstrip s ∧ w.all isSpace = true ∧ headIs isSpace (lstrip s) = false := by
  induction s with
  | nil => exact ⟨[], rfl, rfl, rfl⟩
  | cons c cs ih =>
    by_cases h : isSpace c = true
    · obtain ⟨w, h1, h2, h3⟩ := ih
      refine ⟨c :: w, ?_, ?_, ?_⟩
      · simp only [lstrip, h, if_true, List.cons_append]; rw [← h1]
      · simp [List.all_cons, h, h2]
      · simp only [lstrip, h, if_true]; exact h3
    · refine ⟨[], ?_, rfl, ?_⟩
      · simp [lstrip, h]
      · simp [lstrip, h, headIs]

end LiquidVerif.C10
