import LiquidVerif.Lemmas.Lex
import LiquidVerif.Lemmas.LexLiquid
import LiquidVerif.Lemmas.LexScan
/-!
# C10 — literal text, raw blocks, comments and whitespace control

Property theorems about `LiquidVerif/Model/Lex.lean` (`_tokenize_template`, line by line) and
`Model/LexRender.lean` (`Parser._parse` + the anchored tags' `parse` / `render_to_output`), against the
specification `specNodes` of `Model/LexSpec.lean`.  Helper lemmas live in `Lemmas/Lex.lean`.

All theorems quantify over every delimiter set `d`, every item list (no bound on length, on the nesting depth of
block comments, on padding or on text) and — for the output statements — every semantics `sem` of output
statements and ordinary tags.
-/
namespace LiquidVerif.C10
open LiquidVerif.Lex

/-! ## what "removes all whitespace" means -/

/-- `lstrip` removes *all* leading whitespace and nothing else: `s = w ++ lstrip s` with `w` all whitespace and
`lstrip s` not starting with whitespace. -/
theorem lstrip_spec (s : Str) :
    ∃ w, s = w ++ lstrip s ∧ w.all isSpace = true ∧ headIs isSpace (lstrip s) = false := by
  induction s with
  | nil => exact ⟨[], rfl, rfl, rfl⟩
  | cons c cs ih =>
    by_cases h : isSpace c = true
    · obtain ⟨w, h1, h2, h3⟩ := ih
      refine ⟨c :: w, ?_, ?_, ?_⟩
      · simp only [lstrip, h, if_true, List.cons_append]; rw [← h1]
      · simp [List.all_cons, h, h2]
      · simp only [lstrip, h, if_true]; exact h3
    · refine ⟨[], ?_, rfl, ?_⟩
      · simp [lstrip, h]
      · simp [lstrip, h, headIs]

/-- `rstrip` removes *all* trailing whitespace and nothing else. -/
theorem rstrip_spec (s : Str) :
    ∃ w, s = rstrip s ++ w ∧ w.all isSpace = true ∧ lastIs isSpace (rstrip s) = false := by
  obtain ⟨w, h1, h2, h3⟩ := lstrip_spec s.reverse
  refine ⟨w.reverse, ?_, ?_, ?_⟩
  · have := congrArg List.reverse h1
    simpa [rstrip] using this
  · simpa using h2
  · simpa [lastIs, rstrip] using h3

/-! ## the refinement -/

/-- **Main theorem.** Lexing and parsing the source assembled from any list of items yields exactly the
specified node list `specNodes`: every text item is one content node, left-stripped iff the closing delimiter
of the item before carries a hyphen, right-stripped iff the opening delimiter of the item after does
(and dropped only when nothing is left); every raw block is a content node holding its body verbatim; block,
inline and shorthand comments and doc blocks are comment / doc nodes; `lf` is the strip flag inherited from
whatever precedes. Side conditions (`allOk`): top-level text does not begin like markup after stripping, block
comments are balanced. -/
theorem lex_refines_spec (d : Delims) (items : List Item) (lf : Bool) (hok : allOk items = true) :
    nodesFrom d lf (flatten items) = .ok (specNodes d lf items) := by
  obtain ⟨ts, h1, h2⟩ := lex_parse_spec d items 0 lf hok
  have h1' : tokenize { lstrip := lf } (matchesOf d 0 (flatten items)) = .ok ts := h1
  simp only [nodesFrom, h1', parse, h2]

/-- Compositional form: the nodes of `xs ++ ys` are those of `xs` (its trailing text seeing the opening hyphen
of `ys`) followed by those of `ys` (its leading text seeing the closing hyphen carried out of `xs`). Nothing else
crosses the boundary. -/
theorem nodes_split (d : Delims) (xs ys : List Item) (hok : allOk (xs ++ ys) = true) :
    nodesOf d (flatten (xs ++ ys)) =
      .ok (specNodesLA d false (nextOpenI ys) xs ++ specNodes d (carry false xs) ys) := by
  have hn : nextOpenLA false ys = nextOpenI ys := by cases ys <;> rfl
  rw [nodesOf, lex_refines_spec d _ false hok, ← specNodesLA_false, specNodesLA_append, hn, specNodesLA_false]

/-- **Whitespace control, every piece kind.** A text item `s` anywhere in a template becomes exactly
`applyStrip a b s`, where `a` is the hyphen on the *closing* delimiter of the markup item before it (`carry`;
none at the start of the template) and `b` the hyphen on the *opening* delimiter of the item after it
(`nextOpenI`; none at the end) — whatever kinds those items are (output, any tag, raw, doc, block comment, inline
comment, liquid, shorthand comment). The items before and after keep the nodes they have on their own. -/
theorem strip_rules (d : Delims) (pre post : List Item) (s : Str)
    (hok : allOk (pre ++ .piece (.text s) :: post) = true) :
    nodesOf d (flatten (pre ++ .piece (.text s) :: post)) =
      .ok (specNodesLA d false false pre
            ++ textNodes (applyStrip (carry false pre) (nextOpenI post) s)
            ++ specNodes d (carry false pre) post) := by
  rw [nodes_split d pre _ hok]
  simp [specNodes, nextOpenI, Item.openHyphen, Piece.openHyphen, List.append_assoc]

/-- The same with the neighbours named: between a markup item `p` and an item `q`, the text is left-stripped iff
`p`'s closing delimiter carries a hyphen and right-stripped iff `q`'s opening delimiter does; otherwise it is
untouched. For a raw block, doc block or block comment `p`, "closing delimiter" is that of `endraw` / `enddoc` /
`endcomment` (definition of `Item.closeHyphen`). -/
theorem strip_between (d : Delims) (pre post : List Item) (p q : Item) (s : Str) (hp : p.isText = false)
    (hok : allOk ((pre ++ [p]) ++ .piece (.text s) :: q :: post) = true) :
    nodesOf d (flatten ((pre ++ [p]) ++ .piece (.text s) :: q :: post)) =
      .ok (specNodesLA d false false (pre ++ [p])
            ++ textNodes (applyStrip p.closeHyphen q.openHyphen s)
            ++ specNodes d p.closeHyphen (q :: post)) := by
  rw [strip_rules d (pre ++ [p]) (q :: post) s hok, carry_append_markup false pre p hp]
  rfl

/-- **Without a hyphen no whitespace is removed**, and text is output verbatim: when neither neighbouring
delimiter carries a hyphen the text item is the content node `s` itself. -/
theorem text_verbatim (d : Delims) (pre post : List Item) (s : Str) (hs : s ≠ [])
    (ha : carry false pre = false) (hb : nextOpenI post = false)
    (hok : allOk (pre ++ .piece (.text s) :: post) = true) :
    nodesOf d (flatten (pre ++ .piece (.text s) :: post)) =
      .ok (specNodesLA d false false pre ++ [.text s] ++ specNodes d false post) := by
  rw [strip_rules d pre post s hok, ha, hb]
  simp [applyStrip, textNodes, hs]

/-- Every markup item contributes its own node, unaffected by its neighbours, and passes on exactly its two
hyphens: the opening one to the text before, the closing one to the text after. -/
theorem markup_item (d : Delims) (pre post : List Item) (it : Item) (ht : it.isText = false)
    (hok : allOk (pre ++ it :: post) = true) :
    nodesOf d (flatten (pre ++ it :: post)) =
      .ok (specNodesLA d false it.openHyphen pre ++ it.nodes d ++ specNodes d it.closeHyphen post) := by
  rw [nodes_split d pre _ hok]
  cases it with
  | piece p => cases p <;> simp_all [specNodes, nextOpenI, Item.isText, List.append_assoc]
  | comment o body c => simp [specNodes, nextOpenI, List.append_assoc]

/-- **The body of a raw block is output verbatim**: whatever the four whitespace-control markers and the padding
of `{% raw %}` / `{% endraw %}` are, and whatever the body contains, the block is one content node holding the
body unchanged. -/
theorem raw_verbatim (d : Delims) (pre post : List Item) (o c : Ends) (body : Str)
    (hok : allOk (pre ++ .piece (.raw o body c) :: post) = true) :
    nodesOf d (flatten (pre ++ .piece (.raw o body c) :: post)) =
      .ok (specNodesLA d false o.l pre ++ [.text body] ++ specNodes d c.r post) :=
  markup_item d pre post _ rfl hok

/-- **Comment and doc bodies are never output**: a block comment (with any balanced body: text, output
statements, tags, raw blocks, nested comments), an inline comment, a shorthand comment and a doc block each
become one node that writes nothing and leaves the render state alone — for every semantics of the other
constructs. -/
theorem comments_silent {σ : Type} (sem : Sem σ) (st : σ) (d : Delims) (it : Item) (hs : it.isSilent = true) :
    render sem st (it.nodes d) = (st, []) := by
  cases it with
  | piece p =>
    cases p with
    | tag l r ws0 name ws1 e ws2 =>
      have : name = kwHash := by simpa [Item.isSilent] using hs
      subst this
      simp [Item.nodes, tagNode, render]
    | doc o b c => simp [Item.nodes, render]
    | short l r b => simp [Item.nodes, render]
    | _ => simp [Item.isSilent] at hs
  | comment o body c => simp [Item.nodes, render]

/-! ## at the level of the rendered output -/

/-- the output of rendering a node list -/
def outputOf {σ : Type} (sem : Sem σ) (st : σ) (ns : List Node) : Str := (render sem st ns).2

/-- **Rendered output.** For every semantics of output statements and tags: the output of a template is the
output of what precedes the text item, then the text stripped according to the two neighbouring hyphens and
nothing else, then the output of what follows (rendered in the state the first part left). -/
theorem render_strip_rules {σ : Type} (sem : Sem σ) (st : σ) (d : Delims) (pre post : List Item) (s : Str)
    (hok : allOk (pre ++ .piece (.text s) :: post) = true) :
    ∃ ns, nodesOf d (flatten (pre ++ .piece (.text s) :: post)) = .ok ns ∧
      outputOf sem st ns =
        outputOf sem st (specNodesLA d false false pre)
          ++ applyStrip (carry false pre) (nextOpenI post) s
          ++ outputOf sem (render sem st (specNodesLA d false false pre)).1 (specNodes d (carry false pre) post) := by
  refine ⟨_, strip_rules d pre post s hok, ?_⟩
  simp [outputOf, render_append, render_textNodes, List.append_assoc]

/-- **Rendered output of a raw block**: the body appears verbatim between the output of what precedes and the
output of what follows. -/
theorem render_raw_verbatim {σ : Type} (sem : Sem σ) (st : σ) (d : Delims) (pre post : List Item)
    (o c : Ends) (body : Str) (hok : allOk (pre ++ .piece (.raw o body c) :: post) = true) :
    ∃ ns, nodesOf d (flatten (pre ++ .piece (.raw o body c) :: post)) = .ok ns ∧
      outputOf sem st ns =
        outputOf sem st (specNodesLA d false o.l pre) ++ body
          ++ outputOf sem (render sem st (specNodesLA d false o.l pre)).1 (specNodes d c.r post) := by
  refine ⟨_, raw_verbatim d pre post o c body hok, ?_⟩
  simp [outputOf, render_append, render, List.append_assoc]

/-- **Rendered output of comments**: a silent item contributes nothing to the output and does not change the
render state; only its two hyphens act on the neighbouring text. -/
theorem render_comments_silent {σ : Type} (sem : Sem σ) (st : σ) (d : Delims) (pre post : List Item) (it : Item)
    (hs : it.isSilent = true) (hok : allOk (pre ++ it :: post) = true) :
    ∃ ns, nodesOf d (flatten (pre ++ it :: post)) = .ok ns ∧
      outputOf sem st ns =
        outputOf sem st (specNodesLA d false it.openHyphen pre)
          ++ outputOf sem (render sem st (specNodesLA d false it.openHyphen pre)).1 (specNodes d it.closeHyphen post) := by
  have ht : it.isText = false := by
    cases it with
    | piece p => cases p <;> simp_all [Item.isSilent, Item.isText]
    | comment o b c => rfl
  refine ⟨_, markup_item d pre post it ht hok, ?_⟩
  simp [outputOf, render_append, comments_silent sem _ d it hs, List.append_assoc]

/-- **Whitespace-only text** disappears exactly when a neighbouring hyphen strips it: it is kept verbatim
without hyphens and vanishes entirely as soon as one side is controlled. -/
theorem whitespace_only_text (s : Str) (hw : s.all isSpace = true) (a b : Bool) :
    applyStrip a b s = if a || b then [] else s := by
  have hl : ∀ t : Str, t.all isSpace = true → lstrip t = [] := by
    intro t ht
    induction t with
    | nil => rfl
    | cons c cs ih =>
      simp only [List.all_cons, Bool.and_eq_true] at ht
      simp [lstrip, ht.1, ih ht.2]
  have hr : rstrip s = [] := by
    simp [rstrip, hl s.reverse (by simpa using hw)]
  have hr0 : rstrip ([] : Str) = [] := rfl
  cases a <;> cases b <;> simp [applyStrip, hl s hw, hr, hr0]

/-- The side condition on text (`textClean`, part of `allOk`) is implied by well-formedness of the source
(`srcWf`: no opening delimiter begins inside a text piece) whenever the tag and output delimiters are the default
`{%` and `{{` — with or without shorthand comments. -/
theorem wf_text_is_clean (d : Delims) (hd1 : d.tagS = ['{', '%']) (hd2 : d.stmtS = ['{', '{']) (s next : Str)
    (h : (Piece.text s).wf d next = true) : textClean s = true :=
  wf_text_clean d hd1 hd2 s next h

/-! ## token start offsets (used by C20) -/

/-- **Start offsets.** Every `tag`, `expression` and `output` token the lexer yields for a source assembled from
pieces is, character for character, the slice of that source beginning at the token's `start_index` — for every
delimiter set, padding and marker combination, inside or after block comments. -/
theorem tokens_start_in_source (d : Delims) (ps : List Piece) (ts : List Token) (h : lexPieces d ps = .ok ts) :
    ∀ t ∈ ts, t.sliced = true → t.inSrc (assemble d ps) := by
  have := tokenize_slice d ps [] {} ts h
  simpa using this

/-- **Start offsets inside `{% liquid %}`.** For a `liquid` tag anywhere in a template, every inner token that
the line scanner of the tag (`_tokenize_liquid_expression`, model `LiquidLines.tokenizeLiquid`, run on the tag's
expression with `token.start_index` of that expression as base) yields — tag names and their expressions, on any
line, after any comment lines — is the slice of the *template* source at its start index. -/
theorem liquid_inner_tokens_in_source (d : Delims) (pre post : List Piece) (l r : Bool) (ws0 ws1 e ws2 : Str)
    (t : LiquidLines.Token)
    (h : t ∈ (LiquidLines.tokenizeLiquid d.cmtS
              (pieceMatch d (assemble d pre).length false (.tag l r ws0 kwLiquid ws1 e ws2)).exprStart e).1) :
    ((assemble d (pre ++ .tag l r ws0 kwLiquid ws1 e ws2 :: post)).drop t.start).take t.value.length = t.value := by
  obtain ⟨hb, hloc⟩ := liquid_token_located _ _ _ _ h
  have hsrc : assemble d (pre ++ .tag l r ws0 kwLiquid ws1 e ws2 :: post) =
      (assemble d pre ++ d.tagS ++ hy l ++ ws0 ++ kwLiquid ++ ws1) ++ (e ++ (ws2 ++ hy r ++ d.tagE ++ assemble d post)) := by
    simp [assemble_append, assemble, Piece.src, List.append_assoc]
  have hlen : (assemble d pre ++ d.tagS ++ hy l ++ ws0 ++ kwLiquid ++ ws1).length =
      (pieceMatch d (assemble d pre).length false (.tag l r ws0 kwLiquid ws1 e ws2)).exprStart := by
    simp [pieceMatch, List.length_append, Nat.add_assoc]
  have := located_embed hloc (assemble d pre ++ d.tagS ++ hy l ++ ws0 ++ kwLiquid ++ ws1)
    (ws2 ++ hy r ++ d.tagE ++ assemble d post)
  rw [hlen, ← hsrc] at this
  have hs : (pieceMatch d (assemble d pre).length false (.tag l r ws0 kwLiquid ws1 e ws2)).exprStart
      + (t.start - (pieceMatch d (assemble d pre).length false (.tag l r ws0 kwLiquid ws1 e ws2)).exprStart) = t.start := by
    omega
  rw [hs] at this
  exact LiquidVerif.SpanLex.located_slice this

/-! ## the string level: a hand scanner in place of "the regex finds the pieces" (deepening round)

`scan d src` (Model/LexScan.lean) is a deterministic scanner over the source *string* that resolves the alternation
`RAW | DOC | COMMENT | OUTPUT | TAG | CONTENT` the way the backtracking engine does; stream `scan` compares it with
the real `finditer` on arbitrary strings. -/

/-- **The scanner on text.** At a well-formed text piece (no opening delimiter begins inside it or across its right
edge) followed by nothing or by markup whose opener shows the hyphen `la`, the scanner finds no markup match and
its content rule matches exactly the text with look-ahead `la` — for every delimiter set. -/
theorem scan_text (d : Delims) (pos : Nat) (c : Char) (s rest : Str) (la : Bool)
    (hwf : allSuffixes (fun t => !startsMarkup d t) (c :: s) rest = true)
    (hrest : rest = [] ∧ la = false ∨ rest ≠ [] ∧ openerAt? d rest = some la) :
    matchAt d pos c (s ++ rest) = pieceMatch d pos la (.text (c :: s)) :=
  matchAt_text d pos c s rest la hwf hrest

/-- **String level, reduced to single markup pieces** (`_partial`: the hypothesis `AllMarkupFound` — each markup
piece, taken alone at the head of what follows it, is found by the scanner — is not yet discharged from `srcWf`;
the driver evaluates the conclusion on every generated case). For a well-formed piece list, scanning the assembled
string yields exactly `matchesOf`: all text pieces, all offsets and the tiling of the string are proved here. -/
theorem scan_assemble_partial (d : Delims) (ps : List Piece) (hwf : srcWf d ps = true) (hm : AllMarkupFound d ps) :
    scan d (assemble d ps) = matchesOf d 0 ps :=
  scan_assemble d ps 0 hwf hm

/-- **String level, text and output statements — full strength.** For every template made of text and output
statements (any markers, padding, expressions; default `{%` / `{{` openers, any output closer that does not start
with whitespace, `-` or a word character, shorthand comments off or `{#`), well-formedness alone implies that scanning the assembled
*string* yields exactly the matches `matchesOf` states: the residual hypothesis of `scan_assemble_partial` is
discharged for this sub-language. -/
theorem scan_assemble_text_output (d : Delims) (hT : d.tagS = ['{', '%']) (hS : d.stmtS = ['{', '{'])
    (hE : plainDelim d.stmtE = true) (hC : d.cmtS = [] ∨ d.cmtS = ['{', '#']) (ps : List Piece)
    (hk : ps.all (fun p => p.isText || p.isOutput) = true) (hwf : srcWf d ps = true) :
    scan d (assemble d ps) = matchesOf d 0 ps :=
  scan_assemble_partial d ps hwf (allMarkupFound_text_output d hT hS hE hC ps hk hwf)

/-- The same for templates of text, output statements and shorthand `{# #}` comments (template comments on). -/
theorem scan_assemble_text_output_short (d : Delims) (hT : d.tagS = ['{', '%']) (hS : d.stmtS = ['{', '{'])
    (hE : plainDelim d.stmtE = true) (hC : d.cmtS = [] ∨ (d.cmtS = ['{', '#'] ∧ plainDelim d.cmtE = true))
    (ps : List Piece) (hk : ps.all (fun p => p.isText || p.isOutput || p.isShort) = true) (hwf : srcWf d ps = true) :
    scan d (assemble d ps) = matchesOf d 0 ps :=
  scan_assemble_partial d ps hwf (allMarkupFound_text_output_short d hT hS hE hC ps hk hwf)

/-- **String level, every piece kind — full strength (default delimiters).** With the default tag and output
delimiters, shorthand comments off or `{# #}`, well-formedness of the piece list alone implies that the scanner run on
the assembled *string* finds exactly the matches `matchesOf` states — text, output statements, every tag (inline
comment, liquid, comment / endcomment, …), raw blocks, doc blocks and shorthand comments, with every marker
combination and padding. The residual hypothesis of `scan_assemble_partial` is discharged
(`output_found`, `tag_found`, `raw_found`, `doc_found`, `short_found`); what remains trusted is that the scanner
equals the regex on strings (stream `scan`). -/
theorem scan_assemble_default (d : Delims) (hT : d.tagS = ['{', '%']) (hTE : d.tagE = ['%', '}'])
    (hS : d.stmtS = ['{', '{']) (hE : plainDelim d.stmtE = true)
    (hC : d.cmtS = [] ∨ (d.cmtS = ['{', '#'] ∧ plainDelim d.cmtE = true))
    (ps : List Piece) (hwf : srcWf d ps = true) :
    scan d (assemble d ps) = matchesOf d 0 ps :=
  scan_assemble_partial d ps hwf (allMarkupFound_of_srcWf d hT hTE hS hE hC ps hwf)

/-- **End to end from the source string, full strength**: for every well-formed item list under the default
delimiters (template comments off or on), scanning, tokenizing and parsing the assembled string yields the
specified nodes. -/
theorem string_level_refines_spec (d : Delims) (hd : d = Delims.default ∨ d = Delims.withComments)
    (items : List Item) (hok : allOk items = true) (hwf : srcWf d (flatten items) = true) :
    nodesOfString d (assemble d (flatten items)) = .ok (specNodes d false items) := by
  have hscan : scan d (assemble d (flatten items)) = matchesOf d 0 (flatten items) := by
    rcases hd with rfl | rfl
    · exact scan_assemble_default _ rfl rfl rfl (by decide) (Or.inl rfl) _ hwf
    · exact scan_assemble_default _ rfl rfl rfl (by decide) (Or.inr ⟨rfl, by decide⟩) _ hwf
  have h := lex_refines_spec d items false hok
  simp only [nodesFrom] at h
  simp only [nodesOfString, hscan]
  exact h

/-- **End to end from the string** (same residual hypothesis): scanning, tokenizing and parsing the source string
of any well-formed item list gives the specified nodes. -/
theorem string_level_refines_spec_partial (d : Delims) (items : List Item) (hok : allOk items = true)
    (hwf : srcWf d (flatten items) = true) (hm : AllMarkupFound d (flatten items)) :
    nodesOfString d (assemble d (flatten items)) = .ok (specNodes d false items) := by
  have h := lex_refines_spec d items false hok
  simp only [nodesFrom] at h
  simp only [nodesOfString, scan_assemble_partial d _ hwf hm]
  exact h

/-! ## non-vacuity: the hypotheses are met by concrete templates, including the two inputs that failed
before the `fix:` commits -/

/-- `{% raw %}x{% endraw -%}  y` → content `x`, content `y` (the text after `endraw -%}` is left-stripped) -/
example :
    nodesOf Delims.default (flatten [.piece (.raw ⟨false, false, [' '], [' ']⟩ ['x'] ⟨false, true, [' '], [' ']⟩),
                                     .piece (.text [' ', ' ', 'y'])])
      = .ok [.text ['x'], .text ['y']] := by
  rw [nodesOf, lex_refines_spec _ _ _ (by decide)]; exact congrArg Except.ok (by decide)

/-- `{% raw -%}x{% endraw %}  y` → the hyphen on the *opening* raw tag does not strip the text after the block -/
example :
    nodesOf Delims.default (flatten [.piece (.raw ⟨false, true, [' '], [' ']⟩ ['x'] ⟨false, false, [' '], [' ']⟩),
                                     .piece (.text [' ', ' ', 'y'])])
      = .ok [.text ['x'], .text [' ', ' ', 'y']] := by
  rw [nodesOf, lex_refines_spec _ _ _ (by decide)]; exact congrArg Except.ok (by decide)

/-- `a {%- comment %} c {{ x }}{% comment %}{% endcomment %}{% endcomment -%} b` → `a`, one comment node, `b` -/
example :
    nodesOf Delims.default (flatten [.piece (.text ['a', ' ']),
        .comment ⟨true, false, [' '], [' '], [], []⟩
          [.text [' ', 'c', ' '], .output false false [' '] ['x'] [' '],
           .tag false false [' '] kwComment [' '] [] [], .tag false false [' '] kwEndcomment [' '] [] []]
          ⟨false, true, [' '], [' '], [], []⟩,
        .piece (.text [' ', 'b'])])
      = .ok [.text ['a'], .comment (assemble Delims.default
              [.text [' ', 'c', ' '], .output false false [' '] ['x'] [' '],
               .tag false false [' '] kwComment [' '] [] [], .tag false false [' '] kwEndcomment [' '] [] []]),
             .text ['b']] := by
  rw [nodesOf, lex_refines_spec _ _ _ (by decide)]; exact congrArg Except.ok (by decide)

/-- `strip_between` is applicable: a doc block with a hyphen on `enddoc`, whitespace-only text, an output with `{{-` -/
example : allOk (([] ++ [.piece (.doc ⟨false, false, [], []⟩ ['d'] ⟨false, true, [], []⟩)]) ++
      .piece (.text [' ', '\n']) :: .piece (.output true false [] ['1'] []) :: []) = true := by decide

/-- `a {{- x }}`: the residual hypothesis of `scan_assemble_partial` is satisfiable — the output piece is found by
the scanner at every position — and the theorem then gives the string-level matches. -/
example : AllMarkupFound Delims.default [.text ['a', ' '], .output true false [' '] ['x'] [' ']] := by
  refine ⟨fun h => by simp [Piece.isText] at h,
    ⟨fun _ => ⟨by decide, fun pos la => ⟨'{', _, rfl, ?_⟩, by decide⟩, trivial⟩⟩
  simp [matchAt, blockAt?, kwTagAt?, stripPrefix?, Delims.default, optHyphen, skipSpaces, isSpace, findFirst, closeAt?,
    pieceMatch, Piece.src, hy]

end LiquidVerif.C10
