import LiquidVerif.Lemmas.UndefKind
import LiquidVerif.Lemmas.FilterShape
import LiquidVerif.Model.FilterRegistry
/-!
# C16 — strict undefined types only refine the default behaviour

Property text: "For every template and data, if rendering succeeds with a strict undefined type
(StrictUndefined, FalsyStrictUndefined or StrictDefaultUndefined), its output equals the output with the default
undefined type.  With StrictUndefined, outputting, iterating, comparing or filtering a missing variable raises
UndefinedError, while the default undefined type never raises for a missing variable or path."

Model: `Model/UndefKind.lean` (the four undefined classes as a poke table, `RenderContext.get`, output, assign,
if/else with `== != < contains and or`, for/else, filters).  The theorems about the interpreter hold for **every**
filter table that only refines (`Refines`) — filters are abstract functions that poke their operands — and the eight
concrete filters of the driver are shown to be such a table.
-/
namespace LiquidVerif.C16
open LiquidVerif.UndefKind

/-- a top-level render: render data as globals, empty locals, no pushed scopes; observe the output only -/
def renderData (F : FilterSem) (k : Kind) (globals : List (String × Data)) (s : Stmt) : Except Err String :=
  match render F k { scopes := [], locals := [], globals := globals.map (fun kv => (kv.1, Val.data kv.2)) } s with
  | .error e => .error e
  | .ok (_, out) => .ok out

theorem relaxScope_data (g : List (String × Data)) :
    relaxScope (g.map (fun kv => (kv.1, Val.data kv.2))) = g.map (fun kv => (kv.1, Val.data kv.2)) := by
  induction g with
  | nil => rfl
  | cons kv r ih => simp only [relaxScope, List.map_cons, relax_data, List.cons.injEq, true_and] at ih ⊢; exact ih

/-- **Sentence 1, general form** (simulation carried through the render): with undefined objects of any kinds in
    the context, a render that succeeds under kind `k` succeeds under the default kind from the relaxed context,
    with the same output and the relaxed final context. -/
theorem strict_refines_default_sim (F : FilterSem) (hF : Refines F) (k : Kind) (s : Stmt) (e e' : Env) (out : String)
    (h : render F k e s = .ok (e', out)) : render F .dflt (relaxEnv e) s = .ok (relaxEnv e', out) :=
  render_relax hF s e e' out h

/-- **Sentence 1** for every template `s`, all plain render data `g`, every undefined kind `k` and every refining
    filter table: if the render succeeds with kind `k`, the default kind gives the same output. -/
theorem strict_refines_default (F : FilterSem) (hF : Refines F) (k : Kind) (g : List (String × Data)) (s : Stmt)
    (out : String) (h : renderData F k g s = .ok out) : renderData F .dflt g s = .ok out := by
  unfold renderData at h ⊢
  cases hr : render F k { scopes := [], locals := [], globals := g.map (fun kv => (kv.1, Val.data kv.2)) } s with
  | error e => rw [hr] at h; cases h
  | ok p =>
    obtain ⟨e', o⟩ := p
    rw [hr] at h
    have := render_relax hF s _ _ _ hr
    simp only [relaxEnv, List.map_nil, relaxScope_data] at this
    have h0 : relaxScope ([] : Scope) = [] := rfl
    rw [h0] at this
    rw [this]
    exact h

/-- the same for the filter table the driver runs (upcase, append, size, first, join, plus, default, split, round) -/
theorem strict_refines_default_builtin (k : Kind) (g : List (String × Data)) (s : Stmt) (out : String)
    (h : renderData builtinFilters k g s = .ok out) : renderData builtinFilters .dflt g s = .ok out :=
  strict_refines_default builtinFilters builtin_refines k g s out h

/-- the filter table of the driver only refines -/
theorem builtin_filters_refine : Refines builtinFilters := builtin_refines

/-! ### Sentence 2a: with `StrictUndefined`, using a missing variable raises `UndefinedError` -/

/-- every way of touching a `StrictUndefined` (or `StrictDefaultUndefined`) raises `UndefinedError` -/
theorem strict_every_poke_raises (p : Poke) :
    poke .strict p = .error .undefined ∧ poke .strictDefault p = .error .undefined := ⟨rfl, rfl⟩

/-- `missing` in context `e`: the path evaluates to a fresh `StrictUndefined` -/
def Missing (e : Env) (p : Prim) : Prop := evalPrim .strict e p = .ok (.undef .strict)

/-- outputting: `{{ missing }}` -/
theorem strict_undefined_raises_output (F : FilterSem) (e : Env) (p : Prim) (hm : Missing e p) :
    render F .strict e (.output ⟨p, []⟩) = .error .undefined := by
  unfold Missing at hm
  simp only [render, evalF, hm, applyFilters]
  rfl

/-- iterating: `{% for x in missing %}` -/
theorem strict_undefined_raises_iterate (F : FilterSem) (e : Env) (p : Prim) (x : String) (body els : Stmt)
    (hm : Missing e p) : render F .strict e (.for_ x p body els) = .error .undefined := by
  unfold Missing at hm
  simp only [render, hm]
  rfl

/-- comparing: a missing left operand of any operator, a missing right operand of `==`, `!=`, `<` whatever the
    left value is, and the bare truthiness test `{% if missing %}` -/
theorem strict_undefined_raises_compare (e : Env) (p q : Prim) (v : Val) (hm : Missing e p)
    (hq : evalPrim .strict e q = .ok v) (op : Op) :
    evalCond .strict e (.prim p) = .error .undefined ∧
    evalCond .strict e (.cmp op p q) = .error .undefined ∧
    (op ≠ .contains → evalCond .strict e (.cmp op q p) = .error .undefined) := by
  unfold Missing at hm
  refine ⟨?_, ?_, ?_⟩
  · simp only [evalCond, hm]; rfl
  · simp only [evalCond, hm, hq]
    cases op <;> rfl
  · intro hop
    simp only [evalCond, hm, hq]
    cases v with
    | data d => cases op <;> first | rfl | exact absurd rfl hop
    | undef k =>
      cases op <;> first | exact absurd rfl hop | (cases k <;> rfl)

/-- filtering: each of the nine concrete filters raises `UndefinedError` on a `StrictUndefined` input, whatever
    the (right number of) arguments are -/
theorem strict_undefined_raises_filter (a : Val) :
    builtinFilters "upcase" (.undef .strict) [] = .error .undefined ∧
    builtinFilters "append" (.undef .strict) [a] = .error .undefined ∧
    builtinFilters "size" (.undef .strict) [] = .error .undefined ∧
    builtinFilters "first" (.undef .strict) [] = .error .undefined ∧
    builtinFilters "join" (.undef .strict) [a] = .error .undefined ∧
    builtinFilters "plus" (.undef .strict) [a] = .error .undefined ∧
    builtinFilters "default" (.undef .strict) [a] = .error .undefined ∧
    builtinFilters "split" (.undef .strict) [a] = .error .undefined ∧
    builtinFilters "round" (.undef .strict) [a] = .error .undefined := by
  refine ⟨?_, ?_, ?_, ?_, ?_, ?_, ?_, ?_, ?_⟩ <;> simp [builtinFilters] <;> rfl

/-- `is_undefined(u)` itself raises for `StrictUndefined` and `StrictDefaultUndefined` (the ABC instance check reads
    `u.__class__`), answers `True` for the other two kinds -/
theorem is_undefined_pokes :
    isUndef (.undef .strict) = .error .undefined ∧ isUndef (.undef .strictDefault) = .error .undefined ∧
    isUndef (.undef .falsy) = .ok true ∧ isUndef (.undef .dflt) = .ok true := ⟨rfl, rfl, rfl, rfl⟩

/-- filtering *with* a missing variable: as the argument of a filter that evaluates it — required (`append`, `join`,
    `plus`), tested with `isinstance(sep, Undefined)` (`split`) or optional and tested with `is_undefined`
    (`round`) — a `StrictUndefined` raises `UndefinedError`, whatever plain value the filter is applied to -/
theorem strict_undefined_raises_filter_argument (d : Data) :
    builtinFilters "append" (.data d) [.undef .strict] = .error .undefined ∧
    builtinFilters "join" (.data d) [.undef .strict] = .error .undefined ∧
    builtinFilters "plus" (.data d) [.undef .strict] = .error .undefined ∧
    builtinFilters "split" (.data d) [.undef .strict] = .error .undefined ∧
    builtinFilters "round" (.data d) [.undef .strict] = .error .undefined := by
  refine ⟨?_, ?_, ?_, ?_, ?_⟩
  · cases d <;> simp [builtinFilters, fAppend, strArg, softStr, poke, pokeErr]
  · simp [builtinFilters, fJoin, softStr, poke, pokeErr]
  · cases d <;> simp [builtinFilters, fPlus, numArg, poke, pokeErr]
  · cases d <;> simp [builtinFilters, fSplit, strArg, poke, pokeErr]
  · cases d <;> simp [builtinFilters, fRound, numArg, isUndef, poke, pokeErr]

/-- the reviewed exception: `default` hands its argument over without looking at it (whoever uses the result
    pokes it) -/
theorem default_argument_is_not_touched (d : Data) (k : Kind) :
    ∃ r, builtinFilters "default" (.data d) [.undef k] = .ok r := by
  simp [builtinFilters, fDefault]

/-- … and so does the whole output statement `{{ missing | f: args }}` -/
theorem strict_undefined_raises_filtered_output (e : Env) (p : Prim) (hm : Missing e p) (a : Val) (q : Prim)
    (hq : evalPrim .strict e q = .ok a) :
    render builtinFilters .strict e (.output ⟨p, [⟨"upcase", []⟩]⟩) = .error .undefined ∧
    render builtinFilters .strict e (.output ⟨p, [⟨"append", [q]⟩]⟩) = .error .undefined ∧
    render builtinFilters .strict e (.output ⟨p, [⟨"default", [q]⟩]⟩) = .error .undefined := by
  have hf := strict_undefined_raises_filter a
  unfold Missing at hm
  refine ⟨?_, ?_, ?_⟩
  · simp only [render, evalF, hm, applyFilters, evalPrims, hf.1]
  · simp only [render, evalF, hm, applyFilters, evalPrims, hq, hf.2.1]
  · simp only [render, evalF, hm, applyFilters, evalPrims, hq, hf.2.2.2.2.2.2.1]

/-- `StrictDefaultUndefined` differs from `StrictUndefined` in exactly one place: `default` returns its argument -/
theorem strict_default_plays_with_default (a : Val) :
    builtinFilters "default" (.undef .strictDefault) [a] = .ok a := by
  simp [builtinFilters, fDefault, forceDefault]

/-! ### Sentence 2b: the default undefined type never raises `UndefinedError` -/

/-- for every template, every context whose undefined objects are all default `Undefined`s, and every refining
    filter table that itself never raises `UndefinedError` on such operands: the render does not raise
    `UndefinedError` (it may still raise something else, e.g. `LiquidTypeError` for `nil < 1`). -/
theorem default_never_raises_undefined_ctx (F : FilterSem) (hF : Refines F) (hQ : QuietOnDefault F) (s : Stmt)
    (e : Env) (he : relaxEnv e = e) : render F .dflt e s ≠ .error .undefined :=
  render_quiet hF hQ s e he

/-- top-level form: all plain render data, the driver's filter table -/
theorem default_never_raises_undefined (g : List (String × Data)) (s : Stmt) :
    renderData builtinFilters .dflt g s ≠ .error .undefined := by
  unfold renderData
  have he : relaxEnv { scopes := [], locals := [], globals := g.map (fun kv => (kv.1, Val.data kv.2)) }
      = { scopes := [], locals := [], globals := g.map (fun kv => (kv.1, Val.data kv.2)) } := by
    simp only [relaxEnv, List.map_nil, relaxScope_data]; rfl
  have := render_quiet builtin_refines builtin_quiet s _ he
  cases hr : render builtinFilters .dflt
      { scopes := [], locals := [], globals := g.map (fun kv => (kv.1, Val.data kv.2)) } s with
  | error err => intro h; simp only at h; cases h; exact this hr
  | ok p => simp

/-- a missing variable, path or index is never an error under the default kind: evaluation returns -/
theorem default_missing_path_is_a_value (e : Env) (he : relaxEnv e = e) (p : Prim) :
    ∃ v, evalPrim .dflt e p = .ok v :=
  let ⟨v, hv, _⟩ := evalPrim_relaxed he p; ⟨v, hv⟩

/-! ### Every registered filter (deepening round)

`Model/FilterRegistry.lean` gives every filter registered by `Environment(extra=True)` (the list is regenerated from
the source: `Gen.C02.FilterName`, with its decorator chain) a *shape*: which pokes the decorator and the body perform
on an undefined left value and on each argument, and which plain value the operand stands for afterwards; the rest of
the filter is an arbitrary computation `g` on plain data.  The theorems below hold for every `g`. -/

/-- **per decorator**: a filter that converts its operands by fixed poke sequences and then computes on plain data only
    refines — this is `string_filter`, `math_filter`, `sequence_filter`, `array_filter`, `liquid_filter` + body prologue -/
theorem shape_filter_refines (sh : Shape) (g : Data → List Data → Res) :
    ∀ v args r, shapeSem sh g v args = .ok r → shapeSem sh g (relax v) (args.map relax) = .ok (relax r) :=
  shape_refines sh g

/-- the whole registered filter table only refines, whatever the plain computations are -/
theorem registered_filters_refine (g : LiquidVerif.Gen.C02.FilterName → Data → List Data → Res) :
    Refines (registeredFilters g) := by
  intro name v args r h
  unfold registeredFilters at h ⊢
  cases hn : filterByName name with
  | none => rw [hn] at h; cases h
  | some n =>
    rw [hn] at h
    simp only at h ⊢
    split at h
    · rw [if_pos (by assumption)]
      match args, h with
      | [a], h => exact fDefault_relax h
    · rw [if_neg (by assumption)]
      exact shape_refines _ _ _ _ _ h

/-- … and never raises `UndefinedError` when every undefined operand is the default `Undefined` -/
theorem registered_filters_quiet (g : LiquidVerif.Gen.C02.FilterName → Data → List Data → Res) :
    QuietOnDefault (registeredFilters g) := by
  intro name v args h
  unfold registeredFilters at h
  cases hn : filterByName name with
  | none => rw [hn] at h; cases h
  | some n =>
    rw [hn] at h
    simp only at h
    split at h
    · match args, h with
      | [], h => cases h
      | [a], h => cases v <;> simp [fDefault, forceDefault] at h
      | _ :: _ :: _, h => cases h
    · exact shape_quiet _ _ _ _ h

/-- **Sentence 1 for all registered filters**: for every template of the modelled language using any of the
    registered filters, all plain data, every undefined kind and every choice of the plain computations -/
theorem strict_refines_default_registered (g : LiquidVerif.Gen.C02.FilterName → Data → List Data → Res) (k : Kind)
    (data : List (String × Data)) (s : Stmt) (out : String)
    (h : renderData (registeredFilters g) k data s = .ok out) : renderData (registeredFilters g) .dflt data s = .ok out :=
  strict_refines_default _ (registered_filters_refine g) k data s out h

/-- **Sentence 2b for all registered filters** -/
theorem default_never_raises_undefined_registered (g : LiquidVerif.Gen.C02.FilterName → Data → List Data → Res)
    (s : Stmt) (e : Env) (he : relaxEnv e = e) : render (registeredFilters g) .dflt e s ≠ .error .undefined :=
  render_quiet (registered_filters_refine g) (registered_filters_quiet g) s e he

/-- **Sentence 2a, filter input, for all registered filters**: every registered filter except `default` pokes an
    undefined left value (so `StrictUndefined | f` raises by `shape_strict_input`); kernel-decided over the generated
    filter list -/
theorem every_registered_filter_pokes_its_input :
    (LiquidVerif.Gen.C02.FilterName.all.filter (fun n => n.name != "default")).all
      (fun n => !(shapeOf n).inPokes.isEmpty) = true := by decide

/-- filtering a missing variable through a registered filter raises under `StrictUndefined` -/
theorem strict_undefined_raises_registered_filter (g : LiquidVerif.Gen.C02.FilterName → Data → List Data → Res)
    (n : LiquidVerif.Gen.C02.FilterName) (args : List Val) (hp : (shapeOf n).inPokes ≠ [])
    (ha : ¬ args.length < (shapeOf n).minArgs) :
    shapeSem (shapeOf n) (g n) (.undef .strict) args = .error .undefined :=
  shape_strict_input _ _ _ hp ha

/-- … and as an argument in a position whose conversion pokes it (plain input, plain arguments before it) -/
theorem strict_undefined_raises_registered_argument (os : List Operand) (pre : List Data) (rest : List Val)
    (o : Operand) (ho : os[pre.length]? = some o) (hp : o.pokes ≠ []) :
    convArgs os (pre.map Val.data ++ Val.undef .strict :: rest) = .error .undefined :=
  convArgs_strict os pre rest o ho hp

/-- the reviewed list of argument positions that are **not** looked at: exactly `default`'s argument -/
theorem untouched_argument_positions :
    (LiquidVerif.Gen.C02.FilterName.all.filter (fun n => (argOps n).2.any (fun o => o.pokes.isEmpty))).map (·.name)
      = ["default"] := by decide

/-! ### `Mode.LAX` / `Mode.WARN` (deepening round)

Under a tolerant mode `Environment.error` swallows the `UndefinedError` of a top-level node and the render goes on: a
render "succeeds" whatever happens, so the hypothesis of sentence 1 no longer says anything and the refinement is
**false** there; what remains true is stated after the counter-example. -/

/-- top-level render in `Mode.LAX` from plain data, output only -/
def renderLaxData (F : FilterSem) (k : Kind) (globals : List (String × Data)) (ss : List Stmt) : String :=
  (renderLax F k { scopes := [], locals := [], globals := globals.map (fun kv => (kv.1, Val.data kv.2)) } ss).2

/-- `a{{ m | append: "x" }}b` with `m` missing -/
def laxWitness : List Stmt := [.text "a", .output ⟨.path "m" [], [⟨"append", [.lit (.str "x")]⟩]⟩, .text "b"]

/-- **the refinement does not hold in `Mode.LAX`**: the default type renders `axb`, every strict type renders `ab`
    (the node is dropped) — both renders "succeed" -/
theorem lax_refinement_counterexample :
    renderLaxData builtinFilters .dflt [] laxWitness = "axb" ∧
    renderLaxData builtinFilters .strict [] laxWitness = "ab" ∧
    renderLaxData builtinFilters .falsy [] laxWitness = "ab" ∧
    renderLaxData builtinFilters .strictDefault [] laxWitness = "ab" := by decide

/-- what holds in `Mode.LAX`, 1: when no node raises under kind `k`, the lax render is the strict-mode render, hence
    (sentence 1) the default-kind output -/
theorem lax_agrees_when_no_node_raises (F : FilterSem) (hF : Refines F) (k : Kind) :
    ∀ (ss : List Stmt) (e : Env), (∀ s ∈ ss, ∀ e', (render F k e' s).isOk = true) →
      (renderLax F k e ss).2 = (renderLax F .dflt (relaxEnv e) ss).2 ∧
      relaxEnv (renderLax F k e ss).1 = (renderLax F .dflt (relaxEnv e) ss).1 := by
  intro ss
  induction ss with
  | nil => intro e _; exact ⟨rfl, rfl⟩
  | cons s rest ih =>
    intro e h
    have hs := h s List.mem_cons_self e
    cases hr : render F k e s with
    | error err => rw [hr] at hs; cases hs
    | ok p =>
      obtain ⟨e1, o1⟩ := p
      have hd := render_relax hF s e e1 o1 hr
      have := ih e1 (fun s' hs' => h s' (List.mem_cons_of_mem _ hs'))
      simp only [renderLax, hr, hd, this.1, this.2, and_self]

/-- what holds in `Mode.LAX`, 2: under the default type no node is ever dropped because of an `UndefinedError` — a
    dropped node raised something else -/
theorem lax_default_never_drops_for_undefined (s : Stmt) (e : Env) (he : relaxEnv e = e) :
    render builtinFilters .dflt e s ≠ .error .undefined :=
  render_quiet builtin_refines builtin_quiet s e he

/-! ### Non-vacuity -/

instance : DecidableEq (Except Err String) := fun a b =>
  match a, b with
  | .ok x, .ok y => if h : x = y then isTrue (by rw [h]) else isFalse (by intro h2; cases h2; exact h rfl)
  | .error x, .error y => if h : x = y then isTrue (by rw [h]) else isFalse (by intro h2; cases h2; exact h rfl)
  | .ok _, .error _ => isFalse (by intro h; cases h)
  | .error _, .ok _ => isFalse (by intro h; cases h)

/-- data `{user: {name: "Ann"}, items: [1, 2]}` -/
def g0 : List (String × Data) := [("user", .dict [("name", .str "Ann")]), ("items", .list [.int 1, .int 2])]

/-- `{% for i in items %}{{ i }}{% endfor %}{{ user.email | default: "none" }}{% if nope %}x{% else %}y{% endif %}` -/
def t0 : Stmt :=
  .seq (.for_ "i" (.path "items" []) (.output ⟨.path "i" [], []⟩) .nop)
    (.seq (.output ⟨.path "user" [.key "email"], [⟨"default", [.lit (.str "none")]⟩]⟩)
      (.ifs (.prim (.path "nope" [])) (.text "x") (.text "y")))

-- the hypothesis of `strict_refines_default_builtin` is met by kinds that tolerate what the template does …
example : renderData builtinFilters .falsy g0 t0 = .ok "12noney" := by decide
example : renderData builtinFilters .dflt g0 t0 = .ok "12noney" := by decide
-- … and is not met by `StrictUndefined` (the `default` filter pokes `__liquid__`)
example : renderData builtinFilters .strict g0 t0 = .error .undefined := by decide
-- `StrictDefaultUndefined` passes the filter but raises on `{% if nope %}`
example : renderData builtinFilters .strictDefault g0 t0 = .error .undefined := by decide
-- `Missing` is satisfiable: a removed key and a removed sub-path
example : Missing { scopes := [], locals := [], globals := g0.map (fun kv => (kv.1, .data kv.2)) } (.path "nope" []) := by
  unfold Missing; rfl
example : Missing { scopes := [], locals := [], globals := g0.map (fun kv => (kv.1, .data kv.2)) }
    (.path "user" [.key "email", .key "host"]) := by unfold Missing; rfl
-- the default kind may still raise something that is not `UndefinedError`
example : renderData builtinFilters .dflt g0 (.ifs (.cmp .lt (.path "nope" []) (.lit (.int 1))) .nop .nop)
    = .error .other := by decide

end LiquidVerif.C16
