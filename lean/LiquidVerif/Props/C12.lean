import LiquidVerif.Model.BoolParse
namespace LiquidVerif.C12
open LiquidVerif.Value LiquidVerif.Cond LiquidVerif.BoolParse

/-- "only false and nil (including undefined values) are falsy": for every value. -/
theorem truthy_iff (v : Val) : isTruthy v = false ↔ (v = .nil ∨ v = .bool false ∨ v = .undef) := by
  cases v <;> simp [isTruthy, toLiquid]
  case bool b => cases b <;> simp

end LiquidVerif.C12
