import LiquidVerif.Lemmas.BoolParse
/-!
# C12 — conditions follow Liquid truthiness and operator rules

Property theorems about `Model/Value.lean`, `Model/Cond.lean` (is_truthy, _eq, _lt, _contains, the tags) and
`Model/BoolParse.lean` (the Pratt parser of `logical.py`, its precedence tables regenerated into
`Gen/C12Tables.lean` on every run).  Helper lemmas live in `Lemmas/`.
-/
namespace LiquidVerif.C12
open LiquidVerif.Value LiquidVerif.Cond LiquidVerif.BoolParse
open LiquidVerif.Gen

/-! ## "only false and nil (including undefined values) are falsy" -/

/-- For **every** value: it is falsy iff it is nil, false or undefined (so `0`, `0.0`, `""`, `[]`, `{}`,
    empty ranges, NaN, `empty` and `blank` are all truthy). -/
theorem truthy_iff (v : Val) : isTruthy v = false ↔ (v = .nil ∨ v = .bool false ∨ v = .undef) := by
  cases v <;> simp [isTruthy, toLiquid]
  case bool b => cases b <;> simp

example : isTruthy (.int 0) = true ∧ isTruthy (.str "") = true ∧ isTruthy (.list []) = true ∧
    isTruthy (.float .nan) = true ∧ isTruthy .empty = true := by decide

/-! ## "`and` and `or` have equal precedence and group from the right unless parentheses say otherwise" -/

/-- `and` and `or` have the same precedence in the table read from the source, below every comparison
    operator, and `contains` binds tighter than the relational operators. -/
theorem and_or_equal_precedence :
    prec (.op .and) = prec (.op .or) ∧
    (∀ o : Op, o ≠ .and → o ≠ .or → prec (.op .and) < prec (.op o)) ∧
    (∀ o : Op, o ≠ .and → o ≠ .or → o ≠ .contains → prec (.op o) < prec (.op .contains)) := by
  refine ⟨by decide, ?_, ?_⟩ <;> intro o <;> cases o <;> decide

/-- Every token kind has a precedence of at least `PRECEDENCE_LOWEST`, so a parse at the lowest precedence stops
    only at the end of input or at a token that is not a binary operator (this is why the `while` body of
    `parse_grouped_expression` can only raise). -/
theorem prec_ge_lowest (t : Tok) : C12Tables.groupPrec ≤ prec t ∧ C12Tables.topPrec ≤ prec t := by
  cases t with
  | op o => cases o <;> decide
  | atom n => exact ⟨by simp only [prec]; decide, by simp only [prec]; decide⟩
  | _ => decide

inductive LogOp | and | or
  deriving DecidableEq, Repr

def LogOp.tok : LogOp → Tok
  | .and => .op .and
  | .or => .op .or

def LogOp.mk : LogOp → E → E → E
  | .and, l, r => .and l r
  | .or, l, r => .or l r

/-- what may follow an operand of an `and`/`or` chain: the end, a non-operator (`)` `,` `else` …), or `and`/`or` -/
def LowStop (rest : List Tok) : Prop :=
  Stop rest ∨ ∃ (o : LogOp) (r : List Tok), rest = o.tok :: r

/-- `ts` is an *operand* read as the tree `e`: in operand position, at the precedence of a whole condition or of
    the right-hand side of `and`/`or`, the parser reads exactly `ts`, builds `e`, and goes on with what follows. -/
def IsOperand (fl : Flags) (ts : List Tok) (e : E) : Prop :=
  ∀ p rest, p ≤ prec (.op .and) → LowStop rest → parsePrim fl p (ts ++ rest) = loop fl p e rest

/-- `ts` is a *primary*: read as the unit `e` whatever the precedence and whatever follows. -/
def IsPrimary (fl : Flags) (ts : List Tok) (e : E) : Prop :=
  ∀ p rest, parsePrim fl p (ts ++ rest) = loop fl p e rest

/-- the token list `a₁ op₁ a₂ op₂ … aₙ` -/
def chainToks : List Tok → List (LogOp × List Tok × E) → List Tok
  | a, [] => a
  | a, (o, b, _) :: r => a ++ o.tok :: chainToks b r

/-- the tree `a₁ op₁ (a₂ op₂ (… aₙ))` -/
def chainTree : E → List (LogOp × List Tok × E) → E
  | a, [] => a
  | a, (o, _, eb) :: r => o.mk a (chainTree eb r)

theorem chain_aux (fl : Flags) (tail : List Tok) (ht : Stop tail) :
    ∀ (rest : List (LogOp × List Tok × E)) (a : List Tok) (ea : E) (p : Nat), p ≤ prec (.op .and) →
      IsOperand fl a ea → (∀ x ∈ rest, IsOperand fl x.2.1 x.2.2) →
      parsePrim fl p (chainToks a rest ++ tail) = some (chainTree ea rest, tail) := by
  intro rest
  induction rest with
  | nil =>
    intro a ea p hp ha _
    simp only [chainToks, chainTree]
    rw [ha p tail hp (Or.inl ht)]
    exact loop_at_stop fl p ea tail ht
  | cons x rest ih =>
    intro a ea p hp ha hr
    obtain ⟨o, b, eb⟩ := x
    simp only [chainToks, chainTree, List.append_assoc, List.cons_append]
    rw [ha p _ hp (Or.inr ⟨o, _, rfl⟩)]
    have hb : IsOperand fl b eb := hr (o, b, eb) (by simp)
    have hrec := ih b eb (prec o.tok) (by cases o <;> decide) hb (fun x hx => hr x (by simp [hx]))
    have hstop : stops o.tok p = false := by
      have : prec o.tok = prec (.op .and) := by cases o <;> decide
      simp [stops, C12Tables.breakStrict, this]; omega
    rw [loop_bin fl p ea o.tok _ tail (chainTree eb rest) (o.mk ea (chainTree eb rest)) hstop
      (by cases o <;> decide) hrec (by cases o <;> rfl)]
    exact loop_at_stop fl p _ tail ht

/-- **Right associativity, any chain length.**  A condition `a₁ op₁ a₂ op₂ … aₙ` whose `opᵢ` are `and`/`or` in
    any mixture and whose `aᵢ` are operands (atoms, comparisons, parenthesised groups — see `operand_*`) parses
    to `a₁ op₁ (a₂ op₂ (… aₙ))`.  By induction on the list; no bound on its length. -/
theorem parse_right_assoc (fl : Flags) (a : List Tok) (ea : E) (rest : List (LogOp × List Tok × E))
    (ha : IsOperand fl a ea) (hr : ∀ x ∈ rest, IsOperand fl x.2.1 x.2.2) :
    parse fl (chainToks a rest) = some (chainTree ea rest) := by
  have := chain_aux fl [] (Or.inl rfl) rest a ea C12Tables.topPrec (by decide) ha hr
  simp only [List.append_nil] at this
  simp [parse, this]

/-- The same inside a ternary (`inline=True`) or before a `)`: the chain is read up to the first token that is
    not a binary operator, which is left in the stream. -/
theorem parse_right_assoc_inline (fl : Flags) (a : List Tok) (ea : E) (rest : List (LogOp × List Tok × E))
    (tail : List Tok) (ht : Stop tail)
    (ha : IsOperand fl a ea) (hr : ∀ x ∈ rest, IsOperand fl x.2.1 x.2.2) :
    parseInline fl (chainToks a rest ++ tail) = some (chainTree ea rest, tail) :=
  chain_aux fl tail ht rest a ea C12Tables.topPrec (by decide) ha hr

/-- a literal / path / range literal is a primary -/
theorem primary_atom (fl : Flags) (n : Nat) : IsPrimary fl [.atom n] (.atom n) := by
  intro p rest; simpa using parsePrim_atom fl p n rest

/-- **Parentheses say otherwise.**  With `logical_parentheses` on, `( X )` is a primary read as whatever `X`
    alone parses to — for every token list `X`, however deep. -/
theorem primary_group (fl : Flags) (inner : List Tok) (e : E) (hp : fl.allowParens = true)
    (h : parse fl inner = some e) : IsPrimary fl (.lp :: inner ++ [.rp]) e := by
  intro p rest
  have h0 : parsePrim fl C12Tables.groupPrec inner = some (e, []) := by
    unfold parse at h
    have : C12Tables.groupPrec = C12Tables.topPrec := by decide
    rw [this]
    split at h <;> simp_all
  have h1 := parsePrim_append (.rp :: rest) (Or.inr ⟨.rp, rest, rfl, by decide⟩) h0
  simp only [List.nil_append] at h1
  have := parsePrim_group fl p (inner ++ .rp :: rest) rest e hp h1
  simpa using this

theorem operand_of_primary {fl ts e} (h : IsPrimary fl ts e) : IsOperand fl ts e :=
  fun p rest _ _ => h p rest

/-- the comparison node an operator token builds -/
def cmpOf : Op → Option Cmp
  | .eq => some .eq | .ne => some .ne | .lg => some .ne | .lt => some .lt | .gt => some .gt
  | .le => some .le | .ge => some .ge | .contains => some .contains | .and => none | .or => none

/-- **Comparisons bind tighter than `and`/`or`.**  `x ⋈ y` between primaries is one operand of a chain: what
    follows (`and`, `or`, `)`, end) is not swallowed by `y`. -/
theorem operand_cmp (fl : Flags) (a b : List Tok) (ea eb : E) (o : Op) (c : Cmp) (ho : cmpOf o = some c)
    (ha : IsPrimary fl a ea) (hb : IsPrimary fl b eb) :
    IsOperand fl (a ++ .op o :: b) (.cmp c ea eb) := by
  intro p rest hp hrest
  have hlow : loop fl (prec (.op o)) eb rest = some (eb, rest) := by
    rcases hrest with hs | ⟨lo, r, rfl⟩
    · exact loop_at_stop _ _ _ _ hs
    · apply loop_stop
      left
      cases lo <;> cases o <;> simp [cmpOf] at ho <;> decide
  have hpp : parsePrim fl (prec (.op o)) (b ++ rest) = some (eb, rest) := by rw [hb]; exact hlow
  have hstop : stops (.op o) p = false := by
    have : prec (.op .and) ≤ prec (.op o) := by cases o <;> decide
    simp [stops, C12Tables.breakStrict]; omega
  have hbin : isBin (.op o) = true := by cases o <;> decide
  have hmk : mkInfix (.op o) ea eb = some (.cmp c ea eb) := by
    cases o <;> simp [cmpOf] at ho <;> subst ho <;> rfl
  simp only [List.append_assoc, List.cons_append]
  rw [ha, loop_bin fl p ea (.op o) (b ++ rest) rest eb _ hstop hbin hpp hmk]

/-- **`not` takes everything to its right**: `not X` is the negation of whatever `X` parses to. -/
theorem not_spec (fl : Flags) (ts : List Tok) (e : E) (hn : fl.allowNot = true) (h : parse fl ts = some e) :
    parse fl (.not :: ts) = some (.not e) := by
  have h0 : parsePrim fl C12Tables.notOperandPrec ts = some (e, []) := by
    unfold parse at h
    have : C12Tables.notOperandPrec = C12Tables.topPrec := by decide
    rw [this]
    split at h <;> simp_all
  have := parsePrim_not fl C12Tables.topPrec ts [] e hn h0
  simp [parse, this, loop_nil]

/-- The default environment (`logical_not_operator = logical_parentheses = False`) rejects both. -/
theorem default_env_rejects (ts : List Tok) :
    parse ⟨false, false⟩ (.not :: ts) = none ∧ parse ⟨false, false⟩ (.lp :: ts) = none := by
  constructor <;> simp [parse, parsePrim]

/-- A successful parse consumes tokens (`parse_boolean_primitive` always advances): the `else none` branches of
    the model are dead, and a condition of `n` tokens is parsed in at most `n` recursive calls. -/
theorem tokens_strictly_consumed (fl : Flags) (p : Nat) (ts : List Tok) (e : E) (r : List Tok)
    (h : parsePrim fl p ts = some (e, r)) : r.length < ts.length := parsePrim_consumes h

/-! ### non-vacuity: the documentation's own example and a grouped one -/

/-- `true and false and false or true` is `(true and (false and (false or true)))` (docs/tag_reference.md) -/
example : parse ⟨false, false⟩ [.atom 0, .op .and, .atom 1, .op .and, .atom 2, .op .or, .atom 3]
    = some (.and (.atom 0) (.and (.atom 1) (.or (.atom 2) (.atom 3)))) :=
  parse_right_assoc _ [.atom 0] (.atom 0)
    [(.and, [.atom 1], .atom 1), (.and, [.atom 2], .atom 2), (.or, [.atom 3], .atom 3)]
    (operand_of_primary (primary_atom _ 0))
    (by
      intro x hx
      simp at hx
      rcases hx with rfl | rfl | rfl <;> exact operand_of_primary (primary_atom _ _))

/-- … and it evaluates to false, where Python's grouping would give true -/
example : evalCond (fun n => .bool (n == 0 || n == 3)) (fun _ => "")
    (.and (.atom 0) (.and (.atom 1) (.or (.atom 2) (.atom 3)))) = .ok false := by decide

/-- `(a or b) and c == d or e` : group, comparison and chain together -/
example : parse ⟨true, true⟩
    [.lp, .atom 0, .op .or, .atom 1, .rp, .op .and, .atom 2, .op .eq, .atom 3, .op .or, .atom 4]
    = some (.and (.or (.atom 0) (.atom 1)) (.or (.cmp .eq (.atom 2) (.atom 3)) (.atom 4))) := by
  have hg : IsPrimary ⟨true, true⟩ (.lp :: [.atom 0, .op .or, .atom 1] ++ [.rp]) (.or (.atom 0) (.atom 1)) :=
    primary_group _ _ _ rfl
      (parse_right_assoc _ [.atom 0] (.atom 0) [(.or, [.atom 1], .atom 1)]
        (operand_of_primary (primary_atom _ 0))
        (by intro x hx; simp at hx; subst hx; exact operand_of_primary (primary_atom _ _)))
  exact parse_right_assoc _ _ _
    [(.and, [.atom 2, .op .eq, .atom 3], .cmp .eq (.atom 2) (.atom 3)), (.or, [.atom 4], .atom 4)]
    (operand_of_primary hg)
    (by
      intro x hx
      simp at hx
      rcases hx with rfl | rfl
      · exact operand_cmp _ [.atom 2] [.atom 3] _ _ .eq .eq rfl (primary_atom _ 2) (primary_atom _ 3)
      · exact operand_of_primary (primary_atom _ _))

end LiquidVerif.C12
