import LiquidVerif.Lemmas.CondParse
import LiquidVerif.Lemmas.Cond
import LiquidVerif.Lemmas.CondDeep
/-!
# C12 — conditions follow Liquid truthiness and operator rules

Property theorems about `Model/Value.lean`, `Model/Cond.lean` (is_truthy, _eq, _lt, _contains, the tags) and
`Model/CondParse.lean` (the Pratt parser of `logical.py`, its precedence tables regenerated into
`Gen/C12Tables.lean` on every run).  Helper lemmas live in `Lemmas/`.
-/
namespace LiquidVerif.C12
open LiquidVerif.Value LiquidVerif.Cond LiquidVerif.CondParse
open LiquidVerif.Gen

/-! ## "only false and nil (including undefined values) are falsy" -/

/-- For **every** value: it is falsy iff it is nil, false or undefined (so `0`, `0.0`, `""`, `[]`, `{}`,
    empty ranges, NaN, `empty` and `blank` are all truthy). -/
theorem truthy_iff (v : Val) : isTruthy v = false ↔ (v = .nil ∨ v = .bool false ∨ v = .undef) := by
  cases v <;> simp [isTruthy, toLiquid]
  case bool b => cases b <;> simp

example : isTruthy (.int 0) = true ∧ isTruthy (.str "") = true ∧ isTruthy (.list []) = true ∧
    isTruthy (.float .nan) = true ∧ isTruthy .empty = true := by decide

/-! ## "comparison operators, contains, empty and blank give the documented result for every pair of operand values" -/

/-- the classes of the documented table (`undefined` reads as nil; `Markup` as a string; the three number
    types as one exact number) -/
inductive Kind
  | nil | bool (b : Bool) | num (x : Ext) | text (s : String)
  | list (xs : List Val) | dict (kvs : List (String × Val)) | range (a b : Int) | empty | blank

def kindOf : Val → Kind
  | .nil => .nil
  | .undef => .nil
  | .bool b => .bool b
  | .int i => .num (.fin (Q.ofInt i))
  | .float f => .num (Ext.ofFlt f)
  | .dec q => .num (.fin q)
  | .str s => .text s
  | .markup s => .text s
  | .list xs => .list xs
  | .dict kvs => .dict kvs
  | .range a b => .range a b
  | .empty => .empty
  | .blank => .blank

def isEmptyKind : Kind → Bool
  | .empty => true
  | .text s => s.toList.isEmpty
  | .list xs => xs.isEmpty
  | .dict kvs => kvs.isEmpty
  | _ => false

def isBlankKind : Kind → Bool
  | .blank => true
  | .text s => blankText s
  | .list xs => xs.isEmpty
  | .dict kvs => kvs.isEmpty
  | _ => false

def specEq (a b : Val) : Bool :=
  match kindOf a, kindOf b with
  | .empty, k => isEmptyKind k
  | k, .empty => isEmptyKind k
  | .blank, k => isBlankKind k
  | k, .blank => isBlankKind k
  | .nil, .nil => true
  | .bool x, .bool y => x == y
  | .num x, .num y => x.eq y
  | .text s, .text t => s == t
  | .list xs, .list ys => pyEqL xs ys
  | .dict xs, .dict ys => pyEqD xs ys
  | .range a b, .range c d => rangeEq a b c d
  | _, _ => false

/-- **`==` gives the documented result for every pair of values**: the `_eq` of the code (two operand swaps, the
    `bool` guard, Python `==` underneath) equals the table above written by class — in particular `true == 1`
    is false, `empty` equals exactly the empty string/array/hash, `blank` additionally whitespace-only strings,
    `undefined == nil`, `1 == 1.0`, NaN equals nothing. (`!=`/`<>` are its negation: `cmp_defs`.) -/
theorem eq_spec (a b : Val) : liquidEq a b = specEq a b := by
  cases a <;> cases b <;>
    simp [liquidEq, specEq, kindOf, toLiquid, Val.isSentinel, Val.isBool, pyEq, Val.pyNum?, Val.num?, emptyEq,
      blankEq, isEmptyKind, isBlankKind, boolQ_eq, Ext.eq, Bool.beq_comm]

/-- the documented ordering: strings by code point, numbers numerically (NaN compares false), a boolean on
    either side compares false, anything else is a type error -/
def specLt (a b : Val) : Res Bool :=
  match kindOf a, kindOf b with
  | .text s, .text t => .ok (decide (s < t))
  | .bool _, _ => .ok false
  | _, .bool _ => .ok false
  | .num x, .num y => .ok (x.lt y)
  | _, _ => .typeError

/-- the one pair of classes on which CPython itself raises: `Decimal` against a float NaN -/
def DecVsNan (a b : Val) : Bool := decVsNan (toLiquid a) (toLiquid b)

/-- **`<` (and `>`, by swapping) gives the documented result** for every pair of values except a `Decimal`
    against a float NaN (excluded by the decidable hypothesis; see the counter-example). -/
theorem lt_spec_partial (a b : Val) (h : DecVsNan a b = false) : liquidLt a b = specLt a b := by
  cases a <;> cases b <;>
    simp_all [liquidLt, specLt, kindOf, toLiquid, Val.text?, Val.isBool, Val.num?, DecVsNan, decVsNan]
  all_goals (rename_i f _; cases f <;> simp_all [Ext.ofFlt])

/-- The full statement fails for the code: `Decimal('1') < float('nan')` raises `decimal.InvalidOperation`
    (not a Liquid error) instead of being false. Replayed on the implementation as a known finding. -/
theorem lt_spec_counterexample :
    ¬ (liquidLt (.dec ⟨1, 0⟩) (.float .nan) = specLt (.dec ⟨1, 0⟩) (.float .nan)) := by decide


def Kind.isText : Kind → Bool | .text _ => true | _ => false
def Kind.isNum : Kind → Bool | .num _ => true | _ => false
def Kind.isBool : Kind → Bool | .bool _ => true | _ => false

/-- operand classes that `<` `>` `<=` `>=` cannot order: not two strings, not two numbers, and no boolean
    (a boolean operand makes the comparison false by an explicit rule of `_lt`) -/
def Incompatible (a b : Val) : Bool :=
  !((kindOf a).isText && (kindOf b).isText) && !((kindOf a).isNum && (kindOf b).isNum) &&
  !(kindOf a).isBool && !(kindOf b).isBool

/-- **"ordering comparisons between incompatible types raise a Liquid type error"**: `<` raises
    `LiquidTypeError` exactly on the incompatible pairs. -/
theorem ordering_type_error_iff (a b : Val) : liquidLt a b = .typeError ↔ Incompatible a b = true := by
  cases a <;> cases b <;>
    simp [liquidLt, Incompatible, kindOf, toLiquid, Val.text?, Val.isBool, Val.num?,
      Kind.isText, Kind.isNum, Kind.isBool]
  all_goals (split <;> simp)

/-- the explicit rule of `_lt` that `Incompatible` spells out: a boolean on either side never raises, the
    comparison is just false -/
theorem ordering_with_bool_is_false (a : Val) (t : Bool) :
    liquidLt a (.bool t) = .ok false ∧ liquidLt (.bool t) a = .ok false := by
  cases a <;> simp [liquidLt, toLiquid, Val.text?, Val.isBool]

/-- `!=`/`<>` is the negation of `==`; `>` is `<` with the operands swapped; `<=`/`>=` are "equal, or else
    ordered" (so `nil <= nil` is true and raises nothing) -/
theorem cmp_defs (hs : String) (a b : Val) :
    evalCmp hs .ne a b = .ok (!liquidEq a b) ∧
    evalCmp hs .gt a b = liquidLt b a ∧
    evalCmp hs .le a b = (if liquidEq a b then .ok true else liquidLt a b) ∧
    evalCmp hs .ge a b = (if liquidEq a b then .ok true else liquidLt b a) := by
  simp [evalCmp]

/-- `<=`/`>=` raise a type error exactly when the operands are not equal and cannot be ordered -/
theorem le_ge_type_error_iff (hs : String) (a b : Val) :
    (evalCmp hs .le a b = .typeError ↔ (specEq a b = false ∧ Incompatible a b = true)) ∧
    (evalCmp hs .ge a b = .typeError ↔ (specEq a b = false ∧ Incompatible b a = true)) := by
  simp only [evalCmp, eq_spec, ← ordering_type_error_iff]
  constructor <;> (cases specEq a b <;> simp)


/-! ## contains -/

/-- the classes `contains` can search: strings, arrays, hashes, ranges -/
def Searchable : Val → Bool
  | .str _ => true | .markup _ => true | .list _ => true | .dict _ => true | .range _ _ => true | _ => false

/-- `contains` with a falsy operand (nil, false, undefined) on either side is false, never an error -/
theorem contains_falsy (hs : String) (a b : Val) (h : isTruthy a = false ∨ isTruthy b = false) :
    liquidContains hs a b = .ok false := by
  rcases h with h | h <;> simp [liquidContains, h]

/-- a string (or Markup) contains the right operand iff the operand's text is a contiguous substring -/
theorem contains_string (hs : String) (a b : Val) (s : String) (ha : a.text? = some s) (hb : isTruthy b = true) :
    ∃ r, liquidContains hs a b = .ok r ∧ (r = true ↔ (strOfRight hs b).toList <:+: s.toList) := by
  cases a <;> simp [Val.text?] at ha <;> subst ha <;>
    exact ⟨_, by simp [liquidContains, hb, show ∀ s, isTruthy (Val.str s) = true from fun _ => rfl,
      show ∀ s, isTruthy (Val.markup s) = true from fun _ => rfl], isInfixB_iff _ _⟩

/-- an array contains `b` iff some item is Liquid-equal (`==`) to `b` -/
theorem contains_list (hs : String) (xs : List Val) (b : Val) (hb : isTruthy b = true) :
    ∃ r, liquidContains hs (.list xs) b = .ok r ∧ (r = true ↔ ∃ x ∈ xs, liquidEq x b = true) :=
  ⟨xs.any fun x => liquidEq x b, by simp [liquidContains, hb, show isTruthy (Val.list xs) = true from rfl], by simp⟩

/-- a hash contains `b` iff some key is Liquid-equal to `b` -/
theorem contains_dict (hs : String) (kvs : List (String × Val)) (b : Val) (hb : isTruthy b = true) :
    ∃ r, liquidContains hs (.dict kvs) b = .ok r ∧ (r = true ↔ ∃ kv ∈ kvs, liquidEq (.str kv.1) b = true) :=
  ⟨kvs.any fun kv => liquidEq (.str kv.1) b,
    by simp [liquidContains, hb, show isTruthy (Val.dict kvs) = true from rfl], by simp⟩

/-- a range contains `b` iff some integer of the range is Liquid-equal to `b` (`1.0` is found, `true` is not) -/
theorem contains_range (hs : String) (lo hi : Int) (b : Val) (hb : isTruthy b = true) :
    ∃ r, liquidContains hs (.range lo hi) b = .ok r ∧
      (r = true ↔ ∃ i : Int, lo ≤ i ∧ i < hi ∧ liquidEq (.int i) b = true) := by
  refine ⟨rangeAny lo hi b, by simp [liquidContains, hb, show isTruthy (Val.range lo hi) = true from rfl], ?_⟩
  simp only [rangeAny, List.any_eq_true, List.mem_range]
  constructor
  · rintro ⟨k, hk, he⟩
    exact ⟨lo + k, by omega, by omega, he⟩
  · rintro ⟨i, h1, h2, he⟩
    refine ⟨(i - lo).toNat, by omega, ?_⟩
    have : lo + ((i - lo).toNat : Int) = i := by omega
    rw [this]; exact he

/-- `contains` raises a Liquid type error exactly when both operands are truthy and the left one is not a
    string, array, hash or range -/
theorem contains_type_error_iff (hs : String) (a b : Val) :
    liquidContains hs a b = .typeError ↔ (isTruthy a = true ∧ isTruthy b = true ∧ Searchable a = false) := by
  unfold liquidContains
  cases ha : isTruthy a <;> cases hb : isTruthy b <;> simp
  cases a <;> simp [Searchable]

/-- membership no longer confuses `true` with `1` (the first `fix:` commit): a boolean is found in an array only
    if the array holds that boolean -/
theorem contains_bool_exact (hs : String) (xs : List Val) (t : Bool) :
    liquidContains hs (.list xs) (.bool t) = .ok true ↔ (t = true ∧ Val.bool true ∈ xs) := by
  cases t
  · simp [liquidContains, isTruthy, toLiquid]
  · simp only [liquidContains, isTruthy, toLiquid, Bool.not_true, Bool.or_self, Bool.false_eq_true, ↓reduceIte,
      Res.ok.injEq, List.any_eq_true, true_and]
    constructor
    · rintro ⟨x, hx, he⟩
      rw [eq_spec] at he
      cases x <;> simp [specEq, kindOf, isEmptyKind, isBlankKind] at he
      subst he; exact hx
    · intro h
      exact ⟨_, h, by decide⟩

/-! ## arrays: item-wise equality, and where Python's `True == 1` still shows -/

/-- Arrays are equal iff they have the same length and their items are pairwise Liquid-equal — **provided no
    item is a boolean** (or undefined / an `empty`/`blank` literal). -/
theorem list_eq_itemwise_partial (xs ys : List Val)
    (hx : ∀ x ∈ xs, Plain x = true) (hy : ∀ y ∈ ys, Plain y = true) :
    liquidEq (.list xs) (.list ys) =
      (decide (xs.length = ys.length) && (List.zipWith liquidEq xs ys).all id) := by
  rw [← pyEqL_itemwise xs ys hx hy]
  simp [liquidEq, toLiquid, Val.isSentinel, Val.isBool, pyEq]

/-- The full statement ("arrays are equal iff their items are pairwise Liquid-equal") is **false** for the code:
    `[1] == [true]` is true although `1 == true` is false (items are compared with Python's `==`). -/
theorem list_eq_itemwise_counterexample :
    ¬ (liquidEq (.list [.int 1]) (.list [.bool true]) =
        (decide ([Val.int 1].length = [Val.bool true].length) &&
          (List.zipWith liquidEq [.int 1] [.bool true]).all id)) := by decide

/-! ## tags -/

/-- `if c₀ … elsif c₁ … elsif cₙ`: block `i` is rendered iff `cᵢ` is true and every earlier condition was
    false (none of them raised). -/
theorem selectFrom_spec (cs : List (Res Bool)) (k i : Nat) :
    selectFrom k cs = .ok (some (k + i)) ↔
      (cs[i]? = some (.ok true) ∧ ∀ j < i, cs[j]? = some (.ok false)) := by
  induction cs generalizing k i with
  | nil => simp [selectFrom]
  | cons c cs ih =>
    cases c with
    | ok b =>
      cases b
      · cases i with
        | zero =>
          constructor
          · intro h
            have := selectFrom_ge cs (k + 1) (k + 0) (by simpa [selectFrom] using h)
            omega
          · rintro ⟨h1, _⟩; simp at h1
        | succ i =>
          simp only [selectFrom]
          rw [show k + (i + 1) = k + 1 + i by omega, ih (k + 1) i]
          constructor
          · rintro ⟨h1, h2⟩
            refine ⟨by simpa using h1, ?_⟩
            intro j hj
            cases j with
            | zero => simp
            | succ j => simpa using h2 j (by omega)
          · rintro ⟨h1, h2⟩
            refine ⟨by simpa using h1, ?_⟩
            intro j hj
            simpa using h2 (j + 1) (by omega)
      · cases i with
        | zero => simp [selectFrom]
        | succ i =>
          simp only [selectFrom, Res.ok.injEq, Option.some.injEq]
          constructor
          · intro h; omega
          · rintro ⟨_, h2⟩
            have := h2 0 (by omega)
            simp at this
    | typeError =>
      simp only [selectFrom]
      constructor
      · intro h; cases h
      · rintro ⟨h1, h2⟩
        cases i with
        | zero => simp at h1
        | succ i => have := h2 0 (by omega); simp at this
    | hostError =>
      simp only [selectFrom]
      constructor
      · intro h; cases h
      · rintro ⟨h1, h2⟩
        cases i with
        | zero => simp at h1
        | succ i => have := h2 0 (by omega); simp at this

/-- `{% if %}`: the i-th conditional block is rendered iff its condition is the first true one. -/
theorem if_selects_first_truthy (cs : List (Res Bool)) (i : Nat) :
    ifSelect cs = .ok (some i) ↔ (cs[i]? = some (.ok true) ∧ ∀ j < i, cs[j]? = some (.ok false)) := by
  simpa [ifSelect] using selectFrom_spec cs 0 i

/-- `{% unless c %}`: its block is rendered iff `c` is false; the `elsif` conditions that follow are ordinary. -/
theorem unless_negates_first (c : Bool) (cs : List (Res Bool)) :
    unlessSelect (.ok c :: cs) = ifSelect (.ok (!c) :: cs) := by
  simp [unlessSelect, ifSelect, Res.bind]

/-- a ternary picks its left value iff the condition is true -/
theorem ternary_spec (c hasElse : Bool) :
    ternarySelect (.ok c) hasElse = .ok (if c then some true else if hasElse then some false else none) := by
  simp [ternarySelect, Res.bind]

/-- `case`/`when`: a `when` block is rendered once per value equal (Liquid `==`) to the subject; whether a later
    `else` is rendered depends only on whether some earlier `when` matched. -/
theorem case_when_count (subj : Val) (d : Bool) (vs : List Val) (rest : List CaseBlock) :
    caseGo subj d (.when vs :: rest) =
      (vs.filter fun v => liquidEq subj v).length ::
        caseGo subj (d && (vs.filter fun v => liquidEq subj v).length == 0) rest := by
  simp [caseGo]

theorem case_else (subj : Val) (d : Bool) (rest : List CaseBlock) :
    caseGo subj d (.else_ :: rest) = (if d then 1 else 0) :: caseGo subj d rest := by
  simp [caseGo]


/-! ### non-vacuity: the corners the statement names -/

example : liquidEq (.bool true) (.int 1) = false ∧ liquidEq (.int 1) (.bool true) = false ∧
    liquidEq (.int 1) (.float (.fin ⟨1, 0⟩)) = true ∧ liquidEq (.dec ⟨3, 1⟩) (.float (.fin ⟨3, 1⟩)) = true ∧
    liquidEq .empty (.str "") = true ∧ liquidEq (.str " ") .empty = false ∧ liquidEq (.str " \t") .blank = true ∧
    liquidEq (.list []) .empty = true ∧ liquidEq .undef .nil = true ∧ liquidEq (.float .nan) (.float .nan) = false ∧
    liquidEq .empty .blank = false ∧ liquidEq (.markup "a") (.str "a") = true := by decide

example : liquidLt (.str "a") (.str "b") = .ok true ∧ liquidLt (.int 1) (.float (.fin ⟨3, 1⟩)) = .ok true ∧
    liquidLt (.int 1) (.float .nan) = .ok false ∧ liquidLt .nil (.int 1) = .typeError ∧
    liquidLt (.str "1") (.int 2) = .typeError ∧ liquidLt (.bool true) (.int 1) = .ok false ∧
    evalCmp "" .le .nil .nil = .ok true ∧ evalCmp "" .ge (.list []) (.int 1) = .typeError := by decide

example : liquidContains "" (.range 1 4) (.float (.fin ⟨1, 0⟩)) = .ok true ∧
    liquidContains "" (.range 0 4) (.bool true) = .ok false ∧
    liquidContains "" (.list [.int 1]) (.bool true) = .ok false ∧
    liquidContains "" (.str "it is true") (.bool true) = .ok true ∧
    liquidContains "" (.dict [("a", .int 1)]) (.list []) = .ok false ∧
    liquidContains "" (.int 1) (.int 1) = .typeError ∧ liquidContains "" .nil (.int 1) = .ok false := by decide

example : ifSelect [.ok false, .ok true, .typeError] = .ok (some 1) ∧ ifSelect [.ok false, .typeError] = .typeError ∧
    unlessSelect [.ok false] = .ok (some 0) ∧
    caseRender (.int 1) [.when [.int 1, .float (.fin ⟨1, 0⟩), .bool true], .else_, .when [.str "1"], .else_]
      = [2, 0, 0, 0] := by decide

/-! ## "`and` and `or` have equal precedence and group from the right unless parentheses say otherwise" -/

/-- `and` and `or` have the same precedence in the table read from the source, below every comparison
    operator, and `contains` binds tighter than the relational operators. -/
theorem and_or_equal_precedence :
    prec (.op .and) = prec (.op .or) ∧
    (∀ o : Op, o ≠ .and → o ≠ .or → prec (.op .and) < prec (.op o)) ∧
    (∀ o : Op, o ≠ .and → o ≠ .or → o ≠ .contains → prec (.op o) < prec (.op .contains)) := by
  refine ⟨by decide, ?_, ?_⟩ <;> intro o <;> cases o <;> decide

/-- Every token kind has a precedence of at least `PRECEDENCE_LOWEST`, so a parse at the lowest precedence stops
    only at the end of input or at a token that is not a binary operator (this is why the `while` body of
    `parse_grouped_expression` can only raise). -/
theorem prec_ge_lowest (t : Tok) : C12Tables.groupPrec ≤ prec t ∧ C12Tables.topPrec ≤ prec t := by
  cases t with
  | op o => cases o <;> decide
  | atom n => exact ⟨by simp only [prec]; decide, by simp only [prec]; decide⟩
  | _ => decide

inductive LogOp | and | or
  deriving DecidableEq, Repr

def LogOp.tok : LogOp → Tok
  | .and => .op .and
  | .or => .op .or

def LogOp.mk : LogOp → E → E → E
  | .and, l, r => .and l r
  | .or, l, r => .or l r

/-- what may follow an operand of an `and`/`or` chain: the end, a non-operator (`)` `,` `else` …), or `and`/`or` -/
def LowStop (rest : List Tok) : Prop :=
  Stop rest ∨ ∃ (o : LogOp) (r : List Tok), rest = o.tok :: r

/-- `ts` is an *operand* read as the tree `e`: in operand position, at the precedence of a whole condition or of
    the right-hand side of `and`/`or`, the parser reads exactly `ts`, builds `e`, and goes on with what follows. -/
def IsOperand (fl : Flags) (ts : List Tok) (e : E) : Prop :=
  ∀ p rest, p ≤ prec (.op .and) → LowStop rest → parsePrim fl p (ts ++ rest) = loop fl p e rest

/-- `ts` is a *primary*: read as the unit `e` whatever the precedence and whatever follows. -/
def IsPrimary (fl : Flags) (ts : List Tok) (e : E) : Prop :=
  ∀ p rest, parsePrim fl p (ts ++ rest) = loop fl p e rest

/-- the token list `a₁ op₁ a₂ op₂ … aₙ` -/
def chainToks : List Tok → List (LogOp × List Tok × E) → List Tok
  | a, [] => a
  | a, (o, b, _) :: r => a ++ o.tok :: chainToks b r

/-- the tree `a₁ op₁ (a₂ op₂ (… aₙ))` -/
def chainTree : E → List (LogOp × List Tok × E) → E
  | a, [] => a
  | a, (o, _, eb) :: r => o.mk a (chainTree eb r)

theorem chain_aux (fl : Flags) (tail : List Tok) (ht : Stop tail) :
    ∀ (rest : List (LogOp × List Tok × E)) (a : List Tok) (ea : E) (p : Nat), p ≤ prec (.op .and) →
      IsOperand fl a ea → (∀ x ∈ rest, IsOperand fl x.2.1 x.2.2) →
      parsePrim fl p (chainToks a rest ++ tail) = some (chainTree ea rest, tail) := by
  intro rest
  induction rest with
  | nil =>
    intro a ea p hp ha _
    simp only [chainToks, chainTree]
    rw [ha p tail hp (Or.inl ht)]
    exact loop_at_stop fl p ea tail ht
  | cons x rest ih =>
    intro a ea p hp ha hr
    obtain ⟨o, b, eb⟩ := x
    simp only [chainToks, chainTree, List.append_assoc, List.cons_append]
    rw [ha p _ hp (Or.inr ⟨o, _, rfl⟩)]
    have hb : IsOperand fl b eb := hr (o, b, eb) (by simp)
    have hrec := ih b eb (prec o.tok) (by cases o <;> decide) hb (fun x hx => hr x (by simp [hx]))
    have hstop : stops o.tok p = false := by
      have : prec o.tok = prec (.op .and) := by cases o <;> decide
      simp [stops, C12Tables.breakStrict, this]; omega
    rw [loop_bin fl p ea o.tok _ tail (chainTree eb rest) (o.mk ea (chainTree eb rest)) hstop
      (by cases o <;> decide) hrec (by cases o <;> rfl)]
    exact loop_at_stop fl p _ tail ht

/-- **Right associativity, any chain length.**  A condition `a₁ op₁ a₂ op₂ … aₙ` whose `opᵢ` are `and`/`or` in
    any mixture and whose `aᵢ` are operands (atoms, comparisons, parenthesised groups — see `operand_*`) parses
    to `a₁ op₁ (a₂ op₂ (… aₙ))`.  By induction on the list; no bound on its length. -/
theorem parse_right_assoc (fl : Flags) (a : List Tok) (ea : E) (rest : List (LogOp × List Tok × E))
    (ha : IsOperand fl a ea) (hr : ∀ x ∈ rest, IsOperand fl x.2.1 x.2.2) :
    parse fl (chainToks a rest) = some (chainTree ea rest) := by
  have := chain_aux fl [] (Or.inl rfl) rest a ea C12Tables.topPrec (by decide) ha hr
  simp only [List.append_nil] at this
  simp [parse, this]

/-- The same inside a ternary (`inline=True`) or before a `)`: the chain is read up to the first token that is
    not a binary operator, which is left in the stream. -/
theorem parse_right_assoc_inline (fl : Flags) (a : List Tok) (ea : E) (rest : List (LogOp × List Tok × E))
    (tail : List Tok) (ht : Stop tail)
    (ha : IsOperand fl a ea) (hr : ∀ x ∈ rest, IsOperand fl x.2.1 x.2.2) :
    parseInline fl (chainToks a rest ++ tail) = some (chainTree ea rest, tail) :=
  chain_aux fl tail ht rest a ea C12Tables.topPrec (by decide) ha hr

/-- a literal / path / range literal is a primary -/
theorem primary_atom (fl : Flags) (n : Nat) : IsPrimary fl [.atom n] (.atom n) := by
  intro p rest; simpa using parsePrim_atom fl p n rest

/-- **Parentheses say otherwise.**  With `logical_parentheses` on, `( X )` is a primary read as whatever `X`
    alone parses to — for every token list `X`, however deep. -/
theorem primary_group (fl : Flags) (inner : List Tok) (e : E) (hp : fl.allowParens = true)
    (h : parse fl inner = some e) : IsPrimary fl (.lp :: inner ++ [.rp]) e := by
  intro p rest
  have h0 : parsePrim fl C12Tables.groupPrec inner = some (e, []) := by
    unfold parse at h
    have : C12Tables.groupPrec = C12Tables.topPrec := by decide
    rw [this]
    split at h <;> simp_all
  have h1 := parsePrim_append (.rp :: rest) (Or.inr ⟨.rp, rest, rfl, by decide⟩) h0
  simp only [List.nil_append] at h1
  have := parsePrim_group fl p (inner ++ .rp :: rest) rest e hp h1
  simpa using this

theorem operand_of_primary {fl ts e} (h : IsPrimary fl ts e) : IsOperand fl ts e :=
  fun p rest _ _ => h p rest

/-- the comparison node an operator token builds -/
def cmpOf : Op → Option Cmp
  | .eq => some .eq | .ne => some .ne | .lg => some .ne | .lt => some .lt | .gt => some .gt
  | .le => some .le | .ge => some .ge | .contains => some .contains | .and => none | .or => none

/-- **Comparisons bind tighter than `and`/`or`.**  `x ⋈ y` between primaries is one operand of a chain: what
    follows (`and`, `or`, `)`, end) is not swallowed by `y`. -/
theorem operand_cmp (fl : Flags) (a b : List Tok) (ea eb : E) (o : Op) (c : Cmp) (ho : cmpOf o = some c)
    (ha : IsPrimary fl a ea) (hb : IsPrimary fl b eb) :
    IsOperand fl (a ++ .op o :: b) (.cmp c ea eb) := by
  intro p rest hp hrest
  have hlow : loop fl (prec (.op o)) eb rest = some (eb, rest) := by
    rcases hrest with hs | ⟨lo, r, rfl⟩
    · exact loop_at_stop _ _ _ _ hs
    · apply loop_stop
      left
      cases lo <;> cases o <;> simp [cmpOf] at ho <;> decide
  have hpp : parsePrim fl (prec (.op o)) (b ++ rest) = some (eb, rest) := by rw [hb]; exact hlow
  have hstop : stops (.op o) p = false := by
    have : prec (.op .and) ≤ prec (.op o) := by cases o <;> decide
    simp [stops, C12Tables.breakStrict]; omega
  have hbin : isBin (.op o) = true := by cases o <;> decide
  have hmk : mkInfix (.op o) ea eb = some (.cmp c ea eb) := by
    cases o <;> simp [cmpOf] at ho <;> subst ho <;> rfl
  simp only [List.append_assoc, List.cons_append]
  rw [ha, loop_bin fl p ea (.op o) (b ++ rest) rest eb _ hstop hbin hpp hmk]

/-- **`not` takes everything to its right**: `not X` is the negation of whatever `X` parses to. -/
theorem not_spec (fl : Flags) (ts : List Tok) (e : E) (hn : fl.allowNot = true) (h : parse fl ts = some e) :
    parse fl (.not :: ts) = some (.not e) := by
  have h0 : parsePrim fl C12Tables.notOperandPrec ts = some (e, []) := by
    unfold parse at h
    have : C12Tables.notOperandPrec = C12Tables.topPrec := by decide
    rw [this]
    split at h <;> simp_all
  have := parsePrim_not fl C12Tables.topPrec ts [] e hn h0
  simp [parse, this, loop_nil]

/-- The default environment (`logical_not_operator = logical_parentheses = False`) rejects both. -/
theorem default_env_rejects (ts : List Tok) :
    parse ⟨false, false⟩ (.not :: ts) = none ∧ parse ⟨false, false⟩ (.lp :: ts) = none := by
  constructor <;> simp [parse, parsePrim]

/-- A successful parse consumes tokens (`parse_boolean_primitive` always advances): the `else none` branches of
    the model are dead, and a condition of `n` tokens is parsed in at most `n` recursive calls. -/
theorem tokens_strictly_consumed (fl : Flags) (p : Nat) (ts : List Tok) (e : E) (r : List Tok)
    (h : parsePrim fl p ts = some (e, r)) : r.length < ts.length := parsePrim_consumes h

/-- **Conditions combine by truthiness.**  `and`, `or`, `not` look only at whether their operands are truthy
    (`is_truthy`, so only nil/false/undefined count as false), left to right, and skip the right operand when
    the left one decides — an error in a skipped operand is not raised. -/
theorem eval_connectives (env : Nat → Val) (hs : Nat → String) (l r : E) :
    evalCond env hs (.and l r) = (evalCond env hs l).bind (fun a => if a then evalCond env hs r else .ok false) ∧
    evalCond env hs (.or l r) = (evalCond env hs l).bind (fun a => if a then .ok true else evalCond env hs r) ∧
    evalCond env hs (.not l) = (evalCond env hs l).bind (fun a => .ok (!a)) := by
  have hb : ∀ b : Bool, isTruthy (.bool b) = b := by intro b; cases b <;> rfl
  refine ⟨?_, ?_, ?_⟩ <;> simp only [evalCond, evalE] <;> cases evalE env hs l <;> simp [Res.bind] <;>
    (try (rename_i a; cases isTruthy a <;> simp [hb] <;> cases evalE env hs r <;> simp [hb]))
  all_goals simp [hb]

/-! ### non-vacuity: the documentation's own example and a grouped one -/

/-- `true and false and false or true` is `(true and (false and (false or true)))` (docs/tag_reference.md) -/
example : parse ⟨false, false⟩ [.atom 0, .op .and, .atom 1, .op .and, .atom 2, .op .or, .atom 3]
    = some (.and (.atom 0) (.and (.atom 1) (.or (.atom 2) (.atom 3)))) :=
  parse_right_assoc _ [.atom 0] (.atom 0)
    [(.and, [.atom 1], .atom 1), (.and, [.atom 2], .atom 2), (.or, [.atom 3], .atom 3)]
    (operand_of_primary (primary_atom _ 0))
    (by
      intro x hx
      simp at hx
      rcases hx with rfl | rfl | rfl <;> exact operand_of_primary (primary_atom _ _))

/-- … and it evaluates to false, where Python's grouping would give true -/
example : evalCond (fun n => .bool (n == 0 || n == 3)) (fun _ => "")
    (.and (.atom 0) (.and (.atom 1) (.or (.atom 2) (.atom 3)))) = .ok false := by decide

/-- `(a or b) and c == d or e` : group, comparison and chain together -/
example : parse ⟨true, true⟩
    [.lp, .atom 0, .op .or, .atom 1, .rp, .op .and, .atom 2, .op .eq, .atom 3, .op .or, .atom 4]
    = some (.and (.or (.atom 0) (.atom 1)) (.or (.cmp .eq (.atom 2) (.atom 3)) (.atom 4))) := by
  have hg : IsPrimary ⟨true, true⟩ (.lp :: [.atom 0, .op .or, .atom 1] ++ [.rp]) (.or (.atom 0) (.atom 1)) :=
    primary_group _ _ _ rfl
      (parse_right_assoc _ [.atom 0] (.atom 0) [(.or, [.atom 1], .atom 1)]
        (operand_of_primary (primary_atom _ 0))
        (by intro x hx; simp at hx; subst hx; exact operand_of_primary (primary_atom _ _)))
  exact parse_right_assoc _ _ _
    [(.and, [.atom 2, .op .eq, .atom 3], .cmp .eq (.atom 2) (.atom 3)), (.or, [.atom 4], .atom 4)]
    (operand_of_primary hg)
    (by
      intro x hx
      simp at hx
      rcases hx with rfl | rfl
      · exact operand_cmp _ [.atom 2] [.atom 3] _ _ .eq .eq rfl (primary_atom _ 2) (primary_atom _ 3)
      · exact operand_of_primary (primary_atom _ _))


/-! ## Deepening round: equality on arbitrarily nested values; symmetry and reflexivity -/

/-- `deepEq` really is *recursive Liquid equality*: on anything but two arrays or two hashes it is `_eq` itself … -/
theorem deepEq_leaf (a b : Val)
    (hl : ∀ xs ys, ¬ (a = .list xs ∧ b = .list ys)) (hd : ∀ xs ys, ¬ (a = .dict xs ∧ b = .dict ys)) :
    deepEq a b = liquidEq a b := by
  cases a <;> cases b <;>
    simp_all [liquidEq, toLiquid, Val.isSentinel, Val.isBool, pyEq, deepEq, Val.pyNum?, Val.num?, emptyEq,
      blankEq, boolQ_eq, Ext.eq, Bool.beq_comm]

/-- … on two arrays it is "same length and items pairwise `deepEq`" … -/
theorem deepEq_list (xs ys : List Val) :
    deepEq (.list xs) (.list ys) = (decide (xs.length = ys.length) && (List.zipWith deepEq xs ys).all id) := by
  simp only [deepEq]
  induction xs generalizing ys with
  | nil => cases ys <;> simp [deepEqL]
  | cons x xs ih =>
    cases ys with
    | nil => simp [deepEqL]
    | cons y ys =>
      simp only [deepEqL, ih ys, List.length_cons, List.zipWith_cons_cons, List.all_cons, id]
      by_cases h : xs.length = ys.length <;> simp [h, Bool.and_comm]

/-- … and on two hashes "same keys and values pairwise `deepEq`" (hashes are key-sorted entry lists). -/
theorem deepEq_dict (xs ys : List (String × Val)) :
    deepEq (.dict xs) (.dict ys) =
      (decide (xs.map (·.1) = ys.map (·.1)) && (List.zipWith (fun p q => deepEq p.2 q.2) xs ys).all id) := by
  simp only [deepEq]
  induction xs generalizing ys with
  | nil => cases ys <;> simp [deepEqD]
  | cons x xs ih =>
    obtain ⟨k, x⟩ := x
    cases ys with
    | nil => simp [deepEqD]
    | cons y ys =>
      obtain ⟨k', y⟩ := y
      simp only [deepEqD, ih ys, List.map_cons, List.zipWith_cons_cons, List.all_cons, id, List.cons.injEq]
      by_cases h1 : k = k' <;> by_cases h2 : xs.map (·.1) = ys.map (·.1) <;> simp [h1, h2, Bool.and_comm]

/-- **What `==` computes on nested values, any depth.**  `_eq` equals recursive Liquid equality whenever no
    aligned pair of items (at any depth of arrays inside arrays / hashes) puts a boolean against a number.
    Generalises `list_eq_itemwise_partial` to every depth and to hashes. -/
theorem eq_nested_partial (a b : Val) (h : noClashItems a b = true) : liquidEq a b = deepEq a b := by
  cases a <;> cases b <;>
    simp_all [liquidEq, toLiquid, Val.isSentinel, Val.isBool, pyEq, deepEq, Val.pyNum?, Val.num?, emptyEq,
      blankEq, boolQ_eq, Ext.eq, Bool.beq_comm, noClashItems]
  · rename_i xs ys
    exact pyEqL_eq_deepEqL xs ys (fun x _ y hy => pyEq_eq_deepEq x y hy) h
  · rename_i xs ys
    exact pyEqD_eq_deepEqD xs ys (fun kv _ y hy => pyEq_eq_deepEq kv.2 y hy) h

/-- The deviation is one-sided, for **all** values: whatever is Liquid-equal is also equal for the code; the
    code can only call *more* things equal (exactly the boolean/number clashes). -/
theorem eq_nested_coarser (a b : Val) (h : deepEq a b = true) : liquidEq a b = true := by
  by_cases hl : ∃ xs ys, a = .list xs ∧ b = .list ys
  · obtain ⟨xs, ys, rfl, rfl⟩ := hl
    have := deepEq_imp_pyEq _ _ h
    simpa [liquidEq, toLiquid, Val.isSentinel, Val.isBool] using this
  · by_cases hd : ∃ xs ys, a = .dict xs ∧ b = .dict ys
    · obtain ⟨xs, ys, rfl, rfl⟩ := hd
      have := deepEq_imp_pyEq _ _ h
      simpa [liquidEq, toLiquid, Val.isSentinel, Val.isBool] using this
    · rw [← deepEq_leaf a b (fun xs ys hh => hl ⟨xs, ys, hh⟩) (fun xs ys hh => hd ⟨xs, ys, hh⟩)]; exact h

/-- The full statement (`==` is recursive Liquid equality) is false for the code at every depth ≥ 1:
    `[[1]] == [[true]]` and `{"k": [1.0]} == {"k": [true]}` hold. -/
theorem eq_nested_counterexample :
    ¬ (liquidEq (.list [.list [.int 1]]) (.list [.list [.bool true]]) =
        deepEq (.list [.list [.int 1]]) (.list [.list [.bool true]])) ∧
    ¬ (liquidEq (.dict [("k", .list [.float (.fin ⟨1, 0⟩)])]) (.dict [("k", .list [.bool true])]) =
        deepEq (.dict [("k", .list [.float (.fin ⟨1, 0⟩)])]) (.dict [("k", .list [.bool true])])) := by
  constructor <;> decide

/-- **`==` is symmetric for every pair of values** (both operand swaps of `_eq` and every reflected `__eq__`
    included; so `!=`/`<>` are symmetric too). -/
theorem eq_symm (a b : Val) : liquidEq a b = liquidEq b a := by
  cases a <;> cases b <;>
    simp [liquidEq, toLiquid, Val.isSentinel, Val.isBool, pyEq, Val.pyNum?, Val.num?, emptyEq, blankEq,
      boolQ_eq, Ext.eq, Bool.beq_comm] <;>
    first
      | exact Ext.eq_symm _ _ | exact Q.eq_symm _ _ | exact rangeEq_symm _ _ _ _ | exact pyEqL_symm _ _
      | exact pyEqD_symm _ _ | exact BEq.comm | exact eq_comm

/-- **`x == x` holds for every value that contains no float NaN** … -/
theorem eq_refl_partial (a : Val) (h : nanFree a = true) : liquidEq a a = true := by
  have hp := pyEq_refl a h
  cases a <;> simp_all [liquidEq, toLiquid, Val.isSentinel, Val.isBool, pyEq]

/-- … and fails with one: `nan == nan` is false, and so is `[nan] == [nan]` for two distinct NaN objects
    (CPython's identity shortcut makes it true for the *same* object; the model never shares objects). -/
theorem eq_refl_counterexample :
    liquidEq (.float .nan) (.float .nan) = false ∧ liquidEq (.list [.float .nan]) (.list [.float .nan]) = false := by
  decide

/-- `<` is irreflexive and asymmetric wherever it is defined: never `a < a`, never both `a < b` and `b < a`. -/
theorem lt_irrefl_asymm (a b : Val) :
    liquidLt a a ≠ .ok true ∧ (liquidLt a b = .ok true → liquidLt b a = .ok false) := by
  have qirr : ∀ q : Q, q.lt q = false := by intro q; simp [Q.lt]
  have qas : ∀ p q : Q, p.lt q = true → q.lt p = false := by
    intro p q h; simp only [Q.lt, decide_eq_true_eq, decide_eq_false_iff_not] at *; omega
  have eirr : ∀ x : Ext, x.lt x = false := by intro x; cases x <;> simp [Ext.lt, qirr]
  have eas : ∀ x y : Ext, x.lt y = true → y.lt x = false := by
    intro x y; cases x <;> cases y <;> simp [Ext.lt]; exact qas _ _
  have sirr : ∀ s : String, ¬ s < s := fun s => String.lt_irrefl s
  have sas : ∀ s t : String, s < t → ¬ t < s := fun s t h h' => String.lt_irrefl s (String.lt_trans h h')
  constructor
  · cases a <;> simp [liquidLt, toLiquid, Val.text?, Val.isBool, Val.num?, decVsNan, sirr, eirr, Ext.ofFlt]
  · cases a <;> cases b <;>
      simp [liquidLt, toLiquid, Val.text?, Val.isBool, Val.num?, decVsNan] <;>
      (try (intro h; first | exact sas _ _ h | exact eas _ _ h))
    case right.float.dec f q => cases f <;> simp [Ext.ofFlt, Ext.lt] <;> (try exact qas _ _)
    case right.dec.float q f => cases f <;> simp [Ext.ofFlt, Ext.lt] <;> (try exact qas _ _)


/-! ## Deepening round: the Pratt parser satisfies the stratified grammar's defining equations, for all token lists

The recursive-descent oracle of the harness implements
`L1 := L5 ((and|or) L1)? ; L5 := L6 (relop L5)? ; L6 := prefix (contains L6)? ; prefix := operand | ( L1 ) | not L1`.
The four theorems below say that `parse_boolean_primitive` at the precedences 1/2, 5, 6 and 7 satisfies exactly
these equations (`levelStep` = "at most one operator of this level, right operand at this level again"), for every
token list, well-formed or not.  Since every right-hand side calls the parser on a strictly shorter list or at the
next level, the equations determine the function: this is the equivalence with the grammar, short of packaging it
as one equality with a separately defined grammar function. -/

theorem level_side_ops (q hi lv : Nat) (h : ∀ o : Op, isBin (.op o) = true → stops (.op o) hi = true →
    stops (.op o) q = false → prec (.op o) = lv) :
    ∀ t, isBin t = true → stops t hi = true → stops t q = false → prec t = lv := by
  intro t hb
  cases t with
  | op o => exact h o hb
  | atom n => simp [isBin] at hb
  | not => exact absurd hb (by decide)
  | lp => exact absurd hb (by decide)
  | rp => exact absurd hb (by decide)
  | junk => simp [isBin] at hb

theorem level_side_stop (q lv : Nat) (h : ∀ o : Op, stops (.op o) lv = true → stops (.op o) q = true) :
    ∀ t, stops t lv = true → stops t q = true ∨ isBin t = false := by
  intro t hs
  cases t with
  | op o => exact Or.inl (h o hs)
  | atom n => exact Or.inr rfl
  | not => exact Or.inr (by decide)
  | lp => exact Or.inr (by decide)
  | rp => exact Or.inr (by decide)
  | junk => exact Or.inr rfl

/-- `L1 := L5 ((and|or) L1)?` — a whole condition (precedence 1) and the right-hand side of `and`/`or`
    (precedence 2) alike. -/
theorem grammar_level_logical (fl : Flags) (ts : List Tok) :
    parsePrim fl C12Tables.topPrec ts
      = (parsePrim fl (prec (.op .eq)) ts).bind (levelStep fl C12Tables.topPrec (prec (.op .and))) ∧
    parsePrim fl (prec (.op .and)) ts
      = (parsePrim fl (prec (.op .eq)) ts).bind (levelStep fl (prec (.op .and)) (prec (.op .and))) := by
  constructor
  · exact level_eq fl _ _ _ (by decide) (level_side_ops _ _ _ (by intro o; cases o <;> decide))
      (level_side_stop _ _ (by intro o; cases o <;> decide)) ts
  · exact level_eq fl _ _ _ (by decide) (level_side_ops _ _ _ (by intro o; cases o <;> decide))
      (level_side_stop _ _ (by intro o; cases o <;> decide)) ts

/-- `L5 := L6 (relop L5)?` -/
theorem grammar_level_relational (fl : Flags) (ts : List Tok) :
    parsePrim fl (prec (.op .eq)) ts
      = (parsePrim fl (prec (.op .contains)) ts).bind (levelStep fl (prec (.op .eq)) (prec (.op .eq))) :=
  level_eq fl _ _ _ (by decide) (level_side_ops _ _ _ (by intro o; cases o <;> decide))
    (level_side_stop _ _ (by intro o; cases o <;> decide)) ts

/-- `L6 := prefix (contains L6)?` -/
theorem grammar_level_contains (fl : Flags) (ts : List Tok) :
    parsePrim fl (prec (.op .contains)) ts
      = (parsePrim fl (prec .not) ts).bind (levelStep fl (prec (.op .contains)) (prec (.op .contains))) :=
  level_eq fl _ _ _ (by decide) (level_side_ops _ _ _ (by intro o; cases o <;> decide))
    (level_side_stop _ _ (by intro o; cases o <;> decide)) ts

/-- `prefix := operand | ( L1 ) | not L1` — at the highest precedence nothing is appended to the prefix. -/
theorem grammar_prefix (fl : Flags) (r : List Tok) :
    (∀ n, parsePrim fl (prec .not) (.atom n :: r) = some (.atom n, r)) ∧
    (fl.allowParens = true → ∀ e r', parsePrim fl C12Tables.topPrec r = some (e, .rp :: r') →
        parsePrim fl (prec .not) (.lp :: r) = some (e, r')) ∧
    (fl.allowNot = true → ∀ e r', parsePrim fl C12Tables.topPrec r = some (e, r') →
        parsePrim fl (prec .not) (.not :: r) = some (.not e, r')) := by
  have top : ∀ l ts, loop fl (prec .not) l ts = some (l, ts) := by
    intro l ts
    cases ts with
    | nil => exact loop_nil ..
    | cons t rest =>
      apply loop_stop
      cases t with
      | op o => left; cases o <;> decide
      | atom n => right; rfl
      | junk => right; rfl
      | _ => right; decide
  refine ⟨fun n => by rw [parsePrim_atom]; exact top _ _, fun ha e r' h => ?_, fun ha e r' h => ?_⟩
  · rw [parsePrim_group fl _ r r' e ha (by rw [show C12Tables.groupPrec = C12Tables.topPrec from by decide]; exact h)]; exact top _ _
  · rw [parsePrim_not fl _ r r' e ha (by rw [show C12Tables.notOperandPrec = C12Tables.topPrec from by decide]; exact h)]; exact top _ _

end LiquidVerif.C12
