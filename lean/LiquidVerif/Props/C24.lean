import LiquidVerif.Lemmas.LRU
/-!
# C24 — LRU caches behave as bounded least-recently-used maps

Property theorems about `LiquidVerif.Model.LRU` (the model of `liquid/utils/lru_cache.py`).
Helper lemmas live in `Lemmas/LRU.lean`; nothing here is a helper.
-/
namespace LiquidVerif.C24
open LiquidVerif.LRU

/-- Representation invariant: one entry per key, never more than `cap` entries. -/
def Inv (c : Cache) : Prop := (keysOf c.items).Nodup ∧ c.items.length ≤ c.cap ∧ 0 < c.cap

theorem inv_empty (cap : Nat) (h : 0 < cap) : Inv (empty cap) := by
  simp [Inv, empty, keysOf, h]

theorem cap_getitem (c : Cache) (k : Nat) : (c.getitem k).1.cap = c.cap := by
  unfold Cache.getitem; cases find c.items k <;> rfl

theorem cap_step (c : Cache) (op : Op) : (step c op).1.cap = c.cap := by
  cases op with
  | get k => exact cap_getitem c k
  | getd k =>
    have := cap_getitem c k
    simp only [step]; split <;> simp_all
  | set k v => simp only [step, Cache.setitem]; cases find c.items k <;> rfl
  | del k => simp only [step, Cache.delitem]; cases find c.items k <;> rfl
  | _ => rfl

theorem inv_setitem (c : Cache) (k v : Nat) (h : Inv c) : Inv (c.setitem k v) := by
  obtain ⟨hn, hl, hc⟩ := h
  unfold Cache.setitem
  cases hf : find c.items k with
  | some w =>
    refine ⟨?_, ?_, hc⟩
    · exact nodup_keys_append (nodup_keys_eraseKey k hn) (find_eraseKey_self _ _)
    · have := length_eraseKey_lt hf
      simp; omega
  | none =>
    simp only
    split
    · refine ⟨nodup_keys_append (nodup_keys_tail hn) (find_tail_none hf), ?_, hc⟩
      simp; omega
    · refine ⟨nodup_keys_append hn hf, ?_, hc⟩
      simp; omega

theorem inv_getitem (c : Cache) (k : Nat) (h : Inv c) : Inv (c.getitem k).1 := by
  obtain ⟨hn, hl, hc⟩ := h
  unfold Cache.getitem
  cases hf : find c.items k with
  | none => exact ⟨hn, hl, hc⟩
  | some w =>
    refine ⟨nodup_keys_append (nodup_keys_eraseKey k hn) (find_eraseKey_self _ _), ?_, hc⟩
    have := length_eraseKey_lt hf
    simp; omega

theorem inv_delitem (c : Cache) (k : Nat) (h : Inv c) : Inv (c.delitem k).1 := by
  obtain ⟨hn, hl, hc⟩ := h
  unfold Cache.delitem
  cases hf : find c.items k with
  | none => exact ⟨hn, hl, hc⟩
  | some w =>
    refine ⟨nodup_keys_eraseKey k hn, ?_, hc⟩
    have := length_eraseKey_le c.items k
    simp only; omega

/-- One step of any operation preserves the invariant. -/
theorem inv_step (c : Cache) (op : Op) (h : Inv c) : Inv (step c op).1 := by
  cases op with
  | get k => exact inv_getitem c k h
  | set k v => exact inv_setitem c k v h
  | del k => exact inv_delitem c k h
  | getd k =>
    have := inv_getitem c k h
    simp only [step]; split <;> simp_all
  | contains k => exact h
  | len => exact h
  | keys => exact h
  | values => exact h
  | items => exact h
  | iter => exact h

/-- **Capacity and uniqueness hold in every reachable state**, for every operation sequence. -/
theorem lru_inv (c : Cache) (ops : List Op) (h : Inv c) : Inv (final c ops) := by
  induction ops generalizing c with
  | nil => simpa [final, run] using h
  | cons op ops ih =>
    have := ih (step c op).1 (inv_step c op h)
    simpa [final, run] using this

theorem lru_inv_from_empty (cap : Nat) (hc : 0 < cap) (ops : List Op) :
    (final (empty cap) ops).items.length ≤ cap ∧ (keysOf (final (empty cap) ops).items).Nodup := by
  have h := lru_inv (empty cap) ops (inv_empty cap hc)
  have hcap : ∀ (c : Cache) (ops : List Op), (final c ops).cap = c.cap := by
    intro c ops
    induction ops generalizing c with
    | nil => simp [final, run]
    | cons op ops ih => simpa [final, run, cap_step] using ih (step c op).1
  have := hcap (empty cap) ops
  exact ⟨by have := h.2.1; simp [empty] at *; omega, h.1⟩

/-- **Overflow evicts exactly the least recently used entry** (the head) and nothing else. -/
theorem evicts_lru (c : Cache) (k v : Nat) (hn : find c.items k = none) (hf : c.items.length = c.cap) :
    (c.setitem k v).items = c.items.tail ++ [(k, v)] := by
  simp [Cache.setitem, hn, hf]

/-- Below capacity nothing is evicted. -/
theorem no_eviction_below_capacity (c : Cache) (k v : Nat) (hn : find c.items k = none)
    (hlt : c.items.length < c.cap) : (c.setitem k v).items = c.items ++ [(k, v)] := by
  have : ¬ c.items.length ≥ c.cap := by omega
  simp [Cache.setitem, hn, this]

/-- Overwriting a present key evicts nothing: every other entry is kept, in order. -/
theorem overwrite_keeps_others (c : Cache) (k v w : Nat) (hs : find c.items k = some w) :
    (c.setitem k v).items = eraseKey c.items k ++ [(k, v)] := by
  simp [Cache.setitem, hs]

/-- **A lookup right after a store returns the stored value.** -/
theorem get_after_set (c : Cache) (k v : Nat) : ((c.setitem k v).getitem k).2 = .val v := by
  have hfind : find (c.setitem k v).items k = some v := by
    unfold Cache.setitem
    cases hf : find c.items k with
    | some w => simp [find_append_single, find_eraseKey_self]
    | none =>
      simp only
      split
      · simp [find_append_single, find_tail_none hf]
      · simp [find_append_single, hf]
  simp [Cache.getitem, hfind]

/-! ## Refinement to an abstract map: a present key always holds the most recently stored value -/

/-- the abstract (unbounded) map an operation sequence describes -/
def absStep (m : Nat → Option Nat) : Op → (Nat → Option Nat)
  | .set k v => fun x => if x = k then some v else m x
  | .del k => fun x => if x = k then none else m x
  | _ => m

/-- the cache is a sub-map of the abstract map -/
def Agree (c : Cache) (m : Nat → Option Nat) : Prop := ∀ k v, find c.items k = some v → m k = some v

theorem find_move (l : List (Nat × Nat)) (k v x : Nat) (hf : find l k = some v) :
    find (eraseKey l k ++ [(k, v)]) x = find l x := by
  rw [find_append_single]
  by_cases hx : x = k
  · subst hx; simp [find_eraseKey_self, hf]
  · rw [find_eraseKey_ne l hx]
    cases find l x with
    | some w => rfl
    | none => simp [Ne.symm hx]

theorem find_tail_sub {l : List (Nat × Nat)} {x w : Nat} (hn : (keysOf l).Nodup) (h : find l.tail x = some w) :
    find l x = some w := by
  cases l with
  | nil => simp [find] at h
  | cons p r =>
    obtain ⟨a, b⟩ := p
    simp only [List.tail_cons] at h
    have hmem : x ∈ keysOf r := by
      have := find_some_mem h
      exact List.mem_map_of_mem (f := (·.1)) this
    have hax : a ≠ x := by
      simp only [keysOf, List.map_cons] at hn
      intro e; subst e; exact (List.nodup_cons.mp hn).1 hmem
    have : (a == x) = false := by simpa using hax
    simp [find, this, h]

theorem find_setitem_self (c : Cache) (k v : Nat) : find (c.setitem k v).items k = some v := by
  unfold Cache.setitem
  cases hf : find c.items k with
  | some w => simp [find_append_single, find_eraseKey_self]
  | none =>
    simp only
    split
    · simp [find_append_single, find_tail_none hf]
    · simp [find_append_single, hf]

theorem find_setitem_other (c : Cache) (k v : Nat) {x w : Nat} (hn : (keysOf c.items).Nodup) (hxk : x ≠ k)
    (hx : find (c.setitem k v).items x = some w) : find c.items x = some w := by
  unfold Cache.setitem at hx
  have hkx : (k == x) = false := by simpa using (Ne.symm hxk)
  cases hf : find c.items k with
  | some u =>
    simp only [hf] at hx
    rw [find_append_single, find_eraseKey_ne _ hxk, hkx] at hx
    cases hfx : find c.items x with
    | some z => rw [hfx] at hx; simpa using hx
    | none => rw [hfx] at hx; simp at hx
  | none =>
    simp only [hf] at hx
    by_cases hge : c.items.length ≥ c.cap
    · simp only [hge, if_true] at hx
      rw [find_append_single, hkx] at hx
      cases hft : find c.items.tail x with
      | some z => rw [hft] at hx; simp at hx; subst hx; exact find_tail_sub hn hft
      | none => rw [hft] at hx; simp at hx
    · simp only [hge, if_false] at hx
      rw [find_append_single, hkx] at hx
      cases hfx : find c.items x with
      | some z => rw [hfx] at hx; simpa using hx
      | none => rw [hfx] at hx; simp at hx

theorem agree_step (c : Cache) (m : Nat → Option Nat) (op : Op) (hi : Inv c) (h : Agree c m) :
    Agree (step c op).1 (absStep m op) := by
  intro x w hx
  cases op with
  | get k =>
    simp only [step, Cache.getitem] at hx
    cases hf : find c.items k with
    | none => simp [hf] at hx; exact h x w hx
    | some v => simp only [hf] at hx; rw [find_move _ _ _ _ hf] at hx; exact h x w hx
  | getd k =>
    simp only [step, Cache.getitem] at hx
    cases hf : find c.items k with
    | none => simp [hf] at hx; exact h x w hx
    | some v => simp only [hf] at hx; rw [find_move _ _ _ _ hf] at hx; exact h x w hx
  | set k v =>
    simp only [step, absStep] at *
    by_cases hxk : x = k
    · subst hxk
      rw [find_setitem_self] at hx
      simpa using hx
    · simp only [hxk, if_false]
      exact h x w (find_setitem_other c k v hi.1 hxk hx)
  | del k =>
    simp only [step, Cache.delitem, absStep] at *
    cases hf : find c.items k with
    | none =>
      simp only [hf] at hx
      by_cases hxk : x = k
      · subst hxk; rw [hf] at hx; cases hx
      · simp [hxk]; exact h x w hx
    | some u =>
      simp only [hf] at hx
      by_cases hxk : x = k
      · subst hxk; rw [find_eraseKey_self] at hx; cases hx
      · rw [find_eraseKey_ne _ hxk] at hx; simp [hxk]; exact h x w hx
  | contains k => exact h x w hx
  | len => exact h x w hx
  | keys => exact h x w hx
  | values => exact h x w hx
  | items => exact h x w hx
  | iter => exact h x w hx

/-- **For every history, a key present in the cache holds the value most recently stored for it**
(the cache is always a sub-map of the unbounded map the history describes). -/
theorem value_is_last_stored (ops : List Op) (c : Cache) (m : Nat → Option Nat) (hi : Inv c) (h : Agree c m) :
    Agree (final c ops) (ops.foldl absStep m) := by
  induction ops generalizing c m with
  | nil => simpa [final, run] using h
  | cons op ops ih =>
    have := ih (step c op).1 (absStep m op) (inv_step c op hi) (agree_step c m op hi h)
    simpa [final, run] using this

/-- a `get` that returns a value returns the abstract map's value -/
theorem get_returns_last_stored (c : Cache) (m : Nat → Option Nat) (k v : Nat) (h : Agree c m)
    (hg : (step c (.get k)).2 = .val v) : m k = some v := by
  simp only [step, Cache.getitem] at hg
  cases hf : find c.items k with
  | none => simp [hf] at hg
  | some w => simp [hf] at hg; subst hg; exact h k w hf

/-! ## Listing order -/

/-- position of the most recently used key in every listing is the front -/
theorem listing_front_after_get (c : Cache) (k v : Nat) (hf : find c.items k = some v) :
    (step (c.getitem k).1 .keys).2 = .keys (k :: (keysOf (eraseKey c.items k)).reverse) := by
  simp [step, Cache.getitem, hf, keysOf]

theorem listing_front_after_set (c : Cache) (k v : Nat) :
    ∃ rest, (step (c.setitem k v) .keys).2 = .keys (k :: rest) := by
  unfold Cache.setitem
  cases find c.items k <;> simp [step, keysOf] <;> (try split) <;> simp

/-- `keys`, `values`, `items` and `__iter__` are mutually consistent views of one recency order. -/
theorem listings_consistent (c : Cache) :
    (step c .keys).2 = .keys (c.items.reverse.map (·.1)) ∧
    (step c .values).2 = .vals (c.items.reverse.map (·.2)) ∧
    (step c .items).2 = .pairs c.items.reverse ∧
    (step c .iter).2 = (step c .keys).2 := by
  simp [step, keysOf, List.map_reverse]

/-- operations that only read leave recency order unchanged -/
theorem readers_do_not_reorder (c : Cache) (op : Op)
    (h : op = .len ∨ op = .keys ∨ op = .values ∨ op = .items ∨ op = .iter ∨ ∃ k, op = .contains k) :
    (step c op).1 = c := by
  rcases h with h | h | h | h | h | ⟨k, h⟩ <;> subst h <;> rfl

/-! ## Concurrency: atomic method bodies -/

/-- `l` is an interleaving of the per-thread operation lists `ts` -/
inductive Interleaving : List (List Op) → List Op → Prop
  | done (ts : List (List Op)) : (∀ t ∈ ts, t = []) → Interleaving ts []
  | pick (pre : List (List Op)) (op : Op) (t : List Op) (post : List (List Op)) (l : List Op) :
      Interleaving (pre ++ [t] ++ post) l → Interleaving (pre ++ [op :: t] ++ post) (op :: l)

/-- **With every method body atomic (the lock), any schedule of any number of threads is a sequential
run of one interleaving; capacity, uniqueness and "holds the last stored value" therefore hold after
every schedule, and no operation has an outcome outside `Out` (no internal failure).** -/
theorem interleaving_safe (cap : Nat) (hc : 0 < cap) (ts : List (List Op)) (l : List Op)
    (_h : Interleaving ts l) :
    Inv (final (empty cap) l) ∧ Agree (final (empty cap) l) (l.foldl absStep (fun _ => none)) := by
  refine ⟨lru_inv _ _ (inv_empty cap hc), value_is_last_stored l _ _ (inv_empty cap hc) ?_⟩
  intro k v hk; simp [empty, find] at hk

/-! ## Non-vacuity -/
example : Inv { cap := 2, items := [(1, 10), (2, 20)] } := by simp [Inv, keysOf]
example : (final (empty 2) [.set 1 10, .set 2 20, .get 1, .set 3 30]).items = [(1, 10), (3, 30)] := by decide
example : Interleaving [[.set 1 10, .get 1], [.set 2 20]] [.set 1 10, .set 2 20, .get 1] :=
  .pick [] _ _ [[.set 2 20]] _ (.pick [[.get 1]] _ [] [] _ (.pick [] _ [] [[]] _ (.done _ (by simp))))

end LiquidVerif.C24

/-! ## Refinement to the declarative "recency list" specification

The specification state is the list of entries **most recently used first**; every operation is
described outright (a `set` puts the entry in front and keeps the first `cap` entries). -/
namespace LiquidVerif.C24
open LiquidVerif.LRU

def specStep (cap : Nat) (s : List (Nat × Nat)) : Op → List (Nat × Nat) × Out
  | .get k => match find s k with
      | none => (s, .keyError)
      | some v => ((k, v) :: eraseKey s k, .val v)
  | .getd k => match find s k with
      | none => (s, .dflt)
      | some v => ((k, v) :: eraseKey s k, .val v)
  | .set k v => (((k, v) :: eraseKey s k).take cap, .none_)
  | .del k => match find s k with
      | none => (s, .keyError)
      | some _ => (eraseKey s k, .none_)
  | .contains k => (s, .bool (find s k).isSome)
  | .len => (s, .len s.length)
  | .keys => (s, .keys (keysOf s))
  | .values => (s, .vals (s.map (·.2)))
  | .items => (s, .pairs s)
  | .iter => (s, .keys (keysOf s))

def specRun (cap : Nat) (s : List (Nat × Nat)) : List Op → List (Nat × Nat) × List Out
  | [] => (s, [])
  | op :: ops =>
    let (s', o) := specStep cap s op
    let (s'', os) := specRun cap s' ops
    (s'', o :: os)

/-- **Each operation of the implementation model is the specification's operation**: same visible
result, and the reversed `OrderedDict` order is the specification's most-recent-first order. -/
theorem refines_spec (c : Cache) (op : Op) (hi : Inv c) :
    specStep c.cap c.items.reverse op = ((step c op).1.items.reverse, (step c op).2) := by
  obtain ⟨hn, hl, hc⟩ := hi
  cases op with
  | get k =>
    simp only [specStep, step, Cache.getitem, find_reverse hn]
    cases hf : find c.items k <;> simp [eraseKey_reverse]
  | getd k =>
    simp only [specStep, step, Cache.getitem, find_reverse hn]
    cases hf : find c.items k <;> simp [eraseKey_reverse]
  | del k =>
    simp only [specStep, step, Cache.delitem, find_reverse hn]
    cases hf : find c.items k <;> simp [eraseKey_reverse]
  | set k v =>
    simp only [specStep, step, Cache.setitem, eraseKey_reverse]
    cases hf : find c.items k with
    | some w =>
      have hlt := length_eraseKey_lt hf
      simp only [List.reverse_append, List.reverse_cons, List.reverse_nil, List.nil_append,
        List.singleton_append, Prod.mk.injEq, and_true]
      apply List.take_of_length_le
      simp; omega
    | none =>
      rw [eraseKey_of_not_mem hf]
      by_cases hge : c.items.length ≥ c.cap
      · simp only [hge, if_true, List.reverse_append, List.reverse_cons, List.reverse_nil,
          List.nil_append, List.singleton_append, Prod.mk.injEq, and_true]
        have hlen : c.items.length = c.cap := by omega
        obtain ⟨n, hn'⟩ : ∃ n, c.cap = n + 1 := ⟨c.cap - 1, by omega⟩
        rw [hn', List.take_succ_cons]
        congr 1
        cases hit : c.items with
        | nil => simp [hit] at hlen; omega
        | cons p r =>
          simp only [List.tail_cons, List.reverse_cons]
          have : r.reverse.length = n := by simp [hit] at hlen; simp; omega
          rw [List.take_append_of_le_length (by omega), List.take_of_length_le (by omega)]
      · simp only [hge, if_false, List.reverse_append, List.reverse_cons, List.reverse_nil,
          List.nil_append, List.singleton_append, Prod.mk.injEq, and_true]
        apply List.take_of_length_le
        simp; omega
  | contains k => simp [specStep, step, find_reverse hn]
  | len => simp [specStep, step]
  | keys => simp [specStep, step, keysOf_reverse]
  | values => simp [specStep, step, List.map_reverse]
  | items => simp [specStep, step]
  | iter => simp [specStep, step, keysOf_reverse]

/-- **Every operation sequence produces exactly the specification's results** (listings most→least
recently used, eviction of the least recently used entry, latest value for a present key). -/
theorem run_refines_spec (ops : List Op) (c : Cache) (hi : Inv c) :
    specRun c.cap c.items.reverse ops = ((run c ops).1.items.reverse, (run c ops).2) := by
  induction ops generalizing c with
  | nil => simp [specRun, run]
  | cons op ops ih =>
    have h1 := refines_spec c op hi
    have h2 := ih (step c op).1 (inv_step c op hi)
    rw [cap_step] at h2
    simp only [specRun, run, h1, h2]

example : (specRun 2 [] [.set 1 10, .set 2 20, .get 1, .set 3 30, .keys]).2
    = [.none_, .none_, .val 10, .none_, .keys [3, 1]] := by decide

/-- **Linearisability against the specification.** For any number of threads and any schedule of their atomic
operations, every operation returns what the declarative recency-list specification returns at its place in the
schedule — so each thread observes an LRU cache, whatever the other threads do. (This is what the `threads` stream
replays: the order in which the real threads held the lock, through this model.) -/
theorem interleaving_refines_spec (cap : Nat) (hc : 0 < cap) (ts : List (List Op)) (l : List Op)
    (_h : Interleaving ts l) :
    (run (empty cap) l).2 = (specRun cap [] l).2 := by
  have := run_refines_spec l (empty cap) (inv_empty cap hc)
  simp only [empty, List.reverse_nil] at this
  rw [this]
  rfl

/-- an interleaving contains exactly the operations of the threads: nothing is lost, nothing invented -/
theorem interleaving_length (ts : List (List Op)) (l : List Op) (h : Interleaving ts l) :
    l.length = (ts.map List.length).sum := by
  induction h with
  | done ts hnil =>
    have : ∀ t ∈ ts, t.length = 0 := fun t ht => by rw [hnil t ht]; rfl
    induction ts with
    | nil => rfl
    | cons a r ih =>
      simp only [List.map_cons, List.sum_cons, List.length_nil]
      rw [this a (List.mem_cons_self), ← ih (fun t ht => hnil t (List.mem_cons_of_mem _ ht))
        (fun t ht => this t (List.mem_cons_of_mem _ ht))]
      simp
  | pick pre op t post l _ ih =>
    simp only [List.length_cons, ih, List.map_append, List.map_cons, List.map_nil, List.sum_append,
      List.sum_cons, List.sum_nil]
    omega

end LiquidVerif.C24
