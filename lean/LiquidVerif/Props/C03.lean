import LiquidVerif.Lemmas.Mode
import LiquidVerif.Lemmas.ModeSim
import LiquidVerif.Model.ModeAsync
import LiquidVerif.Lemmas.ModeConv
import LiquidVerif.Gen.ModeSites
/-!
# C03 — lax and warn modes suppress errors without changing correct output

Property theorems about `LiquidVerif.Model.Mode` (the model of `Environment.error`, `Parser._parse` / `parse_block`,
`Tag.get_node`, the tag parsers, `BoundTemplate.render_with_context`).  Helper lemmas live in `Lemmas/Mode.lean`.

Every theorem quantifies over *all* token streams `src : List (Tok σ)` (malformed tag expressions, unknown tags, orphaned
`else`/`break`/`continue`, unbalanced blocks are just token lists), all state types `σ` and all expression semantics
(`Expr.eval : σ → σ × Except Err Val`), all tag registries, warning tables, nesting limits, depth budgets and loaders.
-/
namespace LiquidVerif.C03
open LiquidVerif.Mode

variable {σ : Type}

/-! ## `Environment.error` dispatches by mode -/

/-- strict: the exception is raised -/
theorem error_strict_raises (c : Cfg σ) (h : c.mode = .strict) (log : Log) (e : Err) : c.error log e = .error e :=
  error_strict c h log e

/-- warn: nothing is raised, exactly one warning is emitted, its category is `lookup_warning(class)` -/
theorem error_warn_reports (c : Cfg σ) (h : c.mode = .warn) (log : Log) (e : Err) :
    c.error log e = .ok { suppressed := log.suppressed ++ [e], warnings := log.warnings ++ [lookupWarning c.warnTable e] } :=
  error_warn c h log e

/-- lax: nothing is raised, nothing is emitted -/
theorem error_lax_silent (c : Cfg σ) (h : c.mode = .lax) (log : Log) (e : Err) :
    c.error log e = .ok { log with suppressed := log.suppressed ++ [e] } :=
  error_lax c h log e

/-! ## Sentence 1: in lax (and warn) mode any token stream parses without raising, and rendering never raises -/

/-- "In lax mode, any source the template lexer accepts parses without raising" (also for warn). -/
theorem lax_parse_never_raises (c : Cfg σ) (h : c.mode ≠ .strict) (src : List (Tok σ)) (log : Log) :
    ∃ nodes log', parseTemplate c src log = .ok (nodes, log') := by
  obtain ⟨⟨nodes, log'⟩, hx⟩ := parseTemplate_ok c h src log
  exact ⟨nodes, log', hx⟩

/-- "… and rendering never raises a Liquid error" (also for warn); interrupts do not escape either. -/
theorem lax_render_never_raises (c : Cfg σ) (h : c.mode ≠ .strict) (nodes : List (Node σ)) (st : σ) (log : Log) :
    (render c nodes st log).2 = .done := by
  rcases render_sig c nodes st log with h1 | ⟨h1, _⟩
  · exact h1
  · exact absurd h1 h

/-- The whole pipeline `env.from_string(src).render(data)` outside strict mode returns an output. -/
theorem lax_never_raises (c : Cfg σ) (h : c.mode ≠ .strict) (src : List (Tok σ)) (st : σ) :
    ∃ out log, run c src st = .ok out log := by
  obtain ⟨nodes, log', hp⟩ := lax_parse_never_raises c h src {}
  have hr := lax_render_never_raises c h nodes st log'
  unfold run
  rw [hp]
  cases hx : render c nodes st log' with
  | mk rs s =>
    rw [hx] at hr
    simp only at hr
    subst hr
    exact ⟨rs.out, rs.log, by simp only [hx]⟩

/-- In every mode a `break`/`continue`/`StopRender` never escapes `render`: it is reported through `error`. -/
theorem interrupts_never_escape (c : Cfg σ) (src : List (Tok σ)) (st : σ) : run c src st ≠ .interrupt := by
  unfold run
  split
  · simp
  · rename_i nodes log _
    rcases render_sig c nodes st log with h1 | ⟨_, e, h1⟩
    · cases hx : render c nodes st log with
      | mk rs s => rw [hx] at h1; simp only at h1; subst h1; simp
    · cases hx : render c nodes st log with
      | mk rs s => rw [hx] at h1; simp only at h1; subst h1; simp

/-! ## Sentence 2: warn mode reports each suppressed error as a warning (and lax mode reports nothing) -/

/-- the invariant "one warning per suppressed error, in order, under the category of its class" -/
def Reported (tbl : List (String × String)) (log : Log) : Prop :=
  log.warnings = log.suppressed.map (lookupWarning tbl)

theorem reported_stable (c : Cfg σ) (h : c.mode = .warn) : Stable c (Reported c.warnTable) := by
  intro log e log' hr he
  rw [error_warn c h] at he
  cases he
  simp [Reported] at hr ⊢
  rw [hr]

theorem silent_stable (c : Cfg σ) (h : c.mode = .lax) : Stable c (fun log => log.warnings = []) := by
  intro log e log' hr he
  rw [error_lax c h] at he
  cases he
  exact hr

theorem unchanged_stable (c : Cfg σ) (h : c.mode = .strict) (log0 : Log) : Stable c (fun log => log = log0) := by
  intro log e log' _ he
  rw [error_strict c h] at he
  cases he

/-- any stable predicate on the log holds after the whole pipeline -/
theorem run_log_inv (c : Cfg σ) {P : Log → Prop} (hP : Stable c P) (h0 : P {}) (src : List (Tok σ)) (st : σ) (out log)
    (h : run c src st = .ok out log) : P log := by
  unfold run at h
  split at h
  · simp at h
  · rename_i nodes log' hp
    have h1 := parseTemplate_inv c hP src {} (nodes, log') h0 hp
    have h2 := render_inv c hP nodes st log' h1
    cases hx : render c nodes st log' with
    | mk rs s =>
      rw [hx] at h h2
      cases s <;> simp at h
      obtain ⟨_, hl⟩ := h
      subst hl
      exact h2

/-- "warn mode behaves the same except that each suppressed error is reported as a warning":
    after a warn-mode run the warnings are exactly the categories of the suppressed errors, one each, in order. -/
theorem warn_reports_each (c : Cfg σ) (h : c.mode = .warn) (src : List (Tok σ)) (st : σ) (out log)
    (hr : run c src st = .ok out log) : log.warnings = log.suppressed.map (lookupWarning c.warnTable) :=
  run_log_inv c (reported_stable c h) (by simp [Reported]) src st out log hr

/-- the same at parse level (`env.from_string` alone) -/
theorem warn_reports_each_parse (c : Cfg σ) (h : c.mode = .warn) (src : List (Tok σ)) (nodes log)
    (hp : parseTemplate c src {} = .ok (nodes, log)) : log.warnings = log.suppressed.map (lookupWarning c.warnTable) :=
  parseTemplate_inv c (reported_stable c h) src {} (nodes, log) (by simp [Reported]) hp

/-- lax mode emits no warning at all -/
theorem lax_emits_no_warning (c : Cfg σ) (h : c.mode = .lax) (src : List (Tok σ)) (st : σ) (out log)
    (hr : run c src st = .ok out log) : log.warnings = [] :=
  run_log_inv c (silent_stable c h) rfl src st out log hr

/-- "warn mode behaves the same": a warn-mode run and a lax-mode run are the same computation — same outcome, same
    output, same suppressed errors in the same order; the lax result is the warn result with the warnings erased. -/
theorem warn_same_as_lax (c : Cfg σ) (src : List (Tok σ)) (st : σ) :
    run (c.withMode .lax) src st = (run (c.withMode .warn) src st).silent :=
  run_sim c src st

/-- the same for `env.from_string` alone: same nodes, same suppressed errors -/
theorem warn_same_as_lax_parse (c : Cfg σ) (src : List (Tok σ)) (nodes : List (Node σ)) (log : Log)
    (h : parseTemplate (c.withMode .warn) src {} = .ok (nodes, log)) :
    parseTemplate (c.withMode .lax) src {} = .ok (nodes, log.silent) := by
  have hp := parseTemplate_sim c src {}
  have h0 : ({} : Log).silent = {} := rfl
  rw [h0, h] at hp
  exact hp

/-- spelled out on outputs: if warn returns `out` having suppressed `log.suppressed`, lax returns the same `out`
    having suppressed the same errors, silently -/
theorem warn_ok_implies_lax_same (c : Cfg σ) (src : List (Tok σ)) (st : σ) (out : String) (log : Log)
    (h : run (c.withMode .warn) src st = .ok out log) :
    run (c.withMode .lax) src st = .ok out { suppressed := log.suppressed, warnings := [] } := by
  rw [warn_same_as_lax, h]; rfl

/-- with the table generated from `liquid/exceptions.py` the categories are those of `WARNINGS` -/
theorem warn_reports_each_generated (c : Cfg σ) (h : c.mode = .warn) (ht : c.warnTable = Gen.ModeSites.warnings)
    (src : List (Tok σ)) (st : σ) (out log) (hr : run c src st = .ok out log) :
    log.warnings = log.suppressed.map (lookupWarning Gen.ModeSites.warnings) := by
  rw [← ht]; exact warn_reports_each c h src st out log hr

/-! ## Sentence 3: a template that parses and renders without error in strict mode renders identically in lax and warn
mode, and warn mode emits no warnings for it -/

/-- parse level: a strict-mode parse that succeeds yields the same nodes in every mode and reports nothing -/
theorem strict_ok_implies_same_parse (c : Cfg σ) (src : List (Tok σ)) (log : Log) (nodes log')
    (h : parseTemplate (c.withMode .strict) src log = .ok (nodes, log')) :
    log' = log ∧ ∀ m, parseTemplate (c.withMode m) src log = .ok (nodes, log) := by
  have hl : log' = log :=
    parseTemplate_inv (c.withMode .strict) (unchanged_stable _ rfl log) src log (nodes, log') rfl h
  subst hl
  exact ⟨rfl, fun m => parseTemplate_agree c m src log' _ h⟩

/-- **strict_ok_implies_same**: if `from_string(src).render(data)` returns `out` in strict mode then it returns the same
    `out` in lax mode and in warn mode (indeed in every mode), nothing was suppressed and no warning was emitted. -/
theorem strict_ok_implies_same (c : Cfg σ) (src : List (Tok σ)) (st : σ) (out : String) (log : Log)
    (h : run (c.withMode .strict) src st = .ok out log) :
    log = {} ∧ ∀ m, run (c.withMode m) src st = .ok out {} := by
  have hl : log = {} := run_log_inv (c.withMode .strict) (unchanged_stable _ rfl {}) rfl src st out log h
  subst hl
  refine ⟨rfl, fun m => ?_⟩
  unfold run at h ⊢
  split at h
  · simp at h
  · rename_i nodes log' hp
    obtain ⟨hl', hall⟩ := strict_ok_implies_same_parse c src {} nodes log' hp
    subst hl'
    rw [hall m]
    dsimp only
    cases hx : render (c.withMode .strict) nodes st {} with
    | mk rs s =>
      rw [hx] at h
      have hne : (render (c.withMode .strict) nodes st {}).2.isErr = false := by
        rw [hx]; cases s <;> simp_all [Sig.isErr]
      rw [render_agree c m nodes st {} hne, hx]
      exact h

/-- the two instances the property names -/
theorem strict_ok_implies_lax_warn_same (c : Cfg σ) (src : List (Tok σ)) (st : σ) (out : String) (log : Log)
    (h : run (c.withMode .strict) src st = .ok out log) :
    run (c.withMode .lax) src st = .ok out {} ∧ run (c.withMode .warn) src st = .ok out { suppressed := [], warnings := [] } :=
  ⟨(strict_ok_implies_same c src st out log h).2 .lax, (strict_ok_implies_same c src st out log h).2 .warn⟩

/-! ## The converse direction: outside the strict-only guards a strict failure is always visible in lax and warn mode

`GuardFree src`: no expression token of the stream (and, `LoaderGuardFree`, of any template the loader returns) sits
behind one of the strict-only raise guards (`PBeh.strictOnly`) — the 7 `raiseGuard` sites of `Gen/ModeSites.lean`. -/

/-- on guard-free streams, a lax run that suppresses nothing is the strict run -/
theorem lax_quiet_implies_strict_same (c : Cfg σ) (hld : LoaderGuardFree c) (src : List (Tok σ)) (hg : GuardFree src) (st : σ)
    (out : String) (log : Log) (h : run (c.withMode .lax) src st = .ok out log) (hq : log.suppressed = []) :
    run (c.withMode .strict) src st = .ok out log :=
  run_conv c hld src hg st out log h hq

/-- if strict mode raises (at parse or at render) on a guard-free stream, lax mode suppresses at least one error -/
theorem strict_fails_implies_lax_suppresses (c : Cfg σ) (hld : LoaderGuardFree c) (src : List (Tok σ)) (hg : GuardFree src) (st : σ)
    (h : ∀ out log, run (c.withMode .strict) src st ≠ .ok out log) :
    ∃ out log, run (c.withMode .lax) src st = .ok out log ∧ log.suppressed ≠ [] := by
  obtain ⟨out, log, hl⟩ := lax_never_raises (c.withMode .lax) (by simp) src st
  refine ⟨out, log, hl, fun hq => ?_⟩
  exact h out log (run_conv c hld src hg st out log hl hq)

/-- … and warn mode emits at least one warning -/
theorem strict_fails_implies_warn_warns (c : Cfg σ) (hld : LoaderGuardFree c) (src : List (Tok σ)) (hg : GuardFree src) (st : σ)
    (h : ∀ out log, run (c.withMode .strict) src st ≠ .ok out log) :
    ∃ out log, run (c.withMode .warn) src st = .ok out log ∧ log.warnings ≠ [] := by
  obtain ⟨out, logL, hl, hne⟩ := strict_fails_implies_lax_suppresses c hld src hg st h
  obtain ⟨outW, logW, hw⟩ := lax_never_raises (c.withMode .warn) (by simp) src st
  have hs := warn_same_as_lax c src st
  rw [hl, hw] at hs
  simp only [Outcome.silent, Outcome.ok.injEq] at hs
  obtain ⟨_, hlog⟩ := hs
  have hrep := warn_reports_each (c.withMode .warn) rfl src st outW logW hw
  refine ⟨outW, logW, hw, fun hq => hne ?_⟩
  rw [hlog]
  simp only [Log.silent_suppressed]
  rw [hq] at hrep
  cases hsup : logW.suppressed with
  | nil => rfl
  | cons a t => rw [hsup] at hrep; simp at hrep

/-- the same at parse level (`env.from_string`) -/
theorem strict_parse_fails_implies_lax_suppresses (c : Cfg σ) (src : List (Tok σ)) (hg : GuardFree src) (e : Err)
    (h : parseTemplate (c.withMode .strict) src {} = .error e) :
    ∃ nodes log, parseTemplate (c.withMode .lax) src {} = .ok (nodes, log) ∧ log.suppressed ≠ [] := by
  obtain ⟨ns, log', hx, hlt⟩ := parse_strict_fails_lax_suppresses c src {} hg e h
  refine ⟨ns, log', hx, fun hq => ?_⟩
  rw [hq] at hlt
  simp at hlt

/-- the hypothesis is needed: behind a strict-only guard strict raises while lax/warn go on silently (by design) -/
theorem strict_fails_lax_silent_counterexample :
    ∃ (c : Cfg Unit) (src : List (Tok Unit)),
      run (c.withMode .strict) src () = .parseError "LiquidSyntaxError" ∧
      run (c.withMode .warn) src () = .ok "" {} := by
  refine ⟨{ mode := .lax, warnTable := [], syntaxClasses := [], tags := fun _ => .unknown, nestLimit := 5, depthLimit := 5, loader := fun _ => none },
    [.output, .expr ⟨.strictOnly "LiquidSyntaxError" none, fun _ => ((), .ok ⟨"", 0⟩)⟩], ?_, ?_⟩ <;> decide

/-! ## The asynchronous render loop (`render_with_context_async`, modelled as its own function in `Model/ModeAsync.lean`)

The node-level async twins are C01's obligations (erase-equal pairs / reviewed residuals); here the *loop* — the place
where the mode is consulted — is modelled separately and proved equal to the sync loop, so every theorem above holds for
`render_async` as well. -/

/-- the async template loop is the sync template loop, for every node renderer -/
theorem async_loop_equals_sync_loop (c : Cfg σ) (rn : Node σ → RS σ → RS σ × Sig) (p b : Bool) (ns : List (Node σ)) (rs : RS σ) :
    templateLoopAsync c rn p b ns rs = templateLoop c rn p b ns rs :=
  templateLoopAsync_eq c rn p b ns rs

/-- `await from_string(src).render_async(data)` observes what `from_string(src).render(data)` observes, in every mode -/
theorem async_run_equals_sync_run (c : Cfg σ) (src : List (Tok σ)) (st : σ) : runAsync c src st = run c src st :=
  runAsync_eq c src st

/-- sentence 1 for `render_async` -/
theorem lax_never_raises_async (c : Cfg σ) (h : c.mode ≠ .strict) (src : List (Tok σ)) (st : σ) :
    ∃ out log, runAsync c src st = .ok out log := by
  rw [runAsync_eq]; exact lax_never_raises c h src st

/-- sentence 2 for `render_async` -/
theorem warn_reports_each_async (c : Cfg σ) (h : c.mode = .warn) (src : List (Tok σ)) (st : σ) (out log)
    (hr : runAsync c src st = .ok out log) : log.warnings = log.suppressed.map (lookupWarning c.warnTable) := by
  rw [runAsync_eq] at hr; exact warn_reports_each c h src st out log hr

/-- sentence 3 for `render_async` -/
theorem strict_ok_implies_same_async (c : Cfg σ) (src : List (Tok σ)) (st : σ) (out : String) (log : Log)
    (h : runAsync (c.withMode .strict) src st = .ok out log) :
    log = {} ∧ ∀ m, runAsync (c.withMode m) src st = .ok out {} := by
  rw [runAsync_eq] at h
  obtain ⟨h1, h2⟩ := strict_ok_implies_same c src st out log h
  exact ⟨h1, fun m => by rw [runAsync_eq]; exact h2 m⟩

/-! ## Tie to the source: obligations over the generated inventory (`Gen/ModeSites.lean`, rewritten on every run) -/

/-- every consultation of the mode in liquid/ has a benign shape (re-exported; decided in the generated file) -/
theorem all_sites_benign : Gen.ModeSites.kinds.all Gen.ModeSites.Kind.benign = true := Gen.ModeSites.all_sites_benign

/-- `Environment.error` and `RenderContext.error` have the dispatch shape `Cfg.error` mirrors -/
theorem error_methods_dispatch :
    Gen.ModeSites.errorShapes =
      [("Environment.error", "STRICT=>raise;WARN=>warn(lookup_warning:exc.__class__)"),
       ("RenderContext.error", "STRICT=>raise;WARN=>warn(lookup_warning:exc.__class__)")] := by decide

/-- the tag-local parsing flavour of `if` / `unless` is the constant `Mode.LAX` (what `parseCond` assumes) -/
theorem tag_constants_pinned : Gen.ModeSites.tagConstants = [("IfTag", "LAX"), ("UnlessTag", "LAX")] := by decide

/-- the try/except skeletons of the loops the model mirrors, as reviewed -/
theorem skeletons_pinned :
    Gen.ModeSites.skeletons =
      [("Parser._parse", "loop{try{}except LiquidError{self.env.error}}"),
       ("Parser.parse_block", "if(?){raise BlockNestingError};loop{if(?){break};try{}except LiquidError{self.env.error}};return BlockNode"),
       ("Tag.get_node", "try{return self.parse}except LiquidError{self.env.error;if(self.block and hasattr(self, 'end')){eat_block};return IllegalNode}"),
       ("IfTag.parse", "loop{try{}except LiquidSyntaxError{self.env.error;eat_block;return IllegalNode}};if(?){if(?){if(self.mode == Mode.LAX){}else{raise LiquidSyntaxError}}};if(not stream.current.is_tag(TAG_ENDIF) and self.mode == Mode.LAX){loop{if(?){break}}};return self.node_class"),
       ("UnlessTag.parse", "loop{try{}except LiquidSyntaxError{self.env.error;eat_block;return IllegalNode}};if(?){if(?){if(self.mode == Mode.LAX){}else{raise LiquidSyntaxError}}};if(not stream.current.is_tag(TAG_ENDUNLESS) and self.mode == Mode.LAX){loop{if(?){break}}};return self.node_class"),
       ("BoundTemplate.render_with_context", "loop{try{}except LiquidInterrupt{if(not partial or block_scope){self.env.error}else{raise}}except StopRender{break}except LiquidError{self.env.error}}"),
       ("BoundTemplate.render_with_context_async", "loop{try{}except LiquidInterrupt{if(not partial or block_scope){self.env.error}else{raise}}except StopRender{break}except LiquidError{self.env.error}}")] := by
  rfl

/-! ## Non-vacuity: the hypotheses are met by concrete, non-trivial streams -/

section examples

def exTags (name : String) : TagKind :=
  if name == "if" then .cond "endif" false else if name == "for" then .loop "endfor"
  else if name == "break" then .interrupt true else if name == "echo" then .eval true
  else if name == "case" then .case_ "endcase" else .unknown

def exCfg (m : Mode) : Cfg Unit :=
  { mode := m, warnTable := Gen.ModeSites.warnings, syntaxClasses := Gen.ModeSites.syntaxClasses, tags := exTags,
    nestLimit := 5, depthLimit := 5, loader := fun _ => none }

def lit (s : String) (n : Nat) : Tok Unit := .expr ⟨.ok, fun _ => ((), .ok ⟨s, n⟩)⟩
def bad : Tok Unit := .expr ⟨.err synErr, fun _ => ((), .ok ⟨"", 0⟩)⟩
def failing : Tok Unit := .expr ⟨.ok, fun _ => ((), .error "FilterArgumentError")⟩

/-- `a{% if true %}{{ 'x' }}{% endif %}{% for i in (1..2) %}b{% endfor %}` — fine in strict mode -/
def goodSrc : List (Tok Unit) :=
  [.content "a", .tag "if", lit "" 1, .output, lit "x" 1, .tag "endif", .tag "for", lit "" 2, .content "b", .tag "endfor"]

/-- `a{% if %}{{ | }}{% endif %}{% else %}{{ 1 | divided_by: 0 }}{% break %}b{% for i in (1..2) %}c` — malformed everywhere -/
def badSrc : List (Tok Unit) :=
  [.content "a", .tag "if", .output, bad, .tag "endif", .tag "else", .output, failing, .tag "break", .content "b",
   .tag "for", lit "" 2, .content "c"]

example : run (exCfg .strict) goodSrc () = .ok "axbb" {} := by decide
example : run (exCfg .lax) goodSrc () = .ok "axbb" {} := by decide
example : run (exCfg .strict) badSrc () = .parseError "LiquidSyntaxError" := by decide
example : run (exCfg .lax) badSrc () =
    .ok "ab" { suppressed := ["LiquidSyntaxError", "LiquidSyntaxError", "LiquidSyntaxError", "FilterArgumentError", "LiquidSyntaxError"], warnings := [] } := by
  decide
example : run (exCfg .warn) badSrc () =
    .ok "ab" { suppressed := ["LiquidSyntaxError", "LiquidSyntaxError", "LiquidSyntaxError", "FilterArgumentError", "LiquidSyntaxError"],
               warnings := ["LiquidSyntaxWarning", "LiquidSyntaxWarning", "LiquidSyntaxWarning", "FilterWarning", "LiquidSyntaxWarning"] } := by
  decide

/-- `{% case 1 %} junk {% when 1, 1 %}y{% else %}n{% when %}z{% endcase %}{% when 1 %}` -/
def caseSrc : List (Tok Unit) :=
  [.tag "case", lit "" 0, .content " junk ", .tag "when", lit "" 2, .content "y", .tag "else", .content "n", .tag "when", .content "z",
   .tag "endcase", .tag "when", lit "" 1]

example : run (exCfg .strict) caseSrc () = .parseError "LiquidSyntaxError" := by decide
example : run (exCfg .warn) caseSrc () =
    .ok "" { suppressed := ["LiquidSyntaxError", "LiquidSyntaxError"], warnings := ["LiquidSyntaxWarning", "LiquidSyntaxWarning"] } := by decide
example : runAsync (exCfg .lax) badSrc () = run (exCfg .lax) badSrc () := by decide

end examples

end LiquidVerif.C03
