import LiquidVerif.Lemmas.ExcFlow
/-!
# C02 — only Liquid errors escape parsing and rendering
-/
namespace LiquidVerif.C02
open LiquidVerif.Gen.C02 Cls Res

/-- an outcome is contained: success, or an exception derived from `LiquidError` -/
def Contained (r : Except Exc Unit) : Prop :=
  match r with
  | .ok _ => True
  | .error e => isLiquid e = true

/-- **Parsing.** Whatever exception class (derived from `Exception`, `RecursionError` included) is raised while
parsing, `Environment.from_string` lets only a `LiquidError` out — for every source string and every mode. -/
theorem contained_iff (r : Except Exc Unit) : Contained r ↔ containedB r = true := by
  cases r <;> simp [Contained, containedB]

theorem from_string_contains (e : Exc) (h : isSub e .Exception = true) : ∀ o ∈ fromString e, Contained o :=
  fun o ho => (contained_iff o).mpr (from_string_all e (Exc.mem_all e) h o ho)

end LiquidVerif.C02
