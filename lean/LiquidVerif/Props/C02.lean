import LiquidVerif.Lemmas.ExcFlowT0
import LiquidVerif.Lemmas.ExcFlowT1a
import LiquidVerif.Lemmas.ExcFlowT1b
import LiquidVerif.Lemmas.ExcFlowT1c
import LiquidVerif.Lemmas.ExcFlowT1d
import LiquidVerif.Lemmas.ExcFlowT2
import LiquidVerif.Lemmas.ExcFlowT3
import LiquidVerif.Lemmas.ExcFlowSites
import LiquidVerif.Model.ExcChain
/-!
# C02 — only Liquid errors escape parsing and rendering

The property theorems about `Model/ExcFlow.lean` (exception flow of the helpers, decorators, registered filters and
tag-level sites) over `Model/PyPrim.lean` (value classes, exception table of the Python primitives) and the handler
tables, class hierarchy and filter registry **generated from the source** (`Gen/C02Tables.lean`).

Reading guide: `Res Unit` is the list of outcomes a run can have on members of the given classes; `Contained o` says
the outcome is success or an exception derived from `LiquidError`.
-/
namespace LiquidVerif.C02
open LiquidVerif.Gen.C02 Cls Res

/-- an outcome is contained: success, or an exception derived from `LiquidError` -/
def Contained (r : Except Exc Unit) : Prop :=
  match r with
  | .ok _ => True
  | .error e => isLiquid e = true

theorem contained_iff (r : Except Exc Unit) : Contained r ↔ containedB r = true := by
  cases r <;> simp [Contained, containedB]

theorem contained_of_all {m : Res Unit} (h : allContained m = true) : ∀ o ∈ m, Contained o :=
  fun o ho => (contained_iff o).mpr (List.all_eq_true.mp h o ho)

/-! ## Parsing -/

/-- **"Parsing any source text either succeeds or raises an exception derived from LiquidError."**
Whatever exception class derived from `Exception` (`RecursionError`, `TypeError`, `IndexError`, … — every class of the
generated hierarchy) is raised anywhere below `Environment._parse`, the handler list of `Environment.from_string`
lets only a `LiquidError` out; this holds for every source string and every tolerance mode because the handlers do
not look at either. -/
theorem from_string_contains (e : Exc) (h : isSub e .Exception = true) : ∀ o ∈ fromString e, Contained o :=
  contained_of_all (from_string_all e h)

/-- non-vacuity: `RecursionError` and `IndexError` are in the quantifier of `from_string_contains` -/
example : isSub .RecursionError .Exception = true ∧ isSub .IndexError .Exception = true := by decide

/-! ## Rendering: the loop that every node's exception passes through -/

/-- **"… in any tolerance mode."** The per-node handler of `BoundTemplate.render_with_context` (strict, or
warn/lax) never produces a *new* non-Liquid exception: an outcome is success, a Liquid error, or the exception that
came in.  So containment of rendering reduces to containment of what the nodes raise (the two theorems below). -/
theorem render_loop_adds_nothing (strict : Bool) (e : Exc) :
    ∀ o ∈ renderLoop strict e, Contained o ∨ o = .error e := by
  intro o ho
  have h1 := List.all_eq_true.mp render_loop_table e (Exc.mem_all e)
  have h2 := List.all_eq_true.mp h1 strict (by cases strict <;> simp)
  have h3 := List.all_eq_true.mp h2 o ho
  cases o with
  | ok u => exact Or.inl trivial
  | error x =>
    simp only [loopOutcomeOk, Bool.or_eq_true] at h3
    rcases h3 with h | h
    · exact Or.inl h
    · refine Or.inr ?_
      have : x.idx = e.idx := Nat.eq_of_beq_eq_true h
      have hx : x = e := by
        have := congrArg Exc.ofIdx this
        simpa [Exc.ofIdx_idx] using this
      rw [hx]

/-- in warn/lax mode a Liquid error raised by a node is swallowed, never converted -/
example : renderLoop false .FilterArgumentError = [.ok ()] := by rfl

/-! ## Filters -/

/-- **"No other exception type reaches the caller from the built-in or extra filters"** — the part that holds.
For every registered filter (default and extra environment), every class of left value and every list of argument
classes *of any length*, every outcome of running the filter the way `Filter.evaluate` runs it is success or a
`LiquidError` — provided no operand falls in a `knownLeak` cell (the hypotheses are decidable; the cells are the known
findings of the current tree, each refuted by a `_counterexample` theorem below). -/
theorem escapes_are_liquid_partial (f : FilterName) (l : Cls) (args : List Cls)
    (h0 : knownLeak f l 0 none = false) (h1 : knownLeak f l 1 args[0]? = false)
    (h2 : knownLeak f l 2 args[1]? = false) (h3 : knownLeak f l 3 args[2]? = false) :
    ∀ o ∈ runFilter f l args, Contained o := by
  intro o ho
  have hf := FilterName.mem_all f
  have hl := Cls.mem_all l
  have hd : f.decos.length ≤ 1 := of_decide_eq_true (List.all_eq_true.mp table_deco f hf)
  rcases runFilter_outcome hd ho with ⟨e, he, ho⟩ | ⟨l', hl', r, hr, ho⟩
  · -- the decorator's conversion of the left value raised (outside the decorator's try)
    have := List.all_eq_true.mp (List.all_eq_true.mp (List.all_eq_true.mp table_pre f hf) l hl) e he
    rw [h0, Bool.false_or] at this
    exact contained_of_all this o ho
  · have hfix := List.all_eq_true.mp table_fixed f hf
    rw [Bool.and_eq_true] at hfix
    rcases callBody_outcome hr with rfl | rfl | ⟨e, rfl, har, hstep⟩
    · exact contained_of_all hfix.1 o ho
    · exact contained_of_all hfix.2 o ho
    · -- an exception of exactly one step
      have key : ∀ (pos : Nat) (a : Option Cls), knownLeak f l pos a = false →
          (knownLeak f l pos a || postOk f (.error e)) = true → Contained o := by
        intro pos a hk h
        rw [hk, Bool.false_or] at h
        exact contained_of_all h o ho
      cases hstep with
      | s0 h =>
        have t := List.all_eq_true.mp (List.all_eq_true.mp (List.all_eq_true.mp table_s0 f hf) l hl) l' hl'
        exact key 0 none h0 (List.all_eq_true.mp t e (List.mem_append_left _ h))
      | sEnd h =>
        have t := List.all_eq_true.mp (List.all_eq_true.mp (List.all_eq_true.mp table_s0 f hf) l hl) l' hl'
        exact key 0 none h0 (List.all_eq_true.mp t e (List.mem_append_right _ h))
      | s1 h =>
        have t1 : ((Cls.all.all fun l => (pre f l).oks.all fun l' => (argRange f 1).all fun a =>
            ((steps f l').s1 a).excs.all fun e => knownLeak f l 1 a || postOk f (.error e)) = true) := by
          rcases filter_in_chunk f with c | c | c | c
          · exact List.all_eq_true.mp table_s1a f c
          · exact List.all_eq_true.mp table_s1b f c
          · exact List.all_eq_true.mp table_s1c f c
          · exact List.all_eq_true.mp table_s1d f c
        have t := List.all_eq_true.mp (List.all_eq_true.mp (List.all_eq_true.mp t1 l hl) l' hl') _ (arg_in_range har 0)
        exact key 1 _ h1 (List.all_eq_true.mp t e h)
      | s2 h =>
        have t := List.all_eq_true.mp (List.all_eq_true.mp (List.all_eq_true.mp (List.all_eq_true.mp table_s2 f hf) l hl) l' hl') _
          (arg_in_range har 1)
        exact key 2 _ h2 (List.all_eq_true.mp t e h)
      | s3 h =>
        have t := List.all_eq_true.mp (List.all_eq_true.mp (List.all_eq_true.mp (List.all_eq_true.mp table_s3 f hf) l hl) l' hl') _
          (arg_in_range har 2)
        exact key 3 _ h3 (List.all_eq_true.mp t e h)

/-- non-vacuity: ordinary cells satisfy the hypotheses, e.g. `{{ "3.5" | ceil }}`, `{{ x | slice: "a", nil }}` -/
example : knownLeak .ceil_ float_inf 0 none = false ∧ knownLeak .slice_ list_int 1 (some str_other) = false
    ∧ knownLeak .slice_ list_int 2 (some none_) = false := by decide

/-- the repaired cells are inside the theorem: `ceil` of `inf` is a `FilterArgumentError` now -/
example : runFilter .ceil_ float_inf [] = [.error .FilterArgumentError] := by rfl
example : runFilter .truncate_ str_other [float_inf] = [.error .FilterArgumentError] := by rfl
example : runFilter .index_ undefined [int_pos] = [.ok ()] := by rfl
example : runFilter .sum_ list_str [] = [.ok ()] := by rfl
example : runFilter .base64_decode_ str_b64_nonutf8 [] = [.error .FilterError] := by rfl

/-- every run is defined for argument lists of any length: too many arguments is a Liquid error, not a leak -/
example : runFilter .upcase_ str_other [int_pos, int_pos, int_pos, int_pos, int_pos] = [.error .FilterArgumentError] := by
  rfl

/-! ### The full statement is false on the current tree: kernel-decided counterexamples (one per known finding) -/

/-- the full-strength statement for one cell -/
def FilterContained (f : FilterName) (l : Cls) (args : List Cls) : Prop := ∀ o ∈ runFilter f l args, Contained o

theorem filterContained_iff (f : FilterName) (l : Cls) (args : List Cls) :
    FilterContained f l args ↔ allContained (runFilter f l args) = true := by
  constructor
  · intro h
    exact List.all_eq_true.mpr (fun o ho => (contained_iff o).mp (h o ho))
  · exact contained_of_all

/-- int → str digit limit: any filter that stringifies an int with more than 4300 digits (`ValueError`) -/
theorem escapes_digits_counterexample : ¬ FilterContained .upcase_ int_giant [] := by
  rw [filterContained_iff]; decide
theorem escapes_compact_counterexample : ¬ FilterContained .compact_ list_dict_gap [str_key] := by
  rw [filterContained_iff]; decide
theorem escapes_compact_index_counterexample : ¬ FilterContained .compact_ str_empty [int_pos] := by
  rw [filterContained_iff]; decide
theorem escapes_date_counterexample : ¬ FilterContained .date_ int_ts [str_other] := by
  rw [filterContained_iff]; decide
theorem escapes_date_digits_counterexample : ¬ FilterContained .date_ str_bigdigits [str_other] := by
  rw [filterContained_iff]; decide
theorem escapes_json_counterexample : ¬ FilterContained .json_ list_int [int_big] := by
  rw [filterContained_iff]; decide
theorem escapes_sum_counterexample : ¬ FilterContained .sum_ list_infs [] := by
  rw [filterContained_iff]; decide
theorem escapes_url_encode_counterexample : ¬ FilterContained .url_encode_ str_surrogate [] := by
  rw [filterContained_iff]; decide
theorem escapes_currency_counterexample : ¬ FilterContained .currency_ int_huge [] := by
  rw [filterContained_iff]; decide
theorem escapes_datetime_counterexample : ¬ FilterContained .datetime_ float_nan [] := by
  rw [filterContained_iff]; decide
theorem escapes_unit_counterexample : ¬ FilterContained .unit_ float_inf [str_empty] := by
  rw [filterContained_iff]; decide

/-! ## Chains of filters -/

/-- **"templates combining any built-in/extra … filters"** — chains of any length, by induction over the chain.
The result of a link is any member of `resultCls f`; if every link, on every class its left value can have, is outside
the known-leak cells (`chainOk`, decidable), every outcome of `l | f₁: args₁ | f₂: args₂ | …` is success or a
`LiquidError`. -/
theorem chain_contained_partial (chain : List Link) (l : Cls) (h : chainOk chain l = true) :
    ∀ o ∈ runChain chain l, Contained o := by
  induction chain generalizing l with
  | nil =>
    intro o ho
    have : o = .ok () := List.mem_singleton.mp ho
    rw [this]; trivial
  | cons link rest ih =>
    obtain ⟨f, args⟩ := link
    intro o ho
    simp only [chainOk, Bool.and_eq_true, Bool.not_eq_true', List.all_eq_true] at h
    obtain ⟨hk, hrest⟩ := h
    simp only [cellKnown, Bool.or_eq_false_iff] at hk
    obtain ⟨⟨⟨h0, h1⟩, h2⟩, h3⟩ := hk
    rcases mem_bind ho with ⟨_, _, ho⟩ | ⟨e, he, rfl⟩
    · obtain ⟨c, hc, ho⟩ := List.mem_flatMap.mp ho
      exact ih c (hrest c hc) o ho
    · exact escapes_are_liquid_partial f l args h0 h1 h2 h3 _ he

/-- non-vacuity: `x | upcase | ceil`, `x | split: ',' | sort | join: x`, `x | size | times: 2 | append: 'a'` -/
example : chainOk [(.upcase_, []), (.ceil_, [])] list_dict = true := by decide
example : chainOk [(.split_, [str_other]), (.sort_, []), (.join_, [str_pct])] str_other = true := by decide
example : chainOk [(.size_, []), (.times_, [int_pos])] dict_ = true := by decide

/-- the full statement is false for chains too: `x | times: y | append: 'a'` can build an int of more than 4300
digits and stringify it (`ValueError`) although neither operand has that many -/
theorem chain_digits_counterexample :
    ¬ ∀ o ∈ runChain [(.times_, [int_huge]), (.append_, [str_other])] int_huge, Contained o := by
  intro h
  have hall : allContained (runChain [(.times_, [int_huge]), (.append_, [str_other])] int_huge) = true :=
    List.all_eq_true.mpr (fun o ho => (contained_iff o).mp (h o ho))
  revert hall; decide +kernel

/-! ## Tag-level sites -/

/-- **"… from the built-in or extra tags … and expressions"** — the part that holds: at every modelled site
(57 sites: output/echo/capture, assign, range bounds, `for`/`tablerow` iterables and options, comparisons, `contains`, equality with `empty`/`blank`, truthiness, subscripts and dotted paths, `case`/`when`, `cycle`, `include`/`render` names and arguments, `ifchanged`, `with`, macro arguments, `translate` variables and count, ternaries, `liquid`, keyword arguments of `default`/`t`/unknown keywords), for every
class of the value in the hole and both kinds of tolerance mode, every outcome is contained unless the cell is a
known leak. -/
theorem sites_contained_partial (s : Site) (x : Cls) (strict : Bool) (h : knownSiteLeak s x = false) :
    ∀ o ∈ runSiteMode strict s x, Contained o := by
  have t := List.all_eq_true.mp (List.all_eq_true.mp (List.all_eq_true.mp table_sites s (Site.mem_all s)) x (Cls.mem_all x))
    strict (by cases strict <;> simp)
  rw [h, Bool.false_or] at t
  exact contained_of_all t

/-- non-vacuity, and the repaired cells: `(1..x)` with `x` a list, `limit: inf`, `cols: nil` -/
example : knownSiteLeak .range_bound list_int = false ∧ runSite .range_bound list_int = [.ok ()] := ⟨by decide, by rfl⟩
example : runSite .for_limit float_inf = [.error .LiquidTypeError] := by rfl
example : runSite .tablerow_cols none_ = [.ok ()] := by rfl
/-- repaired by other properties' fixes and now inside the theorem: `limit: -1`, `d contains <list>`, a stray `%` in a message -/
example : runSite .for_limit int_neg = [.ok ()] ∧ runSite .contains_in_dict list_int = [.ok ()] := ⟨by rfl, by rfl⟩
example : runFilter .gettext_ str_pct [] = [.ok ()] ∧ runFilter .t_ str_fmt_d [] = [.ok ()] := ⟨by rfl, by rfl⟩

/-- the full-strength statement for one site cell -/
def SiteContained (strict : Bool) (s : Site) (x : Cls) : Prop := ∀ o ∈ runSiteMode strict s x, Contained o

theorem siteContained_iff (strict : Bool) (s : Site) (x : Cls) :
    SiteContained strict s x ↔ allContained (runSiteMode strict s x) = true := by
  constructor
  · intro h
    exact List.all_eq_true.mpr (fun o ho => (contained_iff o).mp (h o ho))
  · exact contained_of_all

/-- `{{ x }}` with an int of more than 4300 digits (`ValueError`), also in lax mode -/
theorem sites_output_digits_counterexample : ¬ SiteContained false .output int_giant := by
  rw [siteContained_iff]; decide

end LiquidVerif.C02
