import LiquidVerif.Props.C14
import LiquidVerif.Lemmas.ScopeCongr
/-!
# C15 — rendered partials and macros are isolated from their caller

Property theorems about `LiquidVerif.Model.Scope`: the `render` tag (`liquid/builtin/tags/render_tag.py`), `call`
(`liquid/extra/tags/macro_tag.py`) and `RenderContext.copy` (`liquid/context.py`).
-/
namespace LiquidVerif.C15
open LiquidVerif.Scope

/-- what the caller observes of a node's rendering: the text, or the error class -/
def outOf (r : Res) : Except Err String :=
  match r with
  | .error e => .error e
  | .ok (_, o) => .ok o

theorem outOf_keepRes (st : St) (r : Res) : outOf (keepRes st r) = outOf r := by
  cases r with
  | error e => rfl
  | ok p => rfl

theorem outOf_keepStopRes (st : St) (r : Res) : outOf (keepStopRes st r) = outOf r := by
  cases r with
  | error e => rfl
  | ok p => rfl

/-- the bound-variable expression of a `render` tag, if any -/
def bindExpr : Option (Bool × Expr × Option String) → Option Expr
  | none => none
  | some (_, e, _) => some e

/-- **Sentence 1 (a rendered template sees only its arguments, its bound variable and global data).**  Take any two
callers — any pushed block scopes (loop variables, `with`), any assigned / captured locals, any counters, macros and
loop stacks, any `include`-permission and chain size, any `globals` (inside an overriding `{% block %}` these hold the
base template's whole scope) — that share the isolated global data (`_isolated_globals`) and in which the tag's keyword
arguments and bound variable evaluate alike.  Then the `render` tag produces the same text (or the same error) in
both. -/
theorem render_isolated (E : Env) (G₁ G₂ : Frame) (st₁ st₂ : St) (name : String)
    (bind : Option (Bool × Expr × Option String)) (args : List (String × Expr))
    (hg : G₁.iso = G₂.iso) (hc : G₁.copyDepth = G₂.copyDepth)
    (ha : evalArgs E G₁ st₁ args = evalArgs E G₂ st₂ args)
    (hb : ∀ e, bindExpr bind = some e → eval E G₁ st₁ e = eval E G₂ st₂ e) :
    outOf (render E G₁ st₁ (.render name bind args)) = outOf (render E G₂ st₂ (.render name bind args)) := by
  simp only [render, Frame.copied, hg, hc, ha]
  cases lookupT E.templates name with
  | none => rfl
  | some body =>
    simp only
    cases evalArgs E G₂ st₂ args with
    | error x => rfl
    | ok ns =>
      simp only
      by_cases hd : G₂.copyDepth > E.depth
      · simp only [hd, dite_true]
      · simp only [hd, dite_false, outOf_keepRes]
        cases bind with
        | none => rfl
        | some p =>
          obtain ⟨loop, e, alias⟩ := p
          simp only [hb e rfl]

/-- literal expressions (and no bound variable): arguments that cannot depend on the caller at all -/
def allLit : List (String × Expr) → Bool
  | [] => true
  | (_, .lit _) :: r => allLit r
  | (_, .path _ _) :: _ => false

theorem evalArgs_lits (E : Env) (G₁ G₂ : Frame) (st₁ st₂ : St) (args : List (String × Expr)) (h : allLit args = true) :
    evalArgs E G₁ st₁ args = evalArgs E G₂ st₂ args := by
  induction args with
  | nil => rfl
  | cons p r ih =>
    obtain ⟨k, e⟩ := p
    cases e with
    | lit v => simp only [evalArgs, eval, evalExpr, ih (by simpa [allLit] using h)]
    | path a b => simp [allLit] at h

/-- **Sentence 1, the caller's locals varied freely.**  With the arguments held fixed (literals), the output of a
`render` tag is the same for *every* pair of caller states: no assigned, captured, loop or block variable of the caller
— whatever its name — can reach the partial. -/
theorem render_isolated_locals (E : Env) (G : Frame) (st₁ st₂ : St) (name : String) (args : List (String × Expr))
    (h : allLit args = true) :
    outOf (render E G st₁ (.render name none args)) = outOf (render E G st₂ (.render name none args)) :=
  render_isolated E G G st₁ st₂ name none args rfl rfl (evalArgs_lits E G G st₁ st₂ args h)
    (by intro e he; simp [bindExpr] at he)

/-- **Sentence 1 with the caller's variables varied and the arguments held fixed.**  Let the keyword arguments and
the bound variable mention only names on which the two caller states agree (global data, say, that neither caller
shadows).  Then whatever else the callers assigned, captured, pushed as loop / block variables or counted — under the
partial's own variable names or any other — the rendered partial prints the same. -/
theorem render_isolated_names (E : Env) (G : Frame) (st₁ st₂ : St) (name : String)
    (bind : Option (Bool × Expr × Option String)) (args : List (String × Expr)) (names : List String)
    (hargs : ArgsOver names args)
    (hbind : ∀ e, bindExpr bind = some e → ∃ ns, exprRoots e = some ns ∧ ∀ k ∈ ns, k ∈ names)
    (hagree : ∀ k ∈ names, (view G st₁).root k = (view G st₂).root k) :
    outOf (render E G st₁ (.render name bind args)) = outOf (render E G st₂ (.render name bind args)) := by
  apply render_isolated E G G st₁ st₂ name bind args rfl rfl (evalArgs_congr E G st₁ st₂ names hagree args hargs)
  intro e he
  obtain ⟨ns, h1, h2⟩ := hbind e he
  exact evalExpr_congr E.cfg _ _ e ns h1 (fun x hx => hagree x (h2 x hx))

/-- Inside the partial a name is looked up in: the partial's own block scopes and locals, then the argument
namespace (keyword arguments, bound variable, `forloop`), then the **caller's globals** (render arguments, front
matter, template and environment globals, outer render namespaces), the built-ins, the partial's own counters.
Nothing of the caller's state occurs. -/
theorem partial_sees_only_args_and_globals (G : Frame) (ns : NS) (tn : List Node) (stp : St) (k : String) :
    (view (G.copied ns tn) stp).root k =
      C14.firstSome (stp.pushed.map (dictGet · k) ++ [dictGet stp.locals k] ++ [dictGet ns k] ++
        G.iso.map (dictGet · k) ++ [builtinGet k, (dictGet stp.counters k).map Val.int]) := by
  rw [C14.lookup_order_chain]
  simp [Frame.copied]

/-- every way a `render` tag can end: an error, or the partial's text with the caller's state handed back -/
theorem render_tag_shape (E : Env) (G : Frame) (st : St) (name : String)
    (bind : Option (Bool × Expr × Option String)) (args : List (String × Expr)) :
    (∃ e, render E G st (.render name bind args) = .error e) ∨
    (∃ r, render E G st (.render name bind args) = keepRes st r) := by
  simp only [render]
  split
  · exact .inl ⟨_, rfl⟩
  · split
    · exact .inl ⟨_, rfl⟩
    · split
      · exact .inl ⟨_, rfl⟩
      · exact .inr ⟨_, rfl⟩

/-- **Sentence 1 (what the partial assigns is never visible to the caller).**  After a `render` tag the caller's
state — locals, counters, macros, pushed scopes, loop stack — is exactly what it was, whatever the partial assigned,
captured, incremented or defined. -/
theorem render_no_leak (E : Env) (G : Frame) (st st' : St) (name : String)
    (bind : Option (Bool × Expr × Option String)) (args : List (String × Expr)) (o : String)
    (h : render E G st (.render name bind args) = .ok (st', o)) : st' = st := by
  rcases render_tag_shape E G st name bind args with ⟨e, he⟩ | ⟨r, hr⟩
  · rw [he] at h; cases h
  · rw [hr] at h; exact (keepRes_ok h).1

/-- **Sentence 1 (it cannot use the include tag).**  The context `copy` hands to the partial has `include` disabled … -/
theorem copied_disables_include (G : Frame) (ns : NS) (tn : List Node) : (G.copied ns tn).noInclude = true := rfl

/-- … the flag is per context and nothing inside the context clears it (block scopes only change the chain size) … -/
theorem extend_keeps_disabled (G : Frame) (n : Nat) : ({ G with sz := n } : Frame).noInclude = G.noInclude := rfl

/-- … and where it is set an `include` tag raises `DisabledTagError` before doing anything. -/
theorem include_disabled (E : Env) (G : Frame) (st : St) (name : String) (bind : Option (Expr × Option String))
    (args : List (String × Expr)) (h : G.noInclude = true) :
    render E G st (.include name bind args) = .error .disabledTag := by
  simp [render, h]

/-- Hence a block of a rendered partial (or of a macro) never gets past an `include` in it: whatever precedes the tag,
the block ends in an error — or was left before the tag by a `StopRender` (an `extends` tag) — for every state. -/
theorem block_with_include_fails (E : Env) (G : Frame) (h : G.noInclude = true) (pre post : List Node) (name : String)
    (bind : Option (Expr × Option String)) (args : List (String × Expr)) (st : St) :
    (∃ e, renderList E G st (pre ++ .include name bind args :: post) = .error e) ∨
    (∃ st' o, renderList E G st (pre ++ .include name bind args :: post) = .ok (st', o) ∧ st'.stopped = true) := by
  induction pre generalizing st with
  | nil => exact .inl ⟨.disabledTag, by simp [renderList, include_disabled E G st name bind args h]⟩
  | cons n r ih =>
    simp only [List.cons_append, renderList]
    cases hn : render E G st n with
    | error e => exact .inl ⟨e, rfl⟩
    | ok p =>
      obtain ⟨st1, o1⟩ := p
      by_cases hs : st1.stopped = true
      · exact .inr ⟨st1, o1, by simp [hs], hs⟩
      · rcases ih st1 with ⟨e, he⟩ | ⟨st2, o2, he, h2⟩
        · exact .inl ⟨e, by simp [hs, he]⟩
        · exact .inr ⟨st2, o1 ++ o2, by simp [hs, he], h2⟩

/-! ## Macros -/

/-- every way a `call` tag can end: an error, nothing (undefined macro), or the body's text with the caller's state -/
theorem call_tag_shape (E : Env) (G : Frame) (st : St) (name : String) (pos : List Expr) (kw : List (String × Expr)) :
    (∃ e, render E G st (.call name pos kw) = .error e) ∨ render E G st (.call name pos kw) = .ok (st, "") ∨
    (∃ r, render E G st (.call name pos kw) = keepStopRes st r) := by
  simp only [render]
  split
  · split
    · exact .inl ⟨_, rfl⟩
    · exact .inr (.inl rfl)
  · split
    · exact .inl ⟨_, rfl⟩
    · split
      · exact .inl ⟨_, rfl⟩
      · exact .inr (.inr ⟨_, rfl⟩)

/-- **Sentence 2 (a macro body is isolated in the same way): nothing leaks out.**  The caller's locals, counters,
macros, pushed scopes, loop stack and block stacks are what they were; only a `StopRender` raised by an `extends` tag
inside the macro body passes through (the flag). -/
theorem call_no_leak (E : Env) (G : Frame) (st st' : St) (name : String) (pos : List Expr) (kw : List (String × Expr))
    (o : String) (h : render E G st (.call name pos kw) = .ok (st', o)) : ∃ b, st' = { st with stopped := b } := by
  rcases call_tag_shape E G st name pos kw with ⟨e, he⟩ | he | ⟨r, hr⟩
  · rw [he] at h; cases h
  · rw [he] at h; cases h; exact ⟨st.stopped, rfl⟩
  · rw [hr] at h
    obtain ⟨s1, _, h2⟩ := keepStopRes_ok h
    exact ⟨s1.stopped, h2⟩

/-- **Sentence 2: nothing leaks in.**  Two callers that hold the same macro, share the global data and in which the
call's arguments (positional, keyword, defaults — all evaluated at the call site) produce the same namespace get the
same text from the macro body, whatever their locals, block scopes, counters and other macros are. -/
theorem call_isolated (E : Env) (G₁ G₂ : Frame) (st₁ st₂ : St) (name : String) (pos : List Expr)
    (kw : List (String × Expr)) (m : Macro)
    (hg : G₁.iso = G₂.iso) (hc : G₁.copyDepth = G₂.copyDepth) (ht : G₁.tnodes = G₂.tnodes)
    (hm₁ : dictGet st₁.macros name = some m) (hm₂ : dictGet st₂.macros name = some m)
    (ha : callNamespace E G₁ st₁ m pos kw = callNamespace E G₂ st₂ m pos kw) :
    outOf (render E G₁ st₁ (.call name pos kw)) = outOf (render E G₂ st₂ (.call name pos kw)) := by
  simp only [render, hm₁, hm₂, ha, Frame.copied, hg, hc, ht]
  cases callNamespace E G₂ st₂ m pos kw with
  | error x => rfl
  | ok ns =>
    simp only
    by_cases hd : G₂.copyDepth > E.depth
    · simp only [hd, dite_true]
    · simp only [hd, dite_false, outOf_keepStopRes]

/-- the macro body's context has `include` disabled as well -/
theorem call_disables_include (E : Env) (G : Frame) (ns : NS) (tn : List Node) (st : St) (name : String)
    (bind : Option (Expr × Option String)) (args : List (String × Expr)) :
    render E (G.copied ns tn) st (.include name bind args) = .error .disabledTag :=
  include_disabled E _ st name bind args rfl

/-! ## Inside an overriding `{% block %}` (the block-scoped copy) and the bound variable -/

/-- the context an overriding block is rendered in passes the isolated global data on unchanged, although its own
`globals` hold the base template's whole scope … -/
theorem block_copy_inherits_iso (G : Frame) (p : List NS) (l : NS) (c : List (String × Int)) :
    (G.blockCopied p l c).iso = G.iso := rfl

/-- … and keeps the tags its template may not use disabled. -/
theorem block_copy_keeps_disabled (G : Frame) (p : List NS) (l : NS) (c : List (String × Int)) :
    (G.blockCopied p l c).noInclude = G.noInclude := rfl

/-- **Sentence 1 for a `render` tag placed inside an overriding block.**  The base template's state — its pushed scopes
`p`, its assigned / captured variables `l`, its counters `c`, all of which the block itself can read — and the block's
own state may differ freely: if the tag's arguments and bound variable evaluate alike, the rendered partial prints the
same. -/
theorem render_isolated_in_block (E : Env) (G : Frame) (p₁ p₂ : List NS) (l₁ l₂ : NS) (c₁ c₂ : List (String × Int))
    (st₁ st₂ : St) (name : String) (bind : Option (Bool × Expr × Option String)) (args : List (String × Expr))
    (ha : evalArgs E (G.blockCopied p₁ l₁ c₁) st₁ args = evalArgs E (G.blockCopied p₂ l₂ c₂) st₂ args)
    (hb : ∀ e, bindExpr bind = some e → eval E (G.blockCopied p₁ l₁ c₁) st₁ e = eval E (G.blockCopied p₂ l₂ c₂) st₂ e) :
    outOf (render E (G.blockCopied p₁ l₁ c₁) st₁ (.render name bind args)) =
      outOf (render E (G.blockCopied p₂ l₂ c₂) st₂ (.render name bind args)) :=
  render_isolated E _ _ st₁ st₂ name bind args rfl rfl ha hb

/-- … with literal arguments: for every pair of base-template states and block states. -/
theorem render_isolated_in_block_locals (E : Env) (G : Frame) (p₁ p₂ : List NS) (l₁ l₂ : NS)
    (c₁ c₂ : List (String × Int)) (st₁ st₂ : St) (name : String) (args : List (String × Expr)) (h : allLit args = true) :
    outOf (render E (G.blockCopied p₁ l₁ c₁) st₁ (.render name none args)) =
      outOf (render E (G.blockCopied p₂ l₂ c₂) st₂ (.render name none args)) :=
  render_isolated_in_block E G p₁ p₂ l₁ l₂ c₁ c₂ st₁ st₂ name none args (evalArgs_lits E _ _ st₁ st₂ args h)
    (by intro e he; simp [bindExpr] at he)

/-- **Sentence 2 for a macro call placed inside an overriding block.** -/
theorem call_isolated_in_block (E : Env) (G : Frame) (p₁ p₂ : List NS) (l₁ l₂ : NS) (c₁ c₂ : List (String × Int))
    (st₁ st₂ : St) (name : String) (pos : List Expr) (kw : List (String × Expr)) (m : Macro)
    (hm₁ : dictGet st₁.macros name = some m) (hm₂ : dictGet st₂.macros name = some m)
    (ha : callNamespace E (G.blockCopied p₁ l₁ c₁) st₁ m pos kw = callNamespace E (G.blockCopied p₂ l₂ c₂) st₂ m pos kw) :
    outOf (render E (G.blockCopied p₁ l₁ c₁) st₁ (.call name pos kw)) =
      outOf (render E (G.blockCopied p₂ l₂ c₂) st₂ (.call name pos kw)) :=
  call_isolated E _ _ st₁ st₂ name pos kw m rfl rfl rfl hm₁ hm₂ ha

/-- **Sentence 1 (the bound variable arrives).**  `{% render 'p' with e [as alias] %}` (or `for` over a value that is not
array-like): whatever the caller's state and the global data are — no global data at all and no keyword arguments
included — the partial is rendered in a context in which the bound name resolves to the value of `e`, unless the
partial itself rebinds it. -/
theorem bound_variable_arrives (E : Env) (G : Frame) (st : St) (name : String) (loop : Bool) (e : Expr)
    (alias : Option String) (args : List (String × Expr)) (body : List Node) (ns : NS) (v : Val)
    (hl : lookupT E.templates name = some body) (ha : evalArgs E G st args = .ok ns) (hv : eval E G st e = .ok v)
    (hd : ¬ G.copyDepth > E.depth) (hnl : (if loop then arrayLike v else none) = none)
    (hu : (loop && E.cfg.strictUndef && v.isUndef) = false) :
    render E G st (.render name (some (loop, e, alias)) args) =
      keepRes st (renderPartial E (G.copied (dictSet (dictOf ns) (bindKey name alias) v) body) St.fresh body) ∧
    ∀ stp : St, lookupChain stp.pushed (bindKey name alias) = none → dictGet stp.locals (bindKey name alias) = none →
      (view (G.copied (dictSet (dictOf ns) (bindKey name alias) v) body) stp).root (bindKey name alias) = some v := by
  refine ⟨?_, ?_⟩
  · simp only [render, hl, ha, hd, hv, hu, hnl, dite_false, Bool.false_eq_true, if_false]
  · intro stp h1 h2
    simp [View.root, view, Frame.copied, lookupChain_append, lookupChain, h1, h2, dictGet_dictSet]

/-- … and in every iteration of `{% render 'p' for items [as alias] %}` the bound name resolves to the item. -/
theorem bound_item_arrives (G : Frame) (args : NS) (pg : List NS) (key : String) (n i : Nat) (itm : Val) (stp : St)
    (h1 : lookupChain stp.pushed key = none) (h2 : dictGet stp.locals key = none) :
    (view { G with globals := dictSet (dictSet args "forloop" (forloopDrop key n i .undef)) key itm :: pg,
                   iso := dictSet (dictSet args "forloop" (forloopDrop key n i .undef)) key itm :: pg } stp).root key
      = some itm := by
  simp [View.root, view, lookupChain_append, lookupChain, h1, h2, dictGet_dictSet]


/-! ## Non-vacuity -/

def E1 : Env := { cfg := { strictUndef := false, stringSeq := false, stringFL := false }, depth := 30,
                  templates := [("p", [.out (.path (.name "x") []), .out (.path (.name "a") []), .assign "x" (.lit (.str "P"))]),
                                ("q", [.include "p" none []])] }

/-- the caller's `x` does not reach the partial, the partial's `x` does not reach the caller; the argument does -/
example : renderTemplate E1 [] [] [] []
    [.assign "x" (.lit (.str "C")), .render "p" none [("a", .lit (.str "A"))], .out (.path (.name "x") [])] = .ok "AC" := by
  simp [renderTemplate, renderList, render, renderPartial, eval, evalExpr, evalPath, evalSeg, evalSegs, ctxGet, walk,
    View.root, view, lookupChain, dictGet, dictSet, dictOf, topGlobals, dictMerge, St.fresh, showOut, popRes, keepRes,
    lookupT, evalArgs, E1, builtinGet, Frame.copied, topFrame, sizeBad, popCatchRes]

/-- include inside a rendered partial is refused -/
example : renderTemplate E1 [] [] [] [] [.render "q" none []] = .error .disabledTag := by
  simp [renderTemplate, renderList, render, renderPartial, dictOf, topGlobals, dictMerge, St.fresh, popRes, keepRes,
    lookupT, evalArgs, E1, Frame.copied, dictGet, topFrame, sizeBad, popCatchRes]

end LiquidVerif.C15
