import LiquidVerif.Meta.Erase
import LiquidVerif.Gen.AsyncPairs
/-!
# C01 — synchronous and asynchronous APIs behave identically

1. `erase_sound`, `pairs_by_depth`: semantics-independent theorems about await-erasure.
2. The per-pair obligations `pK_erase_equal` live in the regenerated `Gen/AsyncPairs.lean`
   (one `decide +kernel` per pair of the current source; audited together with this file).
3. The pairs whose erasures differ (*residuals*) are pinned here to the shapes that were reviewed;
   each has a differential stream in `harness/props/c01.py`.  Any edit to one half of any pair either
   keeps its obligation true, or turns it into a residual and breaks `residuals_pinned`.
-/
namespace LiquidVerif.C01
open LiquidVerif.Erase

variable {D : Type}

mutual
/-- **Await-erasure preserves meaning** for every compositional semantics in which awaiting a
run-to-completion coroutine is the identity (`haw`), node kinds that differ only by `async` mean the same
(`hk`), and a paired name means the same as its twin (`henv`). -/
theorem erase_sound (op : String → List D → D) (aw : D → D) (env : String → D)
    (haw : ∀ d, aw d = d) (hk : ∀ k ds, op (eraseKind k) ds = op k ds)
    (henv : ∀ s, env (stripAsync s) = env s) :
    ∀ t, interp op aw env (erase t) = interp op aw env t
  | .await t => by simp [erase, interp, haw, erase_sound op aw env haw hk henv t]
  | .ident s => by simp [erase, interp, henv]
  | .node k ts => by simp [erase, interp, hk, eraseList_sound op aw env haw hk henv ts]
theorem eraseList_sound (op : String → List D → D) (aw : D → D) (env : String → D)
    (haw : ∀ d, aw d = d) (hk : ∀ k ds, op (eraseKind k) ds = op k ds)
    (henv : ∀ s, env (stripAsync s) = env s) :
    ∀ ts, interpList op aw env (eraseList ts) = interpList op aw env ts
  | [] => by simp [eraseList, interpList]
  | t :: ts => by
      simp [eraseList, interpList, erase_sound op aw env haw hk henv t,
        eraseList_sound op aw env haw hk henv ts]
end

/-- meaning of every name at call depth `n`: program-defined names unfold their body with the
depth-`n-1` meanings, all other names are given by `base` -/
def level (op : String → List D → D) (aw : D → D) (bodies : String → Option Tree)
    (base : String → D) (bot : D) : Nat → String → D
  | 0 => fun s => match bodies s with
      | some _ => bot
      | none => base s
  | n + 1 => fun s => match bodies s with
      | some b => interp op aw (level op aw bodies base bot n) b
      | none => base s

/-- **If every `*_async` definition erases to the same tree as its twin, every paired name means the
same as its twin at every call depth** — for all programs, all depths, all compositional
await-transparent semantics. (`hp` is exactly what the generated obligations `pK_erase_equal` establish,
`hb` is the assumption about names defined outside the program.) -/
theorem pairs_by_depth (op : String → List D → D) (aw : D → D) (bodies : String → Option Tree)
    (base : String → D) (bot : D)
    (haw : ∀ d, aw d = d) (hk : ∀ k ds, op (eraseKind k) ds = op k ds)
    (hb : ∀ s, base (stripAsync s) = base s)
    (hp : ∀ s, (bodies (stripAsync s)).map erase = (bodies s).map erase) :
    ∀ n s, level op aw bodies base bot n (stripAsync s) = level op aw bodies base bot n s := by
  intro n
  induction n with
  | zero =>
    intro s
    have h := hp s
    simp only [level]
    cases h1 : bodies (stripAsync s) <;> cases h2 : bodies s <;> simp_all
  | succ n ih =>
    intro s
    have h := hp s
    simp only [level]
    cases h1 : bodies (stripAsync s) with
    | none =>
      cases h2 : bodies s with
      | none => exact hb s
      | some b => simp [h1, h2] at h
    | some a =>
      cases h2 : bodies s with
      | none => simp [h1, h2] at h
      | some b =>
        simp only [h1, h2, Option.map_some, Option.some.injEq] at h
        show interp op aw _ a = interp op aw _ b
        rw [← erase_sound op aw _ haw hk ih a, ← erase_sound op aw _ haw hk ih b, h]

/-- the kernel-checked Boolean obligation really is equality of erasures -/
theorem eraseEq_sound (a s : List (String × Int)) (h : eraseEq a s = true) :
    erase (decode a) = erase (decode s) := Tree.beq_sound _ _ h

/-- erasing twice is erasing once, so `erase async = erase sync` is symmetric in which half already is sync -/
theorem stripAsync_kind_fixed : eraseKind (eraseKind "AsyncFor") = eraseKind "AsyncFor" := by decide

/-! ## pinned inventories (regenerated from the source on every run) -/

/-- every pair whose two halves do not erase to the same tree, with the digest of the reviewed shapes -/
theorem residuals_pinned : Gen.AsyncPairs.residuals = [
    ("liquid/ast.py:Node.children", "6ae502c3e4bd6e55"),
    ("liquid/ast.py:Node.render_to_output", "432292b60380f9ee"),
    ("liquid/ast.py:BlockNode.render_to_output", "574041b432ff56fa"),
    ("liquid/builtin/expressions/filtered.py:Filter.evaluate", "09c1f17ba735c946"),
    ("liquid/builtin/expressions/loop.py:LoopExpression.evaluate", "8b3fde71b2427f4e"),
    ("liquid/builtin/loaders/file_system_loader.py:FileSystemLoader._uptodate", "2796d84535ef6c49"),
    ("liquid/builtin/loaders/file_system_loader.py:FileSystemLoader.get_source", "aa3f07ea79aca077"),
    ("liquid/builtin/loaders/package_loader.py:PackageLoader.get_source", "b3954b7a14a10974"),
    ("liquid/builtin/tags/if_tag.py:IfNode.render_to_output", "e605b0a8933e92f9"),
    ("liquid/builtin/tags/include_tag.py:IncludeNode.children", "c278c8c7e67d68a9"),
    ("liquid/builtin/tags/render_tag.py:RenderNode.children", "eb81ac310b6825e9"),
    ("liquid/context.py:RenderContext.get_item", "e6d216406c62dd68"),
    ("liquid/environment.py:Environment.analyze_tags", "a359e5265ed53580"),
    ("liquid/expression.py:Expression.evaluate", "7bb2c1e787691154"),
    ("liquid/extra/tags/_with.py:WithNode.render_to_output", "bdb7c6b9264f14b0"),
    ("liquid/extra/tags/extends_tag.py:ExtendsNode.children", "ce56e03fa8e832bb"),
    ("liquid/extra/tags/macro_tag.py:CallNode.render_to_output", "1bd8a2c9b65f8f97"),
    ("liquid/loader.py:BaseLoader.get_source", "30176babf38af53e"),
    ("liquid/template.py:BoundTemplate.is_up_to_date", "a179aa8502155b5e")] := by decide

/-- base-class defaults whose async half is `return self.f(…)` (shape kernel-checked in `Gen`) -/
theorem delegations_pinned : Gen.AsyncPairs.delegations = [
    "liquid/ast.py:Node.children", "liquid/ast.py:Node.render_to_output", "liquid/expression.py:Expression.evaluate", "liquid/loader.py:BaseLoader.get_source"] := by decide

/-- no class defines an `*_async` method without its synchronous twin -/
theorem no_async_only : Gen.AsyncPairs.asyncOnly = [] := by decide

/-- every call of a `*_async` name inside an async half is awaited on the spot (each async half also carries its
own kernel-checked `pK_awaited` obligation in `Gen`) -/
theorem all_async_calls_awaited : Gen.AsyncPairs.unawaitedPairs = [] := by decide

/-- resolved through the real MRO of every class of the package, the two halves of a pair always come
from the same class (or the async half is the base-class delegating default) -/
theorem mro_consistent : Gen.AsyncPairs.mroMismatches = [] := by decide

/-- at least the 60 reviewed pairs are covered by a kernel-checked erase-equality obligation -/
theorem erase_equal_count : 60 ≤ Gen.AsyncPairs.eraseEqualPairs.length := by decide

/-! ## non-vacuity -/
example : erase (.node "AsyncFunctionDef" [.ident "render_async", .await (.node "Call" [.ident "get_async"])])
    = .node "FunctionDef" [.ident "render", .node "Call" [.ident "get"]] :=
  Tree.beq_sound _ _ (by decide +kernel)
example : Gen.AsyncPairs.eraseEqualPairs ≠ [] := by decide

end LiquidVerif.C01
