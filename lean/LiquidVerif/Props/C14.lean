import LiquidVerif.Lemmas.Scope
/-!
# C14 — variables resolve to their innermost binding

Property theorems about `LiquidVerif.Model.Scope` (the model of `liquid/context.py`, `template.py`,
`environment.py`, `builtin/expressions/path.py` and the binding tags).  Helper lemmas live in `Lemmas/Scope.lean`.
-/
namespace LiquidVerif.C14
open LiquidVerif.Scope

/-- the first binding found -/
def firstSome {α} : List (Option α) → Option α
  | [] => none
  | some v :: _ => some v
  | none :: r => firstSome r

theorem firstSome_append {α} (a b : List (Option α)) :
    firstSome (a ++ b) = match firstSome a with | some v => some v | none => firstSome b := by
  induction a with
  | nil => rfl
  | cons x r ih => cases x <;> simp [firstSome, ih]

theorem lookupChain_firstSome (c : List NS) (k : String) : lookupChain c k = firstSome (c.map (dictGet · k)) := by
  induction c with
  | nil => rfl
  | cons ns r ih => simp only [lookupChain, List.map_cons]; cases dictGet ns k <;> simp [firstSome, ih]

/-- **Sentence 1 (resolution order).**  In a template's own context — globals built by `Environment.make_globals` and
`BoundTemplate.make_globals` from render arguments `ra`, front matter `m`, template globals `tg` and environment
globals `eg` — a name resolves to the first of: the pushed block scopes, innermost first (loop variables, `with`,
include arguments and bound variable, the template's `partial` flag); assigned / captured variables; render arguments;
front matter; template globals; environment globals; the built-in `now` / `today`; increment / decrement counters.
For every state, every nesting depth and every content of every layer. -/
theorem lookup_order (G : Frame) (st : St) (ra m tg eg : NS) (k : String)
    (hG : G.globals = topGlobals ra m tg eg) (htg : (tg.map (·.1)).Nodup) :
    (view G st).root k =
      firstSome (st.pushed.map (dictGet · k) ++
        [dictGet st.locals k, dictGet ra k, dictGet m k, dictGet tg k, dictGet eg k, builtinGet k,
         (dictGet st.counters k).map Val.int]) := by
  simp only [View.root, view, hG, topGlobals, lookupChain_append, lookupChain, dictGet_dictMerge,
    lastOf_eq_dictGet tg k htg, firstSome_append, lookupChain_firstSome st.pushed]
  cases firstSome (st.pushed.map (dictGet · k)) <;> simp only [firstSome]
  cases dictGet st.locals k <;> simp only [firstSome]
  cases dictGet ra k <;> simp only [firstSome]
  cases dictGet m k <;> simp only [firstSome]
  cases dictGet tg k <;> simp only [firstSome]
  cases dictGet eg k <;> simp only [firstSome]
  cases builtinGet k <;> simp only [firstSome]
  cases (dictGet st.counters k) <;> rfl

/-- The same order in any context whatever its globals chain is (a copied context has the render / call namespace in
front of the caller's globals): pushed scopes, locals, the globals chain in order, built-ins, counters. -/
theorem lookup_order_chain (G : Frame) (st : St) (k : String) :
    (view G st).root k =
      firstSome (st.pushed.map (dictGet · k) ++ [dictGet st.locals k] ++ G.globals.map (dictGet · k) ++
        [builtinGet k, (dictGet st.counters k).map Val.int]) := by
  simp only [View.root, view, lookupChain_firstSome, List.map_append, List.map_cons, firstSome_append,
    List.append_assoc]
  cases firstSome (st.pushed.map (dictGet · k)) <;> simp only [firstSome]
  cases dictGet st.locals k <;> simp only [firstSome, List.cons_append, List.nil_append, firstSome_append]
  cases firstSome (G.globals.map (dictGet · k)) <;> simp only [firstSome]
  cases builtinGet k <;> simp only [firstSome]
  cases (dictGet st.counters k) <;> rfl

/-- **Sentence 2 (assign writes the top-level scope).**  From any nesting depth — whatever namespaces are pushed —
`assign` stores into `locals`, behind every block scope, and touches nothing else. -/
theorem assign_hits_locals (E : Env) (G : Frame) (st st' : St) (n : String) (e : Expr) (o : String)
    (h : render E G st (.assign n e) = .ok (st', o)) :
    ∃ v, eval E G st e = .ok v ∧ st' = { st with locals := dictSet st.locals n v } ∧ o = "" := by
  simp only [render] at h
  split at h
  · cases h
  · rename_i v hv
    cases h
    exact ⟨v, hv, rfl, rfl⟩

/-- `capture` does the same with the text its block produced; assignments made inside the block stay.  (When an
`extends` tag inside the block raised `StopRender` the exception passes the assignment.) -/
theorem capture_hits_locals (E : Env) (G : Frame) (st st' : St) (n : String) (body : List Node) (o : String)
    (h : render E G st (.capture n body) = .ok (st', o)) :
    ∃ st1 txt, renderList E G st body = .ok (st1, txt) ∧ o = "" ∧
      st' = (if st1.stopped then st1 else { st1 with locals := dictSet st1.locals n (.str txt) }) := by
  simp only [render] at h
  split at h
  · cases h
  · rename_i st1 txt hb
    by_cases hs : st1.stopped = true
    · rw [if_pos hs] at h
      simp only [Except.ok.injEq, Prod.mk.injEq] at h
      exact ⟨st1, txt, hb, h.2.symm, by rw [if_pos hs]; exact h.1.symm⟩
    · rw [if_neg hs] at h
      simp only [Except.ok.injEq, Prod.mk.injEq] at h
      exact ⟨st1, txt, hb, h.2.symm, by rw [if_neg hs]; exact h.1.symm⟩

/-- … so right after an `assign` the name reads back the assigned value unless a block scope shadows it. -/
theorem assign_then_read (E : Env) (G : Frame) (st st' : St) (n : String) (e : Expr) (o : String)
    (h : render E G st (.assign n e) = .ok (st', o)) (hp : lookupChain st.pushed n = none) :
    ∃ v, eval E G st e = .ok v ∧ (view G st').root n = some v := by
  obtain ⟨v, hv, rfl, _⟩ := assign_hits_locals E G st st' n e o h
  refine ⟨v, hv, ?_⟩
  simp [View.root, view, lookupChain_append, hp, lookupChain, dictGet_dictSet]

/-- **Sentence 2 (block-scoped names vanish after their block).**  Every node, every block, every partial template
returns with exactly the pushed namespaces and the loop stack it was entered with — for all nodes, nesting depths,
loop lengths, included / rendered templates and macro calls (functional induction over the six mutually recursive
render functions; `extend`'s push and `finally: pop` are literal in the model). -/
theorem scope_balanced (E : Env) (G : Frame) (st st' : St) (n : Node) (o : String)
    (h : render E G st n = .ok (st', o)) : st'.pushed = st.pushed ∧ st'.loops = st.loops :=
  (balanced_aux E).1 G st n st' o h

theorem scope_balanced_block (E : Env) (G : Frame) (st st' : St) (ns : List Node) (o : String)
    (h : renderList E G st ns = .ok (st', o)) : st'.pushed = st.pushed ∧ st'.loops = st.loops :=
  (balanced_aux E).2.2.2.1 G st ns st' o h

theorem scope_balanced_partial (E : Env) (G : Frame) (st st' : St) (body : List Node) (o : String)
    (h : renderPartial E G st body = .ok (st', o)) : st'.pushed = st.pushed ∧ st'.loops = st.loops :=
  (balanced_aux E).2.2.1 G st body st' o h

/-- Consequence: after any node (a `for`, `with`, `include … with`, `capture`, …) a name that the node's blocks did not
assign and whose counter they did not step resolves exactly as before the node — its loop variable, `forloop`, block
arguments and bound variable are gone. -/
theorem block_names_vanish (E : Env) (G : Frame) (st st' : St) (n : Node) (o : String) (k : String)
    (h : render E G st n = .ok (st', o))
    (hl : dictGet st'.locals k = dictGet st.locals k) (hc : dictGet st'.counters k = dictGet st.counters k) :
    (view G st').root k = (view G st).root k := by
  obtain ⟨hp, _⟩ := scope_balanced E G st st' n o h
  simp only [View.root, view, lookupChain_append, lookupChain, hp, hl, hc]

/-- **Sentence 2 (include shares the caller's scope).**  An `include` that is allowed, found and within the depth limit
renders the partial template's nodes on the caller's own state — same locals, counters, macros and loop stack, the
caller's pushed scopes behind the argument namespace and the `partial` flag — and the caller continues with the state
the partial left (minus the two pushed namespaces). -/
theorem include_shares_scope (E : Env) (G : Frame) (st : St) (name : String) (args : List (String × Expr))
    (body : List Node) (ns : NS)
    (hd : G.noInclude = false) (hl : lookupT E.templates name = some body)
    (ha : evalArgs E G st args = .ok ns) (h1 : ¬ G.sz > E.depth) (h2 : ¬ G.sz + 1 > E.depth)
    (hs : G.sz = 4 + st.pushed.length) :
    render E G st (.include name none args) =
      popRes (popCatchRes (renderList E { G with sz := G.sz + 2, tnodes := body }
        { st with pushed := [("partial", .bool true)] :: dictOf ns :: st.pushed } body)) := by
  have s1 : sizeBad G st = false := by simp [sizeBad, hs]
  have s2 : ∀ (G' : Frame) (st2 : St), G'.sz = G.sz + 1 → st2.pushed = dictOf ns :: st.pushed → sizeBad G' st2 = false := by
    intro G' st2 a b; simp [sizeBad, a, b, hs]; omega
  simp only [render, hd, hl, ha, h1, renderPartial, h2, s1, Bool.false_eq_true, if_false, dite_false]
  rw [s2 _ _ rfl rfl]
  simp only [Bool.false_eq_true, if_false]

/-- … in particular what the partial assigns is visible to the caller afterwards. -/
theorem include_assign_visible (E : Env) (G : Frame) (st : St) (name n : String) (v : Val)
    (hd : G.noInclude = false) (hl : lookupT E.templates name = some [.assign n (.lit v)])
    (h1 : ¬ G.sz > E.depth) (h2 : ¬ G.sz + 1 > E.depth) (hs : G.sz = 4 + st.pushed.length) (hst : st.stopped = false) :
    render E G st (.include name none []) = .ok ({ st with locals := dictSet st.locals n v }, "") := by
  rw [include_shares_scope E G st name [] _ [] hd hl rfl h1 h2 hs]
  simp [renderList, render, eval, evalExpr, popRes, popCatchRes, hst]

/-! ## Paths -/

/-- Python's negative indexing, stated by ranges -/
def specIndex {α} (xs : List α) (i : Int) : Option α :=
  if 0 ≤ i ∧ i < xs.length then xs[i.toNat]?
  else if -(xs.length : Int) ≤ i ∧ i < 0 then xs[(i + xs.length).toNat]?
  else none

theorem pyIndex_spec {α} (xs : List α) (i : Int) : pyIndex xs i = specIndex xs i := by
  unfold pyIndex specIndex
  by_cases h0 : i < 0
  · by_cases h1 : i + (xs.length : Int) < 0
    · have a : ¬ (0 ≤ i ∧ i < (xs.length : Int)) := by omega
      have b : ¬ (-(xs.length : Int) ≤ i ∧ i < 0) := by omega
      rw [if_neg a, if_neg b]; simp only [h0, h1, if_true]
    · have a : ¬ (0 ≤ i ∧ i < (xs.length : Int)) := by omega
      have b : (-(xs.length : Int) ≤ i ∧ i < 0) := by omega
      rw [if_neg a, if_pos b]; simp only [h0, h1, if_true, if_false]
  · by_cases h1 : i < (xs.length : Int)
    · have a : (0 ≤ i ∧ i < (xs.length : Int)) := by omega
      rw [if_pos a]; simp only [h0, if_false]
    · have a : ¬ (0 ≤ i ∧ i < (xs.length : Int)) := by omega
      have b : ¬ (-(xs.length : Int) ≤ i ∧ i < 0) := by omega
      have h3 : xs.length ≤ i.toNat := by omega
      rw [if_neg a, if_neg b]; simp only [h0, if_false, List.getElem?_eq_none h3]

def charAt (s : String) (i : Int) : Option Val := (specIndex s.toList i).map fun c => .str (String.singleton c)

/-- **The documented path step**, by class of object:
* mapping: a present string key is its value (also for `size`, `first`, `last`); otherwise `size` is the number of
  entries and `first` the first `(key, value)` pair of a non-empty mapping;
* list (and item pair): an `int`/`bool` index counts from the end when negative; `size`, `first`, `last`;
* string: `size`; `first`/`last` only under `string_first_and_last`, an index only under `string_sequences`;
* the undefined value: itself;   * anything else (nil, numbers, booleans, dates): nothing.
`none` = nothing there. -/
def specItem (cfg : Cfg) (obj key : Val) : Option Val :=
  match obj with
  | .dict kvs =>
    (match key with
     | .str s =>
       (match dictGet kvs s with
        | some v => some v
        | none =>
          if s = "size" then some (.int kvs.length)
          else if s = "first" then (match kvs with | (k, v) :: _ => some (.tuple [.str k, v]) | [] => none)
          else none)
     | _ => none)
  | .list xs =>
    (match key with
     | .str s => if s = "size" then some (.int xs.length) else if s = "first" then xs.head?
                 else if s = "last" then xs.getLast? else none
     | .int i => specIndex xs i
     | .bool b => specIndex xs (if b then 1 else 0)
     | _ => none)
  | .tuple xs =>
    (match key with
     | .str s => if s = "size" then some (.int xs.length) else if s = "first" then xs.head?
                 else if s = "last" then xs.getLast? else none
     | .int i => specIndex xs i
     | .bool b => specIndex xs (if b then 1 else 0)
     | _ => none)
  | .str t =>
    (match key with
     | .str s => if s = "size" then some (.int t.length)
                 else if s = "first" then (if cfg.stringFL then charAt t 0 else none)
                 else if s = "last" then (if cfg.stringFL then charAt t (-1) else none) else none
     | .int i => if cfg.stringSeq then charAt t i else none
     | .bool b => if cfg.stringSeq then charAt t (if b then 1 else 0) else none
     | _ => none)
  | .undef => some .undef
  | _ => none

theorem specIndex_zero {α} (xs : List α) : specIndex xs 0 = xs.head? := by
  cases xs <;> simp [specIndex]

theorem specIndex_neg_one {α} (xs : List α) : specIndex xs (-1) = xs.getLast? := by
  unfold specIndex
  cases xs with
  | nil => simp
  | cons x r =>
    have h1 : ¬ (0 ≤ (-1 : Int) ∧ (-1 : Int) < ((x :: r).length : Int)) := by omega
    have h2 : (-((x :: r).length : Int) ≤ -1 ∧ (-1 : Int) < 0) := by simp; omega
    simp only [h1, h2, if_false, if_true]
    have : ((-1 : Int) + ((x :: r).length : Int)).toNat = (x :: r).length - 1 := by simp; omega
    rw [this, List.getLast?_eq_getElem?]; simp

/-- **Sentence 3 (path steps resolve as documented).**  `RenderContext.get_item` — written with `try obj[key] / except`
fall-backs — is the documented table, for every object, every key (an undefined key counts as nil) and every
setting of the two string flags. -/
theorem get_item_spec (cfg : Cfg) (obj key : Val) :
    getItem cfg obj key = specItem cfg obj (match key with | .undef => .nil | k => k) := by
  cases key with
  | str s =>
    by_cases h1 : s = "size"
    · subst h1
      cases obj <;> simp [getItem, specItem, subscript, asIndex, sizeOf?]
      case dict kvs => cases dictGet kvs "size" <;> rfl
    · by_cases h2 : s = "first"
      · subst h2
        cases obj <;> simp [getItem, specItem, subscript, asIndex, firstFallback, pyIndex_spec, specIndex_zero, charAt]
        case str t => cases cfg.stringFL <;> simp
        case dict kvs => cases dictGet kvs "first" <;> cases kvs <;> simp
      · by_cases h3 : s = "last"
        · subst h3
          cases obj <;> simp [getItem, specItem, subscript, asIndex, lastFallback, pyIndex_spec, specIndex_neg_one, charAt]
          case str t => cases cfg.stringFL <;> simp
          case dict kvs => cases dictGet kvs "last" <;> rfl
        · cases obj <;> simp [getItem, specItem, subscript, asIndex, h1, h2, h3]
          case dict kvs => cases dictGet kvs s <;> rfl
  | int i =>
    cases obj <;> simp [getItem, specItem, subscript, asIndex, isStr, pyIndex_spec, charAt]
    case str t => cases cfg.stringSeq <;> simp
  | bool b =>
    cases obj <;> simp [getItem, specItem, subscript, asIndex, isStr, pyIndex_spec, charAt]
    case str t => cases cfg.stringSeq <;> simp
  | nil => cases obj <;> simp [getItem, specItem, subscript, asIndex, isStr]
  | undef => cases obj <;> simp [getItem, specItem, subscript, asIndex, isStr]
  | list xs => cases obj <;> simp [getItem, specItem, subscript, asIndex, isStr]
  | tuple xs => cases obj <;> simp [getItem, specItem, subscript, asIndex, isStr]
  | dict kvs => cases obj <;> simp [getItem, specItem, subscript, asIndex, isStr]
  | clock t => cases obj <;> simp [getItem, specItem, subscript, asIndex, isStr]
  | drop => cases obj <;> simp [getItem, specItem, subscript, asIndex, isStr]

/-- the documented resolution of a whole path: the root through the scope chain, then the table step by step; the
first step that finds nothing gives the undefined value -/
def specWalk (cfg : Cfg) : Val → List Val → Val
  | obj, [] => obj
  | obj, k :: ks =>
    match specItem cfg obj (match k with | .undef => .nil | k => k) with
    | none => .undef
    | some v => specWalk cfg v ks

/-- **Sentence 3 (dotted, bracketed, quoted, negative-index and nested-variable paths; missing ↦ undefined).**  With the
default undefined type a path never fails: its value is the documented walk from the binding of its root, and the
undefined value when the root is unbound (or is not a string). -/
theorem path_resolution (cfg : Cfg) (w : View) (root : Val) (segs : List Val) (h : cfg.strictUndef = false) :
    ctxGet cfg w root segs = .ok
      (match root with
       | .str name => (match w.root name with | none => .undef | some obj => specWalk cfg obj segs)
       | _ => .undef) := by
  have hw : ∀ obj, walk cfg obj segs = .ok (specWalk cfg obj segs) := by
    induction segs with
    | nil => intro obj; rfl
    | cons k ks ih =>
      intro obj
      simp only [walk, h, Bool.false_and, Bool.false_eq_true, if_false, get_item_spec, specWalk]
      cases specItem cfg obj (match k with | .undef => .nil | k => k) with
      | none => rfl
      | some v => exact ih v
  cases root <;> simp only [ctxGet, h, Bool.false_eq_true, if_false]
  case str name => cases w.root name <;> simp [hw]

/-- **Sentence 3 (anything missing is the undefined value).**  An unbound root gives the undefined value … -/
theorem missing_root_is_undefined (cfg : Cfg) (w : View) (name : String) (segs : List Val)
    (h : w.root name = none) : ctxGet cfg w (.str name) segs = .ok .undef := by
  simp [ctxGet, h]

/-- … a name is unbound exactly when no layer binds it … -/
theorem root_none_iff (G : Frame) (st : St) (k : String) :
    (view G st).root k = none ↔
      lookupChain st.pushed k = none ∧ dictGet st.locals k = none ∧ lookupChain G.globals k = none ∧
      builtinGet k = none ∧ dictGet st.counters k = none := by
  simp only [View.root, view, lookupChain_append, lookupChain]
  cases lookupChain st.pushed k <;> cases dictGet st.locals k <;> cases lookupChain G.globals k <;>
    cases builtinGet k <;> cases dictGet st.counters k <;> simp

/-- … and a step that finds nothing ends the walk with the undefined value, whatever follows. -/
theorem missing_step_is_undefined (cfg : Cfg) (obj k : Val) (ks : List Val)
    (hs : (cfg.strictUndef && (obj.isUndef || k.isUndef)) = false) (h : getItem cfg obj k = none) :
    walk cfg obj (k :: ks) = .ok .undef := by
  simp [walk, hs, h]

/-- With `StrictUndefined` the only failure a path can produce is `UndefinedError`, and only by touching an undefined
value (as object or as key). -/
theorem strict_only_undefined_error (cfg : Cfg) (obj : Val) (ks : List Val) (e : Err)
    (h : walk cfg obj ks = .error e) : e = .undefined ∧ cfg.strictUndef = true := by
  induction ks generalizing obj with
  | nil => simp [walk] at h
  | cons k ks ih =>
    simp only [walk] at h
    split at h
    · rename_i hc
      cases h
      simp only [Bool.and_eq_true] at hc
      exact ⟨rfl, hc.1⟩
    · split at h
      · cases h
      · exact ih _ h


theorem ctxGet_total (cfg : Cfg) (w : View) (h : cfg.strictUndef = false) (r : Val) (vs : List Val) :
    ∃ v, ctxGet cfg w r vs = .ok v := ⟨_, path_resolution cfg w r vs h⟩

mutual
theorem evalSeg_total (cfg : Cfg) (w : View) (h : cfg.strictUndef = false) : ∀ s : Seg, ∃ v, evalSeg cfg w s = .ok v
  | .name s => ⟨_, rfl⟩
  | .idx i => ⟨_, rfl⟩
  | .sub hd tl => by
    obtain ⟨r, hr⟩ := evalSeg_total cfg w h hd
    obtain ⟨vs, hvs⟩ := evalSegs_total cfg w h tl
    obtain ⟨v, hv⟩ := ctxGet_total cfg w h r vs
    exact ⟨v, by simp only [evalSeg, hr, hvs, hv]⟩
theorem evalSegs_total (cfg : Cfg) (w : View) (h : cfg.strictUndef = false) : ∀ ss : List Seg, ∃ vs, evalSegs cfg w ss = .ok vs
  | [] => ⟨_, rfl⟩
  | s :: ss => by
    obtain ⟨v, hv⟩ := evalSeg_total cfg w h s
    obtain ⟨vs, hvs⟩ := evalSegs_total cfg w h ss
    exact ⟨v :: vs, by simp only [evalSegs, hv, hvs]⟩
end

/-- **Sentence 3 (missing ↦ the undefined value, never a failure).**  With the default undefined type no expression —
whatever paths nest inside it — fails to evaluate. -/
theorem eval_total_default (cfg : Cfg) (w : View) (h : cfg.strictUndef = false) (e : Expr) :
    ∃ v, evalExpr cfg w e = .ok v := by
  cases e with
  | lit v => exact ⟨v, rfl⟩
  | path hd tl =>
    obtain ⟨r, hr⟩ := evalSeg_total cfg w h hd
    obtain ⟨vs, hvs⟩ := evalSegs_total cfg w h tl
    obtain ⟨v, hv⟩ := ctxGet_total cfg w h r vs
    exact ⟨v, by simp only [evalExpr, evalPath, hr, hvs, hv]⟩

/-! ## Non-vacuity -/

def E0 : Env := { cfg := { strictUndef := false, stringSeq := false, stringFL := false }, depth := 30,
                  templates := [("p", [.assign "x" (.lit (.str "P")), .out (.path (.name "y") [])])] }

/-- all seven layers populated for `x`: the loop variable wins inside the block, the assignment after it -/
example : renderTemplate E0 [("x", .str "A"), ("l", .list [.str "B"])] [("x", .str "M")] [("x", .str "T")] [("x", .str "E")]
    [.incr "x", .assign "x" (.lit (.str "L")),
     .forB "x" "x-l" (.path (.name "l") []) [.out (.path (.name "x") [])] [],
     .out (.path (.name "x") [])] = .ok "0BL" := by
  simp [renderTemplate, renderList, render, iterFor, eval, evalExpr, evalPath, evalSeg, evalSegs, ctxGet, walk,
    View.root, view, lookupChain, dictGet, dictSet, topGlobals, dictMerge, St.fresh, showOut, iterItems,
    counterGet, popLoopRes, forloopDrop, builtinGet, E0, Val.isUndef, topFrame, sizeBad]
  rfl

/-- include shares the scope (reads `y`, assigns `x`) -/
example : renderTemplate E0 [] [] [] []
    [.assign "y" (.lit (.str "Y")), .include "p" none [], .out (.path (.name "x") [])] = .ok "YP" := by
  simp [renderTemplate, renderList, render, renderPartial, eval, evalExpr, evalPath, evalSeg, evalSegs, ctxGet, walk,
    View.root, view, lookupChain, dictGet, dictSet, dictOf, topGlobals, dictMerge, St.fresh, showOut, popRes,
    lookupT, evalArgs, E0, builtinGet, topFrame, sizeBad, popCatchRes]

example : specWalk E0.cfg (.dict [("a", .list [.int 1, .str "hey"])]) [.str "a", .int (-1), .str "size"] = .int 3 := by
  simp [specWalk, specItem, dictGet, specIndex]; rfl

end LiquidVerif.C14
