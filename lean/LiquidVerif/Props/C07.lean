import LiquidVerif.Lemmas.Limits
/-!
# C07 — output and local-namespace limits bound what they measure

Property theorems about `LiquidVerif.Model.Limits` (the render-with-limits model of `liquid/output.py`,
`liquid/template.py`, `liquid/context.py` and the capture / ifchanged / include / render tags). STRICT mode.
Helper lemmas (the three mutual functional inductions `agree_all`, `binv_all`, `ns_all`) are in `Lemmas/Limits.lean`.
-/
set_option linter.unusedSimpArgs false

namespace LiquidVerif.C07
open LiquidVerif.Limits

/-- "`LimitedStringIO.write` counts UTF-8 bytes": the byte length is additive over concatenation, so the running
`size` of a buffer is the byte length of its whole text (used by `output_le_limit`). -/
theorem utf8Len_additive (a b : Text) : utf8Len (a ++ b) = utf8Len a + utf8Len b := utf8Len_append a b

/-- every code point is counted with 1 to 4 bytes -/
theorem utf8Len_le (s : Text) : s.length ≤ utf8Len s ∧ utf8Len s ≤ 4 * s.length := by
  induction s with
  | nil => simp [utf8Len]
  | cons c cs ih =>
    have := cpLen_pos c
    simp only [utf8Len, List.length_cons]
    omega

/-- **Sentence 1, first half.** With an output stream limit `l`, a completed render never returns more than `l`
UTF-8 bytes — for every template, partial pool, render data and every value of the other four limits. -/
theorem output_le_limit (L : Limits) (P : Prog) (nodes : List Node) (l : Nat) (w : W)
    (hl : L.output = some l) (h : renderTemplate L P nodes = .ok w) : utf8Len w.buf.text ≤ l := by
  unfold renderTemplate at h
  simp only [guardE_ok] at h
  obtain ⟨_, h⟩ := h
  split at h
  · cases h
  · have := ((binv_all L P).2.2.2.1 _ _ _ _ _ h).2
    rw [hl] at this
    have hb := this (by simp [BInv, utf8Len])
    simp only [BInv] at hb
    omega

/-- The same bound for *every* buffer the render creates (the top-level one, and the sub-buffers of `capture` and
`ifchanged`, which `get_buffer` starts from the remaining budget): whatever a node does to the current buffer keeps
`size = utf8Len text ≤ limit`, and a `NullIO` is never written to. -/
theorem every_buffer_within_its_limit (L : Limits) (P : Prog) (c : Cx) (bk : BK) (w w' : W) (n : Node)
    (h : render L P c bk w n = .ok w') : (bk = .null → w'.buf = w.buf) ∧ (BInv bk w.buf → BInv bk w'.buf) :=
  (binv_all L P).1 c bk w n w' h

/-- a fresh sub-buffer satisfies the invariant and its limit is never more than the configured limit -/
theorem sub_buffer_budget (L : Limits) (bk : BK) (b : Buf) (l : Nat) (hl : L.output = some l) :
    BInv (subKind L bk b) ⟨0, []⟩ ∧ ∃ l', subKind L bk b = .real (some l') ∧ l' ≤ l := by
  refine ⟨binv_fresh L bk b, ?_⟩
  unfold subKind
  rw [hl]
  exact ⟨_, rfl, Nat.sub_le _ _⟩

/-- **Sentence 1, second half.** If the render without output limit (all other limits unchanged) completes with
more than `l` bytes, the strict-mode render with `output_stream_limit = l` raises `OutputStreamLimitError` — it can
neither complete nor fail in any other way. -/
theorem strict_over_limit_raises (L : Limits) (P : Prog) (nodes : List Node) (l : Nat) (w0 : W)
    (hl : L.output = some l) (h0 : renderTemplate { L with output := none } P nodes = .ok w0)
    (hover : utf8Len w0.buf.text > l) : renderTemplate L P nodes = .error .outputLimit := by
  have hle : LimLe L { L with output := none } :=
    ⟨by simp [OLe], OLe.refl _, OLe.refl _, Nat.le_refl _, Nat.le_refl _⟩
  rcases agree_template hle P nodes with heq | ⟨e, he, ht⟩
  · rw [h0] at heq
    have := output_le_limit L P nodes l w0 hl heq
    omega
  · rw [he]
    cases e <;> simp_all [Tight]

/-- **Sentence 2** (for every limit the code treats as a limit, i.e. `M ≠ 0`). With `local_namespace_limit = M`,
every size measured after an assignment during a completed render — in the top-level context and in every copied
context (`render`), where the measure includes the size carried in from the parent chain — is at most `M`. -/
theorem locals_le_limit_partial (L : Limits) (P : Prog) (nodes : List Node) (M : Nat) (w : W)
    (hl : L.ns = some M) (hM : M ≠ 0) (h : renderTemplate L P nodes = .ok w) : ∀ s ∈ w.log, s ≤ M := by
  unfold renderTemplate at h
  simp only [guardE_ok] at h
  obtain ⟨_, h⟩ := h
  split at h
  · cases h
  · have := (ns_all L P M hl hM).2.2.2.1 _ _ _ _ _ h
    exact (this ⟨by simp [sumSz], by simp⟩).2

/-- The invariant behind it, for every reachable context: if the measured size of a context
(`Σ sz locals + local_namespace_size_carry`) is within `M` before a node, it is within `M` after it, and every
context created by `copy` starts within `M` (its carry *is* the parent's measured size). -/
theorem locals_le_limit_every_context (L : Limits) (P : Prog) (M : Nat) (hl : L.ns = some M) (hM : M ≠ 0)
    (c : Cx) (bk : BK) (w w' : W) (n : Node) (h : render L P c bk w n = .ok w')
    (hi : sizeOfLocals P c w ≤ M ∧ ∀ s ∈ w.log, s ≤ M) : sizeOfLocals P c w' ≤ M ∧ ∀ s ∈ w'.log, s ≤ M :=
  (ns_all L P M hl hM).1 c bk w n w' h hi

theorem copied_context_starts_within (P : Prog) (c : Cx) (w : W) (ns : List (String × Val)) :
    sizeOfLocals P (copied P c w ns) (freshW w) = sizeOfLocals P c w := by
  simp [sizeOfLocals, copied, freshW, sumSz]

/-- **Sentence 2 at full strength fails for `M = 0`**: `assign` tests `if limit and size > limit`, so a limit of 0 is
no limit; `{% assign a = 'x' %}` completes under `local_namespace_limit = 0` having held 42 bytes. -/
theorem locals_le_limit_counterexample :
    ¬ (∀ (L : Limits) (P : Prog) (nodes : List Node) (M : Nat) (w : W), L.ns = some M →
        renderTemplate L P nodes = .ok w → ∀ s ∈ w.log, s ≤ M) := by
  intro hall
  have := hall ⟨none, some 0, none, 30, 30⟩ ⟨[], [], pySizeof⟩ [.assign "a" (.lit (.sc (.str [120])))] 0
    ⟨[("a", .sc (.str [120]))], [], [], ⟨0, []⟩, [42]⟩ rfl
    (by simp [renderTemplate, renderList, render, guardE, bindR, assignW, nsOver, eval, setA, sizeOfLocals, sumSz,
          pySizeof, strSize, maxCp, nestList, nestNode])
    42 (by simp)
  omega

/-! ## The ghost-exact fields are not read when their limit is off

The model keeps `Buf.size`, `Cx.nsCarry` and the log even when the code stores nothing / 0 (plain `StringIO`,
`get_size_of_locals()` returning 0 under a falsy limit). These are the only places that read them. -/

/-- with `local_namespace_limit` `None` or `0` the test in `assign` ignores the measured size (hence the carry) -/
theorem ns_size_unread_when_off (lim : Option Nat) (h : lim = none ∨ lim = some 0) (n m : Nat) :
    nsOver lim n = nsOver lim m := by
  rcases h with rfl | rfl <;> simp [nsOver]

/-- without an output limit a write ignores the byte count, and a new sub-buffer does not depend on it -/
theorem buf_size_unread_when_off (L : Limits) (hl : L.output = none) (bk : BK) (n m : Nat) (t s : Text) :
    (match write (.real none) ⟨n, t⟩ s, write (.real none) ⟨m, t⟩ s with
     | .ok b1, .ok b2 => b1.text = b2.text
     | _, _ => False) ∧ subKind L bk ⟨n, t⟩ = subKind L bk ⟨m, t⟩ := by
  constructor
  · unfold write; by_cases hs : s = [] <;> simp [hs]
  · simp [subKind, hl]

/-! ## Non-vacuity -/

/-- `{% capture c %}€{% endcapture %}{{ c }}` produces 3 bytes; under limit 3 it completes … -/
example : outcome (renderTemplate ⟨some 3, none, none, 30, 30⟩ ⟨[], [], pySizeof⟩
    [.capture "c" [.text [0x20AC]], .output (.var "c")]) = .ok [0x20AC] := by
  simp [outcome, renderTemplate, renderList, render, renderBlock, guardE, bindR, assignW, nsOver, eval, evalVar, lookupPushed,
    lookupA, setA, sizeOfLocals, sumSz, nestList, nestNode, blankList, blankNode, blankText, isSpaceCp, subKind, writeW,
    write, utf8Len, cpLen, toStr]

/-- … under limit 2 it raises (the hypothesis of `strict_over_limit_raises` is met) -/
example : outcome (renderTemplate ⟨some 2, none, none, 30, 30⟩ ⟨[], [], pySizeof⟩
    [.capture "c" [.text [0x20AC]], .output (.var "c")]) = .error .outputLimit := by
  simp [outcome, renderTemplate, renderList, render, renderBlock, guardE, bindR, assignW, nsOver, eval, evalVar, lookupPushed,
    lookupA, setA, sizeOfLocals, sumSz, nestList, nestNode, blankList, blankNode, blankText, isSpaceCp, subKind, writeW,
    write, utf8Len, cpLen, toStr]

end LiquidVerif.C07
