import LiquidVerif.Lemmas.Limits
/-!
# C07 — output and local-namespace limits bound what they measure

Property theorems about `LiquidVerif.Model.Limits` (the render-with-limits model of `liquid/output.py`,
`liquid/template.py`, `liquid/context.py` and the capture / ifchanged / include / render tags). STRICT mode.
Helper lemmas (the three mutual functional inductions `agree_all`, `binv_all`, `ns_all`) are in `Lemmas/Limits.lean`.
-/
set_option linter.unusedSimpArgs false

namespace LiquidVerif.C07
open LiquidVerif.Limits

/-- "`LimitedStringIO.write` counts UTF-8 bytes": the byte length is additive over concatenation, so the running
`size` of a buffer is the byte length of its whole text (used by `output_le_limit`). -/
theorem utf8Len_additive (a b : Text) : utf8Len (a ++ b) = utf8Len a + utf8Len b := utf8Len_append a b

/-- every code point is counted with 1 to 4 bytes -/
theorem utf8Len_le (s : Text) : s.length ≤ utf8Len s ∧ utf8Len s ≤ 4 * s.length := by
  induction s with
  | nil => simp [utf8Len]
  | cons c cs ih =>
    have := cpLen_pos c
    simp only [utf8Len, List.length_cons]
    omega

/-- **Sentence 1, first half — in every error mode.** With an output stream limit `l`, a completed render never
returns more than `l` UTF-8 bytes — for every template, partial pool, render data, every value of the other four
limits, and in STRICT as well as LAX/WARN mode (where suppressed errors let the render go on). -/
theorem output_le_limit (L : Limits) (P : Prog) (nodes : List Node) (l : Nat) (w : W)
    (hl : L.output = some l) (h : renderTemplate L P nodes = .ok w) : utf8Len w.buf.text ≤ l := by
  unfold renderTemplate at h
  simp only [guardE_ok] at h
  obtain ⟨_, h⟩ := h
  split at h
  · cases h
  · rw [hl] at h
    exact renderTop_within_limit L P _ l w nodes h

/-- In STRICT mode the count is exact as well: the returned text has `size = utf8Len text` bytes. -/
theorem output_size_exact (L : Limits) (P : Prog) (hlax : P.lax = false) (nodes : List Node) (w : W)
    (h : renderTemplate L P nodes = .ok w) : w.buf.size = utf8Len w.buf.text := by
  unfold renderTemplate at h
  simp only [guardE_ok] at h
  obtain ⟨_, h⟩ := h
  split at h
  · cases h
  · have := ((binv_all L P hlax).2.2.2.1 _ _ _ _ _ h).2
    have hb := this (by cases L.output <;> simp [BInv, initW, utf8Len])
    cases ho : L.output <;> rw [ho] at hb <;> simp only [BInv] at hb
    · exact hb
    · exact hb.1

/-- The same bound for *every* buffer the render creates (the top-level one, and the sub-buffers of `capture` and
`ifchanged`, which `get_buffer` starts from the remaining budget): whatever a node does to the current buffer keeps
`size = utf8Len text ≤ limit`, and a `NullIO` is never written to. -/
theorem every_buffer_within_its_limit (L : Limits) (P : Prog) (hlax : P.lax = false) (c : Cx) (bk : BK) (w w' : W)
    (n : Node) (h : render L P c bk w n = .ok w') : (bk = .null → w'.buf = w.buf) ∧ (BInv bk w.buf → BInv bk w'.buf) :=
  (binv_all L P hlax).1 c bk w n w' h

/-- the same in every mode, for either outcome of the node (completed, or failed and possibly suppressed): the text
held by the current buffer stays within the buffer's limit -/
theorem every_buffer_within_its_limit_any_mode (L : Limits) (P : Prog) (c : Cx) (bk : BK) (w : W) (n : Node) :
    (bk = .null → (resW (render L P c bk w n)).buf = w.buf) ∧
      (LInv bk w.buf → LInv bk (resW (render L P c bk w n)).buf) :=
  (lax_all L P).1 c bk w n

/-- a fresh sub-buffer satisfies the invariant and its limit is never more than the configured limit -/
theorem sub_buffer_budget (L : Limits) (bk : BK) (b : Buf) (l : Nat) (hl : L.output = some l) :
    BInv (subKind L bk b) ⟨0, []⟩ ∧ ∃ l', subKind L bk b = .real (some l') ∧ l' ≤ l := by
  refine ⟨binv_fresh L bk b, ?_⟩
  unfold subKind
  rw [hl]
  exact ⟨_, rfl, Nat.sub_le _ _⟩

/-- **At the boundary.** A nested buffer created when the enclosing limited buffer has used the whole allowance
(`size = l`, or more after a failed write in LAX mode) is a `LimitedStringIO` with limit 0 — not an unlimited
`StringIO` — and every non-empty write to it fails. -/
theorem sub_buffer_at_exhausted_budget (L : Limits) (l lb : Nat) (b : Buf) (hl : L.output = some l) (hb : l ≤ b.size) :
    subKind L (.real (some lb)) b = .real (some 0) ∧
      ∀ s : Text, s ≠ [] → write (subKind L (.real (some lb)) b) ⟨0, []⟩ s = .error ⟨utf8Len s, []⟩ := by
  have hk : subKind L (.real (some lb)) b = .real (some 0) := by
    unfold subKind; rw [hl]; simp only; congr 2; omega
  refine ⟨hk, fun s hs => ?_⟩
  rw [hk]
  have : 0 < utf8Len s := by
    cases s with
    | nil => exact absurd rfl hs
    | cons c cs => have := cpLen_pos c; simp only [utf8Len]; omega
  simp only [write, hs, if_false, Nat.zero_add]
  rw [if_pos (by omega)]

/-- with an output limit configured, no buffer of the render is ever unlimited: `get_buffer` always returns a
`LimitedStringIO`, whatever the enclosing buffer is -/
theorem sub_buffer_always_limited (L : Limits) (l : Nat) (hl : L.output = some l) (bk : BK) (b : Buf) :
    ∃ l', subKind L bk b = .real (some l') := by
  unfold subKind; rw [hl]; exact ⟨_, rfl⟩

/-- **Sentence 1, second half.** If the render without output limit (all other limits unchanged) completes with
more than `l` bytes, the strict-mode render with `output_stream_limit = l` raises `OutputStreamLimitError` — it can
neither complete nor fail in any other way. -/
theorem strict_over_limit_raises (L : Limits) (P : Prog) (hlax : P.lax = false) (nodes : List Node) (l : Nat) (w0 : W)
    (hl : L.output = some l) (h0 : renderTemplate { L with output := none } P nodes = .ok w0)
    (hover : utf8Len w0.buf.text > l) : ∃ w, renderTemplate L P nodes = .error (.outputLimit, w) := by
  have hle : LimLe L { L with output := none } :=
    ⟨by simp [OLe], OLe.refl _, OLe.refl _, Nat.le_refl _, Nat.le_refl _⟩
  rcases agree_template hle P hlax nodes with heq | ⟨e, w, he, ht⟩
  · rw [h0] at heq
    have := output_le_limit L P nodes l w0 hl heq
    omega
  · refine ⟨w, ?_⟩
    rw [he]
    cases e <;> simp_all [Tight]

/-- **Sentence 2** (for every limit the code treats as a limit, i.e. `M ≠ 0`). With `local_namespace_limit = M`,
every size measured after an assignment during a completed render — in the top-level context and in every copied
context (`render`), where the measure includes the size carried in from the parent chain — is at most `M`. -/
theorem locals_le_limit_partial (L : Limits) (P : Prog) (hlax : P.lax = false) (nodes : List Node) (M : Nat) (w : W)
    (hl : L.ns = some M) (hM : M ≠ 0) (h : renderTemplate L P nodes = .ok w) : ∀ s ∈ w.log, s ≤ M := by
  unfold renderTemplate at h
  simp only [guardE_ok] at h
  obtain ⟨_, h⟩ := h
  split at h
  · cases h
  · have := (ns_all L P hlax M hl hM).2.2.2.1 _ _ _ _ _ h
    exact (this ⟨by simp [sumSz, initW], by simp [initW]⟩).2

/-- The invariant behind it, for every reachable context: if the measured size of a context
(`Σ sz locals + local_namespace_size_carry`) is within `M` before a node, it is within `M` after it, and every
context created by `copy` starts within `M` (its carry *is* the parent's measured size). -/
theorem locals_le_limit_every_context (L : Limits) (P : Prog) (hlax : P.lax = false) (M : Nat) (hl : L.ns = some M) (hM : M ≠ 0)
    (c : Cx) (bk : BK) (w w' : W) (n : Node) (h : render L P c bk w n = .ok w')
    (hi : sizeOfLocals P c w ≤ M ∧ ∀ s ∈ w.log, s ≤ M) : sizeOfLocals P c w' ≤ M ∧ ∀ s ∈ w'.log, s ≤ M :=
  (ns_all L P hlax M hl hM).1 c bk w n w' h hi

theorem copied_context_starts_within (P : Prog) (c : Cx) (w : W) (ns : List (String × Val)) :
    sizeOfLocals P (copied P c w ns) (freshW w) = sizeOfLocals P c w := by
  simp [sizeOfLocals, copied, freshW, sumSz]

/-- **Sentence 2 at full strength fails for `M = 0`**: `assign` tests `if limit and size > limit`, so a limit of 0 is
no limit; `{% assign a = 'x' %}` completes under `local_namespace_limit = 0` having held 42 bytes. -/
theorem locals_le_limit_counterexample :
    ¬ (∀ (L : Limits) (P : Prog) (nodes : List Node) (M : Nat) (w : W), P.lax = false → L.ns = some M →
        renderTemplate L P nodes = .ok w → ∀ s ∈ w.log, s ≤ M) := by
  intro hall
  have := hall ⟨none, some 0, none, 30, 30⟩ ⟨[], [], pySizeof, pyFilt, false⟩ [.assign "a" (.lit (.sc (.str [120])))] 0
    ⟨[("a", .sc (.str [120]))], [], [], ⟨0, []⟩, [42], []⟩ rfl rfl
    (by simp [renderTemplate, renderTop, catchR, initW, render, guardE, bindR, assignW, nsOver, eval, setA, sizeOfLocals,
          sumSz, pySizeof, strSize, maxCp, nestList, nestNode])
    42 (by simp)
  omega

/-! ## LAX / WARN mode: what holds and what does not

`output_le_limit` and `every_buffer_within_its_limit_any_mode` above hold in every mode. Sentence 2 does not survive
error suppression: `assign` stores the value *before* it tests the limit, so after a suppressed
`LocalNamespaceLimitError` the context keeps holding more than `M`. -/

/-- in LAX/WARN mode a render whose template parses and whose top-level `extend` fits always completes: every node's
error is dropped by the render loop -/
theorem lax_completes (L : Limits) (P : Prog) (hlax : P.lax = true) (nodes : List Node)
    (hn : nestList nodes ≤ L.nesting) (hd : 4 ≤ L.depth) : ∃ w, renderTemplate L P nodes = .ok w := by
  unfold renderTemplate
  have h1 : decide (nestList nodes > L.nesting) = false := by simp; omega
  simp only [h1, guardE]
  have h2 : ¬ (4 > L.depth) := by omega
  simp only [h2, if_false]
  exact renderTop_lax_ok L P hlax _ _ _ _

/-- **Sentence 2 fails in LAX mode**: under `local_namespace_limit = 1`, `{% assign a = 'x' %}` completes (the error is
suppressed) and the context still holds the 42-byte value. -/
theorem lax_locals_exceed_limit_counterexample :
    ¬ (∀ (L : Limits) (P : Prog) (nodes : List Node) (M : Nat) (w : W), L.ns = some M → M ≠ 0 →
        renderTemplate L P nodes = .ok w → sumSz P.sz w.locals ≤ M) := by
  intro hall
  have := hall ⟨none, some 1, none, 30, 30⟩ ⟨[], [], pySizeof, pyFilt, true⟩ [.assign "a" (.lit (.sc (.str [120])))] 1
    ⟨[("a", .sc (.str [120]))], [], [], ⟨0, []⟩, [], []⟩ rfl (by omega)
    (by simp [renderTemplate, renderTop, catchR, initW, render, guardE, bindR, assignW, nsOver, eval, setA, sizeOfLocals,
          sumSz, pySizeof, strSize, maxCp, nestList, nestNode])
  simp [sumSz, pySizeof, strSize, maxCp] at this

/-! ## The ghost-exact fields are not read when their limit is off

The model keeps `Buf.size`, `Cx.nsCarry` and the log even when the code stores nothing / 0 (plain `StringIO`,
`get_size_of_locals()` returning 0 under a falsy limit). These are the only places that read them. -/

/-- with `local_namespace_limit` `None` or `0` the test in `assign` ignores the measured size (hence the carry) -/
theorem ns_size_unread_when_off (lim : Option Nat) (h : lim = none ∨ lim = some 0) (n m : Nat) :
    nsOver lim n = nsOver lim m := by
  rcases h with rfl | rfl <;> simp [nsOver]

/-- without an output limit a write ignores the byte count, and a new sub-buffer does not depend on it -/
theorem buf_size_unread_when_off (L : Limits) (hl : L.output = none) (bk : BK) (n m : Nat) (t s : Text) :
    (match write (.real none) ⟨n, t⟩ s, write (.real none) ⟨m, t⟩ s with
     | .ok b1, .ok b2 => b1.text = b2.text
     | _, _ => False) ∧ subKind L bk ⟨n, t⟩ = subKind L bk ⟨m, t⟩ := by
  constructor
  · unfold write; by_cases hs : s = [] <;> simp [hs]
  · simp [subKind, hl]

/-! ## Non-vacuity -/

/-- `{% capture c %}€{% endcapture %}{{ c }}` produces 3 bytes; under limit 3 it completes … -/
example : outcome (renderTemplate ⟨some 3, none, none, 30, 30⟩ ⟨[], [], pySizeof, pyFilt, false⟩
    [.capture "c" [.text [0x20AC]], .output (.var "c")]) = .ok [0x20AC] := by
  simp [outcome, renderTemplate, renderTop, catchR, initW, mapErr, renderList, render, renderBlock, guardE, bindR, assignW, nsOver, eval, evalVar, lookupPushed,
    lookupA, setA, sizeOfLocals, sumSz, nestList, nestNode, blankList, blankNode, blankText, isSpaceCp, subKind, writeW,
    write, utf8Len, cpLen, toStr]

/-- … under limit 2 it raises (the hypothesis of `strict_over_limit_raises` is met) -/
example : outcome (renderTemplate ⟨some 2, none, none, 30, 30⟩ ⟨[], [], pySizeof, pyFilt, false⟩
    [.capture "c" [.text [0x20AC]], .output (.var "c")]) = .error .outputLimit := by
  simp [outcome, renderTemplate, renderTop, catchR, initW, mapErr, renderList, render, renderBlock, guardE, bindR, assignW, nsOver, eval, evalVar, lookupPushed,
    lookupA, setA, sizeOfLocals, sumSz, nestList, nestNode, blankList, blankNode, blankText, isSpaceCp, subKind, writeW,
    write, utf8Len, cpLen, toStr]

end LiquidVerif.C07
