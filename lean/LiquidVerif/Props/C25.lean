import LiquidVerif.Model.Filters
/-!
# C25 — built-in filters honour their documented contracts
-/
namespace LiquidVerif.C25
open LiquidVerif.Filters

/-- **truncate returns its input unchanged when it is no longer than the requested length.** -/
theorem truncate_unchanged (val e : Str) (n : Int) (h : (val.length : Int) ≤ n) :
    truncateChars val n e = val := by
  simp [truncateChars, h]

end LiquidVerif.C25
