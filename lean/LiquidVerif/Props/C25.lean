import LiquidVerif.Lemmas.FiltersVal
/-!
# C25 — built-in filters honour their documented contracts

Property theorems about `Model/PyStr.lean`, `Model/Dec.lean`, `Model/Filters.lean` (the models of
`liquid/builtin/filters/{string,array,math,misc}.py`, `liquid/utils/text.py`, `liquid/filter.py`).
One section per sentence of the property. Helper lemmas live in `Lemmas/`.
-/
namespace LiquidVerif.C25
open LiquidVerif.Filters

/-! ## "size returns the length of sized values and 0 otherwise" -/

/-- **size** of a string, list or dict is its length. -/
theorem size_sized :
    (∀ s, fSize (.str s) = .int s.length) ∧ (∀ xs, fSize (.list xs) = .int xs.length) ∧
    (∀ kvs, fSize (.dict kvs) = .int kvs.length) := ⟨fun _ => rfl, fun _ => rfl, fun _ => rfl⟩

/-- **size** of every other value (nil, undefined, bool, int, float) is 0. -/
theorem size_unsized (v : Val) (h1 : ∀ s, v ≠ .str s) (h2 : ∀ xs, v ≠ .list xs) (h3 : ∀ kvs, v ≠ .dict kvs) :
    fSize v = .int 0 := by
  cases v with
  | str s => exact absurd rfl (h1 s)
  | list xs => exact absurd rfl (h2 xs)
  | dict kvs => exact absurd rfl (h3 kvs)
  | _ => rfl

example : fSize (.list [.int 1, .nil]) = .int 2 ∧ fSize (.flt 3 2) = .int 0 := ⟨rfl, rfl⟩

/-! ## "case and whitespace filters behave like the corresponding string operations" (ASCII model) -/

/-- case filters map character by character: the length never changes -/
theorem case_length (s : Str) :
    (upcase s).length = s.length ∧ (downcase s).length = s.length ∧ (capitalize s).length = s.length := by
  refine ⟨by simp [upcase], by simp [downcase], ?_⟩
  cases s <;> simp [capitalize]

/-- **upcase / downcase are idempotent** and leave no letter of the other case (ASCII). -/
theorem upcase_idem (s : Str) : upcase (upcase s) = upcase s := by
  simp [upcase, List.map_map, Function.comp_def, upperC_idem]

/-- downcase is idempotent -/
theorem downcase_idem (s : Str) : downcase (downcase s) = downcase s := by
  simp [downcase, List.map_map, Function.comp_def, lowerC_idem]

/-- after upcase no lower-case ASCII letter remains -/
theorem upcase_no_lower (s : Str) : ∀ c ∈ upcase s, isLowerC c = false := by
  intro c hc
  obtain ⟨d, _, rfl⟩ := List.mem_map.1 hc
  exact upperC_not_lower d

/-- `capitalize` is "upper-case the first character, lower-case the rest" -/
theorem capitalize_spec (c : Char) (cs : Str) : capitalize (c :: cs) = upperC c :: downcase cs := rfl

/-- **lstrip** removes exactly the maximal whitespace prefix. -/
theorem lstrip_spec (s : Str) :
    ∃ pre, s = pre ++ lstrip s ∧ (∀ c ∈ pre, isSpace c = true) ∧ (∀ c, (lstrip s).head? = some c → isSpace c = false) := by
  obtain ⟨pre, h1, h2⟩ := lstrip_decomp s
  exact ⟨pre, h1, h2, lstrip_head s⟩

/-- **rstrip** removes exactly the maximal whitespace suffix. -/
theorem rstrip_spec (s : Str) :
    ∃ suf, s = rstrip s ++ suf ∧ (∀ c ∈ suf, isSpace c = true) ∧ (∀ c, (rstrip s).getLast? = some c → isSpace c = false) := by
  obtain ⟨suf, h1, h2⟩ := rstrip_decomp s
  exact ⟨suf, h1, h2, rstrip_last s⟩

/-- **strip** removes exactly the maximal whitespace prefix and suffix, and nothing else. -/
theorem strip_spec (s : Str) :
    ∃ pre suf, s = pre ++ strip s ++ suf ∧ (∀ c ∈ pre, isSpace c = true) ∧ (∀ c ∈ suf, isSpace c = true)
      ∧ (∀ c, (strip s).head? = some c → isSpace c = false)
      ∧ (∀ c, (strip s).getLast? = some c → isSpace c = false) := strip_decomp s

example : strip " \ta b\n".toList = "a b".toList := by decide

/-! ## "split followed by join with the same separator restores a non-empty string" -/

/-- `val | split: sep | join: sep` on the model, as a string (none: error or not a string) -/
def splitJoin (s sep : Str) : Option Str :=
  match fSplit (.str s) (.str sep) with
  | .ok parts => match fJoin parts (.str sep) with
    | .ok (.str r) => some r
    | _ => none
  | .error _ => none

/-- the sentence of the property, for one value and separator -/
def SplitJoinRestores (s sep : Str) : Prop := splitJoin s sep = some s

instance (s sep : Str) : Decidable (SplitJoinRestores s sep) := by unfold SplitJoinRestores; infer_instance

/-- **split|join round trip** — everything except the two stated exceptions: the separator `" "`
(whitespace splitting) and a value equal to the separator. Includes the empty separator. -/
theorem split_join_partial (s sep : Str) (hs : s ≠ []) (h1 : sep ≠ [' ']) (h2 : s ≠ sep) :
    SplitJoinRestores s sep := by
  unfold SplitJoinRestores splitJoin
  cases sep with
  | nil =>
    have : fSplit (.str s) (.str []) = .ok (.list ((s.map fun c => [c]).map .str)) := by
      simp [fSplit, strLeft, pyStr, List.map_map, Function.comp_def]
    rw [this]
    simp only [fJoin_strs, joinStr_nil_sep, flatten_singletons]
  | cons a sep' =>
    have he : s.isEmpty = false := by cases s <;> simp_all
    have hne : (s == a :: sep') = false := by simpa using h2
    have hsp : (a :: sep' == [' ']) = false := by simpa using h1
    have : fSplit (.str s) (.str (a :: sep')) = .ok (.list ((splitOn (a :: sep') s).map .str)) := by
      simp [fSplit, strLeft, pyStr, he, hne, hsp]
    rw [this]
    simp only [fJoin_strs, join_splitOn _ _ (List.cons_ne_nil _ _)]

/-- the exception `sep = " "`: runs of whitespace collapse -/
theorem split_join_space_counterexample : ¬ SplitJoinRestores "a  b".toList " ".toList := by decide

/-- the exception `val = sep`: `split` returns `[]` -/
theorem split_join_val_eq_sep_counterexample : ¬ SplitJoinRestores ",".toList ",".toList := by decide

example : SplitJoinRestores "a,,b".toList ",".toList := by decide

/-! ## "reverse, sort, sort_natural, uniq, compact, concat, map, where and reject return new lists with the
documented membership and order" -/

/-- **reverse**: the items of the (flattened) input, in exactly the opposite order. -/
theorem reverse_spec (v : Val) :
    ∃ r, fReverse v = .list r ∧ r.reverse = seqOf v ∧ r.Perm (seqOf v) :=
  ⟨(seqOf v).reverse, rfl, List.reverse_reverse _, List.reverse_perm _⟩

/-- denominators of floats are positive (true of every `float.as_integer_ratio()`) -/
def PosDen (xs : List Val) : Prop := ∀ x ∈ xs, ∀ n d, keyOf x = .num n d → 0 < d

/-- **sort** (no key): the result is a permutation of the (flattened) input, ascending (no item is
smaller than an earlier one — numbers by exact value, strings by code points) and stable. -/
theorem sort_spec (v : Val) (ys : List Val) (h : fSort v .nil = .ok (.list ys)) (hpos : PosDen (seqOf v)) :
    ys.Perm (seqOf v) ∧ ys.Pairwise (fun a b => keyLt (keyOf b) (keyOf a) = false) ∧
    (∀ p : Val → Bool, (∀ a b, p a = true → p b = true → keyLt (keyOf a) (keyOf b) = false) →
      ys.filter p = (seqOf v).filter p) := by
  simp only [fSort, truthy, Bool.false_eq_true, if_false] at h
  cases hs : pySorted keyOf (seqOf v) with
  | error e => rw [hs] at h; cases e <;> cases h
  | ok zs =>
    rw [hs] at h
    cases h
    exact pySorted_spec keyOf _ _ hs hpos

example : fSort (.list [.int 3, .flt 1 2, .int (-1)]) .nil = .ok (.list [.int (-1), .flt 1 2, .int 3]) := by rfl

/-- **sort_natural** (no key): a permutation of the input, ascending by lower-cased text, stable. -/
theorem sort_natural_spec (v : Val) (ys : List Val) (h : fSortNatural v .nil = .ok (.list ys)) :
    ys.Perm (seqOf v) ∧
    ys.Pairwise (fun a b => strLt ((lowerKey b).getD []) ((lowerKey a).getD []) = false) := by
  simp only [fSortNatural, truthy, Bool.false_eq_true, if_false] at h
  split at h
  · cases h
    refine ⟨sortBy_perm _ _, ?_⟩
    exact sortBy_sorted (fun a b : Val => strLt ((lowerKey a).getD []) ((lowerKey b).getD [])) (fun _ => True)
      (fun a b _ _ h => strLt_asymm _ _ h) (fun a b c _ _ _ h1 h2 => strLt_ntrans _ _ _ h1 h2) (seqOf v)
      (fun _ _ => trivial)
  · cases h

/-- **uniq**: a sub-list of the input (order kept) without two `==` items, in which every input item
has an `==` representative — i.e. exactly the first occurrences. -/
theorem uniq_spec (v : Val) :
    ∃ r, fUniq v = .list r ∧ r.Sublist (seqOf v) ∧ r.Pairwise (fun a b => pyEq a b = false) ∧
      ∀ x ∈ seqOf v, ∃ y ∈ r, pyEq y x = true := by
  refine ⟨uniqFrom [] (seqOf v), rfl, uniqFrom_sublist _ _, uniqFrom_pairwise _ _, ?_⟩
  intro x hx
  rcases uniqFrom_cover [] (seqOf v) x hx with ⟨s, hs, _⟩ | h
  · simp at hs
  · exact h

example : fUniq (.list [.int 1, .bool true, .str ['a'], .flt 1 1, .str ['a'], .nil, .undef])
    = .list [.int 1, .str ['a'], .nil] := by rfl

/-- **compact**: the non-nil items of the input, order kept. -/
theorem compact_spec (v : Val) :
    ∃ r, fCompact v = .list r ∧ r.Sublist (seqOf v) ∧ ∀ x, x ∈ r ↔ (x ∈ seqOf v ∧ x ≠ .nil) := by
  refine ⟨_, rfl, List.filter_sublist, ?_⟩
  intro x
  rw [List.mem_filter]
  constructor
  · rintro ⟨h1, h2⟩
    refine ⟨h1, ?_⟩
    rintro rfl
    simp at h2
  · rintro ⟨h1, h2⟩
    refine ⟨h1, ?_⟩
    cases x <;> first | rfl | exact absurd rfl h2

/-- **concat**: the (flattened) left items followed by the argument's items, as given. -/
theorem concat_spec (left : Val) (ys : List Val) (h : isUndef left = false) :
    fConcat left (.list ys) = .ok (.list (seqOf left ++ ys)) := by
  simp [fConcat, h]

/-- concat with anything but a list is an argument error -/
theorem concat_not_list (left second : Val) (h : ∀ ys, second ≠ .list ys) : fConcat left second = .error .arg := by
  cases second with
  | list ys => exact absurd rfl (h ys)
  | _ => rfl

/-- **map** over a list of dicts: one result per item, the value at the key or nil, order kept. -/
theorem map_spec (ds : List (List (Str × Val))) (k : Str) :
    fMap (.list (ds.map .dict)) (.str k) = .ok (.list (ds.map fun kvs => (lookup k kvs).getD .nil)) := by
  have : mapM' (fun itm => getItem itm k .nil) (ds.map Val.dict) = .ok (ds.map fun kvs => (lookup k kvs).getD .nil) :=
    mapM_map_ok (fun itm => getItem itm k .nil) Val.dict (fun kvs => (lookup k kvs).getD .nil) (fun _ => rfl) ds
  unfold fMap
  simp only [pyStr, seqOf_dicts, this]

/-- **where / reject** over a list of dicts: `where` keeps exactly the items passing the test, `reject`
exactly the others, both in input order; together they partition the input. -/
theorem where_reject_spec (ds : List (List (Str × Val))) (a : Str) (value : Val) :
    ∃ w r, fWhere (.list (ds.map .dict)) (.str a) value = .ok (.list (w.map .dict)) ∧
           fReject (.list (ds.map .dict)) (.str a) value = .ok (.list (r.map .dict)) ∧
           w = ds.filter (dictTest a value) ∧ r = ds.filter (fun d => !dictTest a value d) ∧
           w.Sublist ds ∧ r.Sublist ds ∧ (w ++ r).Perm ds := by
  refine ⟨ds.filter (dictTest a value), ds.filter (fun d => !dictTest a value d), ?_, ?_, rfl, rfl,
    List.filter_sublist, List.filter_sublist, List.filter_append_perm _ _⟩
  · have h2 : filterM' (fun itm => (getItem itm a .nil).map (attrTest value true)) (ds.map Val.dict)
        = .ok ((ds.filter (dictTest a value)).map Val.dict) :=
      filterM_map_ok (fun itm => (getItem itm a .nil).map (attrTest value true)) Val.dict (dictTest a value)
        (fun _ => rfl) ds
    unfold fWhere selectBy
    simp only [seqOf_dicts, h2]
  · have h2 : filterM' (fun itm => (getItem itm a .nil).map (attrTest value false)) (ds.map Val.dict)
        = .ok ((ds.filter (fun d => !dictTest a value d)).map Val.dict) :=
      filterM_map_ok (fun itm => (getItem itm a .nil).map (attrTest value false)) Val.dict
        (fun d => !dictTest a value d) (fun d => by simp [getItem, Except.map, attrTest_neg, dictTest]) ds
    unfold fReject selectBy
    simp only [seqOf_dicts, h2]

/-! ## "slice, first and last select the documented items" -/

/-- **first** / **last** of a list are its first / last item, nil when it is empty; strings give nil. -/
theorem first_last_spec (xs : List Val) (s : Str) :
    fFirst (.list xs) = xs.head?.getD .nil ∧ fLast (.list xs) = xs.getLast?.getD .nil ∧
    fFirst (.str s) = .nil ∧ fLast (.str s) = .nil := by
  refine ⟨?_, rfl, rfl, rfl⟩
  cases xs <;> rfl

/-- **slice** with a start inside the sequence and a non-negative length selects `length` items
(fewer at the end of the sequence) starting at `start`. -/
theorem slice_spec_nonneg (s : Str) (st ln : Nat) (h1 : (st : Int) ≤ MAX_SLICE_ARG) (h2 : (ln : Int) ≤ MAX_SLICE_ARG) :
    fSlice (.str s) (.int st) (.int ln) = .ok (.str ((s.drop st).take ln)) := by
  have e1 : max (min (st : Int) MAX_SLICE_ARG) MIN_SLICE_ARG = st := by unfold MAX_SLICE_ARG MIN_SLICE_ARG at *; omega
  have e2 : max (min (ln : Int) MAX_SLICE_ARG) MIN_SLICE_ARG = ln := by unfold MAX_SLICE_ARG MIN_SLICE_ARG at *; omega
  have e3 : max (ln : Int) 0 = ln := by omega
  have e4 : ¬ ((st : Int) < 0) := by omega
  simp [fSlice, isUndef, sliceArg, toInt, e1, e2, e4, pySlice_nonneg]

/-- **slice** with a negative start inside the sequence counts from the end. -/
theorem slice_spec_negative_start (s : Str) (k ln : Nat) (hk : 0 < k) (hk2 : k ≤ s.length)
    (h1 : (k : Int) ≤ MAX_SLICE_ARG) (h2 : (ln : Int) ≤ MAX_SLICE_ARG) :
    fSlice (.str s) (.int (-(k : Int))) (.int ln) = .ok (.str ((s.drop (s.length - k)).take ln)) := by
  have e1 : max (min (-(k : Int)) MAX_SLICE_ARG) MIN_SLICE_ARG = -(k : Int) := by unfold MAX_SLICE_ARG MIN_SLICE_ARG at *; omega
  have e2 : max (min (ln : Int) MAX_SLICE_ARG) MIN_SLICE_ARG = ln := by unfold MAX_SLICE_ARG MIN_SLICE_ARG at *; omega
  have e3 : max (ln : Int) 0 = ln := by omega
  have := pySlice_neg s k ln hk hk2
  simp only [fSlice, isUndef, sliceArg, toInt, Option.map, e1, e2, e3, Bool.false_eq_true, if_false]
  simp only [Bool.and_eq_true, decide_eq_true_eq]
  rw [this]

/-- a negative length selects nothing (after the fix) -/
theorem slice_negative_length (s : Str) (st : Nat) (ln : Int) (hl : ln < 0) (h0 : MIN_SLICE_ARG ≤ ln)
    (h1 : (st : Int) ≤ MAX_SLICE_ARG) :
    fSlice (.str s) (.int st) (.int ln) = .ok (.str []) := by
  have e1 : max (min (st : Int) MAX_SLICE_ARG) MIN_SLICE_ARG = st := by unfold MAX_SLICE_ARG MIN_SLICE_ARG at *; omega
  have e2 : max (min ln MAX_SLICE_ARG) MIN_SLICE_ARG = ln := by unfold MAX_SLICE_ARG MIN_SLICE_ARG at *; omega
  have e3 : max ln 0 = 0 := by omega
  have := pySlice_nonneg s st 0
  simp only [Int.natCast_zero, Int.add_zero, List.take_zero] at this
  have e4 : ¬ ((st : Int) < 0) := by omega
  simp [fSlice, isUndef, sliceArg, toInt, e1, e2, e3, e4, this]

example : fSlice (.str "abcdef".toList) (.int (-3)) (.int 2) = .ok (.str "de".toList) := by rfl

/-! ## "truncate returns its input unchanged when it is no longer than the requested length and otherwise a
string ending in the ellipsis and no longer than the larger of the requested length and the ellipsis" -/

/-- **truncate, first half** -/
theorem truncate_unchanged (val e : Str) (n : Int) (h : (val.length : Int) ≤ n) :
    truncateChars val n e = val := by
  simp [truncateChars, h]

/-- **truncate, second half**: a longer input becomes a prefix of the input followed by the ellipsis, of
length exactly `max n |e|`. -/
theorem truncate_cut (val e : Str) (n : Int) (h : n < (val.length : Int)) :
    ∃ p, truncateChars val n e = p ++ e ∧ p <+: val ∧
      ((truncateChars val n e).length : Int) = max n (e.length : Int) := by
  have hn : ¬ ((val.length : Int) ≤ n) := by omega
  refine ⟨val.take (max (n - (e.length : Int)) 0).toNat, by simp [truncateChars, hn], List.take_prefix _ _, ?_⟩
  simp only [truncateChars, hn, if_false, List.length_append, List.length_take]
  omega

/-- **truncate**, the sentence of the property as one statement. -/
theorem truncate_spec (val e : Str) (n : Int) :
    ((val.length : Int) ≤ n → truncateChars val n e = val) ∧
    (n < (val.length : Int) → e <:+ truncateChars val n e ∧
      ((truncateChars val n e).length : Int) ≤ max n (e.length : Int)) := by
  refine ⟨truncate_unchanged val e n, fun h => ?_⟩
  obtain ⟨p, h1, _, h3⟩ := truncate_cut val e n h
  exact ⟨⟨p, h1.symm⟩, by omega⟩

example : truncateChars "abc".toList 3 "...".toList = "abc".toList
    ∧ truncateChars "abcdef".toList 2 "...".toList = "...".toList
    ∧ truncateChars "abcdef".toList 5 "...".toList = "ab...".toList := by decide

/-! ## "truncatewords keeps at most the requested number of words" -/

/-- **truncatewords**: the first `n` words joined by single spaces, plus the ellipsis unless there were
fewer than `n` words (for `1 ≤ n < 2^31 - 1`). -/
theorem truncatewords_spec (val e : Str) (n : Int) (h1 : 1 ≤ n) (h2 : n < MAX_TRUNC_WORDS) :
    truncateWords val n e =
      joinStr [' '] ((splitWs val).take n.toNat) ++ (if ((splitWs val).length : Int) < n then [] else e) := by
  have a1 : ¬ n ≤ 0 := by omega
  have a2 : ¬ n ≥ MAX_TRUNC_WORDS := by omega
  simp only [truncateWords, a1, a2, if_false]
  split
  · rename_i hlt
    rw [List.take_of_length_le (by omega)]
    simp
  · rfl

/-- the sentence of the property: the words kept (ellipsis left empty so that it cannot add words)
are at most `n` and are the leading words of the input -/
def TruncWordsLe (val : Str) (n : Int) : Prop :=
  ((splitWs (truncateWords val n [])).length : Int) ≤ n

instance (val : Str) (n : Int) : Decidable (TruncWordsLe val n) := by unfold TruncWordsLe; infer_instance

theorem truncatewords_le_partial (val : Str) (n : Int) (h1 : 1 ≤ n) (h2 : n < MAX_TRUNC_WORDS) :
    TruncWordsLe val n ∧ splitWs (truncateWords val n []) = (splitWs val).take n.toNat := by
  have hw : splitWs (truncateWords val n []) = (splitWs val).take n.toNat := by
    rw [truncatewords_spec val [] n h1 h2]
    have : (if ((splitWs val).length : Int) < n then ([] : Str) else []) = [] := by split <;> rfl
    rw [this, List.append_nil]
    apply splitWs_join_words
    intro w hw
    exact splitWs_words val w (List.mem_of_mem_take hw)
  refine ⟨?_, hw⟩
  unfold TruncWordsLe
  rw [hw, List.length_take]
  omega

/-- `n ≤ 0` is forced to 1 (as in the reference implementation): one word is kept although none was asked for -/
theorem truncatewords_le_counterexample : ¬ TruncWordsLe "a b".toList 0 := by decide

example : truncateWords "a  b c".toList 2 "...".toList = "a b...".toList := by decide

/-! ## "plus, minus, times, divided_by, modulo, abs, ceil, floor, round, at_least and at_most agree with
exact integer or decimal arithmetic" -/

/-- **plus / minus / times on integers** are the exact integer operations. -/
theorem int_arith (a b : Int) :
    mPlus (.int a) (.int b) = .ok (.int (a + b)) ∧ mMinus (.int a) (.int b) = .ok (.int (a - b)) ∧
    mTimes (.int a) (.int b) = .ok (.int (a * b)) := ⟨rfl, rfl, rfl⟩

/-- **divided_by on integers** is floor division; **modulo** is the floored remainder; together they satisfy
the division law, and the remainder has the sign of the divisor. -/
theorem int_div_mod (a b : Int) (hb : b ≠ 0) :
    mDividedBy (.int a) (.int b) = .ok (.int (Int.fdiv a b)) ∧
    mModulo (.int a) (.int b) = .ok (.int (Int.fmod a b)) ∧
    Int.fdiv a b * b + Int.fmod a b = a ∧
    (0 < b → 0 ≤ Int.fmod a b ∧ Int.fmod a b < b) ∧ (b < 0 → b < Int.fmod a b ∧ Int.fmod a b ≤ 0) := by
  have hb' : (b == 0) = false := by simpa using hb
  have h := pyDivMod_spec a b hb
  rw [pyFloorDiv_eq_fdiv a b hb, pyMod_eq_fmod a b hb] at h
  refine ⟨?_, ?_, h.1, h.2.1, h.2.2⟩
  · simp [mDividedBy, hb', pyFloorDiv_eq_fdiv a b hb]
  · simp [mModulo, hb', pyMod_eq_fmod a b hb]

/-- dividing by the integer zero is an argument error, never a Python exception -/
theorem int_div_zero (a : Int) :
    mDividedBy (.int a) (.int 0) = .error .arg ∧ mModulo (.int a) (.int 0) = .error .arg := ⟨rfl, rfl⟩

example : mDividedBy (.int (-7)) (.int 2) = .ok (.int (-4)) ∧ mModulo (.int (-7)) (.int 2) = .ok (.int 1) := by decide

/-- **abs**: the exact absolute value. -/
theorem abs_spec (i n : Int) (d : Nat) :
    mAbs (.int i) = .int |i| ∧ mAbs (.flt n d) = .flt |n| d := by
  constructor <;> simp [mAbs]

/-- **ceil / floor** of a float are the integers characterised by `c - 1 < x ≤ c` and `f ≤ x < f + 1`
on the exact value `x = n / d`; integers are unchanged. -/
theorem ceil_floor_spec (n : Int) (d : Nat) (hd : 0 < d) (i : Int) :
    mCeil (.int i) = .int i ∧ mFloor (.int i) = .int i ∧
    (∃ c, mCeil (.flt n d) = .int c ∧ (c - 1) * d < n ∧ n ≤ c * d) ∧
    (∃ f, mFloor (.flt n d) = .int f ∧ f * d ≤ n ∧ n < (f + 1) * d) :=
  ⟨rfl, rfl, ⟨_, rfl, ceilQ_spec n d hd⟩, ⟨_, rfl, floorQ_spec n d hd⟩⟩

/-- **round** (no digits) of a float is a nearest integer of the exact value, ties to even. -/
theorem round_spec (n : Int) (d : Nat) (hd : 0 < d) (i : Int) :
    mRound (.int i) none = .ok (.int i) ∧
    ∃ m, mRound (.flt n d) none = .ok (.int m) ∧ 2 * n ≤ 2 * m * d + d ∧ 2 * m * d ≤ 2 * n + d ∧
      ((2 * n = 2 * m * d + d ∨ 2 * m * d = 2 * n + d) → m % 2 = 0) :=
  ⟨rfl, _, rfl, roundHalfEven_spec n d hd⟩

/-- **round with a negative number of digits returns 0** — not a rounding of the value
(`15 | round: -1` is 0; exact arithmetic gives 20). -/
theorem round_negative_digits_counterexample :
    mRound (.int 15) (some (.int (-1))) = .ok (.int 0) ∧ mRound (.int 15) (some (.int (-1))) ≠ .ok (.int 20) := by
  refine ⟨rfl, ?_⟩
  intro h
  have h0 : mRound (.int 15) (some (.int (-1))) = .ok (.int 0) := rfl
  rw [h0] at h
  cases h

/-- **at_least / at_most** return one of their two operands, not smaller / not larger than either. -/
theorem at_least_most_spec (a b : Num) :
    (mAtLeast a b = a ∨ mAtLeast a b = b) ∧ numLt (mAtLeast a b) a = false ∧ numLt (mAtLeast a b) b = false ∧
    (mAtMost a b = a ∨ mAtMost a b = b) ∧ numLt a (mAtMost a b) = false ∧ numLt b (mAtMost a b) = false := by
  unfold mAtLeast mAtMost
  refine ⟨?_, ?_, ?_, ?_, ?_, ?_⟩
  · split <;> simp
  · split
    · rename_i h; exact ratLt_asymm _ _ _ _ h
    · exact ratLt_irrefl _ _
  · split
    · exact ratLt_irrefl _ _
    · rename_i h; simpa [numLt] using h
  · split <;> simp
  · split
    · rename_i h; exact ratLt_asymm _ _ _ _ h
    · exact ratLt_irrefl _ _
  · split
    · exact ratLt_irrefl _ _
    · rename_i h; simpa [numLt] using h

/-- **decimal plus / minus / times**: the coefficients are combined exactly on the common exponent, and the
context leaves the exact result untouched whenever it has at most 28 significant digits. -/
theorem decimal_exact (x y : Dec) :
    (Dec.addExact x y).coef = x.coef * (10 ^ (x.exp - min x.exp y.exp).toNat : Nat) + y.coef * (10 ^ (y.exp - min x.exp y.exp).toNat : Nat) ∧
    (Dec.subExact x y).coef = x.coef * (10 ^ (x.exp - min x.exp y.exp).toNat : Nat) - y.coef * (10 ^ (y.exp - min x.exp y.exp).toNat : Nat) ∧
    (Dec.addExact x y).exp = min x.exp y.exp ∧ (Dec.subExact x y).exp = min x.exp y.exp ∧
    Dec.mulExact x y = ⟨x.coef * y.coef, x.exp + y.exp⟩ ∧
    (digits10 (Dec.addExact x y).coef.natAbs ≤ 28 → Dec.add x y = Dec.addExact x y) ∧
    (digits10 (Dec.subExact x y).coef.natAbs ≤ 28 → Dec.sub x y = Dec.subExact x y) ∧
    (digits10 (Dec.mulExact x y).coef.natAbs ≤ 28 → Dec.mul x y = Dec.mulExact x y) :=
  ⟨rfl, rfl, rfl, rfl, rfl, Dec.round_of_fits _, Dec.round_of_fits _, Dec.round_of_fits _⟩

/-- value of a successful numeric result (none: the filter raised) -/
def okNum : Except Err Num → Option Num
  | .ok n => some n
  | .error _ => none

/-- **the 28-digit context is visible**: `9007199254740992 | plus: 1.0000000000000002` — the exact decimal
sum `9007199254740993.0000000000000002` has 32 digits, the context rounds it to `…993` (a tie between two
doubles) and `float()` then rounds to even, `9007199254740992.0`; the nearest double of the exact sum is
`9007199254740994.0`. -/
theorem plus_decimal_exact_counterexample :
    okNum (mPlus (.int 9007199254740992) (.flt 4503599627370497 4503599627370496)) = some (.flt 9007199254740992 1) ∧
    Dec.addExact (Dec.ofInt 9007199254740992) (Dec.ofFloat 4503599627370497 4503599627370496)
      = ⟨90071992547409930000000000000002, -16⟩ ∧
    decToDouble 90071992547409930000000000000002 (-16) = some (9007199254740994, 1) := by
  decide +kernel

/-! ## "default returns its argument exactly for nil, false, undefined and empty values" -/

/-- **default** returns its argument for nil, false, undefined, and the empty string / list / dict. -/
theorem default_spec (d : Val) :
    fDefault .nil d false = d ∧ fDefault (.bool false) d false = d ∧ fDefault .undef d false = d ∧
    fDefault (.str []) d false = d ∧ fDefault (.list []) d false = d ∧ fDefault (.dict []) d false = d := by
  refine ⟨?_, ?_, ?_, ?_, ?_, ?_⟩ <;> simp [fDefault, isFalseOrNone, pyEq, ser, isEmptyVal, serList, serKvs]

/-- … and every other value is returned unchanged: numbers (including 0 and 0.0), `true`, non-empty
strings, lists and dicts; with `allow_false`, `false` too. -/
theorem default_keeps (d : Val) (i n : Int) (k : Nat) (c : Char) (s : Str) (x : Val) (xs : List Val)
    (kv : Str × Val) (kvs : List (Str × Val)) :
    fDefault (.int i) d false = .int i ∧ fDefault (.flt n k) d false = .flt n k ∧
    fDefault (.bool true) d false = .bool true ∧ fDefault (.str (c :: s)) d false = .str (c :: s) ∧
    fDefault (.list (x :: xs)) d false = .list (x :: xs) ∧ fDefault (.dict (kv :: kvs)) d false = .dict (kv :: kvs) ∧
    fDefault (.bool false) d true = .bool false := by
  refine ⟨rfl, rfl, ?_, ?_, ?_, ?_, ?_⟩ <;>
    simp [fDefault, isFalseOrNone, pyEq, ser, isEmptyVal, serList, serKvs]

end LiquidVerif.C25
