import LiquidVerif.Lemmas.Limits
import LiquidVerif.Gen.C08Exceptions
/-!
# C08 — resource limits only abort a render, never alter its output

Property theorems about `LiquidVerif.Model.Limits`, STRICT mode (in LAX/WARN mode a suppressed limit error truncates
the output by design; that is C03's contract and is not claimed here).

`LimLe L L'` says that configuration `L` is at least as tight as `L'` on each of the five limits, where `None` is
"no limit" and — for `local_namespace_limit` and `loop_iteration_limit`, which the code tests with
`if limit and …` — `0` means `None` as well.
-/
set_option linter.unusedSimpArgs false

namespace LiquidVerif.C08
open LiquidVerif.Limits

/-- the configuration without the three optional limits and with any (larger) depth / nesting limits -/
def unlimited (depth nesting : Nat) : Limits := ⟨none, none, none, depth, nesting⟩

theorem le_unlimited (L : Limits) (d n : Nat) (hd : L.depth ≤ d) (hn : L.nesting ≤ n) : LimLe L (unlimited d n) :=
  ⟨by simp [unlimited, OLe], by simp [unlimited, OLe, eff], by simp [unlimited, OLe, eff], hd, hn⟩

/-- **Sentence 1.** For every template, partial pool and data: the render under a tighter configuration `L` is
*identical* to the render under a looser one `L'` (same output, or the very same error), or it fails with a
resource-limit error. -/
theorem limited_identical_or_limit_error (L L' : Limits) (hle : LimLe L L') (P : Prog) (hlax : P.lax = false)
    (nodes : List Node) :
    renderTemplate L P nodes = renderTemplate L' P nodes ∨
      ∃ e w, renderTemplate L P nodes = .error (e, w) ∧ e.isLimit = true := by
  rcases agree_template hle P hlax nodes with h | ⟨e, w, he, ht⟩
  · exact Or.inl h
  · exact Or.inr ⟨e, w, he, ht.isLimit⟩

/-- Sentence 1 with the unlimited render on the right-hand side. -/
theorem limits_only_abort_or_identical (L : Limits) (P : Prog) (hlax : P.lax = false) (nodes : List Node) (d n : Nat)
    (hd : L.depth ≤ d) (hn : L.nesting ≤ n) :
    renderTemplate L P nodes = renderTemplate (unlimited d n) P nodes ∨
      ∃ e w, renderTemplate L P nodes = .error (e, w) ∧ e.isLimit = true :=
  limited_identical_or_limit_error L _ (le_unlimited L d n hd hn) P hlax nodes

/-- the error a tighter configuration adds belongs to a limit on which the two configurations differ -/
theorem added_error_is_of_a_changed_limit (L L' : Limits) (hle : LimLe L L') (P : Prog) (hlax : P.lax = false)
    (nodes : List Node) (e : Err) (w : W)
    (h : renderTemplate L P nodes = .error (e, w)) (hne : renderTemplate L' P nodes ≠ .error (e, w)) : Tight L L' e := by
  rcases agree_template hle P hlax nodes with h' | ⟨e', w', he, ht⟩
  · rw [h] at h'; exact absurd h'.symm hne
  · rw [h] at he; cases he; exact ht

/-- **Sentence 2 (monotonicity), all five limits at once.** A render that succeeds under `L` succeeds with the same
final state — in particular the same output — under every configuration that is at least as loose. -/
theorem limits_monotone (L L' : Limits) (hle : LimLe L L') (P : Prog) (hlax : P.lax = false) (nodes : List Node) (w : W)
    (h : renderTemplate L P nodes = .ok w) : renderTemplate L' P nodes = .ok w := by
  rcases agree_template hle P hlax nodes with h' | ⟨e, w', he, _⟩
  · rw [← h']; exact h
  · rw [h] at he; cases he

/-- the limited render, when it completes, is the unlimited render -/
theorem limits_only_abort (L : Limits) (P : Prog) (hlax : P.lax = false) (nodes : List Node) (w : W) (d n : Nat)
    (hd : L.depth ≤ d) (hn : L.nesting ≤ n) (h : renderTemplate L P nodes = .ok w) :
    renderTemplate (unlimited d n) P nodes = .ok w :=
  limits_monotone L _ (le_unlimited L d n hd hn) P hlax nodes w h

/-- errors that are not resource-limit errors are untouched by the limits -/
theorem other_errors_unchanged (L L' : Limits) (hle : LimLe L L') (P : Prog) (hlax : P.lax = false) (nodes : List Node)
    (e : Err) (w : W) (h : renderTemplate L P nodes = .error (e, w)) (hne : e.isLimit = false) :
    renderTemplate L' P nodes = .error (e, w) := by
  rcases agree_template hle P hlax nodes with h' | ⟨e', w', he, ht⟩
  · rw [← h']; exact h
  · rw [h] at he; cases he; have := ht.isLimit; simp_all

/-! ### Monotonicity limit by limit, in the plain order of the numbers -/

theorem limits_monotone_output (L : Limits) (P : Prog) (hlax : P.lax = false) (nodes : List Node) (l l' : Nat) (w : W) (hll : l ≤ l')
    (h : renderTemplate { L with output := some l } P nodes = .ok w) :
    renderTemplate { L with output := some l' } P nodes = .ok w :=
  limits_monotone { L with output := some l } { L with output := some l' }
    ⟨by simp [OLe, hll], OLe.refl _, OLe.refl _, Nat.le_refl _, Nat.le_refl _⟩ P hlax nodes w h

theorem limits_monotone_depth (L : Limits) (P : Prog) (hlax : P.lax = false) (nodes : List Node) (d d' : Nat) (w : W) (hdd : d ≤ d')
    (h : renderTemplate { L with depth := d } P nodes = .ok w) :
    renderTemplate { L with depth := d' } P nodes = .ok w :=
  limits_monotone { L with depth := d } { L with depth := d' }
    ⟨OLe.refl _, OLe.refl _, OLe.refl _, hdd, Nat.le_refl _⟩ P hlax nodes w h

theorem limits_monotone_nesting (L : Limits) (P : Prog) (hlax : P.lax = false) (nodes : List Node) (n n' : Nat) (w : W) (hnn : n ≤ n')
    (h : renderTemplate { L with nesting := n } P nodes = .ok w) :
    renderTemplate { L with nesting := n' } P nodes = .ok w :=
  limits_monotone { L with nesting := n } { L with nesting := n' }
    ⟨OLe.refl _, OLe.refl _, OLe.refl _, Nat.le_refl _, hnn⟩ P hlax nodes w h

theorem ole_eff {l l' : Nat} (hl : l ≠ 0) (hll : l ≤ l') : OLe (eff (some l)) (eff (some l')) := by
  rcases l with _ | l
  · exact absurd rfl hl
  · rcases l' with _ | l'
    · omega
    · simpa [eff, OLe] using hll

/-- `local_namespace_limit`: monotone from every limit the code treats as one (`l ≠ 0`) -/
theorem limits_monotone_ns_partial (L : Limits) (P : Prog) (hlax : P.lax = false) (nodes : List Node) (l l' : Nat) (w : W)
    (hl : l ≠ 0) (hll : l ≤ l') (h : renderTemplate { L with ns := some l } P nodes = .ok w) :
    renderTemplate { L with ns := some l' } P nodes = .ok w :=
  limits_monotone { L with ns := some l } { L with ns := some l' }
    ⟨OLe.refl _, ole_eff hl hll, OLe.refl _, Nat.le_refl _, Nat.le_refl _⟩ P hlax nodes w h

/-- `loop_iteration_limit`: monotone from every limit the code treats as one (`l ≠ 0`) -/
theorem limits_monotone_loop_partial (L : Limits) (P : Prog) (hlax : P.lax = false) (nodes : List Node) (l l' : Nat) (w : W)
    (hl : l ≠ 0) (hll : l ≤ l') (h : renderTemplate { L with loop := some l } P nodes = .ok w) :
    renderTemplate { L with loop := some l' } P nodes = .ok w :=
  limits_monotone { L with loop := some l } { L with loop := some l' }
    ⟨OLe.refl _, OLe.refl _, ole_eff hl hll, Nat.le_refl _, Nat.le_refl _⟩ P hlax nodes w h

/-- **Monotonicity fails at `local_namespace_limit = 0`**: `{% assign a = 'x' %}` succeeds under 0 (the test
`if limit and …` makes 0 mean "no limit") and fails under the larger value 1. -/
theorem limits_monotone_ns_counterexample :
    ¬ (∀ (L : Limits) (P : Prog) (nodes : List Node) (l l' : Nat) (w : W), P.lax = false → l ≤ l' →
        renderTemplate { L with ns := some l } P nodes = .ok w →
        renderTemplate { L with ns := some l' } P nodes = .ok w) := by
  intro hall
  have := hall ⟨none, none, none, 30, 30⟩ ⟨[], [], pySizeof, pyFilt, false⟩ [.assign "a" (.lit (.sc (.str [120])))] 0 1
    ⟨[("a", .sc (.str [120]))], [], [], ⟨0, []⟩, [42], []⟩ rfl (by omega)
    (by simp [renderTemplate, renderTop, catchR, initW, render, guardE, bindR, assignW, nsOver, eval, setA, sizeOfLocals,
          sumSz, pySizeof, strSize, maxCp, nestList, nestNode])
  simp [renderTemplate, renderTop, catchR, initW, render, guardE, bindR, assignW, nsOver, eval, setA, sizeOfLocals, sumSz,
    pySizeof, strSize, maxCp, nestList, nestNode] at this

/-- **Monotonicity fails at `loop_iteration_limit = 0`**: `{% for v in (1..2) %}x{% endfor %}` succeeds under 0 and
fails under 1. -/
theorem limits_monotone_loop_counterexample :
    ¬ (∀ (L : Limits) (P : Prog) (nodes : List Node) (l l' : Nat) (w : W), P.lax = false → l ≤ l' →
        renderTemplate { L with loop := some l } P nodes = .ok w →
        renderTemplate { L with loop := some l' } P nodes = .ok w) := by
  intro hall
  have := hall ⟨none, none, none, 30, 30⟩ ⟨[], [], pySizeof, pyFilt, false⟩
    [.forn "v" (.lit (.list [.int 1, .int 2])) [.text [120]] []] 0 1
    ⟨[], [], [], ⟨2, [120, 120]⟩, [], []⟩ rfl (by omega)
    (by simp [renderTemplate, renderTop, catchR, initW, renderList, render, renderBlock, iter, cellOpen, cellClose, guardE,
          bindR, loopOver, eval, toIter, nestList, nestNode, blankList, blankNode, blankText, isSpaceCp, writeW, write,
          utf8Len, cpLen])
  simp [renderTemplate, renderTop, catchR, initW, renderList, render, renderBlock, iter, cellOpen, cellClose, guardE, bindR,
    loopOver, reduceMul, eval, toIter, nestList, nestNode, blankList, blankNode, blankText, isSpaceCp, writeW, write,
    utf8Len, cpLen] at this

/-! ### LAX / WARN mode: the property does not hold there (recorded, with what does hold in `Props/C07.lean`)

`Environment.error` drops the `OutputStreamLimitError` of each failing node and the render loop goes on: the output is
silently shortened. -/

/-- **Sentence 1 fails in LAX mode**: `{{ 'ab' }}c` renders `abc` without a limit and the empty string under
`output_stream_limit = 1` — no error, a different output (the failed write of `ab` has already pushed the byte count
past the limit, so `c` does not fit either). -/
theorem lax_limit_alters_output_counterexample :
    ¬ (∀ (L L' : Limits) (P : Prog) (nodes : List Node), LimLe L L' →
        (renderTemplate L P nodes = renderTemplate L' P nodes ∨
          ∃ e w, renderTemplate L P nodes = .error (e, w) ∧ e.isLimit = true)) := by
  intro hall
  have := hall ⟨some 1, none, none, 30, 30⟩ ⟨none, none, none, 30, 30⟩ ⟨[], [], pySizeof, pyFilt, true⟩
    [.output (.lit (.sc (.str [97, 98]))), .text [99]]
    ⟨by simp [OLe], OLe.refl _, OLe.refl _, Nat.le_refl _, Nat.le_refl _⟩
  simp [renderTemplate, renderTop, catchR, initW, render, guardE, bindR, eval, toStr, writeW, write, utf8Len, cpLen,
    nestList, nestNode] at this

/-! ### The limit errors are resource-limit errors (generated class table) -/

/-- every error a limit check of the model raises stands for a class that derives from `ResourceLimitError` in
`liquid/exceptions.py` (and hence from `LiquidError`); the two non-limit errors of the model do not. -/
theorem limit_errors_derive_from_ResourceLimitError :
    ∀ e : Err, derives Gen.C08.excBases 8 e.pyName "ResourceLimitError" = e.isLimit := by
  intro e; cases e <;> decide

theorem all_errors_derive_from_LiquidError :
    ∀ e : Err, derives Gen.C08.excBases 8 e.pyName "LiquidError" = true := by
  intro e; cases e <;> decide

/-- the six places where the source tests a limit raise the classes the model raises, with a strict `>`, and treat 0
as "no limit" exactly where the model does (`nsOver`, `loopOver`) -/
theorem checks_as_modelled :
    Gen.C08.limitChecks.map (fun s => (s.2.2.1, s.2.2.2.1, s.2.2.2.2)) = modelChecks := by decide

theorem every_limit_check_raises_a_ResourceLimitError :
    ∀ s ∈ Gen.C08.limitChecks, derives Gen.C08.excBases 8 s.2.2.1 "ResourceLimitError" = true := by decide

/-- what `modelChecks` says about 0, proved of the model's tests: 0 is falsy for the namespace and loop limits … -/
theorem zero_is_no_limit (c : Cx) (w : W) (n : Nat) : nsOver (some 0) n = false ∧ loopOver (some 0) c w n = false := by
  simp [nsOver, loopOver]

/-- … and a real limit for the output stream (any non-empty write fails) -/
theorem output_zero_is_a_limit (b : Buf) (s : Text) (hs : s ≠ []) :
    write (.real (some 0)) b s = .error ⟨b.size + utf8Len s, b.text⟩ := by
  have : 0 < utf8Len s := by
    cases s with
    | nil => exact absurd rfl hs
    | cons c cs => have := cpLen_pos c; simp only [utf8Len]; omega
  simp only [write, hs, if_false]
  rw [if_pos (by omega)]

/-! ## Non-vacuity -/

/-- a render that completes under `output_stream_limit = 3` (hypothesis of `limits_monotone`) … -/
example : outcome (renderTemplate ⟨some 3, some 100, some 5, 5, 1⟩ ⟨[], [], pySizeof, pyFilt, false⟩
    [.capture "c" [.text [0x20AC]], .output (.var "c")]) = .ok [0x20AC] := by
  simp [outcome, renderTemplate, renderTop, catchR, initW, mapErr, renderList, render, renderBlock, guardE, bindR, assignW, nsOver, eval, evalVar, lookupPushed,
    lookupA, setA, sizeOfLocals, sumSz, nestList, nestNode, blankList, blankNode, blankText, isSpaceCp, subKind, writeW,
    write, utf8Len, cpLen, toStr, pySizeof, strSize, maxCp]

/-- … and the same template is aborted by each of four limits with that limit's own error -/
example : outcome (renderTemplate ⟨some 2, some 100, some 5, 5, 1⟩ ⟨[], [], pySizeof, pyFilt, false⟩
    [.capture "c" [.text [0x20AC]], .output (.var "c")]) = .error .outputLimit := by
  simp [outcome, renderTemplate, renderTop, catchR, initW, mapErr, renderList, render, renderBlock, guardE, bindR, assignW, nsOver, eval, evalVar, lookupPushed,
    lookupA, setA, sizeOfLocals, sumSz, nestList, nestNode, blankList, blankNode, blankText, isSpaceCp, subKind, writeW,
    write, utf8Len, cpLen, toStr, pySizeof, strSize, maxCp]

example : outcome (renderTemplate ⟨some 3, some 59, some 5, 5, 1⟩ ⟨[], [], pySizeof, pyFilt, false⟩
    [.capture "c" [.text [0x20AC]], .output (.var "c")]) = .error .nsLimit := by
  simp [outcome, renderTemplate, renderTop, catchR, initW, mapErr, renderList, render, renderBlock, guardE, bindR, assignW, nsOver, eval, evalVar, lookupPushed,
    lookupA, setA, sizeOfLocals, sumSz, nestList, nestNode, blankList, blankNode, blankText, isSpaceCp, subKind, writeW,
    write, utf8Len, cpLen, toStr, pySizeof, strSize, maxCp]

example : outcome (renderTemplate ⟨some 3, some 100, some 5, 3, 1⟩ ⟨[], [], pySizeof, pyFilt, false⟩
    [.capture "c" [.text [0x20AC]], .output (.var "c")]) = .error .contextDepth := by
  simp [outcome, renderTemplate, guardE, nestList, nestNode]

example : outcome (renderTemplate ⟨some 3, some 100, some 5, 5, 0⟩ ⟨[], [], pySizeof, pyFilt, false⟩
    [.capture "c" [.text [0x20AC]], .output (.var "c")]) = .error .blockNesting := by
  simp [outcome, renderTemplate, guardE, nestList, nestNode]

end LiquidVerif.C08
