import LiquidVerif.Lemmas.PathSafe
/-!
# C22 — template loaders never read outside their search paths

Property theorems about `LiquidVerif.Model.PathSafe` (the model of `FileSystemLoader.resolve_path` / `_read`,
`PackageLoader._resolve_path`, the `pathlib` primitives they call and a finite file system with symbolic
links).  They quantify over **every** template name (any list of code points: separators, `.`/`..`, absolute
prefixes, NUL, control characters, lone surrogates, any length), every `ext` setting, every list of search
directories and every finite file system (any tree of directories, files and links, any working directory, any
link budget).  Helper lemmas live in `Lemmas/PathSafe.lean`.

`CachingFileSystemLoader` inherits `resolve_path`/`get_source` unchanged and the asynchronous methods run the
same two functions in an executor, so the same theorems cover the cached and the asynchronous flavours (the
correspondence streams exercise all of them).
-/
namespace LiquidVerif.C22
open LiquidVerif.PathSafe

/-- the canonical, link-free location a path denotes (the kernel's walk; `none` when `stat` would fail) -/
def canon (fs : FS) (p : PPath) : Option Comps :=
  match walk false fs.root fs.maxLinks (fs.start p) p.parts with
  | .ok (_, q) => some q
  | .error _ => none

/-! ## Sentence 1a — lexical containment: whatever is returned is `search_dir/rel` -/

/-- **FileSystemLoader (cached or not, sync or async): a resolved path is a configured search directory
followed by a non-empty relative part that has no `..`, no `.`, no empty component and no separator inside a
component** — for every name string, including absolute ones, NUL, control characters and any `ext`. The
relative part is the parsed name (only its last component may have had `ext` appended). -/
theorem fsl_resolved_inside (cfg : FSLConfig) (fs : FS) (name : List Ch) (p : PPath)
    (h : fslResolve cfg fs name = .ok p) :
    ∃ base ∈ cfg.search, ∃ rel, rel ≠ [] ∧ Clean rel ∧ p = ⟨base.root, base.parts ++ rel⟩ ∧
      rel.dropLast = (parse name).parts.dropLast := by
  obtain ⟨tp', hroot, _, hne, hclean, hdl, hsearch⟩ := fslResolve_ok h
  obtain ⟨base, hb, hp, _, _⟩ := fslSearch_ok hsearch
  exact ⟨base, hb, tp'.parts, hne, hclean, by rw [hp, join_rel hroot], hdl⟩

/-- **PackageLoader** (as fixed by `fix: PackageLoader rejects absolute template names`): same statement. -/
theorem pkg_resolved_inside (cfg : PkgConfig) (fs : FS) (name : List Ch) (p : PPath)
    (h : pkgResolve cfg fs name = .ok p) :
    ∃ base ∈ cfg.paths, ∃ rel, rel ≠ [] ∧ Clean rel ∧ p = ⟨base.root, base.parts ++ rel⟩ ∧
      rel.dropLast = (parse name).parts.dropLast := by
  obtain ⟨tp', hroot, _, hne, hclean, hdl, hsearch⟩ := pkgResolve_ok h
  obtain ⟨base, hb, hp, _⟩ := pkgSearch_ok hsearch
  exact ⟨base, hb, tp'.parts, hne, hclean, by rw [hp, join_rel hroot], hdl⟩

/-- An absolute name (one, two or more leading slashes) never resolves — `base.joinpath(absolute)` would
discard `base` — whatever the file system contains (both loaders). -/
theorem absolute_never_resolves (name : List Ch) (habs : (parse name).root > 0) :
    (∀ cfg fs p, fslResolve cfg fs name ≠ .ok p) ∧ (∀ cfg fs p, pkgResolve cfg fs name ≠ .ok p) := by
  constructor
  · intro cfg fs p h
    obtain ⟨_, _, h0, _⟩ := fslResolve_ok h
    omega
  · intro cfg fs p h
    obtain ⟨_, _, h0, _⟩ := pkgResolve_ok h
    omega

/-- PackageLoader: an absolute name, a name with a `..` component, and an empty name are answered with
`TemplateNotFoundError` before the file system is consulted. -/
theorem pkg_hostile_not_found (cfg : PkgConfig) (fs : FS) (name : List Ch)
    (hbad : (parse name).root > 0 ∨ dotdot ∈ (parse name).parts ∨ (parse name).parts = []) :
    pkgResolve cfg fs name = .error .notFound := by
  unfold pkgResolve
  simp only
  split
  · rfl
  · rename_i hn
    rcases hbad with hb | hb | hb
    · simp [PPath.isAbsolute, hb]
    · simp [hb]
    · exact absurd hb (parts_ne_nil_of_name hn)

/-! ## Sentence 1b — physical containment -/

/-- **With `reject_symlinks=True` the text returned is the content of a regular file that sits — by plain
descent, no link involved — below the directory which the search path canonically denotes.** Whatever links
the name went through (inside, outside, absolute, chains, links back in), the bytes come from inside. -/
theorem fsl_contents_inside_rejecting (cfg : FSLConfig) (fs : FS) (name : List Ch) (p : PPath) (c : Nat)
    (hrej : cfg.rejectSymlinks = true) (h : fslGetSource cfg fs name = .ok (p, c)) :
    ∃ base ∈ cfg.search, ∃ cb s, canon fs base = some cb ∧ isDir (nodeAt fs.root cb) = true ∧
      nodeAt fs.root (cb ++ s) = some (.file c) ∧ canon fs p = some (cb ++ s) := by
  unfold fslGetSource at h
  split at h
  · cases h
  · rename_i p' hres
    split at h
    · cases h
    · rename_i c' hread
      cases h
      obtain ⟨tp', hroot, _, hne, _, _, hsearch⟩ := fslResolve_ok hres
      obtain ⟨base, hb, hp, _, hrs⟩ := fslSearch_ok hsearch
      obtain ⟨r, b, hr, hbr, hpre⟩ := hrs hrej
      have hk := pyRead_ok hread
      rw [hp, join_rel hroot] at hk hr ⊢
      obtain ⟨f1, m, f, q, hw1, _, hnode, hdir, hw, hr', hb'⟩ := read_factors hne hk
      rw [hr'] at hr; cases hr
      rw [hb'] at hbr; cases hbr
      obtain ⟨s, hs⟩ := isPrefix_append hpre
      refine ⟨base, hb, b, s, by simp [canon, hw1], hdir, hs ▸ hnode, by simp [canon, hw, hs]⟩

/-- **Without the flag, a search directory that contains no symbolic link confines the loader physically:**
the bytes returned are those of the file at `canonical(search_dir)/rel`, `rel` being the clean relative part
of `fsl_resolved_inside`. (With links inside the directory and rejection off, following them is the
documented behaviour; the property only forbids it when rejection is enabled.) -/
theorem fsl_contents_inside_linkfree (cfg : FSLConfig) (fs : FS) (name : List Ch) (p : PPath) (c : Nat)
    (hlf : ∀ base ∈ cfg.search, ∀ cb, canon fs base = some cb → LinkFreeBelow fs.root cb)
    (h : fslGetSource cfg fs name = .ok (p, c)) :
    ∃ base ∈ cfg.search, ∃ cb rel, canon fs base = some cb ∧ rel ≠ [] ∧ Clean rel ∧
      p = ⟨base.root, base.parts ++ rel⟩ ∧ nodeAt fs.root (cb ++ rel) = some (.file c) := by
  unfold fslGetSource at h
  split at h
  · cases h
  · rename_i p' hres
    split at h
    · cases h
    · rename_i c' hread
      cases h
      obtain ⟨tp', hroot, _, hne, hclean, _, hsearch⟩ := fslResolve_ok hres
      obtain ⟨base, hb, hp, _, _⟩ := fslSearch_ok hsearch
      have hk := pyRead_ok hread
      rw [hp, join_rel hroot] at hk ⊢
      obtain ⟨f1, m, f, q, hw1, hw2, hnode, _, _, _, _⟩ := read_factors hne hk
      have hcb : canon fs base = some m := by simp [canon, hw1]
      have := walk_linkfree fs.root m (hlf base hb m hcb) tp'.parts hclean f1 (f, q) hw2
      cases this
      exact ⟨base, hb, m, tp'.parts, hcb, hne, hclean, rfl, hnode⟩

/-- PackageLoader has no rejection option; a link-free package directory confines it physically. -/
theorem pkg_contents_inside_linkfree (cfg : PkgConfig) (fs : FS) (name : List Ch) (p : PPath) (c : Nat)
    (hlf : ∀ base ∈ cfg.paths, ∀ cb, canon fs base = some cb → LinkFreeBelow fs.root cb)
    (h : pkgGetSource cfg fs name = .ok (p, c)) :
    ∃ base ∈ cfg.paths, ∃ cb rel, canon fs base = some cb ∧ rel ≠ [] ∧ Clean rel ∧
      p = ⟨base.root, base.parts ++ rel⟩ ∧ nodeAt fs.root (cb ++ rel) = some (.file c) := by
  unfold pkgGetSource at h
  split at h
  · cases h
  · rename_i p' hres
    split at h
    · cases h
    · rename_i c' hread
      cases h
      obtain ⟨tp', hroot, _, hne, hclean, _, hsearch⟩ := pkgResolve_ok hres
      obtain ⟨base, hb, hp, _⟩ := pkgSearch_ok hsearch
      have hk := pyRead_ok hread
      rw [hp, join_rel hroot] at hk ⊢
      obtain ⟨f1, m, f, q, hw1, hw2, hnode, _, _, _, _⟩ := read_factors hne hk
      have hcb : canon fs base = some m := by simp [canon, hw1]
      have := walk_linkfree fs.root m (hlf base hb m hcb) tp'.parts hclean f1 (f, q) hw2
      cases this
      exact ⟨base, hb, m, tp'.parts, hcb, hne, hclean, rfl, hnode⟩

/-! ## Sentence 2 — the only exception is TemplateNotFoundError -/

/-- the `ext` setting is one `pathlib` accepts (`FileSystemLoader.__init__` raises `ValueError` otherwise) -/
def ExtValid (ext : Option Name) : Prop := ∀ x, ext = some x → suffixOk x = true

/-- **FileSystemLoader.get_source fails with TemplateNotFoundError and nothing else** — for every name: too
long for the file system (ENAMETOOLONG, as fixed), embedded NUL or unencodable code points (`ValueError`
inside `stat`, swallowed by `exists()`), symbolic-link loops (`resolve()` would raise `RuntimeError`, but it is
only reached for paths `stat` accepted), a directory or a dangling link in place of the file, and a read
after a successful resolve cannot fail. -/
theorem fsl_only_not_found (cfg : FSLConfig) (fs : FS) (name : List Ch) (e : Exc) (hext : ExtValid cfg.ext)
    (h : fslGetSource cfg fs name = .error e) : e = .notFound := by
  unfold fslGetSource at h
  split at h
  · rename_i e' hres
    cases h
    unfold fslResolve at hres
    simp only at hres
    split at hres
    · cases hres; rfl
    · rename_i hn
      split at hres
      · rename_i e'' ht; exact (fslTarget_error hext hn ht).elim
      · split at hres
        · cases hres; rfl
        · rename_i hchk
          simp only [not_or, PPath.isAbsolute, decide_eq_true_eq, Nat.not_lt, Nat.le_zero_eq] at hchk
          exact fslSearch_error hchk.2 hres
  · rename_i p hres
    obtain ⟨tp', _, _, _, _, _, hsearch⟩ := fslResolve_ok hres
    obtain ⟨_, _, _, hprobe, _⟩ := fslSearch_ok hsearch
    obtain ⟨c, hc⟩ := fslProbe_true hprobe
    rw [pyRead_of_file hc] at h
    cases h

/-- **PackageLoader.get_source fails with TemplateNotFoundError and nothing else** (as fixed: empty name,
ENAMETOOLONG), for an `ext` that `pathlib` accepts. -/
theorem pkg_only_not_found (cfg : PkgConfig) (fs : FS) (name : List Ch) (e : Exc) (hext : suffixOk cfg.ext = true)
    (h : pkgGetSource cfg fs name = .error e) : e = .notFound := by
  unfold pkgGetSource at h
  split at h
  · rename_i e' hres
    cases h
    unfold pkgResolve at hres
    simp only at hres
    split at hres
    · cases hres; rfl
    · rename_i hn
      split at hres
      · cases hres; rfl
      · split at hres
        · rename_i e'' ht
          split at ht
          · exact (withSuffix_error hext hn ht).elim
          · cases ht
        · exact pkgSearch_error hres
  · rename_i p hres
    obtain ⟨tp', _, _, _, _, _, hsearch⟩ := pkgResolve_ok hres
    obtain ⟨_, _, _, hfile⟩ := pkgSearch_ok hsearch
    obtain ⟨c, hc⟩ := pyIsFile_true hfile
    rw [pyRead_of_file hc] at h
    cases h

/-- **`resolve()` cannot raise where `resolve_path` calls it**: once `exists()`/`is_file()` accepted the
candidate, both `resolve(strict=False)` calls return the kernel's canonical paths (no `RuntimeError` from a
symlink loop, no `ValueError`), so the `is_relative_to` test compares real locations. -/
theorem reject_check_compares_real_paths (fs : FS) (base : PPath) (rel : Comps) (hne : rel ≠ [])
    (h : fslProbe fs ⟨base.root, base.parts ++ rel⟩ = .ok true) :
    ∃ q b, pyResolve fs ⟨base.root, base.parts ++ rel⟩ = .ok q ∧ canon fs ⟨base.root, base.parts ++ rel⟩ = some q ∧
      pyResolve fs base = .ok b ∧ canon fs base = some b := by
  obtain ⟨c, hc⟩ := fslProbe_true h
  obtain ⟨f1, m, f, q, hw1, _, _, _, hw, hr, hb⟩ := read_factors hne hc
  exact ⟨q, m, hr, by simp [canon, hw], hb, by simp [canon, hw1]⟩

end LiquidVerif.C22
