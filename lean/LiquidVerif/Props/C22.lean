import LiquidVerif.Lemmas.PathSafe
/-!
# C22 — template loaders never read outside their search paths

Property theorems about `LiquidVerif.Model.PathSafe` (the model of `FileSystemLoader.resolve_path` / `_read`,
`PackageLoader._resolve_path`, the `pathlib` primitives they call and a finite file system with symbolic
links).  They quantify over **every** template name (any list of code points: separators, `.`/`..`, absolute
prefixes, NUL, control characters, lone surrogates, any length), every `ext` setting, every list of search
directories and every finite file system (any tree of directories, files and links, any working directory, any
link budget).  Helper lemmas live in `Lemmas/PathSafe.lean`.

`CachingFileSystemLoader` inherits `resolve_path`/`get_source` unchanged and the asynchronous methods run the
same two functions in an executor, so the same theorems cover the cached and the asynchronous flavours (the
correspondence streams exercise all of them).
-/
namespace LiquidVerif.C22
open LiquidVerif.PathSafe

/-- the canonical, link-free location a path denotes (the kernel's walk; `none` when `stat` would fail) -/
def canon (fs : FS) (p : PPath) : Option Comps :=
  match walk false fs.root fs.maxLinks (fs.start p) p.parts with
  | .ok (_, q) => some q
  | .error _ => none

/-! ## Sentence 1a — lexical containment: whatever is returned is `search_dir/rel` -/

/-- **FileSystemLoader (cached or not, sync or async): a resolved path is a configured search directory
followed by a non-empty relative part that has no `..`, no `.`, no empty component and no separator inside a
component** — for every name string, including absolute ones, NUL, control characters and any `ext`. The
relative part is the parsed name, with `ext` appended to its last component when that had no suffix. -/
theorem fsl_resolved_inside (cfg : FSLConfig) (fs : FS) (name : List Ch) (p : PPath)
    (h : fslResolve cfg fs name = .ok p) :
    ∃ base ∈ cfg.search, ∃ rel, rel ≠ [] ∧ Clean rel ∧ p = ⟨base.root, base.parts ++ rel⟩ ∧
      rel.dropLast = (parse name).parts.dropLast := by
  unfold fslResolve at h
  simp only at h
  split at h
  · cases h
  · rename_i hn
    split at h
    · cases h
    · rename_i tp' ht
      split at h
      · cases h
      · rename_i hchk
        simp only [not_or, PPath.isAbsolute, decide_eq_true_eq, Nat.not_lt, Nat.le_zero_eq] at hchk
        obtain ⟨hr, hne, hdl, hpl⟩ := fslTarget_ok ht hn (parse_parts_plain name)
        obtain ⟨base, hb, hp, _, _⟩ := fslSearch_ok h
        exact ⟨base, hb, tp'.parts, hne, clean_of_plain hpl hchk.1, by rw [hp, join_rel hchk.2], hdl⟩

/-- **PackageLoader** (after `fix: PackageLoader rejects absolute template names`): same statement. -/
theorem pkg_resolved_inside (cfg : PkgConfig) (fs : FS) (name : List Ch) (p : PPath)
    (h : pkgResolve cfg fs name = .ok p) :
    ∃ base ∈ cfg.paths, ∃ rel, rel ≠ [] ∧ Clean rel ∧ p = ⟨base.root, base.parts ++ rel⟩ ∧
      rel.dropLast = (parse name).parts.dropLast := by
  unfold pkgResolve at h
  simp only at h
  split at h
  · cases h
  · rename_i hn
    split at h
    · cases h
    · rename_i hchk
      simp only [not_or, PPath.isAbsolute, decide_eq_true_eq, Nat.not_lt, Nat.le_zero_eq] at hchk
      split at h
      · cases h
      · rename_i tp' ht
        obtain ⟨base, hb, hp, _⟩ := pkgSearch_ok h
        split at ht
        · rename_i hs
          obtain ⟨hr, hne, hdl, hpl⟩ := withSuffix_parts_plain hs ht (Or.inr trivial) (parse_parts_plain name)
          have hdd : dotdot ∉ tp'.parts := by
            obtain ⟨_, hnn, _, hparts⟩ := withSuffix_ok hs ht
            rw [hparts]
            simp only [List.mem_append, List.mem_cons, List.not_mem_nil, or_false, not_or]
            refine ⟨fun hm => hchk.1 ((List.dropLast_sublist _).subset hm), ?_⟩
            intro e
            -- `name ++ ext = ".."` would need a suffix-less name "." or ".." — both excluded
            have hmem := name_mem_parts hnn
            have hpn := parse_parts_plain name _ hmem
            cases hnm : (parse name).name with
            | nil => exact hnn hnm
            | cons a as =>
              rw [hnm] at e
              cases as with
              | nil =>
                simp only [dotdot, List.cons_append, List.nil_append, List.cons.injEq] at e
                exact hpn.2.1 (by rw [hnm, ← e.1]; rfl)
              | cons b bs =>
                simp only [dotdot, List.cons_append, List.cons.injEq] at e
                have hbs : bs = [] := by
                  have := e.2.2; cases bs with
                  | nil => rfl
                  | cons _ _ => simp at this
                exact hchk.1 (by rw [hbs, ← e.1, ← e.2.1] at hnm; rw [← hnm] at hmem; exact hmem)
          exact ⟨base, hb, tp'.parts, hne, clean_of_plain hpl hdd, by rw [hp, join_rel (hr.trans hchk.2)], hdl⟩
        · cases ht
          exact ⟨base, hb, (parse name).parts, parts_ne_nil_of_name hn,
            clean_of_plain (parse_parts_plain name) hchk.1, by rw [hp, join_rel hchk.2], rfl⟩

/-! ## Sentence 1b — physical containment -/

/-- **With `reject_symlinks=True` the text returned is the content of a regular file that sits — by plain
descent, no link involved — below the directory which the search path canonically denotes.** Whatever links
the name went through (inside, outside, absolute, chains, links back in), the bytes come from inside. -/
theorem fsl_contents_inside_rejecting (cfg : FSLConfig) (fs : FS) (name : List Ch) (p : PPath) (c : Nat)
    (hrej : cfg.rejectSymlinks = true) (h : fslGetSource cfg fs name = .ok (p, c)) :
    ∃ base ∈ cfg.search, ∃ cb s, canon fs base = some cb ∧ isDir (nodeAt fs.root cb) = true ∧
      nodeAt fs.root (cb ++ s) = some (.file c) ∧ canon fs p = some (cb ++ s) := by
  unfold fslGetSource at h
  split at h
  · cases h
  · rename_i p' hres
    split at h
    · cases h
    · rename_i c' hread
      cases h
      obtain ⟨base, hb, rel, hne, _, hp, _⟩ := fsl_resolved_inside cfg fs name p hres
      -- unfold the search to get the two `resolve()` results and the prefix test
      unfold fslResolve at hres
      simp only at hres
      split at hres
      · cases hres
      · split at hres
        · cases hres
        · split at hres
          · cases hres
          · rename_i tp' _ hchk
            simp only [not_or, PPath.isAbsolute, decide_eq_true_eq, Nat.not_lt, Nat.le_zero_eq] at hchk
            obtain ⟨base', hb', hp', _, hrs⟩ := fslSearch_ok hres
            obtain ⟨r, b, hr, hbr, hpre⟩ := hrs hrej
            have hk := pyRead_ok hread
            rw [hp', join_rel hchk.2] at hk hr
            obtain ⟨f1, m, f, q, hw1, hw2, hnode, hr', hb''⟩ := stat_factors hk
            have hbase : (⟨base'.root, base'.parts⟩ : PPath) = base' := rfl
            rw [hbase] at hb'' hw1
            rw [hr'] at hr; cases hr
            rw [hb''] at hbr; cases hbr
            obtain ⟨s, hs⟩ := isPrefix_append hpre
            have hdir : isDir (nodeAt fs.root b) = true := by
              cases hparts : tp'.parts with
              | nil =>
                -- the relative part is never empty
                obtain ⟨_, _, rel, hne, _, hpe, _⟩ := fsl_resolved_inside cfg fs name _ (by
                  show fslResolve cfg fs name = .ok (join base' tp')
                  rw [← hp']
                  exact by
                    unfold fslResolve; simp only
                    rename_i hn _ ht _
                    simp only [hn, if_false, ht]
                    simp only [PPath.isAbsolute, hchk.1, hchk.2, Nat.lt_irrefl, decide_false, or_self, if_false,
                      Bool.false_eq_true]
                    exact hres)
                exfalso
                rename_i hn _ ht _
                exact (fslTarget_ok ht hn (parse_parts_plain name)).2.1 hparts
              | cons c0 rest => rw [hparts] at hw2; exact walk_strict_isDir _ _ _ _ _ _ hw2
            refine ⟨base', hb', b, s, ?_, hdir, by rw [← hs]; exact hnode, ?_⟩
            · simp [canon, hw1]
            · have hw : walk false fs.root fs.maxLinks (fs.start ⟨base'.root, base'.parts ++ tp'.parts⟩)
                  (base'.parts ++ tp'.parts) = .ok (f, r) := by
                have hs0 : fs.start ⟨base'.root, base'.parts ++ tp'.parts⟩ = fs.start base' := rfl
                rw [hs0, walk_append, hw1]; exact hw2
              rw [hp', join_rel hchk.2]
              simp [canon, hw, hs]

end LiquidVerif.C22
