import LiquidVerif.Model.PathSafe
/-!
# C22 — template loaders never read outside their search paths
-/
namespace LiquidVerif.C22
open LiquidVerif.PathSafe

theorem splitSlash_no_slash (s : List Ch) : ∀ w ∈ splitSlash s, SLASH ∉ w := by
  induction s with
  | nil => simp [splitSlash]
  | cons c cs ih =>
    unfold splitSlash
    split
    · intro w hw
      simp only [List.mem_cons] at hw
      rcases hw with rfl | hw
      · simp
      · exact ih w hw
    · rename_i hc
      split
      · intro w hw
        simp only [List.mem_cons, List.not_mem_nil, or_false] at hw
        subst hw
        simp only [List.mem_cons, List.not_mem_nil, or_false]
        exact fun e => hc e.symm
      · rename_i w ws heq
        intro v hv
        simp only [List.mem_cons] at hv
        rw [heq] at ih
        rcases hv with rfl | hv
        · have := ih w (by simp)
          simp only [List.mem_cons, not_or]
          exact ⟨fun e => hc e.symm, this⟩
        · exact ih v (by simp [hv])

end LiquidVerif.C22
