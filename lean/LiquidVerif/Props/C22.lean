import LiquidVerif.Lemmas.PathSafe
/-!
# C22 — template loaders never read outside their search paths

Property theorems about `LiquidVerif.Model.PathSafe` (the model of `FileSystemLoader.resolve_path` / `_read`,
`PackageLoader._resolve_path`, the `pathlib` primitives they call and a finite file system with symbolic
links).  They quantify over **every** template name (any list of code points: separators, `.`/`..`, absolute
prefixes, NUL, control characters, lone surrogates, any length), every `ext` setting, every list of search
directories and every finite file system (any tree of directories, files and links, any working directory, any
link budget).  Helper lemmas live in `Lemmas/PathSafe.lean`.

`CachingFileSystemLoader` inherits `resolve_path`/`get_source` unchanged and the asynchronous methods run the
same two functions in an executor, so the same theorems cover the cached and the asynchronous flavours (the
correspondence streams exercise all of them).
-/
namespace LiquidVerif.C22
open LiquidVerif.PathSafe

/-- the canonical, link-free location a path denotes (the kernel's walk; `none` when `stat` would fail) -/
def canon (fs : FS) (p : PPath) : Option Comps :=
  match walk false fs.root fs.maxLinks (fs.start p) p.parts with
  | .ok (_, q) => some q
  | .error _ => none

/-! ## Sentence 1a — lexical containment: whatever is returned is `search_dir/rel` -/

/-- **FileSystemLoader (cached or not, sync or async): a resolved path is a configured search directory
followed by a non-empty relative part that has no `..`, no `.`, no empty component and no separator inside a
component** — for every name string, including absolute ones, NUL, control characters and any `ext`. The
relative part is the parsed name (only its last component may have had `ext` appended). -/
theorem fsl_resolved_inside (cfg : FSLConfig) (fs : FS) (name : List Ch) (p : PPath)
    (h : fslResolve cfg fs name = .ok p) :
    ∃ base ∈ cfg.search, ∃ rel, rel ≠ [] ∧ Clean rel ∧ p = ⟨base.root, base.parts ++ rel⟩ ∧
      rel.dropLast = (parse name).parts.dropLast := by
  obtain ⟨tp', hroot, _, hne, hclean, hdl, hsearch⟩ := fslResolve_ok h
  obtain ⟨base, hb, hp, _, _⟩ := fslSearch_ok hsearch
  exact ⟨base, hb, tp'.parts, hne, hclean, by rw [hp, join_rel hroot], hdl⟩

/-- **PackageLoader** (as fixed by `fix: PackageLoader rejects absolute template names`): same statement. -/
theorem pkg_resolved_inside (cfg : PkgConfig) (fs : FS) (name : List Ch) (p : PPath)
    (h : pkgResolve cfg fs name = .ok p) :
    ∃ base ∈ cfg.paths, ∃ rel, rel ≠ [] ∧ Clean rel ∧ p = ⟨base.root, base.parts ++ rel⟩ ∧
      rel.dropLast = (parse name).parts.dropLast := by
  obtain ⟨tp', hroot, _, hne, hclean, hdl, hsearch⟩ := pkgResolve_ok h
  obtain ⟨base, hb, hp, _⟩ := pkgSearch_ok (wf_of_clean hroot hclean) hsearch
  exact ⟨base, hb, tp'.parts, hne, hclean, by rw [hp, join_rel hroot], hdl⟩

/-- An absolute name (one, two or more leading slashes) never resolves — `base.joinpath(absolute)` would
discard `base` — whatever the file system contains (both loaders). -/
theorem absolute_never_resolves (name : List Ch) (habs : (parse name).root > 0) :
    (∀ cfg fs p, fslResolve cfg fs name ≠ .ok p) ∧ (∀ cfg fs p, pkgResolve cfg fs name ≠ .ok p) := by
  constructor
  · intro cfg fs p h
    obtain ⟨_, _, h0, _⟩ := fslResolve_ok h
    omega
  · intro cfg fs p h
    obtain ⟨_, _, h0, _⟩ := pkgResolve_ok h
    omega

/-- PackageLoader: an absolute name, a name with a `..` component, and an empty name are answered with
`TemplateNotFoundError` before the file system is consulted. -/
theorem pkg_hostile_not_found (cfg : PkgConfig) (fs : FS) (name : List Ch)
    (hbad : (parse name).root > 0 ∨ dotdot ∈ (parse name).parts ∨ (parse name).parts = []) :
    pkgResolve cfg fs name = .error .notFound := by
  unfold pkgResolve
  simp only
  split
  · rfl
  · rename_i hn
    rcases hbad with hb | hb | hb
    · simp [PPath.isAbsolute, hb]
    · simp [hb]
    · exact absurd hb (parts_ne_nil_of_name hn)

/-! ## Sentence 1b — physical containment -/

/-- **With `reject_symlinks=True` the text returned is the content of a regular file that sits — by plain
descent, no link involved — below the directory which the search path canonically denotes.** Whatever links
the name went through (inside, outside, absolute, chains, links back in), the bytes come from inside. -/
theorem fsl_contents_inside_rejecting (cfg : FSLConfig) (fs : FS) (name : List Ch) (p : PPath) (c : Nat)
    (hrej : cfg.rejectSymlinks = true) (h : fslGetSource cfg fs name = .ok (p, c)) :
    ∃ base ∈ cfg.search, ∃ cb s, canon fs base = some cb ∧ isDir (nodeAt fs.root cb) = true ∧
      nodeAt fs.root (cb ++ s) = some (.file c) ∧ canon fs p = some (cb ++ s) := by
  unfold fslGetSource at h
  split at h
  · cases h
  · rename_i p' hres
    split at h
    · cases h
    · rename_i c' hread
      cases h
      obtain ⟨tp', hroot, _, hne, _, _, hsearch⟩ := fslResolve_ok hres
      obtain ⟨base, hb, hp, _, hrs⟩ := fslSearch_ok hsearch
      obtain ⟨r, b, hr, hbr, hpre⟩ := hrs hrej
      have hk := pyRead_ok hread
      rw [hp, join_rel hroot] at hk hr ⊢
      obtain ⟨f1, m, f, q, hw1, _, hnode, hdir, hw, hr', hb'⟩ := read_factors hne hk
      rw [hr'] at hr; cases hr
      rw [hb'] at hbr; cases hbr
      obtain ⟨s, hs⟩ := isPrefix_append hpre
      refine ⟨base, hb, b, s, by simp [canon, hw1], hdir, hs ▸ hnode, by simp [canon, hw, hs]⟩

/-- **Without the flag, a search directory that contains no symbolic link confines the loader physically:**
the bytes returned are those of the file at `canonical(search_dir)/rel`, `rel` being the clean relative part
of `fsl_resolved_inside`. (With links inside the directory and rejection off, following them is the
documented behaviour; the property only forbids it when rejection is enabled.) -/
theorem fsl_contents_inside_linkfree (cfg : FSLConfig) (fs : FS) (name : List Ch) (p : PPath) (c : Nat)
    (hlf : ∀ base ∈ cfg.search, ∀ cb, canon fs base = some cb → LinkFreeBelow fs.root cb)
    (h : fslGetSource cfg fs name = .ok (p, c)) :
    ∃ base ∈ cfg.search, ∃ cb rel, canon fs base = some cb ∧ rel ≠ [] ∧ Clean rel ∧
      p = ⟨base.root, base.parts ++ rel⟩ ∧ nodeAt fs.root (cb ++ rel) = some (.file c) := by
  unfold fslGetSource at h
  split at h
  · cases h
  · rename_i p' hres
    split at h
    · cases h
    · rename_i c' hread
      cases h
      obtain ⟨tp', hroot, _, hne, hclean, _, hsearch⟩ := fslResolve_ok hres
      obtain ⟨base, hb, hp, _, _⟩ := fslSearch_ok hsearch
      have hk := pyRead_ok hread
      rw [hp, join_rel hroot] at hk ⊢
      obtain ⟨f1, m, f, q, hw1, hw2, hnode, _, _, _, _⟩ := read_factors hne hk
      have hcb : canon fs base = some m := by simp [canon, hw1]
      have := walk_linkfree fs.root m (hlf base hb m hcb) tp'.parts hclean f1 (f, q) hw2
      cases this
      exact ⟨base, hb, m, tp'.parts, hcb, hne, hclean, rfl, hnode⟩

/-- PackageLoader has no rejection option; a link-free package directory confines it physically. -/
theorem pkg_contents_inside_linkfree (cfg : PkgConfig) (fs : FS) (name : List Ch) (p : PPath) (c : Nat)
    (hlf : ∀ base ∈ cfg.paths, ∀ cb, canon fs base = some cb → LinkFreeBelow fs.root cb)
    (h : pkgGetSource cfg fs name = .ok (p, c)) :
    ∃ base ∈ cfg.paths, ∃ cb rel, canon fs base = some cb ∧ rel ≠ [] ∧ Clean rel ∧
      p = ⟨base.root, base.parts ++ rel⟩ ∧ nodeAt fs.root (cb ++ rel) = some (.file c) := by
  unfold pkgGetSource at h
  split at h
  · cases h
  · rename_i p' hres
    split at h
    · cases h
    · rename_i c' hread
      cases h
      obtain ⟨tp', hroot, _, hne, hclean, _, hsearch⟩ := pkgResolve_ok hres
      obtain ⟨base, hb, hp, _⟩ := pkgSearch_ok (wf_of_clean hroot hclean) hsearch
      have hk := pyRead_ok hread
      rw [hp, join_rel hroot] at hk ⊢
      obtain ⟨f1, m, f, q, hw1, hw2, hnode, _, _, _, _⟩ := read_factors hne hk
      have hcb : canon fs base = some m := by simp [canon, hw1]
      have := walk_linkfree fs.root m (hlf base hb m hcb) tp'.parts hclean f1 (f, q) hw2
      cases this
      exact ⟨base, hb, m, tp'.parts, hcb, hne, hclean, rfl, hnode⟩

/-! ## Sentence 2 — the only exception is TemplateNotFoundError -/

/-- the `ext` setting is one `pathlib` accepts (`FileSystemLoader.__init__` raises `ValueError` otherwise) -/
def ExtValid (ext : Option Name) : Prop := ∀ x, ext = some x → suffixOk x = true

/-- a loader that could be constructed has a valid `ext` (both constructors run `Path("x").with_suffix(ext)`) -/
theorem init_validates_ext (ext : Option Name) (h : loaderInit ext = .ok ()) : ExtValid ext := by
  intro x hx
  subst hx
  cases x with
  | nil => decide
  | cons c cs =>
    simp only [loaderInit] at h
    split at h
    · rename_i q hq
      cases hok : suffixOk (c :: cs) with
      | true => rfl
      | false => simp [withSuffix, hok] at hq
    · cases h

/-- **FileSystemLoader.get_source fails with TemplateNotFoundError and nothing else** — for every name: too
long for the file system (ENAMETOOLONG, as fixed), embedded NUL or unencodable code points (`ValueError`
inside `stat`, swallowed by `exists()`), symbolic-link loops (`resolve()` would raise `RuntimeError`, but it is
only reached for paths `stat` accepted), a directory or a dangling link in place of the file, and a read
after a successful resolve cannot fail. -/
theorem fsl_only_not_found (cfg : FSLConfig) (fs : FS) (name : List Ch) (e : Exc) (hext : ExtValid cfg.ext)
    (h : fslGetSource cfg fs name = .error e) : e = .notFound := by
  unfold fslGetSource at h
  split at h
  · rename_i e' hres
    cases h
    unfold fslResolve at hres
    simp only at hres
    split at hres
    · cases hres; rfl
    · rename_i hn
      split at hres
      · rename_i e'' ht; exact (fslTarget_error hext hn ht).elim
      · split at hres
        · cases hres; rfl
        · rename_i hchk
          simp only [not_or, PPath.isAbsolute, decide_eq_true_eq, Nat.not_lt, Nat.le_zero_eq] at hchk
          exact fslSearch_error hchk.2 hres
  · rename_i p hres
    obtain ⟨tp', _, _, _, _, _, hsearch⟩ := fslResolve_ok hres
    obtain ⟨_, _, _, hprobe, _⟩ := fslSearch_ok hsearch
    obtain ⟨c, hc⟩ := fslProbe_true hprobe
    rw [pyRead_of_file hc] at h
    cases h

/-- **PackageLoader.get_source fails with TemplateNotFoundError and nothing else** (as fixed: empty name,
ENAMETOOLONG), for an `ext` that `pathlib` accepts. -/
theorem pkg_only_not_found (cfg : PkgConfig) (fs : FS) (name : List Ch) (e : Exc) (hext : suffixOk cfg.ext = true)
    (h : pkgGetSource cfg fs name = .error e) : e = .notFound := by
  unfold pkgGetSource at h
  split at h
  · rename_i e' hres
    cases h
    unfold pkgResolve at hres
    simp only at hres
    split at hres
    · cases hres; rfl
    · rename_i hn
      split at hres
      · cases hres; rfl
      · split at hres
        · rename_i e'' ht
          split at ht
          · exact (withSuffix_error hext hn ht).elim
          · cases ht
        · exact pkgSearch_error hres
  · rename_i p hres
    obtain ⟨tp', hroot, _, _, hclean, _, hsearch⟩ := pkgResolve_ok hres
    obtain ⟨_, _, _, hfile⟩ := pkgSearch_ok (wf_of_clean hroot hclean) hsearch
    obtain ⟨c, hc⟩ := pyIsFile_true hfile
    rw [pyRead_of_file hc] at h
    cases h

/-- **`resolve()` cannot raise where `resolve_path` calls it**: once `exists()`/`is_file()` accepted the
candidate, both `resolve(strict=False)` calls return the kernel's canonical paths (no `RuntimeError` from a
symlink loop, no `ValueError`), so the `is_relative_to` test compares real locations. -/
theorem reject_check_compares_real_paths (fs : FS) (base : PPath) (rel : Comps) (hne : rel ≠ [])
    (h : fslProbe fs ⟨base.root, base.parts ++ rel⟩ = .ok true) :
    ∃ q b, pyResolve fs ⟨base.root, base.parts ++ rel⟩ = .ok q ∧ canon fs ⟨base.root, base.parts ++ rel⟩ = some q ∧
      pyResolve fs base = .ok b ∧ canon fs base = some b := by
  obtain ⟨c, hc⟩ := fslProbe_true h
  obtain ⟨f1, m, f, q, hw1, _, _, _, hw, hr, hb⟩ := read_factors hne hc
  exact ⟨q, m, hr, by simp [canon, hw], hb, by simp [canon, hw1]⟩

/-! ## Deepening round: the name is used verbatim, ordinary names do load, strings end to end -/

/-- **`FileSystemLoader` never transforms the name other than by `pathlib` parsing**: the path it returns is a
search directory followed by exactly the components `Path(name)` has — no case folding, no unicode
normalisation, no decoding — except that `ext` is appended to the last component when that has no suffix. -/
theorem name_used_verbatim (cfg : FSLConfig) (fs : FS) (name : List Ch) (p : PPath)
    (h : fslResolve cfg fs name = .ok p) :
    ∃ base ∈ cfg.search,
      p = ⟨base.root, base.parts ++ (parse name).parts⟩ ∨
      ∃ e, cfg.ext = some e ∧ e ≠ [] ∧ suffixOf (parse name).name = [] ∧
        p = ⟨base.root, base.parts ++ ((parse name).parts.dropLast ++ [(parse name).name ++ e])⟩ := by
  obtain ⟨tp', ht, hroot, hsearch⟩ := fslResolve_target h
  obtain ⟨base, hb, hp, _, _⟩ := fslSearch_ok hsearch
  refine ⟨base, hb, ?_⟩
  rw [hp, join_rel hroot]
  rcases fslTarget_parts ht with rfl | ⟨e, he, hen, hs, _, hparts⟩
  · exact Or.inl rfl
  · exact Or.inr ⟨e, he, hen, hs, by rw [hparts]⟩

/-- **`PackageLoader` uses the name verbatim too** (the trip through `str(template_path)` changes nothing:
`parse_strOf`). This is the statement the seeded change C22-2 (NFKC normalisation after the `..` test) breaks. -/
theorem pkg_name_used_verbatim (cfg : PkgConfig) (fs : FS) (name : List Ch) (p : PPath)
    (h : pkgResolve cfg fs name = .ok p) :
    ∃ base ∈ cfg.paths,
      p = ⟨base.root, base.parts ++ (parse name).parts⟩ ∨
      (suffixOf (parse name).name = [] ∧
        p = ⟨base.root, base.parts ++ ((parse name).parts.dropLast ++ [(parse name).name ++ cfg.ext])⟩) := by
  obtain ⟨tp', ht, hroot, hclean, hsearch⟩ := pkgResolve_target h
  obtain ⟨base, hb, hp, _⟩ := pkgSearch_ok (wf_of_clean hroot hclean) hsearch
  refine ⟨base, hb, ?_⟩
  rw [hp, join_rel hroot]
  rcases pkgTarget_parts ht with rfl | ⟨hs, _, hparts⟩
  · exact Or.inl rfl
  · exact Or.inr ⟨hs, by rw [hparts]⟩

/-- **Strings end to end**: `Path(str(p)) == p` for every path `Path(...)` can produce, so the string a loader
hands back (`TemplateSource.name`, `template.path`) denotes exactly the `search_dir/rel` of
`fsl_resolved_inside`, and PackageLoader's `joinpath(str(template_path))` joins what was validated. -/
theorem str_round_trip (s : List Ch) : parse (strOf (parse s)) = parse s := parse_strOf _ (parse_wf s)

theorem returned_name_parses_inside (cfg : FSLConfig) (fs : FS) (name : List Ch) (p : PPath)
    (hsearch : ∀ b ∈ cfg.search, WF b) (h : fslResolve cfg fs name = .ok p) :
    ∃ base ∈ cfg.search, ∃ rel, rel ≠ [] ∧ Clean rel ∧ parse (strOf p) = ⟨base.root, base.parts ++ rel⟩ := by
  obtain ⟨base, hb, rel, hne, hclean, hp, _⟩ := fsl_resolved_inside cfg fs name p h
  refine ⟨base, hb, rel, hne, hclean, ?_⟩
  rw [hp]
  apply parse_strOf
  refine ⟨(hsearch base hb).1, ?_⟩
  intro c hc
  simp only [List.mem_append] at hc
  rcases hc with hc | hc
  · exact (hsearch base hb).2 c hc
  · exact ⟨(hclean c hc).1, (hclean c hc).2.1, (hclean c hc).2.2.2⟩

/-- **Completeness — an ordinary name does load.** A relative name without `..` whose target (`Path(name)`,
plus `ext` when it has no suffix) is a regular file reached by plain descent from the directory a search path
canonically denotes, with encodable components of at most 255 bytes and a path shorter than PATH_MAX, is
returned with exactly that file's contents, from the first search directory that has it — with or without
`reject_symlinks`. (So the containment theorems are not satisfied by a loader that finds nothing.) -/
theorem ordinary_names_load (cfg : FSLConfig) (fs : FS) (name : List Ch) (tp' : PPath)
    (pre post : List PPath) (base : PPath) (cb : Comps) (c : Nat)
    (hroot : (parse name).root = 0) (hdd : dotdot ∉ (parse name).parts) (hne : (parse name).parts ≠ [])
    (ht : fslTarget cfg.ext (parse name) = .ok tp')
    (hsearch : cfg.search = pre ++ base :: post)
    (hpre : ∀ b ∈ pre, ∀ c', kstat fs (join b tp') ≠ .ok (.file c'))
    (hcb : canon fs base = some cb)
    (hfile : nodeAt fs.root (cb ++ tp'.parts) = some (.file c))
    (hbytes : ∀ x ∈ tp'.parts, nameBytes x ≤ NAME_MAX)
    (hbad : hasBadChar ⟨base.root, base.parts ++ tp'.parts⟩ = false)
    (hlen : strBytes ⟨base.root, base.parts ++ tp'.parts⟩ < PATH_MAX) :
    fslGetSource cfg fs name = .ok (⟨base.root, base.parts ++ tp'.parts⟩, c) := by
  have hn := parse_name_ne_nil hne
  obtain ⟨hr, hne', _, hpl⟩ := fslTarget_ok ht hn (parse_parts_plain name)
  have hroot' : tp'.root = 0 := hr.trans hroot
  have hdd' : dotdot ∉ tp'.parts := by
    have ht2 := ht
    unfold fslTarget at ht2
    split at ht2
    · split at ht2
      · rename_i hs; exact no_dotdot_after_suffix hs ht2 (parse_parts_plain name) hdd
      · cases ht2; exact hdd
    · cases ht2; exact hdd
  have hclean := clean_of_plain hpl hdd'
  obtain ⟨f1, hw⟩ := canon_walk hcb
  have hk := stat_of_descend hw hclean hbytes hfile hbad hlen
  have hres : fslResolve cfg fs name = .ok ⟨base.root, base.parts ++ tp'.parts⟩ := by
    unfold fslResolve
    simp only [hn, if_false, ht, PPath.isAbsolute, hdd', hroot', Nat.lt_irrefl, decide_false, or_self,
      Bool.false_eq_true, hsearch]
    exact fslSearch_hit hroot' hpre hw hclean hne' hbytes hfile hbad hlen
  simp [fslGetSource, hres, pyRead_of_file hk]

/-- the same for `PackageLoader` -/
theorem pkg_ordinary_names_load (cfg : PkgConfig) (fs : FS) (name : List Ch) (tp' : PPath)
    (pre post : List PPath) (base : PPath) (cb : Comps) (c : Nat)
    (hroot : (parse name).root = 0) (hdd : dotdot ∉ (parse name).parts) (hne : (parse name).parts ≠ [])
    (ht : pkgTarget cfg.ext (parse name) = .ok tp')
    (hsearch : cfg.paths = pre ++ base :: post)
    (hpre : ∀ b ∈ pre, ∀ c', kstat fs (join b tp') ≠ .ok (.file c'))
    (hcb : canon fs base = some cb)
    (hfile : nodeAt fs.root (cb ++ tp'.parts) = some (.file c))
    (hbytes : ∀ x ∈ tp'.parts, nameBytes x ≤ NAME_MAX)
    (hbad : hasBadChar ⟨base.root, base.parts ++ tp'.parts⟩ = false)
    (hlen : strBytes ⟨base.root, base.parts ++ tp'.parts⟩ < PATH_MAX) :
    pkgGetSource cfg fs name = .ok (⟨base.root, base.parts ++ tp'.parts⟩, c) := by
  have hn := parse_name_ne_nil hne
  have hroot' : tp'.root = 0 := by
    rcases pkgTarget_parts ht with rfl | ⟨_, hr, _⟩
    · exact hroot
    · exact hr.trans hroot
  have hclean : Clean tp'.parts := by
    have ht2 := ht
    unfold pkgTarget at ht2
    split at ht2
    · rename_i hs
      obtain ⟨_, _, _, hpl⟩ := withSuffix_parts_plain hs ht2 (Or.inr trivial) (parse_parts_plain name)
      exact clean_of_plain hpl (no_dotdot_after_suffix hs ht2 (parse_parts_plain name) hdd)
    · cases ht2; exact clean_of_plain (parse_parts_plain name) hdd
  obtain ⟨f1, hw⟩ := canon_walk hcb
  have hk := stat_of_descend hw hclean hbytes hfile hbad hlen
  have hres : pkgResolve cfg fs name = .ok ⟨base.root, base.parts ++ tp'.parts⟩ := by
    unfold pkgResolve
    unfold pkgTarget at ht
    simp only [hn, if_false, PPath.isAbsolute, hdd, hroot, Nat.lt_irrefl, decide_false, or_self,
      Bool.false_eq_true, ht, hsearch]
    exact pkgSearch_hit hroot' hpre hw hclean hbytes hfile hbad hlen
  simp [pkgGetSource, hres, pyRead_of_file hk]

/-! ## Deepening round: the caching loader -/

/-- along a history of requests (the file system may change arbitrarily between them): every answer is an
answer `get_source` gives for **this very name** on the file system of this or of an earlier request -/
def AnswersArePast (cfg : FSLConfig) : List (FS × List Ch) → List (FS × (Comps → Nat) × List Ch) →
    List (Except Exc (PPath × Nat)) → Prop
  | H, (fs, _, name) :: hs, r :: rs =>
    (∀ p c, r = .ok (p, c) → ∃ fs', (fs', name) ∈ (fs, name) :: H ∧ fslGetSource cfg fs' name = .ok (p, c)) ∧
    AnswersArePast cfg ((fs, name) :: H) hs rs
  | _, _, _ => True

theorem cachedRun_past (L : CCfg) (hist : List (FS × (Comps → Nat) × List Ch)) :
    ∀ H cache, CacheInv L.fsl H cache → AnswersArePast L.fsl H hist (cachedRun L cache hist) := by
  induction hist with
  | nil => intro H cache _; simp [AnswersArePast]
  | cons t rest ih =>
    obtain ⟨fs, mt, name⟩ := t
    intro H cache hinv
    obtain ⟨h1, h2⟩ := cachedLoad_step L fs mt H cache name hinv
    simp only [cachedRun, AnswersArePast]
    exact ⟨h2, ih _ _ h1⟩

/-- **`CachingFileSystemLoader` (any capacity, auto-reload on or off, any sequence of changes to the file system
between requests): a cached answer is never anything but what `get_source` returned for the same name at an
earlier moment** — the cache is filled only through `resolve_path`/`_read`, and a key only ever maps to an
answer for that key. What it does *not* promise is freshness: with auto-reload off, or when the replacing
file has the same mtime, the earlier answer keeps being served (see the example below and stream `cache`). -/
theorem cached_answers_are_past_answers (L : CCfg) (hist : List (FS × (Comps → Nat) × List Ch)) :
    AnswersArePast L.fsl [] hist (cachedRun L [] hist) :=
  cachedRun_past L hist [] [] (fun _ h => by simp at h)

/-- **so cached contents obey the same containment**: with `reject_symlinks=True`, whatever a request through
the cache returns is the content of a regular file that was, by link-free descent, below the search directory —
on the file system as it was when that answer was loaded. Outside bytes are never served, stale or not. -/
theorem cached_contents_were_inside (L : CCfg) (hrej : L.fsl.rejectSymlinks = true) (fs : FS) (mt : Comps → Nat)
    (H : List (FS × List Ch)) (cache : List CEntry) (name : List Ch) (p : PPath) (c : Nat)
    (hinv : CacheInv L.fsl H cache) (h : (cachedLoad L fs mt cache name).2 = .ok (p, c)) :
    ∃ fs', (fs', name) ∈ (fs, name) :: H ∧ ∃ base ∈ L.fsl.search, ∃ cb s, canon fs' base = some cb ∧
      nodeAt fs'.root (cb ++ s) = some (.file c) := by
  obtain ⟨fs', hm, hg⟩ := (cachedLoad_step L fs mt H cache name hinv).2 p c h
  obtain ⟨base, hb, cb, s, hcb, _, hnode, _⟩ := fsl_contents_inside_rejecting L.fsl fs' name p c hrej hg
  exact ⟨fs', hm, base, hb, cb, s, hcb, hnode⟩

/-! ## Non-vacuity: a concrete file system with decoys and links -/

/-- a Python string literal as code points -/
def str (s : String) : List Ch := s.toList.map Char.toNat

/-- `/srv/templates` is the search directory; `/srv/secret.txt`, `/etc/passwd` and the package's
`__init__.py` are decoys; `in.txt` is a link that stays inside, `out.txt`/`outdir` lead out, `loop` loops. -/
def demoFS : FS :=
  { root := .dir [
      (str "srv", .dir [
        (str "templates", .dir [
          (str "a.txt", .file 1),
          (str "sub", .dir [(str "b.liquid", .file 2)]),
          (str "...liquid", .file 3),
          (str "in.txt", .link false [str "sub", str "b.liquid"]),
          (str "out.txt", .link false [str "..", str "secret.txt"]),
          (str "outdir", .link true [str "", str "etc"]),
          (str "loop", .link false [str "loop"])]),
        (str "secret.txt", .file 99),
        (str "pkg", .dir [
          (str "__init__.py", .file 98),
          (str "templates", .dir [(str "t.liquid", .file 4)])])]),
      (str "etc", .dir [(str "passwd", .file 100)])],
    cwd := [str "srv"], maxLinks := 40, extraLinks := 1000 }

def demoCfg (rej : Bool) : FSLConfig :=
  { search := [parse (str "/srv/templates")], ext := some (str ".liquid"), rejectSymlinks := rej }

def demoPkg : PkgConfig := { paths := [parse (str "/srv/pkg/templates")], ext := str ".liquid" }

example : (parse (str "//a/./b//..//c.tar.gz/")) = ⟨2, [str "a", str "b", str "..", str "c.tar.gz"]⟩ := by decide
example : suffixOf (str "c.tar.gz") = str ".gz" ∧ suffixOf (str ".hidden") = [] ∧ suffixOf (str "x.") = [] := by decide
-- ordinary names load, with and without rejection, with the default extension, relative search path
example : fslGetSource (demoCfg false) demoFS (str "a.txt") = .ok (parse (str "/srv/templates/a.txt"), 1) := by decide
example : fslGetSource (demoCfg true) demoFS (str "./sub//b") = .ok (parse (str "/srv/templates/sub/b.liquid"), 2) := by decide
example : fslGetSource { demoCfg true with search := [parse (str "templates")] } demoFS (str "a.txt")
    = .ok (parse (str "templates/a.txt"), 1) := by decide
-- a link that stays inside is served even with rejection; one that leads out only without it
example : fslGetSource (demoCfg true) demoFS (str "in.txt") = .ok (parse (str "/srv/templates/in.txt"), 2) := by decide
example : fslGetSource (demoCfg false) demoFS (str "out.txt") = .ok (parse (str "/srv/templates/out.txt"), 99) := by decide
example : fslGetSource (demoCfg true) demoFS (str "out.txt") = .error .notFound := by decide
example : fslGetSource { demoCfg false with ext := none } demoFS (str "outdir/passwd")
    = .ok (parse (str "/srv/templates/outdir/passwd"), 100) := by decide
example : fslGetSource { demoCfg true with ext := none } demoFS (str "outdir/passwd") = .error .notFound := by decide
-- hostile names
example : fslGetSource (demoCfg false) demoFS (str "/etc/passwd") = .error .notFound := by decide
example : fslGetSource (demoCfg false) demoFS (str "../secret.txt") = .error .notFound := by decide
example : fslGetSource (demoCfg false) demoFS (str "sub/../../secret.txt") = .error .notFound := by decide
example : fslGetSource (demoCfg true) demoFS (str "loop") = .error .notFound := by decide
example : fslGetSource (demoCfg false) demoFS (0 :: str "a.txt") = .error .notFound := by decide
example : fslGetSource (demoCfg false) demoFS (List.replicate 300 120) = .error .notFound := by decide +kernel
-- a curiosity that stays inside: with an `ext`, the name `..` becomes the file name `...liquid`
example : fslGetSource (demoCfg true) demoFS (str "..") = .ok (parse (str "/srv/templates/...liquid"), 3) := by decide
example : pkgGetSource demoPkg demoFS (str "t") = .ok (parse (str "/srv/pkg/templates/t.liquid"), 4) := by decide
example : pkgGetSource demoPkg demoFS (str "/etc/passwd") = .error .notFound := by decide
example : pkgGetSource demoPkg demoFS (str "../__init__.py") = .error .notFound := by decide
example : pkgGetSource demoPkg demoFS [] = .error .notFound := by decide

-- `ordinary_names_load` instantiated: `sub/b` under the default extension
example : fslGetSource (demoCfg true) demoFS (str "sub/b") = .ok (⟨1, [str "srv", str "templates", str "sub", str "b.liquid"]⟩, 2) :=
  ordinary_names_load (demoCfg true) demoFS (str "sub/b") ⟨0, [str "sub", str "b.liquid"]⟩ [] [] (parse (str "/srv/templates"))
    [str "srv", str "templates"] 2 (by decide) (by decide) (by decide) (by decide) (by decide) (by simp)
    (by decide) (by rfl) (by decide) (by decide) (by decide)
example : strOf (parse (str "//a/./b//c.txt/")) = str "//a/b/c.txt" := by decide

/-- `a.txt` replaced by a link to the decoy `/srv/secret.txt` (content 99) -/
def demoFS2 : FS :=
  { demoFS with root := .dir [
      (str "srv", .dir [
        (str "templates", .dir [(str "a.txt", .link false [str "..", str "secret.txt"])]),
        (str "secret.txt", .file 99)])] }

def demoCache (auto : Bool) : CCfg := { fsl := { demoCfg true with ext := none }, autoReload := auto, capacity := 2 }

-- rejection on, the file is swapped for an outside link after it was cached:
-- mtime differs → reloaded → rejected; same mtime, or auto-reload off → the earlier *inside* text (1), never 99
example : cachedRun (demoCache true) [] [(demoFS, fun _ => 1000, str "a.txt"), (demoFS2, fun _ => 2000, str "a.txt")]
    = [.ok (parse (str "/srv/templates/a.txt"), 1), .error .notFound] := by decide
example : cachedRun (demoCache true) [] [(demoFS, fun _ => 1000, str "a.txt"), (demoFS2, fun _ => 1000, str "a.txt")]
    = [.ok (parse (str "/srv/templates/a.txt"), 1), .ok (parse (str "/srv/templates/a.txt"), 1)] := by decide
example : cachedRun (demoCache false) [] [(demoFS, fun _ => 1000, str "a.txt"), (demoFS2, fun _ => 2000, str "a.txt")]
    = [.ok (parse (str "/srv/templates/a.txt"), 1), .ok (parse (str "/srv/templates/a.txt"), 1)] := by decide

/-- the hypothesis of the link-free theorems is satisfiable -/
example : LinkFreeBelow (.dir [([1], .dir [([2], .file 7)])]) [[1]] := by
  intro s abs t h
  cases s with
  | nil => simp [nodeAt, lookup] at h
  | cons c s =>
    simp only [List.cons_append, List.nil_append, nodeAt, lookup, if_true] at h
    split at h
    · rename_i m hm
      split at hm
      · cases hm; cases s <;> simp [nodeAt] at h
      · simp at hm
    · cases h

/-! ## The code before the `fix:` commits violated the property (kernel-decided witnesses) -/

/-- the only exception a loader may raise -/
def OnlyNotFound {α : Type} (r : Except Exc α) : Prop := ∀ e, r = .error e → e = .notFound

/-- **Before `fix: PackageLoader rejects absolute template names`:** `get_template("/srv/secret.txt")` resolved to
`/srv/secret.txt` itself (and `get_source` returned its content, 99), which is not `package_dir/rel` for any `rel` — the full statement `pkg_resolved_inside`
was false for `Old.pkgResolve`. -/
theorem pkg_old_absolute_escapes_counterexample :
    ¬ (∀ p, Old.pkgResolve demoPkg demoFS (str "/srv/secret.txt") = .ok p →
        ∃ base ∈ demoPkg.paths, ∃ rel, p = ⟨base.root, base.parts ++ rel⟩) := by
  intro h
  obtain ⟨base, hb, rel, hp⟩ := h (parse (str "/srv/secret.txt")) (by decide)
  simp only [demoPkg, List.mem_cons, List.not_mem_nil, or_false] at hb
  subst hb
  have hb : parse (str "/srv/pkg/templates") = ⟨1, [str "srv", str "pkg", str "templates"]⟩ := by decide
  have hq : parse (str "/srv/secret.txt") = ⟨1, [str "srv", str "secret.txt"]⟩ := by decide
  rw [hb, hq] at hp
  simp only [PPath.mk.injEq, List.cons_append, List.cons.injEq] at hp
  exact absurd hp.2.2.1 (by decide)

/-- **Before `fix: PackageLoader raises TemplateNotFoundError for an empty template name`:** `''` → `ValueError`. -/
theorem pkg_old_empty_name_counterexample : ¬ OnlyNotFound (Old.pkgResolve demoPkg demoFS []) := by
  intro h
  have := h .valueError (by decide)
  cases this

/-- **Before `fix: PackageLoader treats a path the file system refuses as not found`:** a 256-byte name → `OSError`. -/
theorem pkg_old_long_name_counterexample :
    ¬ OnlyNotFound (Old.pkgResolve { demoPkg with ext := [] } demoFS (List.replicate 256 120)) := by
  intro h
  have := h .osError (by decide +kernel)
  cases this

/-- **Before `fix: FileSystemLoader.resolve_path treats a path the file system refuses as not found`:** a
256-byte name → `OSError` (ENAMETOOLONG is not among the errors `Path.exists()` swallows). -/
theorem fsl_old_long_name_counterexample :
    ¬ OnlyNotFound (Old.fslResolve (demoCfg false) demoFS (List.replicate 256 120)) := by
  intro h
  have := h .osError (by decide +kernel)
  cases this

/-- the full statements in the same vocabulary, for the code as it is now: **any loader that could be
constructed raises nothing but TemplateNotFoundError, for every name and every file system** -/
theorem fsl_raises_only_not_found (cfg : FSLConfig) (fs : FS) (name : List Ch) (hinit : loaderInit cfg.ext = .ok ()) :
    OnlyNotFound (fslGetSource cfg fs name) :=
  fun e h => fsl_only_not_found cfg fs name e (init_validates_ext _ hinit) h

theorem pkg_raises_only_not_found (cfg : PkgConfig) (fs : FS) (name : List Ch)
    (hinit : loaderInit (some cfg.ext) = .ok ()) : OnlyNotFound (pkgGetSource cfg fs name) :=
  fun e h => pkg_only_not_found cfg fs name e (init_validates_ext _ hinit _ rfl) h

/-- **Before `fix: PackageLoader validates ext when it is constructed`:** `PackageLoader(pkg, ext="liquid")` was
accepted and then raised `ValueError` for every name without a suffix. -/
theorem pkg_old_invalid_ext_counterexample :
    ¬ OnlyNotFound (pkgGetSource { demoPkg with ext := str "liquid" } demoFS (str "t")) := by
  intro h
  have := h .valueError (by decide)
  cases this

end LiquidVerif.C22
