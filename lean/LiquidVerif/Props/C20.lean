import LiquidVerif.Lemmas.SpanLex
import LiquidVerif.Lemmas.LexDelims
import LiquidVerif.Gen.C20Tables
/-!
# C20 — reported locations point at the reported item

Sentence 1 ("every location reported by static analysis … indexes into the named template's source at the
reported name"): the locations are the `start_index` of lexer tokens — of expression tokens
(`ExprLex`, variables and filter names), of liquid-tag inner tokens (`LiquidLines`) and of template
tokens (`LexDelims`, tag names) — handed through by the parser.  The theorems below say that each of
these indexes, which the code computes by *arithmetic* (`parent.start_index + match.start()`), is where
the token's text is in the source, for every source.
Sentence 2 ("every Liquid error raised while parsing carries a position inside its own source, and its
formatted message … can be produced without error"): `error_context_total`, `detailed_message_total`;
errors raised at the end of a stream used to carry index −1 (`negative_index_formats_bare`); fixed in the tree.
-/
namespace LiquidVerif.C20
open LiquidVerif.SpanLex

/-! ## expression tokens -/
section expr
open LiquidVerif.ExprLex

/-- **Sentence 1, expression tokens (variables, filter names, keywords, numbers, punctuation).**
For every expression source and every parent offset, every token yielded by `tokenize` — and the token
of the syntax error it raises — has a start index that points, in the parent's source, at the token's
text; for quoted strings and bracketed path segments, whose value is an inner group, at a fixed shift
after the opening quote / bracket. -/
theorem token_span_correct (base : Nat) (src : List Char) (t : Token)
    (h : t ∈ (tokenize base src).1 ∨ (tokenize base src).2 = some t) :
    base ≤ t.start ∧
    (Located src (t.start - base) t.value ∨
     ((t.kind = "identindex" ∨ t.kind = "identstring" ∨ t.kind = "string") ∧
       ∃ shift, Located src (t.start - base + shift) t.value)) := by
  obtain ⟨p, hp, hc⟩ := collect_mem base _ t h
  obtain ⟨hs, hv⟩ := convert_spec base p t hc
  have hloc := scan_located src.length src [] rfl p (by simpa using hp)
  simp only [List.nil_append] at hloc
  refine ⟨by omega, ?_⟩
  have hsub : t.start - base = p.1 := by omega
  rcases hv with hv | ⟨hv, hk⟩
  · left; rw [hsub, hv]; exact hloc
  · right
    refine ⟨hk, ?_⟩
    obtain ⟨inp, hok⟩ := scan_ok src.length src 0 rfl p hp
    obtain ⟨pre, post, hraw, _⟩ := hok.grp
    exact ⟨pre.length, by rw [hsub, hv]; exact located_inner hloc hraw⟩

/-- the slice form used by the harness: `source[start - base :][: len(value)] == value` for every token
whose value is its whole match (in particular every `word`: variable roots and filter names) -/
theorem word_span_slice (base : Nat) (src : List Char) (t : Token) (h : t ∈ (tokenize base src).1)
    (hk : t.kind = "word") : (src.drop (t.start - base)).take t.value.length = t.value := by
  rcases (token_span_correct base src t (Or.inl h)).2 with h1 | ⟨h2, _⟩
  · exact located_slice h1
  · rw [hk] at h2; simp at h2

/-- the matches of `_RE.finditer` (white space included) tile the source: nothing is skipped or read twice -/
theorem expr_matches_tile (src : List Char) : ((scan 0 src).map (·.2.raw)).flatten = src :=
  scan_tiles src.length src 0 rfl

example : (tokenize 10 "a.b | f: 'x y'".toList).1.map (fun t => (t.kind, String.ofList t.value, t.start))
    = [("word", "a", 10), ("dot", ".", 11), ("word", "b", 12), ("pipe", "|", 14), ("word", "f", 16),
       ("colon", ":", 17), ("string", "x y", 19)] := by decide +kernel

end expr

/-! ## liquid-tag inner tokens -/
section liquid
open LiquidVerif.LiquidLines

/-- **Sentence 1, tokens inside `{% liquid %}`.**  For every liquid-tag body, every comment marker and
every offset of the enclosing expression token, each inner tag-name and expression token starts where
its text is written (`token.start_index + match.start("name" | "expr")`). -/
theorem liquid_tag_offsets (commentStart : List Char) (base : Nat) (src : List Char) (t : Token)
    (h : t ∈ (tokenizeLiquid commentStart base src).1) :
    base ≤ t.start ∧ Located src (t.start - base) t.value := by
  unfold tokenizeLiquid at h
  obtain ⟨p, hp, hc⟩ := lcollect_mem _ base _ t h
  obtain ⟨hloc, inp, hok⟩ := scanLines_located (markerOf commentStart) src.length src [] rfl p (by simpa using hp)
  simp only [List.nil_append] at hloc
  rcases hc with ⟨hv, hs⟩ | ⟨hv, hs⟩
  · obtain ⟨pre, post, hraw, hlen⟩ := hok.nameAt
    refine ⟨by omega, ?_⟩
    have : t.start - base = p.1 + pre.length := by omega
    rw [this, hv]; exact located_inner hloc hraw
  · obtain ⟨pre, post, hraw, hlen⟩ := hok.exprAt
    refine ⟨by omega, ?_⟩
    have : t.start - base = p.1 + pre.length := by omega
    rw [this, hv]; exact located_inner hloc hraw

example : (tokenizeLiquid "{#".toList 5 "  echo 1 \r\n # hi\n\nif x\n  endif".toList).1.map
    (fun t => (t.kind, String.ofList t.value, t.start))
    = [("tag", "echo", 7), ("expression", "1", 12), ("tag", "if", 23), ("expression", "x", 26), ("tag", "endif", 30)] := by
  decide +kernel

end liquid

/-! ## template tokens (tag names, expressions, output statements) under any delimiters -/
section template
open LiquidVerif.LexDelims

/-- **Sentence 1, tag names (and the expression / output tokens the inner lexers start from).**  For
every piece list and *every* delimiter set, each `tag`, `expression` and `output` token of the template
lexer starts, in the assembled source, where its text is. -/
theorem template_span_correct (d : Delims) (ps : List Piece) (t : Tok) (h : t ∈ (lex d ps).1)
    (hk : t.kind = .tag ∨ t.kind = .expression ∨ t.kind = .output) :
    Located (assemble d ps) t.start t.value :=
  LexDelimsL.lex_located d ps t h hk

/-- **The block-comment token**: for every piece list and every delimiter set, the `comment` token yielded at
`{% endcomment %}` has as its value exactly the source text that starts at its start index (the end of
the opening `{% comment %}`): `comment_index` / `comment_text` are kept in step over nested comments,
raw blocks, output statements and text inside the comment. -/
theorem comment_token_span_correct (d : Delims) (ps : List Piece) (t : Tok) (h : t ∈ (lex d ps).1)
    (hk : t.kind = .comment) : Located (assemble d ps) t.start t.value :=
  LexDelimsL.lex_comment_located d ps t h hk

example : (lex default [.tag false [' '] "comment".toList [] [] [] false, .text "a ".toList,
      .out false [] "x".toList [] false, .tag false [] "endcomment".toList [] [] [] false]).1.map
      (fun t => (t.kind, String.ofList t.value, t.start))
    = [(.tag, "comment", 3), (.comment, "a {{x}}", 12), (.tag, "endcomment", 21)] := by decide +kernel

end template

/-! ## positions of errors -/
section errctx
open LiquidVerif.ErrCtx

/-- `splitlines(keepends=True)` pieces concatenate to the text -/
theorem splitlines_concat (text : List Char) : (splitLines text).flatten = text := splitLines_flatten text

/-- **Sentence 2, the context search is total inside the source**: for `0 ≤ index < len(text)`
`_error_context` returns; the reported line is the line that contains `index`, the column is the
offset inside it, and line/column determine `index`. -/
theorem error_context_total (text : List Char) (index : Nat) (h : index < text.length) :
    ∃ c, errorContext text index = some c ∧ 1 ≤ c.line ∧ c.line ≤ (splitLines text).length ∧
      ((splitLines text).take (c.line - 1)).flatten.length + c.col = index ∧
      c.col < ((splitLines text).getD (c.line - 1) []).length ∧
      c.cur = rstrip ((splitLines text).getD (c.line - 1) []) := by
  have hfl := splitLines_flatten text
  obtain ⟨k, cum', hf, hk, hc, hlo, hhi⟩ :=
    findLine_spec index (splitLines text) 0 0 (Nat.zero_le _) (by rw [hfl]; simpa using h)
  refine ⟨_, by simp only [errorContext, hf]; rfl, ?_⟩
  simp only [Nat.zero_add] at *
  refine ⟨by omega, by omega, ?_, ?_, ?_⟩
  · simp only [Nat.add_sub_cancel]; omega
  · simp only [Nat.add_sub_cancel]; omega
  · simp only [Nat.add_sub_cancel]

/-- outside the source the search raises (`ValueError`), also at `index = len(text)` -/
theorem error_context_out_of_range (text : List Char) (index : Nat) (h : text.length ≤ index) :
    errorContext text index = none := by
  have := findLine_none index (splitLines text) 0 0 (by rw [splitLines_flatten]; simpa using h)
  simp [errorContext, this]

/-- `Span.line_col` is the same search -/
theorem line_col_total (text : List Char) (index : Nat) (h : index < text.length) :
    ∃ l c, lineCol text index = some (l, c) ∧ ((splitLines text).take (l - 1)).flatten.length + c = index := by
  obtain ⟨c, hc, _, _, h3, _⟩ := error_context_total text index h
  exact ⟨c.line, c.col, by simp [lineCol, hc], h3⟩

/-- **Sentence 2, formatting**: an error whose token index lies inside its source always formats, with
line and column. -/
theorem detailed_message_total (source : List Char) (i : Int) (h0 : 0 ≤ i) (h1 : i.toNat < source.length) :
    ∃ c, detailedMessage source i = .located c := by
  obtain ⟨c, hc, _⟩ := error_context_total source i.toNat h1
  refine ⟨c, ?_⟩
  have : ¬ i < 0 := by omega
  simp [detailedMessage, this, hc]

/-- formatting never raises when the index is negative (no position is shown) … -/
theorem detailed_message_partial (source : List Char) (i : Int) (h : i < 0 ∨ i.toNat < source.length) :
    detailedMessage source i ≠ .raises := by
  rcases h with h | h
  · simp [detailedMessage, h]
  · by_cases h0 : i < 0
    · simp [detailedMessage, h0]
    · obtain ⟨c, hc⟩ := detailed_message_total source i (by omega) h
      rw [hc]; simp

/-- … a token with a negative index (the old shared `TokenStream.eof` sentinel, index −1) formats as the
bare message without any position: this is why the end-of-stream token had to be given the position of
the stream's last token (fix in `liquid/stream.py`; stream `errors` now finds no parse error without a
position). -/
theorem negative_index_formats_bare (source : List Char) (i : Int) (h : i < 0) :
    detailedMessage source i = .bare := by
  simp [detailedMessage, h]

example : errorContext "ab\r\ncd\n x".toList 7 = some ⟨3, 0, "cd".toList, " x".toList, []⟩ := by decide +kernel
example : errorContext "ab".toList 2 = none := by decide +kernel

end errctx

/-! ## the rule tables the scanners were written against (regenerated from the source every run) -/
section tables
open LiquidVerif.Gen.C20

def pinnedExprRules : List (String × String) := [
  ("rangeexpression", "\\((?=(?:[^()'\"]|'[^']*'|\"[^\"]*\")*?\\.\\.)"),
  ("identindex", "\\[\\s*(?P<path_index>\\-?\\d+)\\s*]"),
  ("identstring", "\\[\\s*(?P<identquote>[\\\"'])(?P<identquoted>.*?)(?P=identquote)\\s*]"),
  ("string", "(?P<quote>[\\\"'])(?P<quoted>.*?)(?P=quote)"),
  ("range", "\\.\\."),
  ("float", "-?\\d+\\.(?!\\.)\\d*"),
  ("integer", "-?\\d+\\b"),
  ("dot", "\\."),
  ("word", "\\w[\\w\\-]*\\??"),
  ("lparen", "\\("),
  ("rparen", "\\)"),
  ("lbracket", "\\["),
  ("rbracket", "]"),
  ("colon", ":"),
  ("comma", ","),
  ("dpipe", "\\|\\|"),
  ("pipe", "\\|"),
  ("OP", "[!=<>]{1,2}"),
  ("skip", "[ \\n\\t\\r]+"),
  ("illegal", ".")
]

def pinnedLiquidDefault : String := "(?P<LIQUID_EXPR>[ \\t]*(?P<name>#|\\w+)[ \\t]*(?P<expr>.*?)[ \\t\\r]*?(\\n+|$))|(?P<SKIP>[\\r\\n]+)|(?P<illegal>.)"

def pinnedLiquidMarker : String := "(?P<LIQUID_EXPR>[ \\t]*(?P<name>(MARK(?!\\w)|\\w+))[ \\t]*(?P<expr>.*?)[ \\t\\r]*?(\\n+|$))|(?P<SKIP>[\\r\\n]+)|(?P<illegal>.)"

def pinnedLiquidMarkerPunct : String := "(?P<LIQUID_EXPR>[ \\t]*(?P<name>(MARK@|\\w+))[ \\t]*(?P<expr>.*?)[ \\t\\r]*?(\\n+|$))|(?P<SKIP>[\\r\\n]+)|(?P<illegal>.)"

/-- **Tie to the source.** The `_rules` of `_tokenize.py` (names and patterns, in order), `_keywords`,
`operators` on every string the OP rule can match, the liquid-tag line rules and the expression deriving
the comment marker are the ones `ExprLex` / `LiquidLines` were written against. -/
theorem rules_pinned :
    exprRules = pinnedExprRules ∧
    (exprKeywords.all (ExprLex.keywords.contains ·) && ExprLex.keywords.all (exprKeywords.contains ·)) = true ∧
    opTable.all (fun p => (ExprLex.opKind p.1.toList).getD "" == p.2) = true ∧
    liquidRulesDefault = pinnedLiquidDefault ∧ liquidRulesMarker = pinnedLiquidMarker ∧
    liquidRulesMarkerPunct = pinnedLiquidMarkerPunct ∧
    liquidMarkerExpr = "env.comment_start_string.replace('{', '')" := by
  refine ⟨rfl, by decide +kernel, by decide +kernel, rfl, rfl, rfl, rfl⟩

/-- `LiquidTag.parse` hands its line tokenizer the expression token's own text together with that token
(`tokenizeLiquid commentStart token.start token.value`): the inner offsets of `liquid_tag_offsets` are
offsets into the template source only because of this. -/
theorem liquid_body_is_token_text : liquidTokenizeArgs = ["token_.value", "token=token_"] := rfl

end tables

end LiquidVerif.C20
