import LiquidVerif.Lemmas.CacheLoader
/-!
# C23 — caching loaders are transparent

Property theorems about `LiquidVerif.Model.CacheLoader` (the model of `CachingLoaderMixin` over an
arbitrary underlying loader). Hypothesis predicates (`Respects`, `UptodateSound`, `KeyInj`, `Inv`,
`Served`) are defined in `Lemmas/CacheLoader.lean`.

* `caching_transparent…` — first sentence of the property (and "a changed source is picked up on the
  next request when auto-reload is on": the response *is* the non-caching loader's on the current store).
* `no_cross_namespace…` — "templates from different namespaces are never substituted for one another".
* `auto_reload_off_serves_first` — the complement of the auto-reload sentence.
* `globals_apply` — "globals passed with a request apply to the returned template".
* `*_sound`, `*_respects`, `key_inj_of_*` — the hypotheses hold for the dict / file-system /
  namespace-aware loaders and for slash-free names.
* `*_counterexample` — where the code (now or before a `fix:`) violates the full statement.
-/
namespace LiquidVerif.C23
open LiquidVerif.CacheLoader

variable {σ η : Type}

/-! ## one request -/

/-- every cache entry stays an answer of the underlying loader for a request with that key -/
theorem step_inv (L : Loader σ η) (cfg : Cfg) (P : σ → Prop) (R : Req → Prop) (c : Cache (Tpl η)) (s : σ)
    (r : Req) (hR : R r) (hP : P s) (hI : Inv L cfg P R c) : Inv L cfg P R (getTemplate L cfg c s r).1 := by
  rw [getTemplate_eq]
  unfold checkCacheM
  have hc1 : Inv L cfg P R (c.getitem (cacheKey cfg r.name r.ctx r.kw)).1 := fun p hp => hI p (mem_getitem hp)
  -- a fresh load is Good
  have hfresh : ∀ t, refGetTemplate L cfg s r = .ok t → Good L cfg P R (cacheKey cfg r.name r.ctx r.kw) t := by
    intro t ht
    unfold refGetTemplate baseLoad at ht
    split at ht
    · cases ht
    · next text full h hg =>
      cases ht
      exact ⟨r, s, r.mode, hR, hP, rfl, hg, rfl⟩
  have hset : ∀ t, refGetTemplate L cfg s r = .ok t →
      Inv L cfg P R ((c.getitem (cacheKey cfg r.name r.ctx r.kw)).1.setitem (cacheKey cfg r.name r.ctx r.kw) t) := by
    intro t ht p hp
    rcases mem_setitem hp with e | hm
    · subst e; exact hfresh t ht
    · exact hc1 p hm
  rcases hgi : c.getitem (cacheKey cfg r.name r.ctx r.kw) with ⟨c1, o⟩
  rw [hgi] at hc1 hset
  cases o with
  | none =>
    simp only
    cases hl : refGetTemplate L cfg s r with
    | error e => exact hc1
    | ok t => exact hset t hl
  | some cached =>
    have hcached : Good L cfg P R (cacheKey cfg r.name r.ctx r.kw) cached := by
      have : (c.getitem (cacheKey cfg r.name r.ctx r.kw)).2 = some cached := by rw [hgi]
      exact hI _ (getitem_some_mem this)
    have hhit : Inv L cfg P R (c1.mutate (cacheKey cfg r.name r.ctx r.kw)
        { cached with globals := makeGlobals cfg.eg (some (makeGlobals cfg.eg r.globals)) }) := by
      intro p hp
      rcases mem_mutate hp with e | hm
      · subst e
        obtain ⟨r0, s0, m0, h1, h2, h3, h4, h5⟩ := hcached
        exact ⟨r0, s0, m0, h1, h2, h3, h4, h5⟩
      · exact hc1 p hm
    simp only
    cases cfg.autoReload with
    | false => exact hhit
    | true =>
      simp only [if_true]
      cases L.uptodate s r.mode cached.h with
      | error e => exact hc1
      | ok b =>
        cases b with
        | true => exact hhit
        | false =>
          simp only
          cases hl : refGetTemplate L cfg s r with
          | error e => exact hc1
          | ok t => exact hset t hl

/-- **One request, auto-reload on**: the caching loader's response is the non-caching loader's. -/
theorem step_transparent (L : Loader σ η) (cfg : Cfg) (P : σ → Prop) (R : Req → Prop) (c : Cache (Tpl η))
    (s : σ) (r : Req) (har : cfg.autoReload = true) (hresp : Respects L cfg) (hsound : UptodateSound L P)
    (hinj : KeyInj cfg R) (hR : R r) (hP : P s) (hI : Inv L cfg P R c) :
    obsOf (getTemplate L cfg c s r).2 = obsOf (refGetTemplate L cfg s r) := by
  rw [getTemplate_eq]
  unfold checkCacheM
  rcases hgi : c.getitem (cacheKey cfg r.name r.ctx r.kw) with ⟨c1, o⟩
  cases o with
  | none =>
    simp only
    cases refGetTemplate L cfg s r <;> rfl
  | some cached =>
    have hmem : (c.getitem (cacheKey cfg r.name r.ctx r.kw)).2 = some cached := by rw [hgi]
    obtain ⟨r0, s0, m0, hR0, hP0, hk, hsrc, hname⟩ := hI _ (getitem_some_mem hmem)
    obtain ⟨htrue, hnoerr⟩ := hsound s0 s m0 r0.name r0.ctx r0.kw cached.text cached.full cached.h r.mode hP0 hP hsrc
    simp only [har, if_true]
    cases hu : L.uptodate s r.mode cached.h with
    | error e => exact absurd hu (hnoerr e)
    | ok b =>
      cases b with
      | false =>
        simp only
        cases refGetTemplate L cfg s r <;> rfl
      | true =>
        simp only
        have h1 := htrue hu
        have hid : ident cfg r0 = ident cfg r := hinj r0 r hR0 hR hk.symm
        have h2 := hresp s m0 r.mode r0 r hid
        rw [h1] at h2
        unfold refGetTemplate baseLoad
        cases hg : L.getSource s r.mode r.name r.ctx r.kw with
        | error e => rw [hg] at h2; simp [srcObs] at h2
        | ok x =>
          obtain ⟨text, full, h⟩ := x
          rw [hg] at h2
          simp only [srcObs, Except.ok.injEq, Prod.mk.injEq] at h2
          simp only at hname
          simp only [obsOf, Tpl.obs, h2.1]
          rw [hname, h2.2]

/-! ## histories -/

/-- **Caching loaders are transparent (auto-reload on).** For every history of synchronous and
asynchronous requests (namespace by keyword argument, by context, or none; any globals) interleaved
with arbitrary changes of the sources, for every capacity and every cache state satisfying the
invariant, the caching loader answers each request exactly as the non-caching loader would
(name, source text, bound globals — hence behaviour) — provided the underlying loader's `uptodate`
is sound on the stores that occur, the loader sees the request's arguments only through the
selected namespace, and the key strings of the requested (name, namespace) pairs do not collide.
The last hypothesis is what makes this `_partial`: see `caching_transparent_counterexample`. -/
theorem caching_transparent_partial (L : Loader σ η) (cfg : Cfg) (P : σ → Prop) (R : Req → Prop)
    (har : cfg.autoReload = true) (hresp : Respects L cfg) (hsound : UptodateSound L P) (hinj : KeyInj cfg R)
    (evs : List (Event σ)) (c : Cache (Tpl η)) (s : σ)
    (hR : ∀ r ∈ reqsOf evs, R r) (hPs : P s) (hPe : ∀ s' ∈ storesOf evs, P s') (hI : Inv L cfg P R c) :
    run L cfg c s evs = refRun L cfg s evs := by
  induction evs generalizing c s with
  | nil => rfl
  | cons ev evs ih =>
    cases ev with
    | store s' =>
      simp only [run, refRun]
      exact ih c s' (fun r hr => hR r (by simpa [reqsOf] using hr)) (hPe s' (by simp [storesOf]))
        (fun x hx => hPe x (by simp [storesOf, hx])) hI
    | req r =>
      have hRr : R r := hR r (by simp [reqsOf])
      simp only [run, refRun]
      rw [step_transparent L cfg P R c s r har hresp hsound hinj hRr hPs hI]
      congr 1
      exact ih _ s (fun r' hr' => hR r' (by simp [reqsOf, hr'])) hPs
        (fun x hx => hPe x (by simpa [storesOf] using hx)) (step_inv L cfg P R c s r hRr hPs hI)

/-- Transparency from the empty cache, with no condition on the stores (`P = True`): the form that
applies to the dict, file-system and namespace-aware loaders. -/
theorem caching_transparent_from_empty_partial (L : Loader σ η) (cfg : Cfg) (cap : Nat)
    (har : cfg.autoReload = true) (hresp : Respects L cfg) (hsound : UptodateSound L (fun _ => True))
    (evs : List (Event σ)) (s : σ) (hinj : KeyInj cfg (· ∈ reqsOf evs)) :
    run L cfg (Cache.empty cap) s evs = refRun L cfg s evs :=
  caching_transparent_partial L cfg (fun _ => True) (· ∈ reqsOf evs) har hresp hsound hinj evs _ s
    (fun _ h => h) trivial (fun _ _ => trivial) (by intro p hp; simp [Cache.empty] at hp)

/-- responses paired with their requests -/
def Paired (Q : Req → Resp → Prop) : List Req → List (Except Err Resp) → Prop
  | [], [] => True
  | r :: rs, o :: os => (∀ resp, o = .ok resp → Q r resp) ∧ Paired Q rs os
  | _, _ => False

/-- what one request returns was produced by the underlying loader for that request's own
(name, namespace) at an admitted store — auto-reload on or off -/
theorem step_served (L : Loader σ η) (cfg : Cfg) (P : σ → Prop) (R : Req → Prop) (c : Cache (Tpl η)) (s : σ)
    (r : Req) (hresp : Respects L cfg) (hinj : KeyInj cfg R) (hR : R r) (hP : P s) (hI : Inv L cfg P R c)
    (resp : Resp) (h : obsOf (getTemplate L cfg c s r).2 = .ok resp) : Served L P r resp := by
  rw [getTemplate_eq] at h
  unfold checkCacheM at h
  have hfresh : ∀ x, obsOf (refGetTemplate L cfg s r) = .ok x → Served L P r x := by
    intro x hx
    unfold refGetTemplate baseLoad at hx
    cases hg : L.getSource s r.mode r.name r.ctx r.kw with
    | error e => rw [hg] at hx; simp [obsOf] at hx
    | ok y =>
      obtain ⟨text, full, hh⟩ := y
      rw [hg] at hx
      simp only [obsOf, Tpl.obs, Except.ok.injEq] at hx
      subst hx
      exact ⟨s, r.mode, full, hP, by rw [hg]; rfl, rfl⟩
  rcases hgi : c.getitem (cacheKey cfg r.name r.ctx r.kw) with ⟨c1, o⟩
  rw [hgi] at h
  cases o with
  | none =>
    simp only at h
    apply hfresh
    cases hl : refGetTemplate L cfg s r <;> rw [hl] at h <;> exact h
  | some cached =>
    have hmem : (c.getitem (cacheKey cfg r.name r.ctx r.kw)).2 = some cached := by rw [hgi]
    obtain ⟨r0, s0, m0, hR0, hP0, hk, hsrc, hname⟩ := hI _ (getitem_some_mem hmem)
    have hhit : ∀ g, obsOf (.ok { cached with globals := g } : Except Err (Tpl η)) = .ok resp → Served L P r resp := by
      intro g hg
      simp only [obsOf, Tpl.obs, Except.ok.injEq] at hg
      subst hg
      have hid : ident cfg r0 = ident cfg r := hinj r0 r hR0 hR hk.symm
      have h2 := hresp s0 m0 m0 r0 r hid
      rw [hsrc] at h2
      exact ⟨s0, m0, cached.full, hP0, h2.symm, hname⟩
    simp only at h
    cases har : cfg.autoReload with
    | false => (try rw [har] at h); exact hhit _ h
    | true =>
      try rw [har] at h
      simp only [if_true] at h
      cases hu : L.uptodate s r.mode cached.h with
      | error e => rw [hu] at h; simp [obsOf] at h
      | ok b =>
        rw [hu] at h
        cases b with
        | true => exact hhit _ h
        | false =>
          simp only at h
          apply hfresh
          cases hl : refGetTemplate L cfg s r <;> rw [hl] at h <;> exact h

/-- **Templates from different namespaces are never substituted for one another** (auto-reload on
or off, any capacity): along every history, whatever the caching loader returns for a request was
produced by the underlying loader *for that request's own name and namespace*, on the initial store
or on one of the stores of the history — never a template loaded for another (name, namespace), and
never a text that no store of the history held. `_partial`: needs non-colliding key strings, see
`no_cross_namespace_counterexample`. -/
theorem no_cross_namespace_partial (L : Loader σ η) (cfg : Cfg) (P : σ → Prop) (R : Req → Prop)
    (hresp : Respects L cfg) (hinj : KeyInj cfg R)
    (evs : List (Event σ)) (c : Cache (Tpl η)) (s : σ)
    (hR : ∀ r ∈ reqsOf evs, R r) (hPs : P s) (hPe : ∀ s' ∈ storesOf evs, P s') (hI : Inv L cfg P R c) :
    Paired (Served L P) (reqsOf evs) (run L cfg c s evs) := by
  induction evs generalizing c s with
  | nil => simp [reqsOf, run, Paired]
  | cons ev evs ih =>
    cases ev with
    | store s' =>
      simp only [run, reqsOf]
      exact ih c s' (fun r hr => hR r (by simpa [reqsOf] using hr)) (hPe s' (by simp [storesOf]))
        (fun x hx => hPe x (by simp [storesOf, hx])) hI
    | req r =>
      have hRr : R r := hR r (by simp [reqsOf])
      simp only [run, reqsOf, Paired]
      refine ⟨fun resp h => step_served L cfg P R c s r hresp hinj hRr hPs hI resp h, ?_⟩
      exact ih _ s (fun r' hr' => hR r' (by simp [reqsOf, hr'])) hPs
        (fun x hx => hPe x (by simpa [storesOf] using hx)) (step_inv L cfg P R c s r hRr hPs hI)

/-- the same from the empty cache, the admitted stores being exactly those of the history -/
theorem no_cross_namespace_from_empty_partial (L : Loader σ η) (cfg : Cfg) (cap : Nat)
    (hresp : Respects L cfg) (evs : List (Event σ)) (s : σ) (hinj : KeyInj cfg (· ∈ reqsOf evs)) :
    Paired (Served L (· ∈ s :: storesOf evs)) (reqsOf evs) (run L cfg (Cache.empty cap) s evs) :=
  no_cross_namespace_partial L cfg (· ∈ s :: storesOf evs) (· ∈ reqsOf evs) hresp hinj evs _ s
    (fun _ h => h) (by simp) (fun x hx => by simp [hx]) (by intro p hp; simp [Cache.empty] at hp)

/-! ## auto-reload off -/

/-- what is in the cache under the request's key after a successful request: the returned template -/
theorem cached_after_ok (L : Loader σ η) (cfg : Cfg) (c : Cache (Tpl η)) (s : σ) (r : Req) (t : Tpl η)
    (h : (getTemplate L cfg c s r).2 = .ok t) :
    find (getTemplate L cfg c s r).1.items (cacheKey cfg r.name r.ctx r.kw) = some t := by
  rw [getTemplate_eq] at h ⊢
  unfold checkCacheM at h ⊢
  have hfs := find_getitem_self c (cacheKey cfg r.name r.ctx r.kw)
  have hsn := getitem_snd c (cacheKey cfg r.name r.ctx r.kw)
  rcases hgi : c.getitem (cacheKey cfg r.name r.ctx r.kw) with ⟨c1, o⟩
  rw [hgi] at h hfs hsn
  simp only at hfs hsn
  cases o with
  | none =>
    simp only at h ⊢
    cases hl : refGetTemplate L cfg s r with
    | error e => rw [hl] at h; cases h
    | ok t' => rw [hl] at h; simp only at h ⊢; cases h; exact find_setitem_self _ _ _
  | some cached =>
    have hf1 : find c1.items (cacheKey cfg r.name r.ctx r.kw) = some cached := by rw [hfs, ← hsn]
    simp only at h ⊢
    cases har : cfg.autoReload with
    | false =>
      try rw [har] at h
      try rw [har]
      simp only [Bool.false_eq_true, if_false] at h ⊢
      cases h
      exact find_mutate_self _ _ _ _ hf1
    | true =>
      try rw [har] at h
      try rw [har]
      simp only [if_true] at h ⊢
      cases hu : L.uptodate s r.mode cached.h with
      | error e => rw [hu] at h; cases h
      | ok b =>
        try rw [hu] at h
        try rw [hu]
        cases b with
        | true => simp only at h ⊢; cases h; exact find_mutate_self _ _ _ _ hf1
        | false =>
          simp only at h ⊢
          cases hl : refGetTemplate L cfg s r with
          | error e => rw [hl] at h; cases h
          | ok t' => rw [hl] at h; simp only at h ⊢; cases h; exact find_setitem_self _ _ _

/-- **With auto-reload off a cached template is served whatever happens to the sources**: if the
cache holds `cached` under the request's key, the response is `cached` (name and text) with the
request's globals, on every store — the underlying loader is not consulted. -/
theorem auto_reload_off_serves_cached (L : Loader σ η) (cfg : Cfg) (c : Cache (Tpl η)) (s : σ) (r : Req)
    (cached : Tpl η) (hoff : cfg.autoReload = false)
    (hc : find c.items (cacheKey cfg r.name r.ctx r.kw) = some cached) :
    obsOf (getTemplate L cfg c s r).2 =
      .ok { name := cached.name, text := cached.text,
            globals := makeGlobals cfg.eg (some (makeGlobals cfg.eg r.globals)) } := by
  rw [getTemplate_eq]
  unfold checkCacheM
  have hsn := getitem_snd c (cacheKey cfg r.name r.ctx r.kw)
  rcases hgi : c.getitem (cacheKey cfg r.name r.ctx r.kw) with ⟨c1, o⟩
  rw [hgi] at hsn
  simp only at hsn
  rw [hc] at hsn
  subst hsn
  simp [hoff, obsOf, Tpl.obs]

/-- **Auto-reload off serves the first load**: after a successful request, any change of the
sources, and a second request with the same cache key (sync or async, any globals), the second
response has the name and text returned by the first. -/
theorem auto_reload_off_serves_first (L : Loader σ η) (cfg : Cfg) (c : Cache (Tpl η)) (s s' : σ) (r r' : Req)
    (t : Tpl η) (hoff : cfg.autoReload = false)
    (hkey : cacheKey cfg r'.name r'.ctx r'.kw = cacheKey cfg r.name r.ctx r.kw)
    (h1 : (getTemplate L cfg c s r).2 = .ok t) :
    obsOf (getTemplate L cfg (getTemplate L cfg c s r).1 s' r').2 =
      .ok { name := t.name, text := t.text,
            globals := makeGlobals cfg.eg (some (makeGlobals cfg.eg r'.globals)) } := by
  apply auto_reload_off_serves_cached L cfg _ s' r' t hoff
  rw [hkey]
  exact cached_after_ok L cfg c s r t h1

/-! ## globals -/

/-- the globals bound to whatever is returned are `env.make_globals` of the request's globals -/
theorem globals_of_response (L : Loader σ η) (cfg : Cfg) (c : Cache (Tpl η)) (s : σ) (r : Req) (t : Tpl η)
    (h : (getTemplate L cfg c s r).2 = .ok t) :
    t.globals = makeGlobals cfg.eg (some (makeGlobals cfg.eg r.globals)) := by
  rw [getTemplate_eq] at h
  unfold checkCacheM at h
  have hfresh : ∀ t', refGetTemplate L cfg s r = .ok t' →
      t'.globals = makeGlobals cfg.eg (some (makeGlobals cfg.eg r.globals)) := by
    intro t' ht
    unfold refGetTemplate baseLoad at ht
    split at ht
    · cases ht
    · cases ht; rfl
  rcases hgi : c.getitem (cacheKey cfg r.name r.ctx r.kw) with ⟨c1, o⟩
  rw [hgi] at h
  cases o with
  | none =>
    simp only at h
    cases hl : refGetTemplate L cfg s r with
    | error e => rw [hl] at h; cases h
    | ok t' => rw [hl] at h; cases h; exact hfresh _ hl
  | some cached =>
    simp only at h
    cases har : cfg.autoReload with
    | false => (try rw [har] at h); simp only [Bool.false_eq_true, if_false] at h; cases h; rfl
    | true =>
      try rw [har] at h
      simp only [if_true] at h
      cases hu : L.uptodate s r.mode cached.h with
      | error e => rw [hu] at h; cases h
      | ok b =>
        rw [hu] at h
        cases b with
        | true => simp only at h; cases h; rfl
        | false =>
          simp only at h
          cases hl : refGetTemplate L cfg s r with
          | error e => rw [hl] at h; cases h
          | ok t' => rw [hl] at h; cases h; exact hfresh _ hl

/-- **Globals passed with a request apply to the returned template** — for every cache state
(hit, reload or miss), store, capacity, auto-reload setting, sync or async: a variable the request
binds has the request's value, any other variable has the environment's value; in particular
nothing survives from an earlier request. -/
theorem globals_apply (L : Loader σ η) (cfg : Cfg) (c : Cache (Tpl η)) (s : σ) (r : Req) (t : Tpl η)
    (h : (getTemplate L cfg c s r).2 = .ok t) (k : Nat) :
    glookup t.globals k =
      match r.globals.bind (fun g => glookup g k) with
      | some v => some v
      | none => glookup cfg.eg k := by
  rw [globals_of_response L cfg c s r t h, glookup_makeGlobals, Option.bind, glookup_makeGlobals]
  cases r.globals.bind (fun g => glookup g k) with
  | some v => rfl
  | none => simp only; cases glookup cfg.eg k <;> rfl

/-! ## the hypotheses hold for the concrete loaders -/

theorem store_beq {s : Store} {i : Nat} {f : Str} {v : Nat} (h : (s i f == some v) = true) : s i f = some v := by
  simpa using h

/-- `DictLoader` (fixed): arguments other than the name are ignored; sync = async -/
theorem dict_respects (cfg : Cfg) : Respects dictLoader cfg := by
  intro s m m' r r' hid
  have hn : r.name = r'.name := congrArg Prod.fst hid
  simp only [dictLoader, hn]
  cases s 0 r'.name <;> rfl

/-- `DictLoader` (fixed): its `uptodate` is sound on all stores and never raises -/
theorem dict_sound : UptodateSound dictLoader (fun _ => True) := by
  intro s s' m name ctx kw text full h mu _ _ hsrc
  simp only [dictLoader] at hsrc ⊢
  cases hs : s 0 name with
  | none => rw [hs] at hsrc; cases hsrc
  | some v =>
    rw [hs] at hsrc
    cases hsrc
    refine ⟨fun hu => ?_, fun e he => by cases he⟩
    simp only [Except.ok.injEq] at hu
    rw [store_beq hu]; rfl

theorem fs_respects (cfg : Cfg) : Respects fsLoader cfg := by
  intro s m m' r r' hid
  have hn : r.name = r'.name := congrArg Prod.fst hid
  simp only [fsLoader, hn]
  cases s 0 r'.name <;> rfl

/-- `FileSystemLoader` (fixed): sound on all stores, never raises — including a synchronous check of
an asynchronously loaded template and a vanished file -/
theorem fs_sound : UptodateSound fsLoader (fun _ => True) := by
  intro s s' m name ctx kw text full h mu _ _ hsrc
  simp only [fsLoader] at hsrc ⊢
  cases hs : s 0 name with
  | none => rw [hs] at hsrc; cases hsrc
  | some v =>
    rw [hs] at hsrc
    cases hsrc
    refine ⟨fun hu => ?_, fun e he => ?_⟩
    · cases mu <;> cases m <;> simp only [Except.ok.injEq] at hu <;>
        first | (rw [store_beq hu]; rfl) | cases hu
    · cases mu <;> cases m <;> cases he

/-- the namespace-aware loader reads exactly the namespace that `cache_key` resolves (when
`namespace_key` is set) -/
theorem ns_respects (cfg : Cfg) (hk : cfg.nsKey = true) : Respects nsLoader cfg := by
  intro s m m' r r' hid
  have hn : r.name = r'.name := congrArg Prod.fst hid
  have hns : resolveNs cfg r.ctx r.kw = resolveNs cfg r'.ctx r'.kw := congrArg Prod.snd hid
  have hfull : ∀ (ctx : Option (Option Str)) (kw : Option Str) (name : Str),
      nsFull name ctx kw = (match resolveNs cfg ctx kw with | none => name | some ns => ns ++ '/' :: name) := by
    intro ctx kw name
    unfold resolveNs nsFull
    simp only [hk, Bool.not_true, Bool.false_eq_true, if_false]
    cases kw with
    | some ns => rfl
    | none =>
      cases ctx with
      | none => rfl
      | some o => cases o <;> rfl
  simp only [nsLoader, hfull, hn, hns]
  cases s 0 _ <;> rfl

theorem ns_sound : UptodateSound nsLoader (fun _ => True) := by
  intro s s' m name ctx kw text full h mu _ _ hsrc
  simp only [nsLoader] at hsrc ⊢
  split at hsrc
  · cases hsrc
  · next v hs =>
    cases hsrc
    refine ⟨fun hu => ?_, fun e he => by cases he⟩
    simp only [Except.ok.injEq] at hu
    rw [store_beq hu]; rfl

/-- stores on which the first dictionary of the choice loader has exactly the names `D` -/
def FirstHas (D : Str → Prop) (s : Store) : Prop := ∀ n, (s 0 n).isSome ↔ D n

theorem choice_respects (cfg : Cfg) : Respects choiceLoader cfg := by
  intro s m m' r r' hid
  have hn : r.name = r'.name := congrArg Prod.fst hid
  simp only [choiceLoader, hn]
  cases s 0 r'.name with
  | some v => rfl
  | none => cases s 1 r'.name <;> rfl

/-- `ChoiceLoader`: sound **as long as the set of names of the first loader does not change**
(`_partial`: see `choice_sound_counterexample`) -/
theorem choice_sound_partial (D : Str → Prop) : UptodateSound choiceLoader (FirstHas D) := by
  intro s s' m name ctx kw text full h mu hD hD' hsrc
  simp only [choiceLoader] at hsrc ⊢
  cases h0 : s 0 name with
  | some v =>
    rw [h0] at hsrc
    cases hsrc
    refine ⟨fun hu => ?_, fun e he => by cases he⟩
    simp only [Except.ok.injEq] at hu
    rw [store_beq hu]; rfl
  | none =>
    rw [h0] at hsrc
    simp only at hsrc
    cases h1 : s 1 name with
    | none => rw [h1] at hsrc; cases hsrc
    | some v =>
      rw [h1] at hsrc
      cases hsrc
      refine ⟨fun hu => ?_, fun e he => by cases he⟩
      simp only [Except.ok.injEq] at hu
      have hnot : s' 0 name = none := by
        have : ¬ D name := fun hd => by have := (hD name).mpr hd; simp [h0] at this
        cases hs' : s' 0 name with
        | none => rfl
        | some w => exact absurd ((hD' name).mp (by simp [hs'])) this
      rw [hnot]
      simp only
      rw [store_beq hu]; rfl

/-- key strings do not collide when no requested **name** contains `/` (namespaces may) -/
theorem key_inj_of_slash_free_names (cfg : Cfg) (R : Req → Prop) (h : ∀ r, R r → '/' ∉ r.name) :
    KeyInj cfg R := by
  intro r r' hr hr' hk
  rw [cacheKey_eq, cacheKey_eq] at hk
  unfold ident
  cases h1 : resolveNs cfg r.ctx r.kw with
  | none =>
    cases h2 : resolveNs cfg r'.ctx r'.kw with
    | none => rw [h1, h2] at hk; simp only at hk; rw [hk]
    | some ns' =>
      rw [h1, h2] at hk
      simp only at hk
      exact absurd (hk ▸ (by simp : '/' ∈ ns' ++ '/' :: r'.name)) (h r hr)
  | some ns =>
    cases h2 : resolveNs cfg r'.ctx r'.kw with
    | none =>
      rw [h1, h2] at hk
      simp only at hk
      exact absurd (hk ▸ (by simp : '/' ∈ ns ++ '/' :: r.name)) (h r' hr')
    | some ns' =>
      rw [h1, h2] at hk
      simp only at hk
      obtain ⟨e1, e2⟩ := suffix_sep_inj ns ns' r.name r'.name (h r hr) (h r' hr') hk
      rw [e1, e2]

/-- key strings do not collide when every request selects a namespace and no **namespace**
contains `/` (names may: `"dir/foo"`) -/
theorem key_inj_of_slash_free_namespaces (cfg : Cfg) (R : Req → Prop)
    (h : ∀ r, R r → ∃ ns, resolveNs cfg r.ctx r.kw = some ns ∧ '/' ∉ ns) : KeyInj cfg R := by
  intro r r' hr hr' hk
  rw [cacheKey_eq, cacheKey_eq] at hk
  unfold ident
  obtain ⟨ns, h1, hn⟩ := h r hr
  obtain ⟨ns', h2, hn'⟩ := h r' hr'
  rw [h1, h2] at hk ⊢
  simp only at hk
  obtain ⟨e1, e2⟩ := prefix_sep_inj ns ns' r.name r'.name hn hn' hk
  rw [e1, e2]

/-- without `namespace_key` the key is the name: no collisions at all -/
theorem key_inj_without_namespace_key (cfg : Cfg) (R : Req → Prop) (h : cfg.nsKey = false) : KeyInj cfg R := by
  intro r r' _ _ hk
  unfold cacheKey at hk
  unfold ident resolveNs
  simp only [h, Bool.not_false, if_true] at hk ⊢
  rw [hk]

/-- **The caching dict, file-system and namespace-aware loaders are transparent** for every history
whose requested names contain no `/` (every capacity, every interleaving of sync and async requests
and of edits, deletions and re-creations, namespace by keyword argument or context). -/
theorem builtin_loaders_transparent (cfg : Cfg) (cap : Nat) (har : cfg.autoReload = true)
    (evs : List (Event Store)) (s : Store) (hn : ∀ r ∈ reqsOf evs, '/' ∉ r.name) :
    run dictLoader cfg (Cache.empty cap) s evs = refRun dictLoader cfg s evs ∧
    run fsLoader cfg (Cache.empty cap) s evs = refRun fsLoader cfg s evs ∧
    (cfg.nsKey = true → run nsLoader cfg (Cache.empty cap) s evs = refRun nsLoader cfg s evs) := by
  have hinj := key_inj_of_slash_free_names cfg (· ∈ reqsOf evs) hn
  exact ⟨caching_transparent_from_empty_partial dictLoader cfg cap har (dict_respects cfg) dict_sound evs s hinj,
    caching_transparent_from_empty_partial fsLoader cfg cap har (fs_respects cfg) fs_sound evs s hinj,
    fun hk => caching_transparent_from_empty_partial nsLoader cfg cap har (ns_respects cfg hk) ns_sound evs s hinj⟩

/-! ## counter-examples: where the full statements fail -/

private def cfgOn : Cfg := { autoReload := true, nsKey := true, eg := [] }
private def rq (name : String) (kw : Option String) (m : Mode) (g : Option Globals := none) : Req :=
  { name := name.toList, kw := kw.map String.toList, ctx := none, mode := m, globals := g }
private def st (l : List (Nat × String × Nat)) : Store :=
  l.foldl (fun s p => s.set p.1 p.2.1.toList (some p.2.2)) Store.emptyStore

/-- the witness history of the key collision: `get_template("a", uid="x")`, then `get_template("x/a")` -/
def collisionHistory : List (Event Store) := [.req (rq "a" (some "x") .sync), .req (rq "x/a" none .sync)]

/-- **Full-strength transparency is false for the code as it is**: with `namespace_key` set, the
request `("a", namespace "x")` and the request `("x/a", no namespace)` share the cache key `"x/a"`;
the file-system loader (files `a` and `x/a`) then serves file `a` for the name `x/a`. -/
theorem caching_transparent_counterexample :
    ¬ (run fsLoader cfgOn (Cache.empty 2) (st [(0, "a", 1), (0, "x/a", 2)]) collisionHistory
        = refRun fsLoader cfgOn (st [(0, "a", 1), (0, "x/a", 2)]) collisionHistory) := by decide

/-- the same witness against `no_cross_namespace`: the second response was loaded for another
(name, namespace): its text is file `a`'s, which no store ever held under the name `x/a` -/
theorem no_cross_namespace_counterexample :
    (run fsLoader cfgOn (Cache.empty 2) (st [(0, "a", 1), (0, "x/a", 2)]) collisionHistory)[1]?
      = some (.ok { name := "a".toList, text := ("a".toList, 1), globals := [] }) ∧
    ¬ KeyInj cfgOn (· ∈ reqsOf collisionHistory) := by
  refine ⟨by decide, fun h => ?_⟩
  have := h (rq "a" (some "x") .sync) (rq "x/a" none .sync) (by simp [collisionHistory, reqsOf])
    (by simp [collisionHistory, reqsOf]) (by decide)
  revert this; decide

/-- **The choice loader's `uptodate` is not sound when an earlier loader starts to shadow a name**:
`a` is found in the second dictionary and cached; `a` is then added to the first dictionary; the
caching loader keeps serving the second dictionary's template. -/
theorem choice_sound_counterexample :
    ¬ (run choiceLoader cfgOn (Cache.empty 2) (st [(1, "a", 1)])
          [.req (rq "a" none .sync), .store (st [(1, "a", 1), (0, "a", 2)]), .req (rq "a" none .sync)]
        = refRun choiceLoader cfgOn (st [(1, "a", 1)])
          [.req (rq "a" none .sync), .store (st [(1, "a", 1), (0, "a", 2)]), .req (rq "a" none .sync)]) := by
  decide

/-- before `fix: DictLoader templates know when their source has changed`: an edited entry was not
picked up (kept as a regression witness; `dictLoaderStale` is the old behaviour) -/
theorem dict_stale_counterexample :
    ¬ (run dictLoaderStale cfgOn (Cache.empty 2) (st [(0, "a", 1)])
          [.req (rq "a" none .sync), .store (st [(0, "a", 2)]), .req (rq "a" none .sync)]
        = refRun dictLoaderStale cfgOn (st [(0, "a", 1)])
          [.req (rq "a" none .sync), .store (st [(0, "a", 2)]), .req (rq "a" none .sync)]) := by decide

/-- before the two file-system fixes: an asynchronous request followed by a synchronous one raised
`LiquidError`; a request after the file was deleted raised `OSError` instead of
`TemplateNotFoundError` (`fsLoaderOld` is the old behaviour) -/
theorem fs_old_counterexample :
    (run fsLoaderOld cfgOn (Cache.empty 2) (st [(0, "a", 1)]) [.req (rq "a" none .async), .req (rq "a" none .sync)])[1]?
      = some (.error .liquidError) ∧
    (run fsLoaderOld cfgOn (Cache.empty 2) (st [(0, "a", 1)])
      [.req (rq "a" none .sync), .store Store.emptyStore, .req (rq "a" none .sync)])[1]? = some (.error .osError) ∧
    (refRun fsLoaderOld cfgOn (st [(0, "a", 1)])
      [.req (rq "a" none .sync), .store Store.emptyStore, .req (rq "a" none .sync)])[1]? = some (.error .notFound) := by
  decide

/-! ## non-vacuity -/

/-- the hypotheses of `caching_transparent_partial` are met by a history with namespaces through
keyword argument and context, mixed sync/async, an edit, and an eviction (capacity 1) -/
example :
    let evs : List (Event Store) :=
      [.req (rq "a" (some "x") .sync (some [(1, 5)])),
       .req { name := "a".toList, kw := none, ctx := some (some "y".toList), mode := .async, globals := none },
       .store (st [(0, "x/a", 3), (0, "y/a", 2)]),
       .req (rq "a" (some "x") .async)]
    run nsLoader cfgOn (Cache.empty 1) (st [(0, "x/a", 1), (0, "y/a", 2)]) evs
      = [.ok { name := "a".toList, text := ("x/a".toList, 1), globals := [(1, 5)] },
         .ok { name := "a".toList, text := ("y/a".toList, 2), globals := [] },
         .ok { name := "a".toList, text := ("x/a".toList, 3), globals := [] }] := by decide

example : KeyInj cfgOn (· ∈ [rq "a" (some "x") .sync, rq "a" (some "y") .async, rq "b" none .sync]) :=
  key_inj_of_slash_free_names _ _ (by intro r hr; simp only [List.mem_cons, List.not_mem_nil, or_false] at hr; rcases hr with h | h | h <;> subst h <;> decide)

example : FirstHas (fun n => n = "a".toList) (st [(0, "a", 1), (1, "b", 2)]) := by
  intro n
  by_cases h : n = "a".toList
  · subst h; simp [st, Store.set]
  · simp [st, Store.set, Store.emptyStore]

end LiquidVerif.C23

/-! # Deepening round

## auto-reload off, whole histories: every hit serves what was served last for that key; without
eviction every response for a key is the first load -/
namespace LiquidVerif.C23
open LiquidVerif.CacheLoader

variable {σ η : Type}

/-- the cache key of a request -/
def keyOf (cfg : Cfg) (r : Req) : Str := cacheKey cfg r.name r.ctx r.kw

/-- the globals a response to `r` carries -/
def globalsOf (cfg : Cfg) (r : Req) : Globals := makeGlobals cfg.eg (some (makeGlobals cfg.eg r.globals))

/-- with auto-reload off `get_template(_async)` is: hit → rebind globals, return the cached object;
miss → load, store, return -/
theorem getTemplate_off (L : Loader σ η) (cfg : Cfg) (c : Cache (Tpl η)) (s : σ) (r : Req)
    (hoff : cfg.autoReload = false) :
    getTemplate L cfg c s r =
      match find c.items (keyOf cfg r) with
      | some cached =>
        (((c.getitem (keyOf cfg r)).1).mutate (keyOf cfg r) { cached with globals := globalsOf cfg r },
          .ok { cached with globals := globalsOf cfg r })
      | none =>
        match refGetTemplate L cfg s r with
        | .error e => (c, .error e)
        | .ok t => (c.setitem (keyOf cfg r) t, .ok t) := by
  rw [getTemplate_eq]
  unfold checkCacheM keyOf globalsOf
  cases hf : find c.items (cacheKey cfg r.name r.ctx r.kw) with
  | none =>
    rw [getitem_none_eq c _ hf]
    simp only
    cases refGetTemplate L cfg s r <;> rfl
  | some cached =>
    have : c.getitem (cacheKey cfg r.name r.ctx r.kw) =
        ({ c with items := eraseKey c.items (cacheKey cfg r.name r.ctx r.kw) ++ [(cacheKey cfg r.name r.ctx r.kw, cached)] }, some cached) := by
      unfold Cache.getitem; rw [hf]
    rw [this]
    simp [hoff]

/-- the history with, for every request: the store it ran on, whether its key was cached when it
arrived, and its response -/
def traceOff (L : Loader σ η) (cfg : Cfg) : Cache (Tpl η) → σ → List (Event σ) → List (Req × σ × Bool × Except Err Resp)
  | _, _, [] => []
  | c, _, .store s' :: evs => traceOff L cfg c s' evs
  | c, s, .req r :: evs =>
    (r, s, (find c.items (keyOf cfg r)).isSome, obsOf (getTemplate L cfg c s r).2)
      :: traceOff L cfg (getTemplate L cfg c s r).1 s evs

theorem traceOff_run (L : Loader σ η) (cfg : Cfg) (c : Cache (Tpl η)) (s : σ) (evs : List (Event σ)) :
    (traceOff L cfg c s evs).map (·.2.2.2) = run L cfg c s evs := by
  induction evs generalizing c s with
  | nil => rfl
  | cons ev evs ih =>
    cases ev with
    | store s' => simp only [traceOff, run]; exact ih c s'
    | req r => simp only [traceOff, run, List.map_cons]; rw [ih]

def upd (m : Str → Option (Str × Text)) (k : Str) (v : Str × Text) : Str → Option (Str × Text) :=
  fun x => if x = k then some v else m x

/-- along a trace: a request whose key is cached gets the name and text **last served for that key**
(with its own globals); a request whose key is not cached gets the non-caching loader's answer on the
current store. `m` maps a key to what was last served for it. -/
def HitsServeLast (L : Loader σ η) (cfg : Cfg) : (Str → Option (Str × Text)) → List (Req × σ × Bool × Except Err Resp) → Prop
  | _, [] => True
  | m, (r, s, hit, o) :: rest =>
    (hit = true → ∃ nt, m (keyOf cfg r) = some nt ∧
        o = .ok { name := nt.1, text := nt.2, globals := globalsOf cfg r }) ∧
    (hit = false → o = obsOf (refGetTemplate L cfg s r)) ∧
    HitsServeLast L cfg
      (match o with
        | .ok resp => upd m (keyOf cfg r) (resp.name, resp.text)
        | .error _ => m) rest

/-- the cache holds, under every key, what was last served for it -/
def AgreeLast (c : Cache (Tpl η)) (m : Str → Option (Str × Text)) : Prop :=
  ∀ k t, find c.items k = some t → m k = some (t.name, t.text)

/-- **Auto-reload off, every history, every capacity (evictions included)**: each request either
misses (its key is not in the cache: evicted or never loaded) and is answered by the non-caching
loader on the current store, or hits and is answered with exactly the name and text last served for
its key. Hence between two misses of a key all its responses equal the first load, whatever happens
to the sources — the precise "serves first" statement in the presence of eviction (when a key is
evicted is C24's subject: `LiquidVerif.C24.run_refines_spec`). -/
theorem off_hits_serve_last (L : Loader σ η) (cfg : Cfg) (hoff : cfg.autoReload = false)
    (evs : List (Event σ)) (c : Cache (Tpl η)) (s : σ) (m : Str → Option (Str × Text))
    (hn : (ckeys c.items).Nodup) (ha : AgreeLast c m) :
    HitsServeLast L cfg m (traceOff L cfg c s evs) := by
  induction evs generalizing c s m with
  | nil => simp [traceOff, HitsServeLast]
  | cons ev evs ih =>
    cases ev with
    | store s' => simp only [traceOff]; exact ih c s' m hn ha
    | req r =>
      simp only [traceOff, HitsServeLast]
      rw [getTemplate_off L cfg c s r hoff]
      cases hf : find c.items (keyOf cfg r) with
      | some cached =>
        simp only [Option.isSome_some, forall_const, obsOf, Tpl.obs]
        refine ⟨⟨(cached.name, cached.text), ha _ _ hf, rfl⟩, by simp, ?_⟩
        apply ih
        · rw [ckeys_mutate]; exact nodup_getitem c _ hn
        · intro k t hk
          by_cases e : k = keyOf cfg r
          · subst e
            have h1 : find ((c.getitem (keyOf cfg r)).1).items (keyOf cfg r) = some cached := by
              rw [find_getitem_self, hf]
            rw [find_mutate_self _ _ _ _ h1] at hk
            cases hk
            simp [upd]
          · rw [find_mutate_other _ _ e, find_getitem_other _ e] at hk
            simp only [upd, e, if_false]
            exact ha k t hk
      | none =>
        simp only [Option.isSome_none, Bool.false_eq_true, false_implies, true_and, forall_const]
        cases hl : refGetTemplate L cfg s r with
        | error e =>
          simp only [obsOf, true_and]
          exact ih c s m hn ha
        | ok t =>
          simp only [obsOf, true_and]
          apply ih
          · exact nodup_setitem c _ t hn
          · intro k t' hk
            by_cases e : k = keyOf cfg r
            · subst e
              rw [find_setitem_self] at hk
              cases hk
              simp [upd, Tpl.obs]
            · simp only [upd, e, if_false]
              exact ha k t' (find_setitem_other_sub c _ t hn e hk)

/-- **Auto-reload off, no eviction: every later response for a key is the first load.** If all the
keys in play (cached or requested) fit the capacity — they lie in a list `K` no longer than the
capacity — and the cache holds `(name, text) = t0` under key `k`, then along the whole history,
whatever store changes and whatever other requests intervene (sync or async, any globals), every
request with key `k` is answered with `t0` and its own globals. -/
theorem serves_first_sequence (L : Loader σ η) (cfg : Cfg) (hoff : cfg.autoReload = false)
    (K : List Str) (k : Str) (t0 : Str × Text)
    (evs : List (Event σ)) (c : Cache (Tpl η)) (s : σ)
    (hcap : K.length ≤ c.cap) (hn : (ckeys c.items).Nodup) (hsub : ∀ x ∈ ckeys c.items, x ∈ K)
    (hreq : ∀ r ∈ reqsOf evs, keyOf cfg r ∈ K)
    (hk : ∃ t, find c.items k = some t ∧ (t.name, t.text) = t0) :
    ∀ e ∈ traceOff L cfg c s evs, keyOf cfg e.1 = k →
      e.2.2.2 = .ok { name := t0.1, text := t0.2, globals := globalsOf cfg e.1 } := by
  induction evs generalizing c s with
  | nil => intro e he; simp [traceOff] at he
  | cons ev evs ih =>
    cases ev with
    | store s' =>
      simp only [traceOff]
      exact ih c s' hcap hn hsub (fun r hr => hreq r (by simpa [reqsOf] using hr)) hk
    | req r =>
      have hrK : keyOf cfg r ∈ K := hreq r (by simp [reqsOf])
      have hreq' : ∀ r' ∈ reqsOf evs, keyOf cfg r' ∈ K := fun r' hr' => hreq r' (by simp [reqsOf, hr'])
      obtain ⟨t, hkt, ht0⟩ := hk
      simp only [traceOff, List.mem_cons]
      rw [getTemplate_off L cfg c s r hoff]
      cases hf : find c.items (keyOf cfg r) with
      | some cached =>
        simp only
        have hc' : ∃ t', find (((c.getitem (keyOf cfg r)).1).mutate (keyOf cfg r)
            { cached with globals := globalsOf cfg r }).items k = some t' ∧ (t'.name, t'.text) = t0 := by
          by_cases e : k = keyOf cfg r
          · subst e
            have h1 : find ((c.getitem (keyOf cfg r)).1).items (keyOf cfg r) = some cached := by
              rw [find_getitem_self, hf]
            rw [hf] at hkt; cases hkt
            exact ⟨_, find_mutate_self _ _ _ _ h1, ht0⟩
          · rw [find_mutate_other _ _ e, find_getitem_other _ e]; exact ⟨t, hkt, ht0⟩
        intro e he hke
        rcases he with he | he
        · subst he
          simp only at hke ⊢
          rw [hke] at hf
          rw [hf] at hkt; cases hkt
          simp only [obsOf, Tpl.obs]
          rw [← ht0]
        · refine ih _ s ?_ ?_ ?_ hreq' hc' e he hke
          · show K.length ≤ (c.getitem (keyOf cfg r)).1.cap
            rw [cap_getitem]; exact hcap
          · rw [ckeys_mutate]; exact nodup_getitem c _ hn
          · rw [ckeys_mutate]; intro x hx; exact hsub x (mem_ckeys_getitem hx)
      | none =>
        have hne : k ≠ keyOf cfg r := by intro e; rw [e, hf] at hkt; cases hkt
        cases hl : refGetTemplate L cfg s r with
        | error e' =>
          simp only
          intro e he hke
          rcases he with he | he
          · subst he; exact absurd hke.symm hne
          · exact ih c s hcap hn hsub hreq' ⟨t, hkt, ht0⟩ e he hke
        | ok tn =>
          simp only
          have hlt : c.items.length < c.cap := by
            have hnotin := (find_none_iff c.items (keyOf cfg r)).mp hf
            have h1 : (keyOf cfg r :: ckeys c.items).Nodup := List.nodup_cons.mpr ⟨hnotin, hn⟩
            have h2 := nodup_subset_length (keyOf cfg r :: ckeys c.items) K h1 (by
              intro x hx
              rcases List.mem_cons.mp hx with h | h
              · rw [h]; exact hrK
              · exact hsub x h)
            simp only [List.length_cons, ckeys, List.length_map] at h2
            omega
          intro e he hke
          rcases he with he | he
          · subst he; exact absurd hke.symm hne
          · refine ih _ s ?_ ?_ ?_ hreq' ?_ e he hke
            · rw [cap_setitem]; exact hcap
            · exact nodup_setitem c _ tn hn
            · intro x hx
              rcases mem_ckeys_setitem hx with h | h
              · rw [h]; exact hrK
              · exact hsub x h
            · rw [find_setitem_other_noevict c _ tn hne (fun _ => hlt)]; exact ⟨t, hkt, ht0⟩

/-- non-vacuity: a two-key history within capacity 2 in which the source of `a` changes and `b` is
requested in between — `a` keeps being served as first loaded -/
example :
    run dictLoader { autoReload := false, nsKey := false, eg := [] } (Cache.empty 2) (st [(0, "a", 1), (0, "b", 2)])
      [.req (rq "a" none .sync), .store (st [(0, "a", 3), (0, "b", 4)]), .req (rq "b" none .async),
       .req (rq "a" none .async)]
      = [.ok { name := "a".toList, text := ("a".toList, 1), globals := [] },
         .ok { name := "b".toList, text := ("b".toList, 4), globals := [] },
         .ok { name := "a".toList, text := ("a".toList, 1), globals := [] }] := by decide

end LiquidVerif.C23

/-! ## a second search path / shadowing in `FileSystemLoader`, and aliasing of returned handles -/
namespace LiquidVerif.C23
open LiquidVerif.CacheLoader

variable {σ η : Type}

theorem fs2_respects (cfg : Cfg) : Respects fs2Loader cfg := by
  intro s m m' r r' hid
  have hn : r.name = r'.name := congrArg Prod.fst hid
  simp only [fs2Loader, hn]
  cases s 0 r'.name with
  | some v => rfl
  | none => cases s 1 r'.name <;> rfl

/-- `FileSystemLoader` with two search paths: its `uptodate` is sound **while the set of names in the
first path does not change** (`_partial`: see `fs2_sound_counterexample`) -/
theorem fs2_sound_partial (D : Str → Prop) : UptodateSound fs2Loader (FirstHas D) := by
  intro s s' m name ctx kw text full h mu hD hD' hsrc
  simp only [fs2Loader] at hsrc ⊢
  cases h0 : s 0 name with
  | some v =>
    rw [h0] at hsrc
    cases hsrc
    refine ⟨fun hu => ?_, fun e he => ?_⟩
    · cases mu <;> cases m <;> simp only [Except.ok.injEq] at hu <;>
        first | (rw [store_beq hu]; rfl) | cases hu
    · cases mu <;> cases m <;> cases he
  | none =>
    rw [h0] at hsrc
    simp only at hsrc
    cases h1 : s 1 name with
    | none => rw [h1] at hsrc; cases hsrc
    | some v =>
      rw [h1] at hsrc
      cases hsrc
      have hnot : s' 0 name = none := by
        have : ¬ D name := fun hd => by have := (hD name).mpr hd; simp [h0] at this
        cases hs' : s' 0 name with
        | none => rfl
        | some w => exact absurd ((hD' name).mp (by simp [hs'])) this
      refine ⟨fun hu => ?_, fun e he => ?_⟩
      · rw [hnot]
        cases mu <;> cases m <;> simp only [Except.ok.injEq] at hu <;>
          first | (simp only; rw [store_beq hu]; rfl) | cases hu
      · cases mu <;> cases m <;> cases he

/-- **A file appearing earlier in the search path is not picked up**: `a` is found in the second
directory and cached; `a` is then created in the first directory; the caching loader keeps serving
the second directory's file (its `uptodate` only stats the file that was found). -/
theorem fs2_sound_counterexample :
    ¬ (run fs2Loader cfgOn (Cache.empty 2) (st [(1, "a", 1)])
          [.req (rq "a" none .sync), .store (st [(1, "a", 1), (0, "a", 2)]), .req (rq "a" none .sync)]
        = refRun fs2Loader cfgOn (st [(1, "a", 1)])
          [.req (rq "a" none .sync), .store (st [(1, "a", 1), (0, "a", 2)]), .req (rq "a" none .sync)]) := by
  decide

/-- when `servedCached` says so, the response **is the cache entry** (same name, text, full name and
`uptodate`), rebound to this request's globals, and the entry stays in the cache so rebound -/
theorem served_cached_result (L : Loader σ η) (cfg : Cfg) (c : Cache (Tpl η)) (s : σ) (r : Req)
    (h : servedCached L cfg c s r = true) :
    ∃ cached, find c.items (keyOf cfg r) = some cached ∧
      getTemplate L cfg c s r =
        (((c.getitem (keyOf cfg r)).1).mutate (keyOf cfg r) { cached with globals := globalsOf cfg r },
          .ok { cached with globals := globalsOf cfg r }) := by
  unfold servedCached at h
  rw [getTemplate_eq]
  unfold checkCacheM keyOf globalsOf
  have hsn := getitem_snd c (cacheKey cfg r.name r.ctx r.kw)
  rcases hgi : c.getitem (cacheKey cfg r.name r.ctx r.kw) with ⟨c1, o⟩
  rw [hgi] at h hsn
  simp only at h hsn
  cases o with
  | none => simp at h
  | some cached =>
    refine ⟨cached, hsn.symm, ?_⟩
    simp only at h ⊢
    cases har : cfg.autoReload with
    | false => simp
    | true =>
      rw [har] at h
      simp only [if_true] at h ⊢
      cases hu : L.uptodate s r.mode cached.h with
      | error e => rw [hu] at h; simp at h
      | ok b =>
        rw [hu] at h
        cases b with
        | false => simp at h
        | true => rfl

/-- **Aliasing of returned handles.** The caching loader hands out the cached object itself. If a
request returned `t1` and a later request with the same key is served from the cache (auto-reload off,
or on with an up-to-date source), then the object the first caller still holds — the cache entry — is
afterwards bound to the *second* request's globals: it is `t1` with `globals` replaced, and it is also
what the second caller got. (A non-caching loader builds a fresh template per request, so there an
earlier handle keeps its globals; the property observes templates when they are returned, where the
two agree — `globals_apply`.) -/
theorem alias_rebinds (L : Loader σ η) (cfg : Cfg) (c : Cache (Tpl η)) (s s' : σ) (r r' : Req) (t1 : Tpl η)
    (h1 : (getTemplate L cfg c s r).2 = .ok t1) (hkey : keyOf cfg r' = keyOf cfg r)
    (hhit : servedCached L cfg (getTemplate L cfg c s r).1 s' r' = true) :
    (getTemplate L cfg (getTemplate L cfg c s r).1 s' r').2 = .ok { t1 with globals := globalsOf cfg r' } ∧
    find (getTemplate L cfg (getTemplate L cfg c s r).1 s' r').1.items (keyOf cfg r)
      = some { t1 with globals := globalsOf cfg r' } := by
  have hc := cached_after_ok L cfg c s r t1 h1
  obtain ⟨cached, hf, hres⟩ := served_cached_result L cfg _ s' r' hhit
  rw [hkey] at hf
  unfold keyOf at hf
  rw [hc] at hf
  cases hf
  rw [hres]
  refine ⟨rfl, ?_⟩
  simp only
  rw [hkey]
  apply find_mutate_self _ _ _ t1
  rw [find_getitem_self]
  exact hc

/-- non-vacuity of `alias_rebinds`: first request with globals `{g1: 5}`, second without — the
shared entry ends with the second request's (empty) globals -/
example :
    runShared dictLoader cfgOn (Cache.empty 2) (st [(0, "a", 1)])
      [.req (rq "a" none .sync (some [(1, 5)])), .req (rq "a" none .async)] = [false, true] := by decide

end LiquidVerif.C23

/-! ## concurrent requests on a thread-safe cache: look-up, up-to-date check, load and store are
separate atomic steps -/
namespace LiquidVerif.C23
open LiquidVerif.CacheLoader

variable {σ η : Type}

theorem mem_rebind {c : Cache (Tpl η)} {k : Str} {cached : Tpl η} {g : Globals} {p : Str × Tpl η}
    (h : p ∈ (c.rebind k cached g).items) :
    ∃ q ∈ c.items, p.1 = q.1 ∧ p.2.name = q.2.name ∧ p.2.text = q.2.text ∧ p.2.full = q.2.full ∧ p.2.h = q.2.h := by
  unfold Cache.rebind at h
  simp only [List.mem_map] at h
  obtain ⟨q, hq, e⟩ := h
  refine ⟨q, hq, ?_⟩
  split at e <;> subst e <;> simp

theorem inv_rebind (L : Loader σ η) (cfg : Cfg) (P : σ → Prop) (R : Req → Prop) (c : Cache (Tpl η))
    (k : Str) (cached : Tpl η) (g : Globals) (hI : Inv L cfg P R c) : Inv L cfg P R (c.rebind k cached g) := by
  intro p hp
  obtain ⟨q, hq, e1, e2, e3, e4, e5⟩ := mem_rebind hp
  obtain ⟨r0, s0, m0, h1, h2, h3, h4, h5⟩ := hI q hq
  exact ⟨r0, s0, m0, h1, h2, by rw [e1]; exact h3, by rw [e3, e4, e5]; exact h4, by rw [e2, e4]; exact h5⟩

/-- a Good template under the key of `r`, with any globals, is a template served for `r`'s own
(name, namespace) -/
theorem served_of_good (L : Loader σ η) (cfg : Cfg) (P : σ → Prop) (R : Req → Prop)
    (hresp : Respects L cfg) (hinj : KeyInj cfg R) (r : Req) (hR : R r) (t : Tpl η) (g : Globals)
    (hg : Good L cfg P R (cacheKey cfg r.name r.ctx r.kw) t) :
    Served L P r ({ t with globals := g } : Tpl η).obs := by
  obtain ⟨r0, s0, m0, hR0, hP0, hk, hsrc, hname⟩ := hg
  have hid : ident cfg r0 = ident cfg r := hinj r0 r hR0 hR hk.symm
  have h2 := hresp s0 m0 m0 r0 r hid
  rw [hsrc] at h2
  exact ⟨s0, m0, t.full, hP0, h2.symm, hname⟩

/-- what a thread holds is an answer of the underlying loader for its own request -/
def ThreadGood (L : Loader σ η) (cfg : Cfg) (P : σ → Prop) (R : Req → Prop) (th : Thread η) : Prop :=
  R th.r ∧
  match th.pc with
  | .check cached => Good L cfg P R (cacheKey cfg th.r.name th.r.ctx th.r.kw) cached
  | .storing t => Good L cfg P R (cacheKey cfg th.r.name th.r.ctx th.r.kw) t
  | .done (.ok t) => Served L P th.r t.obs
  | _ => True

theorem threadStep_good (L : Loader σ η) (cfg : Cfg) (P : σ → Prop) (R : Req → Prop)
    (hresp : Respects L cfg) (hinj : KeyInj cfg R) (c : Cache (Tpl η)) (s : σ) (th : Thread η)
    (hP : P s) (hI : Inv L cfg P R c) (hT : ThreadGood L cfg P R th) :
    Inv L cfg P R (threadStep L cfg c s th).1 ∧ ThreadGood L cfg P R (threadStep L cfg c s th).2 := by
  obtain ⟨hR, hpc⟩ := hT
  unfold threadStep
  cases hp : th.pc with
  | start =>
    simp only
    have hc1 : Inv L cfg P R (c.getitem (cacheKey cfg th.r.name th.r.ctx th.r.kw)).1 := fun p hp => hI p (mem_getitem hp)
    rcases hgi : c.getitem (cacheKey cfg th.r.name th.r.ctx th.r.kw) with ⟨c1, o⟩
    rw [hgi] at hc1
    cases o with
    | none => exact ⟨hc1, hR, trivial⟩
    | some cached =>
      have hmem : (c.getitem (cacheKey cfg th.r.name th.r.ctx th.r.kw)).2 = some cached := by rw [hgi]
      have hg := hI _ (getitem_some_mem hmem)
      simp only
      cases cfg.autoReload with
      | true => exact ⟨hc1, hR, hg⟩
      | false =>
        simp only [Bool.false_eq_true, if_false]
        exact ⟨inv_rebind L cfg P R c1 _ _ _ hc1, hR, served_of_good L cfg P R hresp hinj th.r hR cached _ hg⟩
  | check cached =>
    rw [hp] at hpc
    simp only
    cases L.uptodate s th.r.mode cached.h with
    | error e => exact ⟨hI, hR, trivial⟩
    | ok b =>
      cases b with
      | false => exact ⟨hI, hR, trivial⟩
      | true => exact ⟨inv_rebind L cfg P R c _ _ _ hI, hR, served_of_good L cfg P R hresp hinj th.r hR cached _ hpc⟩
  | loading =>
    simp only
    cases hl : refGetTemplate L cfg s th.r with
    | error e => exact ⟨hI, hR, trivial⟩
    | ok t =>
      refine ⟨hI, hR, ?_⟩
      unfold refGetTemplate baseLoad at hl
      split at hl
      · cases hl
      · next text full h hg =>
        cases hl
        exact ⟨th.r, s, th.r.mode, hR, hP, rfl, hg, rfl⟩
  | storing t =>
    rw [hp] at hpc
    simp only
    refine ⟨?_, hR, ?_⟩
    · intro p hp'
      rcases mem_setitem hp' with e | hm
      · subst e; exact hpc
      · exact hI p hm
    · have := served_of_good L cfg P R hresp hinj th.r hR t t.globals hpc
      simpa using this
  | done o =>
    rw [hp] at hpc
    exact ⟨hI, hR, hpc⟩

/-- invariant of the concurrent system -/
def CInv (L : Loader σ η) (cfg : Cfg) (P : σ → Prop) (R : Req → Prop) (st : CState σ η) : Prop :=
  Inv L cfg P R st.cache ∧ P st.store ∧ ∀ th ∈ st.threads, ThreadGood L cfg P R th

theorem cstep_inv (L : Loader σ η) (cfg : Cfg) (P : σ → Prop) (R : Req → Prop)
    (hresp : Respects L cfg) (hinj : KeyInj cfg R) (st : CState σ η) (e : CEvent σ)
    (he : ∀ s, e = .store s → P s) (h : CInv L cfg P R st) : CInv L cfg P R (cstep L cfg st e) := by
  obtain ⟨hI, hP, hT⟩ := h
  cases e with
  | store s => exact ⟨hI, he s rfl, hT⟩
  | step i =>
    simp only [cstep]
    cases hth : st.threads[i]? with
    | none => exact ⟨hI, hP, hT⟩
    | some th =>
      have hmem : th ∈ st.threads := List.mem_of_getElem? hth
      have := threadStep_good L cfg P R hresp hinj st.cache st.store th hP hI (hT th hmem)
      refine ⟨this.1, hP, ?_⟩
      intro x hx
      rcases List.mem_or_eq_of_mem_set hx with h1 | h1
      · exact hT x h1
      · rw [h1]; exact this.2

/-- **Concurrent requests, any schedule** (any number of threads, any interleaving of their atomic
steps with each other and with changes of the sources, auto-reload on or off, any capacity): every
thread that has returned a template returned one that the underlying loader produced **for that
thread's own (name, namespace)** on a store the schedule passed through, and every cache entry is such
a template for its key — no cross-key substitution, nothing invented. `_partial`: non-colliding key
strings as before. What concurrency does lose is recency: `lost_update`. -/
theorem concurrent_served_partial (L : Loader σ η) (cfg : Cfg) (P : σ → Prop) (R : Req → Prop)
    (hresp : Respects L cfg) (hinj : KeyInj cfg R) (es : List (CEvent σ)) (st : CState σ η)
    (hes : ∀ s, CEvent.store s ∈ es → P s) (h : CInv L cfg P R st) :
    CInv L cfg P R (crun L cfg st es) := by
  induction es generalizing st with
  | nil => exact h
  | cons e es ih =>
    simp only [crun]
    apply ih
    · intro s hs; exact hes s (List.mem_cons_of_mem _ hs)
    · exact cstep_inv L cfg P R hresp hinj st e (fun s hs => hes s (by rw [hs]; exact List.mem_cons_self)) h

/-- the initial state (empty cache, every thread about to start) satisfies the invariant -/
theorem cinit_inv (L : Loader σ η) (cfg : Cfg) (P : σ → Prop) (cap : Nat) (s : σ) (rs : List Req) (hP : P s) :
    CInv L cfg P (· ∈ rs) (cinit cap s rs) := by
  refine ⟨by intro p hp; simp [cinit, Cache.empty] at hp, hP, ?_⟩
  intro th hth
  simp only [cinit, List.mem_map] at hth
  obtain ⟨r, hr, e⟩ := hth
  subst e
  exact ⟨hr, trivial⟩

private def thText : Thread Handle → Option Text
  | { pc := .done (.ok t), .. } => some t.text
  | _ => none

/-- **Lost update** (auto-reload off makes it permanent): two threads miss the same key; thread 0
loads version 1, the source changes to version 2, thread 1 loads and stores version 2 and returns it,
then thread 0 stores its older version 1 over it. The cache ends up holding version 1 although
version 2 had already been loaded, stored and returned; a third request is then served version 1. -/
theorem lost_update :
    let cfg : Cfg := { autoReload := false, nsKey := false, eg := [] }
    let fin := crun dictLoader cfg (cinit 2 (st [(0, "a", 1)]) [rq "a" none .sync, rq "a" none .sync, rq "a" none .sync])
      [.step 0, .step 1, .step 0, .store (st [(0, "a", 2)]), .step 1, .step 1, .step 0, .step 2]
    fin.threads.map thText = [some ("a".toList, 1), some ("a".toList, 2), some ("a".toList, 1)] ∧
    (find fin.cache.items "a".toList).map (·.text) = some ("a".toList, 1) := by
  decide

/-- with auto-reload on the stale entry left by a lost update is detected by the next request -/
theorem lost_update_healed_by_auto_reload :
    let fin := crun dictLoader cfgOn (cinit 2 (st [(0, "a", 1)]) [rq "a" none .sync, rq "a" none .sync, rq "a" none .sync])
      [.step 0, .step 1, .step 0, .store (st [(0, "a", 2)]), .step 1, .step 1, .step 0,
       .step 2, .step 2, .step 2, .step 2]
    fin.threads.map thText = [some ("a".toList, 1), some ("a".toList, 2), some ("a".toList, 2)] := by
  decide

end LiquidVerif.C23
