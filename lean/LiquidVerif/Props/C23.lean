import LiquidVerif.Model.CacheLoader
namespace LiquidVerif.C23
open LiquidVerif.CacheLoader

/-- placeholder while the harness is brought up -/
theorem makeGlobals_none (eg : Globals) : makeGlobals eg none = eg := rfl

end LiquidVerif.C23
