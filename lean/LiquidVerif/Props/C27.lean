import LiquidVerif.Model.MacroRender
/-!
# C27 — macro calls and with blocks bind arguments as documented
-/
namespace LiquidVerif.C27
open LiquidVerif.MacroArgs LiquidVerif.MacroRender

theorem dictGet_dictSet {α} (d : List (Name × α)) (k k' : Name) (v : α) :
    dictGet (dictSet d k v) k' = if k' = k then some v else dictGet d k' := by
  induction d with
  | nil => simp [dictSet, dictGet, eq_comm]
  | cons p r ih =>
    obtain ⟨a, b⟩ := p
    by_cases h : a = k
    · subst h; by_cases h2 : k' = a <;> simp [dictSet, dictGet, h2, eq_comm]
    · by_cases h2 : a = k'
      · subst h2; simp [dictSet, dictGet, h]
      · simp [dictSet, dictGet, h, h2, ih]

end LiquidVerif.C27
