import LiquidVerif.Lemmas.MacroArgs
/-!
# C27 — macro calls and with blocks bind arguments as documented

Property theorems about `Model/MacroArgs.lean` (`CallNode.macro_args`, `Parameter.parse`) and
`Model/MacroRender.lean` (`with`, `assign`, `macro`, `call` over the scope chain).
Helper lemmas live in `Lemmas/MacroArgs.lean`.
-/
namespace LiquidVerif.C27
open LiquidVerif.MacroArgs LiquidVerif.MacroRender

/-! ## "A call binds positional arguments to the macro's parameters in order, then keyword arguments by
name, falls back to parameter defaults and otherwise to undefined" -/

/-- the parameter list of a macro is a dictionary: one entry per name (a repeated name keeps its first
position and its last default) -/
theorem params_nodup (ps : List (Name × Option Expr)) : (keys (parseParams ps)).Nodup :=
  nodup_keys_dictOf ps

/-- exactly the parameters are bound, in the parameters' order — whatever the arguments are -/
theorem bind_names (params : List (Name × Option Expr)) (pos : List Expr) (kw : List (Name × Expr)) :
    keys (macroArgs params pos kw).args = keys params := by
  unfold macroArgs
  simp only
  have h1 := bp_keys (keys params) pos params [] (fun x hx => hx)
  rw [bk_keys (keys params) kw _ [] (fun x hx => by rw [h1]; exact hx), h1]

/-- **bind_spec**, for every parameter dict, every positional list and every keyword list (any lengths,
matching / non-matching / duplicate names): a parameter `n` is bound to
the last keyword argument called `n` if there is one; otherwise to the positional argument paired with it
by position; otherwise to its default (`none` = no default = undefined). -/
theorem bind_spec (params : List (Name × Option Expr)) (pos : List Expr) (kw : List (Name × Expr)) (n : Name)
    (hn : n ∈ keys params) :
    dictGet (macroArgs params pos kw).args n =
      match lastOf kw n with
      | some e => some (some e)
      | none =>
        match lastOf ((keys params).zip pos) n with
        | some e => some (some e)
        | none => dictGet params n := by
  unfold macroArgs
  simp only
  rw [bk_get_args, lastOf_filter_pos (fun a => decide (a ∈ keys params)) kw n (by simpa using hn), bp_get]
  cases lastOf kw n with
  | some e => rfl
  | none => cases lastOf ((keys params).zip pos) n <;> rfl

theorem dictGet_index {α} (d : List (Name × α)) (hnd : (keys d).Nodup) (i : Nat) (hi : i < d.length) :
    dictGet d (d[i]).1 = some (d[i]).2 := by
  induction d generalizing i with
  | nil => simp at hi
  | cons p r ih =>
    obtain ⟨a, b⟩ := p
    have hnd' : a ∉ keys r ∧ (keys r).Nodup := List.nodup_cons.mp hnd
    cases i with
    | zero => simp [dictGet]
    | succ j =>
      have hj : j < r.length := by simpa using hi
      have hne : ¬ a = (r[j]).1 := fun e => hnd'.1 (by
        rw [e]; exact List.mem_map.mpr ⟨r[j], List.getElem_mem hj, rfl⟩)
      simp only [List.getElem_cons_succ, dictGet, hne, if_false]
      exact ih hnd'.2 j hj

/-- **bind_spec, by position**: the i-th parameter gets the last keyword argument of its name, else the
i-th positional argument, else its default, else nothing (undefined). -/
theorem bind_spec_index (params : List (Name × Option Expr)) (pos : List Expr) (kw : List (Name × Expr))
    (hnd : (keys params).Nodup) (i : Nat) (hi : i < params.length) :
    dictGet (macroArgs params pos kw).args (params[i]).1 =
      some (match lastOf kw (params[i]).1 with
        | some e => some e
        | none => if h : i < pos.length then some pos[i] else (params[i]).2) := by
  have hk : (keys params)[i]'(by simpa [keys] using hi) = (params[i]).1 := by simp [keys]
  have hmem : (params[i]).1 ∈ keys params := List.mem_map.mpr ⟨params[i], List.getElem_mem hi, rfl⟩
  rw [bind_spec params pos kw _ hmem]
  cases lastOf kw (params[i]).1 with
  | some e => rfl
  | none =>
    simp only
    by_cases hp : i < pos.length
    · have := lastOf_zip_index (keys params) pos hnd i (by simpa [keys] using hi) hp
      rw [hk] at this
      simp [this, hp]
    · have := lastOf_zip_beyond (keys params) pos hnd i (by simpa [keys] using hi) (by omega)
      rw [hk] at this
      simp [this, hp, dictGet_index params hnd i hi]

/-! ## "…and exposes surplus positional and keyword arguments as args and kwargs" -/

/-- the surplus positional arguments are exactly those beyond the number of parameters, in order -/
theorem bind_surplus_args (params : List (Name × Option Expr)) (pos : List Expr) (kw : List (Name × Expr)) :
    (macroArgs params pos kw).excessArgs = pos.drop params.length := by
  unfold macroArgs
  simp [bp_excess, keys]

/-- the surplus keyword arguments are exactly those whose name is not a parameter (last value of a
repeated name), and they form a dictionary -/
theorem bind_surplus_kwargs (params : List (Name × Option Expr)) (pos : List Expr) (kw : List (Name × Expr))
    (n : Name) :
    dictGet (macroArgs params pos kw).excessKwargs n = (if n ∈ keys params then none else lastOf kw n) ∧
    (keys (macroArgs params pos kw).excessKwargs).Nodup := by
  unfold macroArgs
  simp only
  refine ⟨?_, bk_nodup_ek _ _ _ _ (by simp [keys])⟩
  rw [bk_get_ek]
  by_cases hn : n ∈ keys params
  · rw [lastOf_filter_neg (fun a => !decide (a ∈ keys params)) kw n (by simpa using hn)]
    simp [hn, dictGet]
  · rw [lastOf_filter_pos (fun a => !decide (a ∈ keys params)) kw n (by simpa using hn)]
    cases lastOf kw n <;> simp [hn, dictGet]

/-! ## The namespace the macro body sees -/

theorem lastOf_eq_dictGet {α} (d : List (Name × α)) (hnd : (keys d).Nodup) (n : Name) : lastOf d n = dictGet d n := by
  induction d with
  | nil => rfl
  | cons p r ih =>
    obtain ⟨a, b⟩ := p
    have hnd' : a ∉ keys r ∧ (keys r).Nodup := List.nodup_cons.mp hnd
    have := ih hnd'.2
    simp only [lastOf, dictGet, this]
    by_cases h : a = n
    · subst h
      have : dictGet r a = none := (dictGet_none_iff r a).mpr hnd'.1
      simp [this]
    · simp only [h, if_false]
      cases dictGet r n <;> rfl

theorem lastOf_map {α β} (f : α → β) (d : List (Name × α)) (n : Name) :
    lastOf (d.map fun p => (p.1, f p.2)) n = (lastOf d n).map f := by
  induction d with
  | nil => rfl
  | cons p r ih =>
    obtain ⟨a, b⟩ := p
    simp only [List.map_cons, lastOf, ih]
    cases lastOf r n with
    | some x => rfl
    | none => by_cases h : a = n <;> simp [h]

/-- **call_binds**: in the macro body a parameter resolves to its bound expression evaluated *in the
caller's scope*, or to undefined when nothing was bound (`paramVal`) — also for a parameter called
`args` / `kwargs`. -/
theorem call_binds (pushed : List NS) (locals : NS) (globals : List NS) (b : Bound)
    (hnd : (keys b.args).Nodup) (n : Name) (v : Option Expr) (hn : dictGet b.args n = some v) :
    dictGet (callNamespace pushed locals globals b) n = some (paramVal pushed locals globals v) := by
  unfold callNamespace
  simp only
  have hfold : ∀ (l : List (Name × Option Expr)) (base : NS),
      l.foldl (fun ns p => dictSet ns p.1 (paramVal pushed locals globals p.2)) base
      = (l.map fun p => (p.1, paramVal pushed locals globals p.2)).foldl (fun d p => dictSet d p.1 p.2) base := by
    intro l
    induction l with
    | nil => intro base; rfl
    | cons p r ih => intro base; simp only [List.foldl_cons, List.map_cons]; exact ih _
  rw [hfold, dictGet_foldl_dictSet, lastOf_map (paramVal pushed locals globals) b.args n,
    lastOf_eq_dictGet b.args hnd n, hn]
  rfl

/-- **call_exposes_surplus**: unless a parameter is itself called `args` (`kwargs`), `args` is the list
of surplus positional values and `kwargs` the dictionary of surplus keyword values, evaluated in the
caller's scope. -/
theorem call_exposes_surplus (pushed : List NS) (locals : NS) (globals : List NS) (b : Bound) :
    ("args" ∉ keys b.args → dictGet (callNamespace pushed locals globals b) "args"
        = some (.list (b.excessArgs.map fun e => asVal (eval pushed locals globals e)))) ∧
    ("kwargs" ∉ keys b.args → dictGet (callNamespace pushed locals globals b) "kwargs"
        = some (.dict (b.excessKwargs.map fun p => (p.1, asVal (eval pushed locals globals p.2))))) := by
  have hfold : ∀ (l : List (Name × Option Expr)) (base : NS) (k : Name), k ∉ keys l →
      dictGet (l.foldl (fun ns p => dictSet ns p.1 (paramVal pushed locals globals p.2)) base) k
        = dictGet base k := by
    intro l
    induction l with
    | nil => intro base k _; rfl
    | cons p r ih =>
      intro base k hk
      have hk' : ¬ k = p.1 ∧ k ∉ keys r := by
        simpa [keys, not_or] using hk
      simp only [List.foldl_cons]
      rw [ih _ k hk'.2, dictGet_dictSet]
      simp [hk'.1]
  constructor
  · intro h; unfold callNamespace; simp only; rw [hfold _ _ _ h]; simp [dictGet]
  · intro h; unfold callNamespace; simp only; rw [hfold _ _ _ h]; simp [dictGet]

/-! ## "The with tag makes its keyword arguments visible only inside its block, where they shadow outer
names" -/

theorem resolve_cons (ns : NS) (pushed : List NS) (locals : NS) (globals : List NS) (k : Name) :
    resolve (ns :: pushed) locals globals k =
      match dictGet ns k with
      | some o => o
      | none => resolve pushed locals globals k := by
  simp only [resolve, List.cons_append, lookupChain]
  cases dictGet ns k <;> rfl

/-- **with_shadows**: inside the block an argument name resolves to the argument's value — the last one
if the name is repeated — evaluated in the scope *outside* the block, no matter what enclosing `with`
blocks, assigned variables or globals bind the same name to. -/
theorem with_shadows (pushed : List NS) (locals : NS) (globals : List NS) (args : List (Name × Expr))
    (k : Name) (e : Expr) (h : lastOf args k = some e) :
    resolve (evalArgs pushed locals globals args :: pushed) locals globals k = eval pushed locals globals e := by
  rw [resolve_cons]
  unfold evalArgs
  rw [dictGet_dictOf, lastOf_map (fun x => eval pushed locals globals x) args k, h]
  rfl

/-- **with_transparent**: every other name resolves inside the block exactly as outside. -/
theorem with_transparent (pushed : List NS) (locals : NS) (globals : List NS) (args : List (Name × Expr))
    (k : Name) (h : lastOf args k = none) :
    resolve (evalArgs pushed locals globals args :: pushed) locals globals k = resolve pushed locals globals k := by
  rw [resolve_cons]
  unfold evalArgs
  rw [dictGet_dictOf, lastOf_map (fun x => eval pushed locals globals x) args k, h]
  rfl

/-- an `assign` inside the block to a name the block binds does not change what the name means inside
the block (the assignment lands in the locals, behind the block's namespace) -/
theorem with_shadows_assign (pushed : List NS) (locals : NS) (globals : List NS) (args : List (Name × Expr))
    (k : Name) (e : Expr) (v : Obj) (h : lastOf args k = some e) :
    resolve (evalArgs pushed locals globals args :: pushed) (dictSet locals k v) globals k
      = eval pushed locals globals e := by
  rw [resolve_cons]
  unfold evalArgs
  rw [dictGet_dictOf, lastOf_map (fun x => eval pushed locals globals x) args k, h]
  rfl

/-- **with_scoped_on_every_exit**: the scope stack is balanced over every node, whatever way the node is
left — normally, by `break`, by `continue`, or by an error (`ContextDepthError`, a failing filter) —
for every nesting of `with`, `for`, `if` and macro calls.  In particular the namespace a `with` block pushes
is popped on each of these exits (the `try … finally` of `RenderContext.extend`), so its arguments are
visible *only* inside the block; and a `for` loop keeps everything below its own namespace. -/
theorem with_scoped_on_every_exit (limit : Nat) :
    (∀ (depth base : Nat) (globals : List NS) (st : State) (n : Node),
      (render limit depth base globals st n).1.pushed = st.pushed) ∧
    (∀ (depth base : Nat) (globals : List NS) (st : State) (v : Name) (i rem : Nat) (body : List Node),
      (renderLoop limit depth base globals st v i rem body).1.pushed.tail = st.pushed.tail) ∧
    (∀ (depth base : Nat) (globals : List NS) (st : State) (ns : List Node),
      (renderList limit depth base globals st ns).1.pushed = st.pushed) := by
  apply render.mutual_induct limit
    (motive1 := fun depth base globals st n => (render limit depth base globals st n).1.pushed = st.pushed)
    (motive2 := fun depth base globals st v i rem body =>
      (renderLoop limit depth base globals st v i rem body).1.pushed.tail = st.pushed.tail)
    (motive3 := fun depth base globals st ns => (renderList limit depth base globals st ns).1.pushed = st.pushed)
  -- leaves: text out assign dumpList dumpDict brk cont fail
  · intros; simp [render]
  · intros; simp [render]
  · intros; simp [render]
  · intros; simp [render]
  · intros; simp [render]
  · intros; simp [render]
  · intros; simp [render]
  · intros; simp [render]
  -- with: too deep / entered
  · intro depth base globals st args body h; simp [render, h]
  · intro depth base globals st args body ns h ih
    have ih' : (renderList limit depth base globals (st.push (evalArgs st.pushed st.locals globals args)) body).1.pushed
        = evalArgs st.pushed st.locals globals args :: st.pushed := ih
    rw [render]; simp only [h, if_false]
    simp only [State.pop, ih', List.tail_cons]
  -- if
  · intro depth base globals st v k body h ih; rw [render]; simp only [h, if_true]; exact ih
  · intro depth base globals st v k body h; rw [render]; simp only [h, if_false]
  -- for: empty / too deep / entered
  · intro depth base globals st v body; simp [render]
  · intro depth base globals st v n body hn h; rw [render]; simp only [hn, if_false, h, if_true]
  · intro depth base globals st v n body hn h ih
    have ih' : (renderLoop limit depth base globals (st.push [(v, .val .undef)]) v 1 n body).1.pushed.tail
        = st.pushed := ih
    rw [render]; simp only [hn, if_false, h]
    simp only [State.pop, ih']
  -- include: too deep (tag) / too deep (partial) / rendered
  · intro depth base globals st body h; rw [render]; simp only [h, if_true]
  · intro depth base globals st body h h2; rw [render]; simp only [h, if_false, h2, if_true]
  · intro depth base globals st body h h2 ih
    have ih' : (renderList limit depth base globals ((st.push []).push []) body).1.pushed
        = [] :: [] :: st.pushed := ih
    rw [render]; simp only [h, if_false, h2]
    simp only [State.pop, ih', List.tail_cons]
  -- render: too deep / rendered
  · intro depth base globals st args body h; rw [render]; simp only [h, if_true]
  · intro depth base globals st args body ns h _; rw [render]; simp only [h, if_false]
  -- macro definition
  · intros; simp [render]
  -- call: unknown / too deep / rendered
  · intro depth base globals st name pos kw hm; rw [render]; simp only [hm]
  · intro depth base globals st name pos kw m hm hd; rw [render]; simp only [hm, hd, if_true]
  · intro depth base globals st name pos kw m hm ns hd _; rw [render]; simp only [hm, hd, if_false]
  -- loop: no iteration left / break / error / next iteration
  · intros; simp [renderLoop]
  · intro depth base globals st v i body rem' st1 r hs ih
    have hs' : (renderList limit depth base globals
        { pushed := [(v, .val (.int i))] :: st.pushed.tail, locals := st.locals, macros := st.macros } body).2.2
        = Sig.brk := hs
    have ih' : (renderList limit depth base globals
        { pushed := [(v, .val (.int i))] :: st.pushed.tail, locals := st.locals, macros := st.macros } body).1.pushed
        = [(v, .val (.int i))] :: st.pushed.tail := ih
    rw [renderLoop]
    simp only [hs', ih', List.tail_cons]
  · intro depth base globals st v i body rem' st1 r e hs ih
    have hs' : (renderList limit depth base globals
        { pushed := [(v, .val (.int i))] :: st.pushed.tail, locals := st.locals, macros := st.macros } body).2.2
        = Sig.error e := hs
    have ih' : (renderList limit depth base globals
        { pushed := [(v, .val (.int i))] :: st.pushed.tail, locals := st.locals, macros := st.macros } body).1.pushed
        = [(v, .val (.int i))] :: st.pushed.tail := ih
    rw [renderLoop]
    simp only [hs', ih', List.tail_cons]
  · intro depth base globals st v i body rem' st1 r hb he ih _ ih2
    have ih' : (renderList limit depth base globals
        { pushed := [(v, .val (.int i))] :: st.pushed.tail, locals := st.locals, macros := st.macros } body).1.pushed
        = [(v, .val (.int i))] :: st.pushed.tail := ih
    have ih2' : (renderLoop limit depth base globals (renderList limit depth base globals
        { pushed := [(v, .val (.int i))] :: st.pushed.tail, locals := st.locals, macros := st.macros } body).1
        v (i + 1) rem' body).1.pushed.tail = (renderList limit depth base globals
        { pushed := [(v, .val (.int i))] :: st.pushed.tail, locals := st.locals, macros := st.macros } body).1.pushed.tail := ih2
    rw [renderLoop]
    cases hs : (renderList limit depth base globals
        { pushed := [(v, .val (.int i))] :: st.pushed.tail, locals := st.locals, macros := st.macros } body).2.2 with
    | brk => exact absurd hs hb
    | error e => exact absurd hs (he e)
    | normal => simp only [ih2', ih', List.tail_cons]
    | cont => simp only [ih2', ih', List.tail_cons]
  -- lists
  · intros; simp [renderList]
  · intro depth base globals st n ns r hs ih1 ih2
    have hs' : (render limit depth base globals st n).2.2 = Sig.normal := hs
    have ih2' : (renderList limit depth base globals (render limit depth base globals st n).1 ns).1.pushed
        = (render limit depth base globals st n).1.pushed := ih2
    rw [renderList]
    simp only [hs', ih2', ih1]
  · intro depth base globals st n ns r hs ih1
    rw [renderList]
    cases hs2 : (render limit depth base globals st n).2.2 with
    | normal => exact absurd hs2 hs
    | brk => simp only [ih1]
    | cont => simp only [ih1]
    | error e => simp only [ih1]

/-- a `with` block as such: after `{% with … %}…{% endwith %}` the scope stack is what it was, however the
block was left -/
theorem with_pops (limit depth base : Nat) (globals : List NS) (st : State) (args : List (Name × Expr))
    (body : List Node) : (render limit depth base globals st (.withB args body)).1.pushed = st.pushed :=
  (with_scoped_on_every_exit limit).1 depth base globals st _

/-- a macro call never touches the caller's state — not even when its body is left by an interrupt or an
error -/
theorem call_leaves_caller_state (limit depth base : Nat) (globals : List NS) (st : State) (name : Name)
    (pos : List Expr) (kw : List (Name × Expr)) :
    (render limit depth base globals st (.call name pos kw)).1 = st := by
  rw [render]
  cases dictGet st.macros name with
  | none => rfl
  | some m => simp only []; split <;> rfl

/-! ## Macros across templates: `include` shares them, `render` isolates them -/

/-- **include_shares_macros**: a macro defined by an included template is registered in the *parent's*
state — the parent (and any template it includes later) can call it. -/
theorem include_shares_macros (limit depth base : Nat) (globals : List NS) (st : State) (f : Name)
    (ps : List (Name × Option Expr)) (b : List Node) (hlim : base + (st.pushed.length + 1) ≤ limit) :
    render limit depth base globals st (.included [.macroDef f ps b])
      = ({ st with macros := dictSet st.macros f { params := parseParams ps, body := b } }, "", .normal) := by
  have h1 : ¬ base + st.pushed.length > limit := by omega
  have h2 : ¬ base + (st.pushed.length + 1) > limit := by omega
  rw [render]; simp only [h1, h2, if_false]
  rw [renderList, render]
  simp [renderList, State.push, State.pop]

/-- **render_isolates_state**: whatever a rendered partial assigns or defines (macros included), the caller's
state is what it was. -/
theorem render_isolates_state (limit depth base : Nat) (globals : List NS) (st : State)
    (args : List (Name × Expr)) (body : List Node) :
    (render limit depth base globals st (.isolated args body)).1 = st := by
  rw [render]; simp only []; split <;> rfl

/-- **render_hides_macros**: a macro of the caller cannot be called from a rendered partial (the copy has
its own, empty, macro table): the call renders nothing. -/
theorem render_hides_macros (limit depth base : Nat) (globals : List NS) (st : State)
    (args : List (Name × Expr)) (f : Name) (pos : List Expr) (kw : List (Name × Expr)) (hd : depth ≤ limit) :
    render limit depth base globals st (.isolated args [.call f pos kw]) = (st, "", .normal) := by
  have h : ¬ depth > limit := by omega
  rw [render]; simp only [h, if_false]
  rw [renderList, render]
  simp [renderList, dictGet]

/-- **with_visible_inside**: the rendered form of `with_shadows` — `{% with …, k: e, … %}{{ k }}{% endwith %}`
prints the value of `e` taken outside the block and leaves the state alone. -/
theorem with_visible_inside (limit depth base : Nat) (globals : List NS) (st : State)
    (args : List (Name × Expr)) (k : Name) (e : Expr) (h : lastOf args k = some e)
    (hlim : base + st.pushed.length ≤ limit) :
    render limit depth base globals st (.withB args [.out (.var k)])
      = (st, objStr (eval st.pushed st.locals globals e), .normal) := by
  have hl : ¬ base + st.pushed.length > limit := by omega
  rw [render]; simp only [hl, if_false]
  rw [renderList, render]
  simp only [renderList, State.push, State.pop, eval, List.tail_cons,
    with_shadows st.pushed st.locals globals args k e h, String.append_empty]

/-- **break leaves the block's names behind**: in `for … {% with k: e %}{% break %}{% endwith %}` style
templates the interrupt passes through the block, and the block's namespace is gone afterwards:
a `with` whose body is just `{% break %}` returns the state unchanged and the signal `brk`. -/
theorem with_break_pops (limit depth base : Nat) (globals : List NS) (st : State)
    (args : List (Name × Expr)) (hlim : base + st.pushed.length ≤ limit) :
    render limit depth base globals st (.withB args [.brk]) = (st, "", .brk) := by
  have hl : ¬ base + st.pushed.length > limit := by omega
  rw [render]; simp only [hl, if_false]
  rw [renderList, render]
  simp [State.push, State.pop]

/-! ## Non-vacuity -/

example : lastOf [("a", Expr.lit "1"), ("b", .var "x"), ("a", .lit "2")] "a" = some (.lit "2") := by decide

example : (macroArgs (parseParams [("a", none), ("b", some (.lit "B")), ("a", some (.lit "A2"))])
    [.lit "1", .lit "2", .lit "3"] [("z", .lit "5"), ("b", .lit "7"), ("z", .lit "6")])
    = { args := [("a", some (.lit "1")), ("b", some (.lit "7"))], excessArgs := [.lit "3"],
        excessKwargs := [("z", .lit "6")] } := by decide

example : render 30 0 5 [] { pushed := [], locals := [], macros := [] } (.withB [("p", .lit "x")] [.brk])
    = ({ pushed := [], locals := [], macros := [] }, "", .brk) :=
  with_break_pops 30 0 5 [] _ _ (by decide)

end LiquidVerif.C27
