import LiquidVerif.Lemmas.Printer
import LiquidVerif.Lemmas.PathRT
import LiquidVerif.Lemmas.ExprRT
/-!
# C04 — serialising a template back to source preserves its meaning

Property theorems about `Model/BoolParse.lean` (the logical-expression parser of `logical.py`) and
`Model/Printer.lean` (the `__str__` methods).  Helper lemmas live in `Lemmas/Printer.lean`.
-/
namespace LiquidVerif.C04
open LiquidVerif.BoolParse LiquidVerif.Printer

/-- **"the text produced by str() parses without error" + "renders identically … for all data"**, for
every logical expression over `and`/`or`/`not`/comparisons/`contains`/groups, of any size and nesting,
in any position where the expression is followed by the end of the expression or by a token that is
not a binary operator (`)`, `else`, `||`, …): re-parsing the printed text yields an expression `e'`
with the same value under **every** semantics `s` of atoms, comparisons and truthiness. -/
theorem parse_print_bool (e : E) (rest : List Tok) (h : Stop rest) :
    ∃ e', parsePrim 1 (printBool e ++ rest) = some (e', rest) ∧
      ∀ (V : Type) (s : Sem V), evalB s e' = evalB s e := by
  refine ⟨e, ?_, fun _ _ => rfl⟩
  have := rt e 0 false 1 rest (Or.inr (good_of_stop e (by omega) h))
  rw [printBool, this, loop_follow e (h.follow 1)]

/-- Stronger form actually proved: the re-parsed tree is the *same tree*. -/
theorem parse_print_bool_exact (e : E) (rest : List Tok) (h : Stop rest) :
    parsePrim 1 (printBool e ++ rest) = some (e, rest) := by
  have := rt e 0 false 1 rest (Or.inr (good_of_stop e (by omega) h))
  rw [printBool, this, loop_follow e (h.follow 1)]

/-- `BooleanExpression.parse(inline=False)` (if/unless/elsif conditions): the whole text is consumed. -/
theorem parse_print_bool_all (e : E) : parseAll (printBool e) = some e := by
  have := parse_print_bool_exact e [] (Or.inl rfl)
  simp only [List.append_nil] at this
  simp [parseAll, this]

/-- **"Serialising the re-parsed template again yields the same text."** -/
theorem print_idempotent (e e' : E) (h : parseAll (printBool e) = some e') : printBool e' = printBool e := by
  rw [parse_print_bool_all] at h
  cases h; rfl

/-- Non-vacuity: the hypotheses are met by the two expressions the unchanged tree got wrong, inside a
ternary (`… if (a and b) or c else …`) and at the end of an `if` tag. -/
example : Stop [Tok.other 0, Tok.atom 9] := Or.inr ⟨_, _, rfl, rfl⟩
example : printBool (.or (.and (.atom 0) (.atom 1)) (.atom 2))
    = [.lp, .atom 0, .and, .atom 1, .rp, .or, .atom 2] := by decide
example : printBool (.and (.not (.atom 0)) (.cmp .eq (.and (.atom 1) (.atom 2)) (.atom 3)))
    = [.lp, .not, .atom 0, .rp, .and, .lp, .atom 1, .and, .atom 2, .rp, .cmp .eq, .atom 3] := by decide

/-! ### The printer of the unchanged tree violated the property (kept as stated counter-examples;
repaired by `fix:` 15d7f42 on branch fix-C04) -/

def semBool (ρ : Nat → Bool) : Sem Bool :=
  { av := ρ, cs := fun _ a b => a == b, tr := id, ofBool := id }

/-- `(a and b) or c` was printed `a and b or c`, which the parser reads as `a and (b or c)`:
different value for `a = false, c = true`. -/
theorem orig_printer_or_and_counterexample :
    ¬ (∀ e e', parseAll (printBOrig 0 e) = some e' → ∀ ρ, evalB (semBool ρ) e' = evalB (semBool ρ) e) := by
  intro h
  have hp : parseAll (printBOrig 0 (.or (.and (.atom 0) (.atom 1)) (.atom 2)))
      = some (.and (.atom 0) (.or (.atom 1) (.atom 2))) := by
    simp [parseAll, printBOrig, wrapIf, parsePrim_atom, loop_cons, loop_nil, prec, isBin, mkInfix]
  have := h _ _ hp (fun n => n == 2)
  simp [evalB, semBool] at this

/-- `(not a) or b` was printed `not a or b`, read back as `not (a or b)`. -/
theorem orig_printer_not_counterexample :
    ¬ (∀ e e', parseAll (printBOrig 0 e) = some e' → ∀ ρ, evalB (semBool ρ) e' = evalB (semBool ρ) e) := by
  intro h
  have hp : parseAll (printBOrig 0 (.or (.not (.atom 0)) (.atom 1)))
      = some (.not (.or (.atom 0) (.atom 1))) := by
    simp [parseAll, printBOrig, wrapIf, parsePrim_atom, parsePrim_not, loop_cons, loop_nil, prec, isBin, mkInfix]
  have := h _ _ hp (fun n => n == 1)
  simp [evalB, semBool] at this

/-- `(a and b) == c` was printed `a and b == c`, read back as `a and (b == c)`. -/
theorem orig_printer_cmp_counterexample :
    ¬ (∀ e e', parseAll (printBOrig 0 e) = some e' → ∀ ρ, evalB (semBool ρ) e' = evalB (semBool ρ) e) := by
  intro h
  have hp : parseAll (printBOrig 0 (.cmp .eq (.and (.atom 0) (.atom 1)) (.atom 2)))
      = some (.and (.atom 0) (.cmp .eq (.atom 1) (.atom 2))) := by
    simp [parseAll, printBOrig, strOrig, parsePrim_atom, loop_cons, loop_nil, prec, isBin, mkInfix]
  have := h _ _ hp (fun _ => false)
  simp [evalB, semBool] at this

/-! ### String literals -/

theorem untilQuote_append (q : Char) (v rest : List Char) (h : q ∉ v) :
    untilQuote q (v ++ q :: rest) = some (v, rest) := by
  induction v with
  | nil => simp [untilQuote]
  | cons c cs ih =>
    have hc : c ≠ q := fun h' => h (by simp [h'])
    have hcs : q ∉ cs := fun h' => h (by simp [h'])
    simp [untilQuote, hc, ih hcs]

/-- **String literals containing quotes, backslashes and newlines**: whatever characters the value
has (backslashes, newlines, braces, one kind of quote), the lexer's string rule reads the printed
literal back as exactly the same value and stops right after it.  A value containing *both* kinds of
quote cannot come from a parsed template (the lexer has no escapes), hence the hypothesis. -/
theorem unquote_quote (v rest : List Char) (h : ¬ ('\'' ∈ v ∧ '"' ∈ v)) :
    scanString (quoteStr v ++ rest) = some (v, rest) := by
  have hq : quoteOf v ∉ v := by
    unfold quoteOf
    by_cases h1 : '\'' ∈ v
    · simp only [h1, if_true]; exact fun h2 => h ⟨h1, h2⟩
    · simp [h1]
  have hq2 : quoteOf v = '"' ∨ quoteOf v = '\'' := by
    unfold quoteOf; split <;> simp
  have : quoteStr v ++ rest = quoteOf v :: (v ++ quoteOf v :: rest) := by simp [quoteStr]
  rw [this, scanString]
  simp only [hq2, if_true]
  exact untilQuote_append _ _ _ hq

/-- the hypothesis of `unquote_quote` is met by a value with a quote, a backslash and a newline -/
example : ¬ ('\'' ∈ ['i', 't', '\'', 's', '\\', '\n'] ∧ '"' ∈ ['i', 't', '\'', 's', '\\', '\n']) := by decide

/-- Python `repr` (the unchanged tree; repaired by `fix:` 5e919ac) doubles a backslash: the literal
`'a\b'` did not come back as the value `a\b`. -/
theorem orig_repr_backslash_counterexample :
    ¬ (∀ v, ¬ ('\'' ∈ v ∧ '"' ∈ v) → scanString (reprOrig v) = some (v, [])) := by
  intro h
  have := h ['a', '\\', 'b'] (by decide)
  revert this; decide

/-- … and turns a newline into the two characters `\` `n`. -/
theorem orig_repr_newline_counterexample :
    ¬ (∀ v, ¬ ('\'' ∈ v ∧ '"' ∈ v) → scanString (reprOrig v) = some (v, [])) := by
  intro h
  have := h ['a', '\n', 'b'] (by decide)
  revert this; decide

/-! ### Paths -/

/-- **Bracketed and nested paths** (`[x]`, `a[b.c][0]['x y'].z`, quoted and keyword segments, bracketed
roots): the tokens of the printed path, followed by anything that does not continue a path, are read
back by `Path.parse` as exactly the same segments — for every path whose nested paths are non-empty
(which is what the parser produces), of any length and nesting depth. -/
theorem path_print_parse (s : Seg) (p : Segs) (rest : List PTok) (hw : (Segs.cons s p).wf) (hs : PathStop rest) :
    parsePath (tokSegs true (.cons s p) ++ rest) = some (.cons s p, rest) :=
  parsePath_of_loop _ _ _ _ (segs_rt (.cons s p) true rest hw hs)

/-- non-vacuity: `[x].a['b c'][[k]][0]` is well formed, and `)`/`|`/end of expression stop a path -/
example : (Segs.cons (.sub (.cons (.name "x") .nil)) (.cons (.name "a") (.cons (.name "b c")
    (.cons (.sub (.cons (.sub (.cons (.name "k") .nil)) .nil)) (.cons (.idx 0) .nil))))).wf := by
  simp [Segs.wf, Seg.wf]
example : PathStop [] ∧ PathStop [.other 0] ∧ PathStop [.rbracket, .dot] := ⟨trivial, trivial, trivial⟩

/-- The unchanged tree printed the bracketed root `[x]` as `x` (a different variable). -/
theorem orig_path_root_counterexample :
    ¬ (∀ p : Segs, p.wf → p ≠ .nil → parsePath (tokSegsOrig p) = some (p, [])) := by
  intro h
  have h1 := h (.cons (.sub (.cons (.name "x") .nil)) .nil) (by simp [Segs.wf, Seg.wf]) (by simp)
  have h2 : parsePath (tokSegsOrig (.cons (.sub (.cons (.name "x") .nil)) .nil))
      = some (.cons (.name "x") .nil, []) := by
    have hp : isProperty "x" = true := by decide
    have : tokSegsOrig (.cons (.sub (.cons (.name "x") .nil)) .nil) = [.word "x"] := by
      simp [tokSegsOrig, tokSegs, tokSeg, hp]
    rw [this]
    apply parsePath_of_loop
    rw [pathLoop_word _ _ rfl, pathLoop_stop (by trivial)]
    rfl
  rw [h2] at h1
  simp at h1

/-! ### The keyword literals `nil`, `empty`, `blank` (known findings, not repaired)

`Nil.__str__`, `Empty.__str__` and `Blank.__str__` return the empty string (the first is pinned by the
repo's tests, the other two are also the run-time string conversion of the values).  So the text of a
primitive does not determine the primitive: no parser can read it back. -/
theorem keyword_literal_print_counterexample :
    ¬ (∀ p q : Prim, strPrim p = strPrim q → p = q) := by
  intro h
  have := h .empty .blank rfl
  cases this

/-- … and a comparison against one of them is printed without its right operand. -/
theorem empty_literal_text_counterexample :
    strBool { e := .cmp .eq (.atom 0) (.atom 1), atoms := [.path (.cons (.name "x") .nil), .empty] } = "x == " := by
  decide

/-! ### Deepening round: primitives and loop expressions at the level of the expression lexer's tokens -/
section Deepening
open LiquidVerif.ExprParse

/-- **Primitives (literals, ranges of any nesting, paths)**: `parse_primitive` applied to the tokens of
`str(p)` followed by any `rest` that does not continue a path returns exactly `(p, rest)` — for every
primitive except the keyword literals `nil`/`empty`/`blank` (known findings, see
`keyword_literal_print_counterexample`). -/
theorem prim_print_parse (p : Prim) (h : PrimOK p) (rest : List XTok) (hs : XStop rest) :
    prim (tokPrim p ++ rest) = some (p, rest) := prim_rt p h rest hs

/-- the three keyword literals are exactly why `prim_print_parse` carries `PrimOK`: they print no token -/
theorem prim_print_parse_counterexample : ¬ (∀ p : Prim, prim (tokPrim p) = some (p, [])) := by
  intro h
  have := h .empty
  simp [tokPrim, prim, primS] at this

/-- hypotheses of `loop_expr_print_parse`: the loop variable is a word, the operands are `PrimOK` -/
structure LoopOK (l : LoopX) : Prop where
  ident : isProperty l.ident = true
  it : PrimOK l.iterable
  limit : OptOK l.limit
  offset : OptOK l.offset
  cols : OptOK l.cols

/-- **for/else with limit/offset/reversed, tablerow (cols)**: `LoopExpression.parse` applied to the tokens of
`LoopExpression.__str__` returns the same loop expression, for every combination of options. -/
theorem loop_expr_print_parse (l : LoopX) (h : LoopOK l) : loopParse (tokLoop l) = some l := by
  have e : tokLoop l = xSegs true (.cons (.name l.ident) .nil) ++ (.kw "in" :: (tokPrim l.iterable ++ tokOpts l)) := by
    simp [tokLoop, tokOpts, xSegs, xSeg, h.ident]
  have hk := kwhead_opts l
  have h1 := prim_path (.name l.ident) .nil (.kw "in" :: (tokPrim l.iterable ++ tokOpts l))
    (by simp [Segs.wf, Seg.wf]) (xstop_kw _ _) (by intro i; simp)
  have h2 := prim_rt l.iterable h.it (tokOpts l) hk.xstop
  have h3 := opts_rt l h.limit h.offset h.cols
  have hc : skipComma (tokOpts l) = tokOpts l := by
    rcases hk with h0 | ⟨k, r, h0⟩ <;> rw [h0] <;> rfl
  unfold loopParse
  rw [e, h1]
  simp only [identOf, h2]
  rw [hc, h3]

/-- non-vacuity: `item in (1..user.n) limit:2 offset:'continue' cols:[k] reversed` -/
def exLoop : LoopX :=
  { ident := "item"
    iterable := .range (.int 1) (.path (.cons (.name "user") (.cons (.name "n") .nil)))
    limit := some (.int 2)
    offset := some (.str "continue")
    cols := some (.path (.cons (.sub (.cons (.name "k") .nil)) .nil))
    reversed := true }
example : LoopOK exLoop :=
  ⟨by decide, by simp [exLoop, PrimOK, Segs.wf, Seg.wf], by simp [exLoop, OptOK, PrimOK],
   by simp [exLoop, OptOK, PrimOK], by simp [exLoop, OptOK, PrimOK, Segs.wf, Seg.wf]⟩

/-- **Tie to the expression lexer (C20's `Model/ExprLex.lean`)**: on the *text* of a printed string
literal, one step of the lexer's alternation `_RE` yields a STRING match whose value group is the
original value and whose remaining input is `rest` — from characters, not from tokens. -/
theorem lex_string_literal (v rest : List Char) (h : ¬ ('\'' ∈ v ∧ '"' ∈ v)) :
    ∃ m, ExprLex.string? (quoteStr v ++ rest) = some m ∧ m.rule = .string ∧ m.grp = v ∧ m.rest = rest := by
  have hq : quoteOf v ∉ v := by
    unfold quoteOf
    by_cases h1 : '\'' ∈ v
    · simp only [h1, if_true]; exact fun h2 => h ⟨h1, h2⟩
    · simp [h1]
  have hq2 : quoteOf v = '"' ∨ quoteOf v = '\'' := by
    unfold quoteOf; split <;> simp
  have hf : ∀ (w : List Char), quoteOf v ∉ w → ExprLex.findQuote (quoteOf v) (w ++ quoteOf v :: rest) = some (w, rest) := by
    intro w hw
    induction w with
    | nil => simp [ExprLex.findQuote]
    | cons c cs ih =>
      have hc : c ≠ quoteOf v := fun h' => hw (by simp [h'])
      have hcs : quoteOf v ∉ cs := fun h' => hw (by simp [h'])
      simp [ExprLex.findQuote, hc, ih hcs]
  have e : quoteStr v ++ rest = quoteOf v :: (v ++ quoteOf v :: rest) := by simp [quoteStr]
  refine ⟨{ rule := .string, raw := quoteOf v :: (v ++ [quoteOf v]), gOff := 1, grp := v, rest := rest }, ?_, rfl, rfl, rfl⟩
  rw [e, ExprLex.string?]
  have hb : (quoteOf v == '"' || quoteOf v == '\'') = true := by
    rcases hq2 with h2 | h2 <;> simp [h2]
  simp only [hb, if_true, hf v hq]

end Deepening

end LiquidVerif.C04
