import LiquidVerif.Lemmas.TagAudit
import LiquidVerif.Gen.C21Tables
/-!
# C21 — tag analysis is total and raises no false alarms

Model: `LiquidVerif/Model/TagAudit.lean` (`audit` = `TagAnalysis._audit_tags`, `lexTags` = the lexer
at tag level, `strictParses` = the block grammar `Environment.from_string` accepts in strict mode).
Tables: `Gen/C21Tables.lean`, regenerated from the live registry on every run.
-/
namespace LiquidVerif.C21
open LiquidVerif.TagAudit LiquidVerif.Gen.C21

/-! ## Sentence 1 — the analysis returns a result without raising -/

/-- **Analysing the tags of any token list returns a result without raising** — for every
environment table and every list of tag names `_audit_tags` reaches its `return`: the only partial
operation, `block_stack.pop()` (`pyPop`, `IndexError` on `[]`), is never executed on an empty stack. -/
theorem audit_total (tbl : EnvTable) (toks : List TagName) : ∃ r, audit tbl toks = .ok r := by
  unfold audit
  obtain ⟨⟨st, r⟩, h⟩ := loop_ok tbl (fun t => (blockTagsOf tbl toks).contains t)
    (fun t => (endTagsOf toks).contains t) toks [] {}
  simp only [h]
  exact ⟨_, rfl⟩

/-- the same for sources: whatever tags the source contains, lexing then auditing returns -/
theorem audit_total_source (tbl : EnvTable) (src : List TagName) : ∃ r, audit tbl (lexTags src) = .ok r :=
  audit_total tbl (lexTags src)

/-! ## The generated tables agree with the parser's grammar -/

/-- `Environment()`: every registered block tag is closed by the tag the audit believes (`Tag.end`),
that tag is `"end" + name`, and every inner tag the parser accepts in a block is allowed there by
`DEFAULT_INNER_TAG_MAP`.  Re-decided by the kernel whenever the registry or the map changes. -/
theorem consistent_default : consistent defaultEnv = true := by decide +kernel

/-- the same for `Environment(extra=True)` -/
theorem consistent_extra : consistent extraEnv = true := by decide +kernel


/-- **The grammar model uses the tag names the parse methods use** (`Environment()`): for every
registered block tag, the set of names extracted from its `parse` source (`parse_block`/`eat_block`
end tuples, `expect`, `is_tag`, comparisons with `stream.current.value`) equals the model frame's
end tag + inner tags; inline tags look for no other tag than themselves.  Together with
`consistent_default` this compares the audit's tables with what the *parsers* accept. -/
theorem parser_names_agree_default : parserAgrees defaultEnv defaultParserNames = true := by decide +kernel

/-- the same for `Environment(extra=True)` -/
theorem parser_names_agree_extra : parserAgrees extraEnv extraParserNames = true := by decide +kernel

/-! ## Sentence 2 — a source that parses in strict mode is reported clean -/

/-- **Full statement, refuted on this tree (1/2)**: `{% break %}` alone parses in strict mode and is
reported unexpected (known finding `false-alarm|unexpected|break`, same for `continue`). -/
theorem strict_parse_implies_clean_counterexample_break :
    ¬ (strictParses defaultEnv [nm "break"] = true → audit defaultEnv [nm "break"] = .ok Report.clean) := by
  decide +kernel

/-- **Full statement, refuted on this tree (2/2)**: `if else else for endif` parses in strict mode
(tag-mode-LAX `if` skips everything after the extraneous `else`) and `for`, `if` are reported
unclosed (known finding `false-alarm|skipped-after-extraneous-else`). -/
theorem strict_parse_implies_clean_counterexample_junk :
    ¬ (strictParses defaultEnv [nm "if", nm "else", nm "else", nm "for", endNm "if"] = true →
        audit defaultEnv [nm "if", nm "else", nm "else", nm "for", endNm "if"] = .ok Report.clean) := by
  decide +kernel

/-- The restricted grammar is the strict parser's grammar with three behaviours switched off
(`Opts.restricted`): no skipping after an extraneous `else` in a tag-mode-LAX `if`/`unless`, no
`break`/`continue` outside a `for`, no tag tokens between a `comment`/`doc` TAG token and its end
tag (the lexer never produces those).  It accepts nothing the strict parser rejects, so the
hypothesis of `strict_parse_implies_clean_partial` is the property's hypothesis plus a decidable
restriction. -/
theorem restricted_sub_strict (tbl : EnvTable) (toks : List TagName)
    (h : parses tbl Opts.restricted toks = true) : strictParses tbl toks = true := by
  unfold strictParses parses
  rw [restricted_run_sub_strict tbl toks [] [] (parses_run h)]
  exact beq_self_eq_true _

/-- **For a source that parses without error in strict mode, no tag is reported as unclosed,
unexpected or unknown** — proved for every table consistent with the grammar and every token list
the *restricted* grammar accepts, by a simulation between the parser's frame stack and the audit's
block stack (no bound on length or nesting depth). -/
theorem strict_parse_implies_clean_partial (tbl : EnvTable) (hc : consistent tbl = true)
    (toks : List TagName) (_hs : strictParses tbl toks = true)
    (hr : parses tbl Opts.restricted toks = true) : audit tbl toks = .ok Report.clean :=
  restricted_clean hc hr

/-- instance for `Environment()` -/
theorem strict_parse_implies_clean_default_partial (toks : List TagName)
    (hr : parses defaultEnv Opts.restricted toks = true) : audit defaultEnv toks = .ok Report.clean :=
  restricted_clean consistent_default hr

/-- instance for `Environment(extra=True)` -/
theorem strict_parse_implies_clean_extra_partial (toks : List TagName)
    (hr : parses extraEnv Opts.restricted toks = true) : audit extraEnv toks = .ok Report.clean :=
  restricted_clean consistent_extra hr


/-- **The lexer never leaves tag tokens inside a comment, nor an `enddoc` after a `doc` token**: in
`lexTags src` a `comment` token is followed by `endcomment` or by nothing, and no `enddoc` token
follows a `doc` token (a closed `doc…enddoc` is one DOC token). -/
theorem lexer_output_shaped (src : List TagName) : lexShaped (lexTags src) = true := lexTags_shaped src

/-- **Sentence 2 for sources**: if the tags the lexer yields for a source are accepted by the strict
parser's grammar with only the two *listed* behaviours switched off (skipping after an extraneous
`else`; bare `break`/`continue`) then nothing is reported.  The third switch of the restricted
grammar is discharged by `lexer_output_shaped`. -/
theorem source_strict_parse_implies_clean_partial (tbl : EnvTable) (hc : consistent tbl = true)
    (src : List TagName) (h : parses tbl ⟨false, false, true⟩ (lexTags src) = true) :
    audit tbl (lexTags src) = .ok Report.clean := by
  have hrun := parses_run h
  have h2 := noskip_run tbl false false (lexTags src) [] (lexTags_shaped src) rfl
    (fun f hf => by cases hf) hrun
  refine restricted_clean hc ?_
  unfold parses
  rw [show Opts.restricted = (⟨false, false, false⟩ : Opts) from rfl, h2]
  exact beq_self_eq_true _


/-! ## Caller-supplied inner-tag maps (`analyze_tags_from_string(..., inner_tags=m)`) -/

/-- **Sentence 2 for any consistent caller-supplied map**: whatever map `m` the caller passes
(`withInner` = `inner_tags or DEFAULT_INNER_TAG_MAP`), if the resulting table is consistent with the
grammar, every token list the restricted grammar accepts is audited clean.  (Sentences 1 and 3 —
`audit_total`, `unknown_reported`, `unclosed_reported…` — already hold for every table, hence for
every map.) -/
theorem strict_parse_implies_clean_any_map_partial (tbl : EnvTable) (m : List (TagName × List TagName))
    (hc : consistent (withInner tbl m) = true) (toks : List TagName)
    (hr : parses tbl Opts.restricted toks = true) : audit (withInner tbl m) toks = .ok Report.clean :=
  restricted_clean hc (by rw [parses_withInner]; exact hr)

/-- **A map that allows at least what the default map allows raises no false alarms**: extending
`DEFAULT_INNER_TAG_MAP` (more inner tags, more blocks, any order) keeps the clean-report theorem. -/
theorem strict_parse_implies_clean_superset_map_partial (tbl : EnvTable) (hc : consistent tbl = true)
    (m : List (TagName × List TagName))
    (hsup : ∀ t b, (enclosing tbl t).contains b = true → (enclosing { tbl with inner := m } t).contains b = true)
    (toks : List TagName) (hr : parses tbl Opts.restricted toks = true) :
    audit (withInner tbl m) toks = .ok Report.clean := by
  refine strict_parse_implies_clean_any_map_partial tbl m ?_ toks hr
  unfold withInner
  split
  · exact hc
  · exact consistent_of_inner_superset tbl m hsup hc

/-- the hypothesis on the map is needed: a caller map without `else` for `if` makes the audit report
the `else` of a well-formed `if` (by design: the caller's map is authoritative) -/
theorem caller_map_without_else_counterexample :
    ¬ (audit (withInner defaultEnv [(nm "if", [nm "elsif"])]) [nm "if", nm "else", endNm "if"] = .ok Report.clean) := by
  decide +kernel

/-- an empty caller map is falsy and means the default map -/
theorem empty_map_is_default (tbl : EnvTable) : withInner tbl [] = tbl := rfl

/-! ## Sentence 3 — unknown tag names and block tags without an end tag are always reported -/

/-- **Unknown tag names are always reported**: a name in the token list that is not a registry key,
not an inner tag of any block and does not start with "end" is in `unknown_tags` — for every table
and token list, whatever else is wrong with the template. -/
theorem unknown_reported (tbl : EnvTable) (toks : List TagName) (u : TagName) (hu : u ∈ toks)
    (hne : u.isEnd = false) (hreg : (registered tbl).contains u = false) (hin : enclosing tbl u = []) :
    ∃ r, audit tbl toks = .ok r ∧ u ∈ r.unknown := by
  obtain ⟨⟨st, r⟩, h⟩ := loop_ok tbl (fun t => (blockTagsOf tbl toks).contains t)
    (fun t => (endTagsOf toks).contains t) toks [] {}
  have hE : (fun t => (endTagsOf toks).contains t) u = false := by
    simp only [endTags_contains hu, hne]
  have hmem := loop_reports_unknown tbl _ _ u hE hreg hin toks [] {} st r hu h
  refine ⟨_, by unfold audit; simp only [h]; rfl, ?_⟩
  exact finalPass_mono tbl _ _ hmem

/-- **Unknown end tags are always reported**: an `end…` name that is not the end tag of a registered
block is in `unknown_tags`, unless its start tag is (the code reports `foo` rather than `endfoo`
when both occur). -/
theorem unknown_end_reported (tbl : EnvTable) (toks : List TagName) (e : TagName) (he : e ∈ toks)
    (hend : e.isEnd = true) (hreg : (registeredEnds tbl).contains e = false) :
    ∃ r, audit tbl toks = .ok r ∧ (e ∈ r.unknown ∨ e.unEnd ∈ r.unknown) := by
  obtain ⟨⟨st, r⟩, h⟩ := loop_ok tbl (fun t => (blockTagsOf tbl toks).contains t)
    (fun t => (endTagsOf toks).contains t) toks [] {}
  refine ⟨_, by unfold audit; simp only [h]; rfl, ?_⟩
  exact finalPass_reports_end tbl e hend hreg (dedup toks) r.unknown (mem_dedup_of_mem he)

/-- **Block tags without an end tag are always reported**: a block tag (registered as a block, or
inferred from some `end…` tag) that occurs in the token list while `"end" + name` does not occur at
all is in `unclosed_tags` — for every table and token list. -/
theorem unclosed_reported (tbl : EnvTable) (toks : List TagName) (b : TagName) (hb : b ∈ toks)
    (hblock : (blockTagsOf tbl toks).contains b = true) (hno : b.endOf ∉ toks) :
    ∃ r, audit tbl toks = .ok r ∧ b ∈ r.unclosed := by
  obtain ⟨⟨st, r⟩, h⟩ := loop_ok tbl (fun t => (blockTagsOf tbl toks).contains t)
    (fun t => (endTagsOf toks).contains t) toks [] {}
  have hEnd : ∀ t, (fun t => (endTagsOf toks).contains t) t = true → t.isEnd = true := by
    intro t ht
    have := List.contains_iff_mem.mp ht
    exact (List.mem_filter.mp this).2
  have := loop_reports_unclosed tbl _ _ b hEnd hblock toks [] {} st r hb
    (fun t ht heq => hno (heq ▸ ht)) h
  refine ⟨_, by unfold audit; simp only [h]; rfl, ?_⟩
  simp only [List.mem_append, List.mem_reverse]
  exact this.symm


/-- **Counting form**: a block tag that occurs more often than its end tag is in `unclosed_tags`
(whatever the order, whatever else is in the template). -/
theorem unclosed_reported_count (tbl : EnvTable) (toks : List TagName) (b : TagName)
    (hblock : (blockTagsOf tbl toks).contains b = true) (hcount : toks.count b > toks.count b.endOf) :
    ∃ r, audit tbl toks = .ok r ∧ b ∈ r.unclosed := by
  obtain ⟨⟨st, r⟩, h⟩ := loop_ok tbl (fun t => (blockTagsOf tbl toks).contains t)
    (fun t => (endTagsOf toks).contains t) toks [] {}
  have hEnd : ∀ t, (fun t => (endTagsOf toks).contains t) t = true → t.isEnd = true := by
    intro t ht
    have := List.contains_iff_mem.mp ht
    exact (List.mem_filter.mp this).2
  have := loop_unclosed_count tbl _ _ b hEnd hblock toks [] {} st r
    (Or.inr (by simpa using hcount)) h
  refine ⟨_, by unfold audit; simp only [h]; rfl, ?_⟩
  simp only [List.mem_append, List.mem_reverse]
  exact this.symm

/-- every registered block tag is a block tag for the audit, so `unclosed_reported` applies to it -/
theorem registered_block_is_block (tbl : EnvTable) (toks : List TagName) (b : TagName)
    (h : (registeredBlocks tbl).contains b = true) : (blockTagsOf tbl toks).contains b = true := by
  unfold blockTagsOf
  rw [List.contains_iff_mem] at h ⊢
  exact List.mem_append_right _ h

/-! ## Non-vacuity -/

-- a nested, well-formed template is accepted by the restricted grammar (so the partial theorem applies) …
example : parses defaultEnv Opts.restricted
    [nm "for", nm "if", nm "elsif", nm "else", nm "break", endNm "if", nm "else", nm "case", nm "when",
     nm "else", endNm "case", endNm "for", nm "comment", endNm "comment"] = true := by decide +kernel
example : parses extraEnv Opts.restricted
    [nm "block", nm "translate", nm "plural", endNm "translate", nm "macro", nm "with", endNm "with",
     endNm "macro", endNm "block"] = true := by decide +kernel
-- … and the conclusions of the reporting theorems are not trivially true: a clean report exists
example : audit defaultEnv [nm "if", nm "else", endNm "if"] = .ok Report.clean := by decide +kernel
example : audit defaultEnv [nm "if", nm "foo", endNm "for", endNm "bar"]
    = .ok { unclosed := [nm "if"], unexpected := [endNm "bar"], unknown := [nm "foo", endNm "bar"] } := by
  decide +kernel
-- the hypotheses of `unknown_reported` / `unclosed_reported` are met by concrete inputs
example : (registered defaultEnv).contains (nm "foo") = false ∧ enclosing defaultEnv (nm "foo") = [] := by
  decide +kernel
example : (blockTagsOf defaultEnv [nm "for"]).contains (nm "for") = true := by decide +kernel
-- the lexer model swallows comment bodies, raw and doc blocks
example : lexTags [nm "comment", nm "if", nm "comment", endNm "comment", endNm "comment", nm "raw", nm "if", endNm "raw", nm "doc"]
    = [nm "comment", endNm "comment", nm "doc"] := by decide +kernel
example : lexShaped [nm "comment", endNm "comment", nm "doc", nm "if"] = true := by decide +kernel
example : parses defaultEnv ⟨false, false, true⟩ (lexTags [nm "comment", nm "if", endNm "comment", nm "for", nm "break", endNm "for"]) = true := by
  decide +kernel
example : [nm "if", nm "if", endNm "if"].count (nm "if") > [nm "if", nm "if", endNm "if"].count (nm "if").endOf := by
  decide +kernel
-- the nesting limit is part of the grammar
example : strictParses defaultEnv (List.replicate 31 (nm "if") ++ List.replicate 31 (endNm "if")) = false := by
  decide +kernel
example : strictParses defaultEnv (List.replicate 30 (nm "if") ++ List.replicate 30 (endNm "if")) = true := by
  decide +kernel

end LiquidVerif.C21
