import LiquidVerif.Lemmas.TagAudit
import LiquidVerif.Gen.C21Tables
/-!
# C21 — tag analysis is total and raises no false alarms
-/
namespace LiquidVerif.C21
open LiquidVerif.TagAudit LiquidVerif.Gen.C21

/-- **Sentence 1: analysing the tags of any token list returns a result without raising** — for every
environment table and every list of tag names, `_audit_tags` reaches its `return`: the only partial
operation, `block_stack.pop()`, is never executed on an empty stack. -/
theorem audit_total (tbl : EnvTable) (toks : List TagName) : ∃ r, audit tbl toks = .ok r := by
  unfold audit
  obtain ⟨⟨st, r⟩, h⟩ := loop_ok tbl (fun t => (blockTagsOf tbl toks).contains t)
    (fun t => (endTagsOf toks).contains t) toks [] {}
  simp only [h]
  exact ⟨_, rfl⟩

end LiquidVerif.C21
