import LiquidVerif.Lemmas.MemoHist
import LiquidVerif.Gen.SharedState
/-!
# C17 — rendering is pure and independent of history

Property text: "Rendering never modifies the data passed to it or the parsed template.  The output for a given
template and data does not depend on which other templates or data were rendered earlier in the same process or
environment, apart from the current time and templates reloaded from changed sources."

What is proved here (second sentence):
* `all_shared_state_listed` — the inventory of process-wide state that the translator regenerates from liquid/ on
  every run equals the pinned, hand-classified list below.  A new cache, a new module/class-level mutable, or a new
  write to an existing one changes the generated term and this theorem stops checking.
* `memo_transparent` / `memo_transparent_iff` — an `lru_cache` is invisible for **every** call history exactly when
  the function respects the key equality; `canonical_memo_transparent` — it does whenever the function depends on
  its arguments only through what Python's `==` can see of them (`canon`); the three memos that exist
  (`get_lexer`, `get_parser`, `get_implicit_environment`) are of that shape.
* `render_history_independent` — in the process model whose only state that outlives a render is those memos, the
  output of a render after any sequence of earlier renders equals the output in a fresh process.
* `removed_date_memo_counterexample` — the `date` filter's memo (removed by the fix) was *not* of that shape.

Not expressible in an immutable model, hence checked by the dynamic oracle only (first sentence): "never modifies
the data passed to it or the parsed template" is about mutation of Python objects.
-/
namespace LiquidVerif.C17
open LiquidVerif.MemoHist
open LiquidVerif.Gen.SharedState (Entry Kind Written)

/-! ## Inventory -/

/-- the pinned inventory, classified by hand:
* `memo` — the three `lru_cache`s; their transparency is `*_memo_transparent` below;
* `container` written `never` / `atImport` — constant tables (token maps, precedence table, warning classes,
  gettext keyword specs, the escape map built by a loop at import time); no render writes to them;
* `instance` — `DEFAULT_ENVIRONMENT` (the environment behind `liquid.parse/render`, same per-environment state as
  any other: tag and filter registers written only by `add_tag`/`add_filter`), `_NULL` and `TokenStream.eof`
  (immutable sentinels), `builtin` (the tag/filter registrar, stateless). -/
def pinned : List Entry := [
  { file := "liquid/__init__.py", name := "DEFAULT_ENVIRONMENT", kind := .instance, shape := "Environment", keys := [], written := .never },
  { file := "liquid/analyze_tags.py", name := "DEFAULT_INNER_TAG_MAP", kind := .container, shape := "dict", keys := [], written := .never },
  { file := "liquid/builtin/expressions/filtered.py", name := "FILTER_TOKENS", kind := .container, shape := "set", keys := [], written := .never },
  { file := "liquid/builtin/expressions/logical.py", name := "PRECEDENCES", kind := .container, shape := "dict", keys := [], written := .never },
  { file := "liquid/builtin/expressions/logical.py", name := "_INFIX_OPERATORS", kind := .container, shape := "dict", keys := [], written := .never },
  { file := "liquid/builtin/filters/array.py", name := "_NULL", kind := .instance, shape := "_Null", keys := [], written := .never },
  { file := "liquid/builtin/filters/extra.py", name := "_ESCAPE_MAP", kind := .container, shape := "dict", keys := [], written := .atImport },
  { file := "liquid/context.py", name := "builtin", kind := .instance, shape := "BuiltIn", keys := [], written := .never },
  { file := "liquid/environment.py", name := "get_implicit_environment", kind := .memo, shape := "lru_cache", keys := ["extra", "tag_start_string", "tag_end_string", "statement_start_string", "statement_end_string", "tolerance", "loader", "undefined", "strict_filters", "autoescape", "globals", "template_comments", "comment_start_string", "comment_end_string"], written := .call },
  { file := "liquid/exceptions.py", name := "WARNINGS", kind := .container, shape := "dict", keys := [], written := .never },
  { file := "liquid/extra/filters/babel.py", name := "DateTime.formats", kind := .container, shape := "dict", keys := [], written := .never },
  { file := "liquid/extra/tags/macro_tag.py", name := "CallNode.disabled_tags", kind := .container, shape := "list", keys := [], written := .never },
  { file := "liquid/lex.py", name := "get_lexer", kind := .memo, shape := "lru_cache", keys := ["tag_start_string", "tag_end_string", "statement_start_string", "statement_end_string", "comment_start_string", "comment_end_string"], written := .call },
  { file := "liquid/messages.py", name := "DEFAULT_COMMENT_TAGS", kind := .container, shape := "list", keys := [], written := .never },
  { file := "liquid/messages.py", name := "DEFAULT_KEYWORDS", kind := .container, shape := "dict", keys := [], written := .never },
  { file := "liquid/parser.py", name := "get_parser", kind := .memo, shape := "lru_cache", keys := ["env"], written := .call },
  { file := "liquid/stream.py", name := "TokenStream.eof", kind := .instance, shape := "Token", keys := [], written := .never },
  { file := "liquid/token.py", name := "operators", kind := .container, shape := "dict", keys := [], written := .never },
  { file := "liquid/token.py", name := "reverse_operators", kind := .container, shape := "dict", keys := [], written := .never }
]

/-- **every** piece of process-wide state in liquid/ is in the classified list -/
theorem all_shared_state_listed : LiquidVerif.Gen.SharedState.entries = pinned := by decide

/-- no module-level or class-level container is written from inside a function (= possibly during a render) -/
theorem no_container_written_by_a_function :
    ∀ e ∈ LiquidVerif.Gen.SharedState.entries, e.kind = .container → e.written ≠ .inFunction := by decide

/-- no function rebinds a module global -/
theorem no_global_rebinding : ∀ e ∈ LiquidVerif.Gen.SharedState.entries, e.kind ≠ .rebinding := by decide

/-- the memoised functions are exactly these three, with these key parameters -/
theorem memos_are :
    LiquidVerif.Gen.SharedState.memos =
      [("liquid/environment.py", "get_implicit_environment",
          ["extra", "tag_start_string", "tag_end_string", "statement_start_string", "statement_end_string",
           "tolerance", "loader", "undefined", "strict_filters", "autoescape", "globals", "template_comments",
           "comment_start_string", "comment_end_string"]),
       ("liquid/lex.py", "get_lexer",
          ["tag_start_string", "tag_end_string", "statement_start_string", "statement_end_string",
           "comment_start_string", "comment_end_string"]),
       ("liquid/parser.py", "get_parser", ["env"])] := by decide

/-! ## Memo transparency -/

/-- for **every** history of earlier calls (any keys, any length, any evictions), a call of the memoised
    function returns what the bare function returns — provided equal keys give equal results -/
theorem memo_transparent {K V : Type} (keq : K → K → Bool) (f : K → V) (cap : Nat)
    (hc : ∀ k k', keq k k' = true → f k = f k') (hist : List K) (k : K) :
    (call keq f cap (run keq f cap [] hist) k).1 = f k := by
  have hs : Sound f (run keq f cap [] hist) := run_sound hist [] (by intro p hp; cases hp)
  rcases call_result (keq := keq) (cap := cap) k hs with h | ⟨k', hk, h⟩
  · exact h
  · rw [h]; exact (hc k k' hk).symm

/-- the proviso is necessary: if two equal keys give different results, the history `[b]` makes the call on `a`
    return `b`'s result (any capacity ≥ 1) -/
theorem memo_needs_congruence {K V : Type} (keq : K → K → Bool) (f : K → V) (cap : Nat) (hcap : 1 ≤ cap)
    (a b : K) (hab : keq a b = true) (hne : f a ≠ f b) :
    (call keq f cap (run keq f cap [] [b]) a).1 ≠ f a := by
  have h0 : cap ≠ 0 := by omega
  have h1 : (0 + 1 - cap) = 0 := by omega
  simp only [run, call, find, h0, if_false, List.nil_append, List.length_nil, h1, List.drop_zero, hab, if_true]
  exact fun h => hne h.symm

/-- transparency for every history **iff** the function respects the key equality -/
theorem memo_transparent_iff {K V : Type} (keq : K → K → Bool) (f : K → V) (cap : Nat) (hcap : 1 ≤ cap) :
    (∀ hist k, (call keq f cap (run keq f cap [] hist) k).1 = f k) ↔ (∀ k k', keq k k' = true → f k = f k') := by
  constructor
  · intro h k k' hk
    apply Classical.byContradiction
    intro hne
    exact memo_needs_congruence keq f cap hcap k k' hk hne (h [k'] k)
  · intro hc hist k; exact memo_transparent keq f cap hc hist k

/-- the cache never holds more than `maxsize` entries -/
theorem memo_bounded {K V : Type} (keq : K → K → Bool) (f : K → V) (cap : Nat) (hist : List K) :
    (run keq f cap [] hist).length ≤ cap := run_length_le hist [] (Nat.zero_le _)

/-- a function that sees its arguments only through what `==` sees (`canon`: numeric value, text content, object
    identity, instant) is memoised transparently under Python-equality keys — `1 / 1.0 / True`, `Markup("x") / "x"`
    and equal instants in different zones included -/
theorem canonical_memo_transparent {V : Type} (g : List Canon → V) (cap : Nat) (hist : List (List PyKey))
    (k : List PyKey) :
    (call lruKeyEq (fun key => g (key.map canon)) cap (run lruKeyEq (fun key => g (key.map canon)) cap [] hist) k).1
      = g (k.map canon) :=
  memo_transparent lruKeyEq _ cap (fun _ _ h => by simp only [map_canon_of_lruKeyEq h]) hist k

/-- `get_lexer(tag_start, tag_end, stmt_start, stmt_end, comment_start, comment_end)`: `compile_liquid_rules` reads
    the *text* of the six delimiters (`re.escape`), nothing else -/
theorem get_lexer_memo_transparent {V : Type} (compileRules : List Canon → V) (hist : List (List PyKey))
    (delims : List PyKey) :
    (call lruKeyEq (fun key => compileRules (key.map canon)) 128
        (run lruKeyEq (fun key => compileRules (key.map canon)) 128 [] hist) delims).1
      = compileRules (delims.map canon) := canonical_memo_transparent compileRules 128 hist delims

/-- `get_parser(env)`: `Environment` defines `__hash__` but not `__eq__`, so the key is the object's identity and
    `Parser(env)` is a function of that object -/
theorem get_parser_memo_transparent {V : Type} (mk : List Canon → V) (hist : List (List PyKey)) (env : Nat) :
    (call lruKeyEq (fun key => mk (key.map canon)) 128 (run lruKeyEq (fun key => mk (key.map canon)) 128 [] hist)
        [.obj env]).1 = mk [.obj env] := canonical_memo_transparent mk 128 hist [.obj env]

/-- `get_implicit_environment(**kwargs)`: flags are read for truthiness (a function of the numeric value), delimiter
    strings for their text, `tolerance` / `undefined` / `loader` by identity, `globals` is always `None` -/
theorem get_implicit_environment_memo_transparent {V : Type} (mk : List Canon → V) (hist : List (List PyKey))
    (kwargs : List PyKey) :
    (call lruKeyEq (fun key => mk (key.map canon)) 10 (run lruKeyEq (fun key => mk (key.map canon)) 10 [] hist)
        kwargs).1 = mk (kwargs.map canon) := canonical_memo_transparent mk 10 hist kwargs

/-- transparency on a domain: when every earlier call and the probe lie in `D` and the function respects the key
    equality **on `D`**, the memoised call returns what the bare function returns -/
theorem memo_transparent_on {K V : Type} (keq : K → K → Bool) (f : K → V) (cap : Nat) (D : K → Prop)
    (hc : ∀ k k', D k → D k' → keq k k' = true → f k = f k') (hist : List K) (hh : ∀ x ∈ hist, D x) (k : K) (hk : D k) :
    (call keq f cap (run keq f cap [] hist) k).1 = f k := by
  have hs : Sound f (run keq f cap [] hist) := run_sound hist [] (by intro p hp; cases hp)
  unfold call
  cases hf : find keq k (run keq f cap [] hist) with
  | none => simp only; split <;> rfl
  | some p =>
    obtain ⟨k', v⟩ := p
    have hm := find_mem hf
    have hk' : D k' := by
      rcases mem_run hist [] _ hm.1 with h | h
      · cases h
      · exact hh _ h
    simp only
    have hv : v = f k' := hs _ hm.1
    rw [hv]
    exact (hc k k' hk hk' hm.2).symm

/-! ## The caching loaders (`CachingLoaderMixin`): the template cache of a loader, keyed by `cache_key` -/

/-- a caching loader serves, after **any** sequence of earlier requests in a request space `D`, what the underlying
    loader would load — provided the key is injective on `D` (then any `load` respects it).  Capacity, LRU order and
    evictions are irrelevant.  Sources are assumed unchanged (the property excludes reloads of changed sources). -/
theorem loader_cache_transparent {T : Type} (nsKeySet : Bool) (load : LReq → T) (cap : Nat) (D : LReq → Prop)
    (hinj : ∀ r r', D r → D r' → cacheKey nsKeySet r = cacheKey nsKeySet r' → r = r')
    (hist : List LReq) (hh : ∀ x ∈ hist, D x) (r : LReq) (hr : D r) :
    (call (fun a b => cacheKey nsKeySet a == cacheKey nsKeySet b) load cap
        (run (fun a b => cacheKey nsKeySet a == cacheKey nsKeySet b) load cap [] hist) r).1 = load r :=
  memo_transparent_on _ load cap D
    (fun k k' hk hk' h => by rw [hinj k k' hk hk' (by simpa using h)]) hist hh r hr

/-- the hypothesis is needed: the key is **not** injective on all requests — namespace `x`, name `a` and no
    namespace, name `x/a` share the key `x/a` (C23's known finding `key-collision`;
    `LiquidVerif.C23.caching_transparent_counterexample` replays it on the loader model, and
    `LiquidVerif.C23.key_inj_of_slash_free_names` gives the request space on which it is injective) -/
theorem loader_key_not_injective_counterexample :
    cacheKey true ⟨.val "x", "a"⟩ = cacheKey true ⟨.absent, "x/a"⟩ ∧ (⟨.val "x", "a"⟩ : LReq) ≠ ⟨.absent, "x/a"⟩ := by
  decide

/-- a request that carries a namespace is never keyed like the same name without one — also when the namespace is
    falsy (`0`, `""`, `False`, `None`): the key is strictly longer than the name -/
theorem present_namespace_never_keyed_as_absent (s name : String) :
    cacheKey true ⟨.val s, name⟩ ≠ cacheKey true ⟨.absent, name⟩ := by
  intro h
  have := congrArg String.length h
  simp [cacheKey, String.length_append] at this

/-- without a `namespace_key` the key is the name -/
theorem cache_key_without_namespace_key (r : LReq) : cacheKey false r = r.name := rfl

/-! ## History independence of a render -/

/-- in the process model, the output of a render after **any** sequence of earlier renders (same or different
    delimiters, environments, templates, data — `payload`) is the output in a fresh process -/
theorem render_history_independent {Lx Ps P O : Type} (compileRules : List Canon → Lx) (mkParser : List Canon → Ps)
    (out : Lx → Ps → Req P → O) (hist : List (Req P)) (r : Req P) :
    (renderP (fun k => compileRules (k.map canon)) (fun k => mkParser (k.map canon)) out
        (runP (fun k => compileRules (k.map canon)) (fun k => mkParser (k.map canon)) out ⟨[], []⟩ hist) r).1
      = (renderP (fun k => compileRules (k.map canon)) (fun k => mkParser (k.map canon)) out ⟨[], []⟩ r).1 := by
  -- both memo tables stay sound along any history
  have key : ∀ (hist : List (Req P)) (p : Proc Lx Ps),
      Sound (fun k => compileRules (k.map canon)) p.lexers → Sound (fun k => mkParser (k.map canon)) p.parsers →
      Sound (fun k => compileRules (k.map canon))
        (runP (fun k => compileRules (k.map canon)) (fun k => mkParser (k.map canon)) out p hist).lexers ∧
      Sound (fun k => mkParser (k.map canon))
        (runP (fun k => compileRules (k.map canon)) (fun k => mkParser (k.map canon)) out p hist).parsers := by
    intro hist
    induction hist with
    | nil => intro p h1 h2; exact ⟨h1, h2⟩
    | cons q qs ih =>
      intro p h1 h2
      exact ih _ (call_sound (keq := lruKeyEq) (cap := 128) q.delims h1)
        (call_sound (keq := lruKeyEq) (cap := 128) [.obj q.env] h2)
  obtain ⟨hl, hp⟩ := key hist ⟨[], []⟩ (by intro p hp; cases hp) (by intro p hp; cases hp)
  have e1 : ∀ (m : List (List PyKey × Lx)), Sound (fun k => compileRules (k.map canon)) m →
      (call lruKeyEq (fun k => compileRules (k.map canon)) 128 m r.delims).1 = compileRules (r.delims.map canon) := by
    intro m hs
    rcases call_result (keq := lruKeyEq) (cap := 128) r.delims hs with h | ⟨k', hk, h⟩
    · exact h
    · rw [h]; simp only [map_canon_of_lruKeyEq hk]
  have e2 : ∀ (m : List (List PyKey × Ps)), Sound (fun k => mkParser (k.map canon)) m →
      (call lruKeyEq (fun k => mkParser (k.map canon)) 128 m [.obj r.env]).1 = mkParser ([PyKey.obj r.env].map canon) := by
    intro m hs
    rcases call_result (keq := lruKeyEq) (cap := 128) [.obj r.env] hs with h | ⟨k', hk, h⟩
    · exact h
    · rw [h]; simp only [map_canon_of_lruKeyEq hk]
  simp only [renderP]
  rw [e1 _ hl, e2 _ hp, e1 [] (by intro p hp; cases hp), e2 [] (by intro p hp; cases hp)]

/-! ## The removed `date` memo -/

/-- equal instants in two zones: noon UTC, and the same instant at UTC+5 -/
def noonUtc : List PyKey := [.datetime 720 0, .str "%H:%M %z"]
def noonPlus5 : List PyKey := [.datetime 720 300, .str "%H:%M %z"]

/-- **the defect that was fixed** (`fix: date filter no longer memoises results across renders`): `date` reads the
    zone of its argument, which `==` does not see; the history `[noon UTC]` made `date` of the equal instant at
    UTC+5 return the UTC rendering.  With the memo removed the inventory above has no entry for `date`. -/
theorem removed_date_memo_counterexample :
    lruKeyEq noonPlus5 noonUtc = true ∧
    (call lruKeyEq dateF 10 (run lruKeyEq dateF 10 [] [noonUtc]) noonPlus5).1 ≠ dateF noonPlus5 := by decide

/-- … and a `Markup` format string poisoned the entry of an equal plain string (the result stayed marked safe) -/
theorem removed_date_memo_markup_counterexample :
    (call lruKeyEq dateF 10 (run lruKeyEq dateF 10 [] [[.datetime 720 0, .markup "<b>%Y</b>"]])
        [.datetime 720 0, .str "<b>%Y</b>"]).1 ≠ dateF [.datetime 720 0, .str "<b>%Y</b>"] := by decide

/-! ## Non-vacuity -/

-- the key equality really identifies distinct keys …
example : keyEq [.int 1, .str "{%"] [.bool true, .markup "{%"] = true := by decide
example : keyEq [.float 1] [.int 1] = true := by decide
-- … and separates different ones
example : keyEq [.str "{%"] [.str "<%"] = false := by decide
example : keyEq [.obj 1] [.obj 2] = false := by decide
-- `functools._make_key`: a single `int`/`str` argument is keyed bare, so it does not meet `True` / `1.0` / `Markup`
example : lruKeyEq [.int 1] [.bool true] = false ∧ lruKeyEq [.float 1] [.bool true] = true
    ∧ lruKeyEq [.str "x"] [.markup "x"] = false ∧ lruKeyEq [.int 1, .str "x"] [.bool true, .markup "x"] = true := by decide
-- a history with hits, misses and an eviction (capacity 2)
example : (run lruKeyEq (fun k => k.length) 2 [] [[.int 1], [.int 2, .int 2], [.float 1], [.int 3, .int 3, .int 3]]).map (·.2)
    = [1, 3] := by decide

end LiquidVerif.C17
