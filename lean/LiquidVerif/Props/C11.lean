import LiquidVerif.Lemmas.LexDelims
import LiquidVerif.Lemmas.Memo
import LiquidVerif.Gen.C11Tables
import LiquidVerif.Gen.C20Tables
/-!
# C11 — custom delimiters and environments are independent

Sentence 1 ("rewriting a template with different delimiters … gives the same output"):
`tokenize_delim_independent` — the token stream the parser sees does not depend on the delimiters the
template is written with (piece level; that the regular expression finds the pieces of an assembled
source for non-colliding delimiters is the `lex` correspondence stream, and `all_delims_escaped` /
`lex_patterns_pinned` tie the regular expression to the six strings).
Sentence 2 ("templates parsed by one environment are unaffected by … any other environment in the same
process"): `memo_transparent` (an LRU-bounded memo returns what the function returns, for every history,
eviction included), `env_isolation` (the process with its two caches behaves like a process without
caches), and the generated obligations that make the hypotheses true of this tree
(`lexer_cache_key_complete`, `parser_cache_key_identity`, `implicit_env_key_complete`).
-/
namespace LiquidVerif.C11
open LiquidVerif.LexDelims LiquidVerif.LexDelimsL

/-! ## the token stream does not depend on the delimiters -/

/-- **Sentence 1 at token level.** For every piece list and every two delimiter sets, lexing the
template written with `d` and lexing it written with `d'` give the same tokens and the same error, up
to positions and the two token values that quote delimiters verbatim (`output`, block `comment`). -/
theorem tokenize_delim_independent (d d' : Delims) (ps : List Piece) :
    (lex d ps).1.map erase = (lex d' ps).1.map erase ∧ (lex d ps).2.map erase = (lex d' ps).2.map erase :=
  tokenizeM_sim _ _ _ _ (matchesOf_sim d d' ps 0 0) ⟨rfl, rfl⟩

/-- in particular whether lexing fails does not depend on the delimiters (the only lexer error is the
hard-coded check for text that starts with `{{` or `{%`) -/
theorem lex_error_delim_independent (d d' : Delims) (ps : List Piece) :
    (lex d ps).2.isSome = (lex d' ps).2.isSome := by
  have := (tokenize_delim_independent d d' ps).2
  cases h1 : (lex d ps).2 <;> cases h2 : (lex d' ps).2 <;> simp [h1, h2] at this ⊢

/-- everything the parser builds an expression or a tag from is delimiter-free: the tokens that are not
erased keep their value -/
theorem erase_keeps_value (t : Tok) (h : t.kind = .tag ∨ t.kind = .expression ∨ t.kind = .content ∨ t.kind = .doc ∨ t.kind = .scomment) :
    erase t = (t.kind, t.value) := by
  rcases h with h | h | h | h | h <;> simp [erase, h]

example : (lex default [.text "a ".toList, .out true [' '] "x | y".toList [' '] true, .text "  b\n".toList]).1.map erase
    = (lex ⟨"<%".toList, "%>".toList, "((".toList, "))".toList, [], []⟩
        [.text "a ".toList, .out true [' '] "x | y".toList [' '] true, .text "  b\n".toList]).1.map erase := by
  decide +kernel

/-! ## memoisation is transparent -/
open LiquidVerif.Memo LiquidVerif.MemoL

/-- **`functools.lru_cache` is transparent**: if keys that compare equal give equal results, then for
every history of calls — hits, misses, reorderings and evictions of an LRU-bounded cache of any size —
every call returns what the undecorated function returns. -/
theorem memo_transparent {κ β : Type} (keyEq : κ → κ → Bool) (f : κ → β)
    (hf : ∀ a b, keyEq a b = true → f a = f b) (maxsize : Nat) (ks : List κ) :
    (runCalls keyEq f (empty maxsize) ks).2 = ks.map f := by
  suffices h : ∀ (c : Cache κ β), Inv f c → (runCalls keyEq f c ks).2 = ks.map f from
    h _ (by intro p hp; simp [empty] at hp)
  induction ks with
  | nil => intro c _; rfl
  | cons k ks ih =>
    intro c hc
    obtain ⟨h1, h2, _⟩ := call_spec keyEq f hf c k hc
    simp only [runCalls, List.map_cons, h1, ih _ h2]

/-- the cache stays within `maxsize` for every history -/
theorem memo_bounded {κ β : Type} (keyEq : κ → κ → Bool) (f : κ → β) (maxsize : Nat) (ks : List κ) :
    (runCalls keyEq f (empty maxsize) ks).1.entries.length ≤ maxsize := by
  suffices h : ∀ (c : Cache κ β), c.entries.length ≤ c.maxsize →
      (runCalls keyEq f c ks).1.entries.length ≤ c.maxsize from h _ (by simp [empty])
  induction ks with
  | nil => intro c h; exact h
  | cons k ks ih =>
    intro c hc
    have hb := call_bounded keyEq f c k hc
    have hm : (call keyEq f c k).1.maxsize = c.maxsize := by
      unfold call; split <;> (try split) <;> (try split) <;> rfl
    simp only [runCalls]
    have := ih (call keyEq f c k).1 (by rw [hm]; exact hb)
    rw [hm] at this; exact this

/-- the hypothesis is needed: a memo keyed on less than the function reads returns stale results
(key = first component only, function reads both) -/
theorem memo_stale_counterexample :
    ¬ (runCalls (fun (a b : Nat × Nat) => a.1 == b.1) (fun k => k.1 + k.2) (empty 128) [(1, 1), (1, 2)]).2
      = [(1, 1), (1, 2)].map (fun k => k.1 + k.2) := by decide

/-! ## the process: many environments, one lexer cache, one parser cache -/

/-- **Sentence 2.** For every history of environment creations, mutations of an environment's
tolerance / tags / filters, and parses, in any interleaving and with any number of live configurations
(so with evictions from both 128-entry caches), every parse is computed from the delimiters and the
current tags / filters / tolerance of the environment it was asked of — exactly as in a process
without caches — and therefore from nothing that belongs to another environment. -/
theorem env_isolation (ops : List Op) : (run Proc.init ops).2 = specRun [] ops := by
  suffices h : ∀ (p : Proc), ProcInv p → (run p ops).2 = specRun p.envs ops from
    h Proc.init ⟨by intro q hq; simp [Proc.init, empty] at hq, by intro q hq; simp [Proc.init, empty] at hq⟩
  induction ops with
  | nil => intro p _; rfl
  | cons op ops ih =>
    intro p hp
    obtain ⟨h1, h2, h3⟩ := step_spec p op hp
    simp only [run, specRun, h1, ih _ h3, h2]

example : (run Proc.init [.newEnv ⟨default, 0, ["if"], ["upcase"]⟩,
    .newEnv ⟨default, 2, [], []⟩, .parse 0, .parse 1, .setTags 0 [], .parse 0]).2
    = [none, none, some ⟨default, 0, some ⟨default, 0, ["if"], ["upcase"]⟩⟩,
       some ⟨default, 1, some ⟨default, 2, [], []⟩⟩, none, some ⟨default, 0, some ⟨default, 0, [], ["upcase"]⟩⟩] := by
  decide +kernel

/-- **`liquid.Template()` never hands out another configuration's environment**: for every sequence of
calls with any argument sets, interleaved in any order and with more than ten live configurations (so
with evictions from the 10-entry cache), the k-th call gets an environment built from exactly the k-th
call's arguments. -/
theorem implicit_env_isolation (ks : List ImplicitCfg) : implicitCalls ks = ks := by
  have := memo_transparent (fun (a b : ImplicitCfg) => a == b) (fun k => k)
    (by intro a b h; simpa using h) 10 ks
  simpa [implicitCalls] using this

/-- … and the cache stays within its ten entries -/
theorem implicit_env_bounded (ks : List ImplicitCfg) :
    (runCalls (fun (a b : ImplicitCfg) => a == b) (fun k => k) (empty 10) ks).1.entries.length ≤ 10 :=
  memo_bounded _ _ 10 ks

/-! ## the hypotheses hold of this tree (regenerated from the source on every run) -/
section tables
open LiquidVerif.Gen.C11

def pinnedPatternNoComments : String := "(?P<RAW>Ts0-?\\s*raw\\s*(?P<rsr>-?)Te0(?P<raw>.*?)Ts0-?\\s*endraw\\s*(?P<rsr_e>-?)Te0)|(?P<DOC>Ts0-?\\s*doc\\s*(?P<lsd>-?)Te0(?P<doc>.*?)Ts0-?\\s*enddoc\\s*(?P<rsd>-?)Te0)|(?P<output>Ss0-?\\s*(?P<stmt>.*?)\\s*(?P<rss>-?)Se0)|(?P<TAG>Ts0-?(?P<pre>\\s*(?P<name>(?!Te0)#|(?:(?!Te0)\\w)*)\\s*)(?P<expr>.*?)\\s*(?P<rst>-?)Te0)|(?P<content>.+?(?=((Ts0|Ss0)(?P<rstrip>-?))|\\Z))"

def pinnedPatternComments : String := "(?P<RAW>Ts0-?\\s*raw\\s*(?P<rsr>-?)Te0(?P<raw>.*?)Ts0-?\\s*endraw\\s*(?P<rsr_e>-?)Te0)|(?P<DOC>Ts0-?\\s*doc\\s*(?P<lsd>-?)Te0(?P<doc>.*?)Ts0-?\\s*enddoc\\s*(?P<rsd>-?)Te0)|(?P<COMMENT>Cs0(?P<comment>.*?)(?P<rsc>-?)Ce0)|(?P<output>Ss0-?\\s*(?P<stmt>.*?)\\s*(?P<rss>-?)Se0)|(?P<TAG>Ts0-?(?P<pre>\\s*(?P<name>(?!Te0)#|(?:(?!Te0)\\w)*)\\s*)(?P<expr>.*?)\\s*(?P<rst>-?)Te0)|(?P<content>.+?(?=((Ts0|Ss0|Cs0)(?P<rstrip>-?))|\\Z))"

/-- `get_lexer` is memoised on exactly the free inputs of `compile_liquid_rules`, passes them on in
order, and `Environment.tokenizer` hands it the environment's six delimiter attributes in that order:
two configurations share a lexer iff they have the same delimiters (`lexerKeyEq`, `f = id`). -/
theorem lexer_cache_key_complete :
    getLexerCached = true ∧ getLexerParams = compileParams ∧ getLexerPassed = getLexerParams ∧
    tokenizerArgs = getLexerParams.map ("self." ++ ·) ∧
    envParseCalls = ["get_parser(self)", "self.tokenizer()"] := by
  decide +kernel

/-- every delimiter reaches the pattern only through `re.escape`: each parameter is escaped exactly once (in any order), the
f-strings interpolate only the escaped locals, the only other use of a parameter is the truth test of
`comment_start_string`, and (run on the live function) the pattern for metacharacter-rich delimiters is
the placeholder pattern with `re.escape(delimiter)` substituted. -/
theorem all_delims_escaped :
    escapeAssigns.length = compileParams.length ∧
    compileParams.all (fun p => (escapeAssigns.filter (·.2 == p)).length == 1) = true ∧
    patternVars.all (fun v => (escapeAssigns.map (·.1)).contains v) = true ∧
    patternComplexFormats = [] ∧ rawParamUses = ["comment_start_string"] ∧ escapeDynamicOk = true := by
  decide +kernel

/-- the regular expression built for placeholder delimiters is the one `LexDelims.matchesOf` was
written against (rule order RAW, DOC, [COMMENT], output, TAG, content; group names; DOTALL) -/
theorem lex_patterns_pinned :
    lexPatternNoComments = pinnedPatternNoComments ∧ lexPatternComments = pinnedPatternComments ∧
    lexPatternDotAll = true :=
  ⟨rfl, rfl, rfl⟩

/-- `get_parser` is memoised on the environment object alone; `Environment` defines `__hash__` (over the
six delimiters and the mode) but no `__eq__`, so keys compare by identity; the cached value is
`Parser(env)`, whose only state is that reference (`parserKeyEq`, `f k = k.id`). -/
theorem parser_cache_key_identity :
    getParserCached = true ∧ getParserParams = ["env"] ∧ getParserReturns = ["Parser(env)"] ∧
    parserSlots = ["env"] ∧ envDefinesEq = false ∧
    envHashFields = ["self.statement_start_string", "self.statement_end_string", "self.tag_start_string",
      "self.tag_end_string", "self.comment_start_string", "self.comment_end_string", "self.mode"] := by
  decide +kernel

/-- `get_implicit_environment` (behind `liquid.Template`) is memoised on *all* constructor arguments of
`Environment`, passes each to the parameter of the same name, and `Template` forwards each of its own
arguments under its own name (loader and globals fixed to None) -/
theorem implicit_env_key_complete :
    implicitCached = true ∧ implicitPositional = [] ∧ envInitPositional = [] ∧ implicitParams = envInitParams ∧
    implicitCtorKw = implicitParams.map (fun p => (p, p)) ∧
    templateKw = implicitParams.map (fun p => (p, if p == "loader" || p == "globals" then "None" else p)) := by
  decide +kernel

/-- the `liquid` tag derives its inline-comment marker from the environment's `comment_start_string`
(`LiquidLines.markerOf`) -/
theorem liquid_marker_from_comment_start :
    LiquidVerif.Gen.C20.liquidMarkerExpr = "env.comment_start_string.replace('{', '')" := rfl

end tables

end LiquidVerif.C11
