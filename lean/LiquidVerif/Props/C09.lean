import LiquidVerif.Model.Recur
namespace LiquidVerif.C09
open LiquidVerif.Recur

/-- placeholder while the harness is wired up (replaced below) -/
theorem kPartial_pos : 0 < kPartial := by decide

end LiquidVerif.C09
