import LiquidVerif.Lemmas.Recur
import LiquidVerif.Lemmas.ParseLoops
/-!
# C09 — parsing and rendering always terminate within the stack

Property text: *Parsing any source text finishes promptly, and rendering finishes for every template, including
templates that include, render, extend or call themselves directly or indirectly at any block depth permitted by
the nesting limit. Unbounded recursion is cut off with a ContextDepthError or TemplateInheritanceError rather
than hanging or exhausting the Python stack.*

Models: `Model/Recur.lean` (rendering: `extend`/`copy` depth accounting, include / render / macro-call /
extends-block, STRICT and LAX error handling of `render_with_context`, ghost Python-frame count) and
`Model/ParseLoops.lean` (every loop of `parser.py` and of the `if/unless/case/comment/doc/liquid` and generic block
tag parsers over a token list).  Both are **total functions accepted by Lean without fuel**: rendering under the
lexicographic measure `(depth + 2 − _copy_depth, depth + 2 − scope.size(), size of the node)`, parsing under the
number of remaining tokens.  Termination is therefore part of the definitions; the theorems below state the
*bounds* that make it so, the error that cuts recursion off, and where the property fails in the code as written.

Wall-clock time ("promptly") and the CPython stack are runtime facts: the model counts loop iterations and Python
frames, the harness measures the rest (streams `sources`, `families`).
-/
set_option linter.unusedSimpArgs false
namespace LiquidVerif.C09
open LiquidVerif.Recur

/-! ## (a) rendering: depth accounting -/

/-- **"rendering finishes for every template": the bound behind it.**  In every render — any template pool, any
mode, any limit — each probe (output statement) executes in a context with at most `limit + 1` context copies on
its call path (`_copy_depth ≤ limit + 1`), a scope chain of at most `limit + 1` maps, and at most
`(limit + 1)·(limit + 2) + limit + 1` enclosing partial / macro / block / extends activations.  (`path` is ghost.) -/
theorem context_depth_bounded (E : Env) (name : String) :
    ∀ e ∈ (renderTemplate E name).evs,
      e.copyDepth ≤ E.depth + 1 ∧ e.scope ≤ E.depth + 1 ∧ e.path ≤ (E.depth + 1) * (E.depth + 2) + (E.depth + 1) := by
  intro e he
  unfold renderTemplate at he
  split at he
  · cases he
  · rename_i body hl
    split at he
    · cases he
    · rename_i h4
      obtain ⟨c', hr, heq⟩ := (from_all E).2.1 _ _ _ e he
      have hi : Inv E.depth { Cx.root name with scope := 5 } :=
        ⟨by omega, by simp [Cx.root], by simp [Cx.root]; omega, by simp [Cx.root]⟩
      obtain ⟨_, hc, hs, hp⟩ := Inv.reach hr hi
      rw [heq]
      simp only [evOf]
      refine ⟨hc, hs, ?_⟩
      have hm : c'.copyDepth * (E.depth + 2) ≤ (E.depth + 1) * (E.depth + 2) := Nat.mul_le_mul_right _ hc
      omega

/-- **Recursion by `render` is cut off with ContextDepthError** (STRICT mode).  `R` is any set of template names
each of whose bodies begins — at *any* block depth, through if/unless/case/capture/for/tablerow/with levels
(`nest ws`) — with a `render` of a member of `R`: direct self-recursion, mutual recursion, longer cycles.  Rendering
a member fails with ContextDepthError in every context; it neither diverges (the function is total) nor ends in
any other error. -/
theorem depth_cut_render (E : Env) (hl : E.lax = false) (R : String → Prop)
    (hclosed : ∀ n, R n → ∃ ws n' post, lookup E.templates n = some (nest ws (.render n') :: post) ∧ R n')
    (c : Cx) (s : St) (n : String) (hn : R n) :
    (render E c s (.render n)).out = .err .contextDepth :=
  render_family_cut E hl R hclosed _ c s n hn rfl

/-- **Recursion by `include` is cut off with ContextDepthError** (STRICT mode, `include` not disabled): the same
for families of `include`s; here the bounded resource is `scope.size()` (two maps per level). -/
theorem depth_cut_include (E : Env) (hl : E.lax = false) (R : String → Prop)
    (hclosed : ∀ n, R n → ∃ ws n' post, lookup E.templates n = some (nest ws (.include n') :: post) ∧ R n')
    (c : Cx) (s : St) (n : String) (hn : R n) (hni : c.noInclude = false) :
    (render E c s (.include n)).out = .err .contextDepth :=
  include_family_cut E hl R hclosed _ c s n hn hni rfl

/-- **Recursion through a macro is cut off with ContextDepthError** (STRICT mode).  `R`: template names whose bodies
define a macro — its body beginning, at any block depth, with a `render` of a member — and then call it, at any block
depth (two context copies per cycle: the `render` and the `call`). -/
theorem depth_cut_call (E : Env) (hl : E.lax = false) (R : String → Prop)
    (hclosed : ∀ n, R n → ∃ m ws' n' post' ws post,
      lookup E.templates n = some (.macro m (nest ws' (.render n') :: post') :: nest ws (.call m) :: post) ∧ R n')
    (c : Cx) (s : St) (n : String) (hn : R n) :
    (render E c s (.render n)).out = .err .contextDepth :=
  call_family_cut E hl R hclosed _ c s n hn rfl

/-- **Recursion through a `block` rendered directly is cut off with ContextDepthError** (STRICT mode, `include` and
`block` not disabled, no block stacks stored).  `R`: template names whose bodies begin, at any block depth, with a
`block` whose body begins, at any block depth, with an `include` of a member (three scope pushes per cycle).
Recursion through an *overriding* block (extends + block + render/include) is covered by `context_depth_bounded` and the
`families` stream only. -/
theorem depth_cut_block (E : Env) (hl : E.lax = false) (R : String → Prop)
    (hclosed : ∀ n, R n → ∃ ws0 bn ws n' post post0,
      lookup E.templates n = some (nest ws0 (.block bn (nest ws (.include n') :: post)) :: post0) ∧ R n')
    (c : Cx) (s : St) (n : String) (hn : R n) (hni : c.noInclude = false) (hnb : c.noBlock = false) (hst : s.stacks = []) :
    (render E c s (.include n)).out = .err .contextDepth :=
  block_family_cut E hl R hclosed _ c s n hn hni hnb hst rfl

/-- **Circular `extends` is cut off with TemplateInheritanceError.**  `R` is a set of templates each with exactly
one `extends` whose parent loads and is again in `R` (every `extends` cycle).  Rendering the `extends` tag of a
member — whatever the context, the block stacks already stored, the mode — raises TemplateInheritanceError:
`_build_block_stacks` is a total function (each round consumes a loader name not yet in `seen`). -/
theorem extends_cycle_cut (E : Env) (R : List Node → Prop)
    (hclosed : ∀ t, R t → ∃ p t', extsOfList t = [p] ∧ lookup E.templates p = some t' ∧ R t')
    (c : Cx) (s : St) (parent : String) (self : List Node) (hself : lookup E.templates c.tname = some self)
    (hR : R self) : (render E c s (.extends parent)).out = .err .inheritance := by
  have hb := buildFrom_cycle E.templates R hclosed s.stacks [] true self hR
  simp only [render, hself]
  split
  · rename_i st' e heq
    rw [heq] at hb; simp only at hb; cases hb; rfl
  · rename_i st' base heq
    rw [heq] at hb; cases hb

/-! ## (a′) where "cut off rather than hanging" fails: LAX / WARN mode -/

/-- STRICT mode, the partial `a` = `{{ 1 | probe }}{% render 'a' %}{% render 'a' %}`: the first render that hits
the limit aborts everything — `limit + 2` probe executions, ContextDepthError. -/
theorem strict_cut_is_prompt (D : Nat) (h4 : 4 ≤ D) :
    (renderTemplate (fanEnv false D) "a").out = .err .contextDepth ∧
    (renderTemplate (fanEnv false D) "a").evs.length = D + 2 := by
  have hd : (fanEnv false D).depth = D := rfl
  have h2 : ¬ 4 > (fanEnv false D).depth := by rw [hd]; omega
  simp only [renderTemplate, fan_lookup, h2, if_false]
  obtain ⟨io, il⟩ := fan_render_strict D h4 (D + 1) { Cx.root "a" with scope := 5 } ⟨[], []⟩ (by simp [Cx.root])
  unfold fanBody
  rw [bodyLoop]
  simp only [render]
  rw [bodyLoop]
  simp only [io]
  have hl : (fanEnv false D).lax = false := rfl
  have hne : ¬ (Err.contextDepth = Err.assertion) := by decide
  simp only [hl, hne, if_false, Bool.false_eq_true]
  exact ⟨io, by simp only [List.length_append, List.length_singleton, il]; omega⟩

/-- **Counter-example to "cut off … rather than hanging" in LAX/WARN mode**, for every limit: the same partial
executes `2^(limit+2) − 1` probes and *completes without an error*.  Every ContextDepthError is raised and then
dropped by the `except LiquidError: env.error(...)` of the enclosing `render_with_context`, which continues with the
second `render`.  Known finding `family|timeout|lax-fanout` (replayed on the implementation with the default
limit 30: 2^32 − 1 executions). -/
theorem lax_cut_counterexample (D : Nat) (h4 : 4 ≤ D) :
    (renderTemplate (fanEnv true D) "a").out = .ok ∧
    (renderTemplate (fanEnv true D) "a").evs.length = 2 ^ (D + 2) - 1 := by
  have hd : (fanEnv true D).depth = D := rfl
  have h2 : ¬ 4 > (fanEnv true D).depth := by rw [hd]; omega
  simp only [renderTemplate, fan_lookup, h2, if_false]
  have hb := fan_bodyLoop_lax D { Cx.root "a" with scope := 5 } ⟨[], []⟩ (2 ^ (D + 1) - 1)
    (fun s' => fan_render_lax D h4 (D + 1) _ s' (by simp [Cx.root]))
  refine ⟨hb.1, ?_⟩
  rw [hb.2]
  have h1 : 1 ≤ 2 ^ (D + 1) := Nat.one_le_two_pow
  have h2 : 2 ^ (D + 2) = 2 ^ (D + 1) * 2 := by rw [Nat.pow_succ]
  omega

/-- **The LAX fan-out, quantitatively.**  The partial `a` = `{{ 1 | probe }}` followed by `f` self-renders, LAX/WARN
mode, any limit ≥ 4: the render returns `ok` after exactly `1 + f + f² + … + f^(limit+1)` probe executions
(`geom f (limit+2)`), i.e. `(f^(limit+2) − 1)/(f − 1)` for `f ≥ 2` (second conjunct: `(f−1)·count + 1 = f^(limit+2)`).
So the work in LAX mode *is* bounded — by this geometric sum — but the bound is exponential in the limit that was
meant to cut recursion off; `f = 1` gives the linear `limit + 2`, `f = 2` the `2^(limit+2) − 1` of
`lax_cut_counterexample`. -/
theorem lax_fanout_count (D f : Nat) (h4 : 4 ≤ D) :
    (renderTemplate (fanEnvN true D f) "a").out = .ok ∧
    (renderTemplate (fanEnvN true D f) "a").evs.length = geom f (D + 2) ∧
    ((f - 1) * (renderTemplate (fanEnvN true D f) "a").evs.length + 1 = f ^ (D + 2) ∨ f = 0) := by
  obtain ⟨h1, h2⟩ := fanN_template_lax D f h4
  exact ⟨h1, h2, by rw [h2]; exact geom_closed f (D + 2)⟩

/-- the instance for the default `context_depth_limit = 30`: more than four thousand million executions -/
theorem lax_cut_counterexample_default :
    ¬ ((renderTemplate (fanEnv true 30) "a").evs.length ≤ 4000000000) := by
  rw [(lax_cut_counterexample 30 (by decide)).2]
  decide

/-! ## (c) the Python stack -/

/-- **Frame bound (part proved).**  The frame depth of every probe execution, counted from the first `Node.render`
of the template, is at most `5` per enclosing partial / macro / block / extends activation plus `7` per enclosing
block-tag level (ghost fields `path`, `blocks`; constants measured on CPython 3.12 and compared on every case of
the `depth` stream).  With `path ≤ (limit+1)(limit+2)+limit+1` (`context_depth_bounded`) and at most
`block_nesting_limit` block levels per activation this is the `F₀ + D·(k_partial + B·k_block)` bound of the design. -/
theorem frames_bounded_partial (E : Env) (name : String) :
    ∀ e ∈ (renderTemplate E name).evs, e.frames ≤ 5 * e.path + 7 * e.blocks := by
  intro e he
  unfold renderTemplate at he
  split at he
  · cases he
  · split at he
    · cases he
    · obtain ⟨c', hr, heq⟩ := (from_all E).2.1 _ _ _ e he
      have hf := FRel.reach hr
      rw [heq]
      simp only [evOf, FRel, Cx.root] at *
      omega

/-- the general shape of the overflow: the partial `a` that renders itself inside `d + 1` nested `if` blocks
reaches a probe `5(d+1) + (limit+1)·(3 + 5(d+1))` frames down before the ContextDepthError -/
theorem self_render_frames (D d : Nat) (h4 : 4 ≤ D) :
    ∃ e ∈ (renderTemplate (stackEnv D d) "a").evs, e.frames = 5 * (d + 1) + (D + 1) * (3 + 5 * (d + 1)) :=
  stack_template_deep D d h4

/-- **Counter-example to "rather than … exhausting the Python stack"**: default limits (context depth 30), a
partial that renders itself at block depth 10 (allowed: `block_nesting_limit` is 30).  The model reaches a probe
1693 frames below the first `Node.render` — CPython's default recursion limit is 1000, so the implementation raises
RecursionError (known finding `family|RecursionError|render`, replayed every run). -/
theorem stack_counterexample :
    ¬ (∀ e ∈ (renderTemplate (stackEnv 30 9) "a").evs, e.frames ≤ 1000) := by
  intro h
  obtain ⟨e, he, hf⟩ := self_render_frames 30 9 (by decide)
  have := h e he
  omega

/-- **The ghost fields are erasable**: rendering the same node in a context that differs only in the ghost fields
(`frames`, `path`, `blocks`) gives the same outcome, the same state and the same events up to those fields — the
frame and path counters never influence what the model does. -/
theorem ghost_erasure (E : Env) (c : Cx) (s : St) (n : Node) (f p b : Nat) :
    (render E (c.withGhost f p b) s n).core = (render E c s n).core :=
  (ghost_all E).1 c s n f p b

/-! ## (b) parsing -/
section Parsing
open LiquidVerif.ParseLoops

/-- **Every loop iteration of the parser returns a strictly shorter remainder.**  One pass of the loop of
`Parser._parse` / `Parser.parse_block` that does not raise — whatever tag parser the current token dispatches to,
whatever that parser consumed or skipped, in any mode, at any block depth — goes on (`next(stream)`) with a stream
strictly lighter than the one the pass started with; the loop then behaves exactly like the loop on that lighter
stream.  (`wl` counts tokens, the line tokens of `liquid` tags included.)  This is the reason the model's parser
is a total function without fuel, and it is the property whose absence was the 2.2.1 `{% case %}` hang. -/
theorem tokens_strictly_consumed (cfg : Cfg) (ends : List String) (d : Nat) (t : Tok) (r : List Tok)
    (hend : t.isTagIn ends = false) (hok : (getNode cfg d t r).1.err = none) :
    wl (getNode cfg d t r).1.rest.tail < wl (t :: r) ∧
    (blockLoop cfg ends d (t :: r)).1.rest =
      (blockLoop cfg ends (getNode cfg d t r).1.depth (getNode cfg d t r).1.rest.tail).1.rest ∧
    (blockLoop cfg ends d (t :: r)).1.err =
      (blockLoop cfg ends (getNode cfg d t r).1.depth (getNode cfg d t r).1.rest.tail).1.err :=
  ⟨wl_tail_lt (getNode cfg d t r).2.w, blockLoop_step cfg ends d t r hend hok⟩

/-- No tag parser, and no parse of a whole template, ever leaves more stream than it was given. -/
theorem parse_never_rewinds (cfg : Cfg) (d : Nat) (t : Tok) (r : List Tok) (ts : List Tok) :
    wl (getNode cfg d t r).1.rest ≤ wl (t :: r) ∧ wl (parseTemplate cfg ts).rest ≤ wl ts :=
  ⟨(getNode cfg d t r).2.w, (blockLoop cfg [] 0 ts).2.w⟩

/-- **Total steps ≤ token count.**  For every token list, mode and nesting limit, the number of completed loop passes
of a whole parse — all loops together: `_parse`, every nested `parse_block`, `eat_block`, the `elsif` / `case` /
"ignore extraneous blocks" / comment / doc loops, and the passes over the inner streams of `liquid` tags — is at most the
weight of the token stream (its tokens plus the line tokens inside `liquid` tags).  The potential that makes this
compositional is `passes + phi(rest)`, where `phi` counts the current token as 1 whatever it carries: it survives a
`liquid` tag whose inner parse raises in STRICT mode (the inner passes are paid by an expression token that is still
unread when the error propagates), where `passes + weight(rest) ≤ weight` is false.  When the parse returns normally
the stronger form holds too. -/
theorem parse_steps_le_weight (cfg : Cfg) (ts : List Tok) :
    (parseTemplate cfg ts).iters ≤ wl ts ∧
    (parseTemplate cfg ts).iters + phi (parseTemplate cfg ts).rest ≤ wl ts ∧
    ((parseTemplate cfg ts).err = none → (parseTemplate cfg ts).iters + wl (parseTemplate cfg ts).rest ≤ wl ts) :=
  ⟨by have := parseTemplate_steps cfg ts; omega, parseTemplate_steps cfg ts, (blockLoop cfg [] 0 ts).2.j⟩

/-- the same for a single `Tag.get_node`: once the calling loop has done its `next(stream)`, the pass is paid for -/
theorem get_node_pass_paid (cfg : Cfg) (d : Nat) (t : Tok) (r : List Tok) :
    (getNode cfg d t r).1.iters + 1 + wl (getNode cfg d t r).1.rest.tail ≤ wl (t :: r) :=
  (getNode cfg d t r).2.n

/-- **The `{% case %}` loop cannot spin at the end of input** (the 2.2.1 hang): at EOF the
`while not stream.current.is_tag("endcase")` loop raises LiquidSyntaxError at once … -/
theorem case_loop_eof_raises (cfg : Cfg) (d : Nat) : (caseLoop cfg d []).1.err = some .syntax :=
  caseLoop_nil cfg d

/-- **Parsing in LAX / WARN mode is total and complete**: for every token list — unterminated, unbalanced,
arbitrarily nested — `Parser.parse` returns without an exception having consumed the whole stream. -/
theorem lax_parse_total (cfg : Cfg) (hl : cfg.lax = true) (ts : List Tok) :
    (parseTemplate cfg ts).err = none ∧ (parseTemplate cfg ts).rest = [] :=
  blockLoop_lax_total cfg hl _ ts 0 rfl

end Parsing

/-! ## non-vacuity -/

/-- hypotheses of `depth_cut_render`: the mutually recursive pair `a ⇄ b`, `b`'s call two block levels down -/
def exTpls : Tpls :=
  [("a", [.render "b", .probe 1]), ("b", [nest [.blk .plain [.probe 2], .forn 1 []] (.render "a")])]
example : ∀ n, (n = "a" ∨ n = "b") → ∃ ws n' post,
    lookup exTpls n = some (nest ws (.render n') :: post) ∧ (n' = "a" ∨ n' = "b") := by
  intro n hn
  rcases hn with rfl | rfl
  · exact ⟨[], "b", [.probe 1], by simp [exTpls, lookup, nest], Or.inr rfl⟩
  · exact ⟨[.blk .plain [.probe 2], .forn 1 []], "a", [], by simp [exTpls, lookup], Or.inl rfl⟩

/-- hypotheses of `extends_cycle_cut`: `a` extends `b` extends `a` -/
def exCyc : Tpls := [("a", [.extends "b", .block "x" []]), ("b", [.extends "a"])]
example : ∀ t, (t = [.extends "b", .block "x" []] ∨ t = [Node.extends "a"]) → ∃ p t',
    extsOfList t = [p] ∧ lookup exCyc p = some t' ∧ (t' = [.extends "b", .block "x" []] ∨ t' = [Node.extends "a"]) := by
  intro t ht
  rcases ht with rfl | rfl
  · exact ⟨"b", [.extends "a"], by simp [extsOfList, extsOf], by simp [exCyc, lookup], Or.inr rfl⟩
  · exact ⟨"a", [.extends "b", .block "x" []], by simp [extsOfList, extsOf], by simp [exCyc, lookup], Or.inl rfl⟩

/-- hypotheses of `tokens_strictly_consumed`: `{% if a %}x` (unterminated) in LAX mode — the `if` parser fails, eats
to the end, returns an IllegalNode without error -/
example : (ParseLoops.Tok.tag "if").isTagIn [] = false := rfl

end LiquidVerif.C09
