import LiquidVerif.Lemmas.TaintRender
import LiquidVerif.Lemmas.TaintEntRender
import LiquidVerif.Lemmas.TaintNoop
import LiquidVerif.Lemmas.TaintNoopSim3
/-!
# C05 — autoescape keeps render data from injecting HTML

Model: `Model/Escape.lean` (markupsafe's escape table, `Clean`, `Ent`) and `Model/Taint.lean` (values `{chars, safe}`,
39 filters, 10 tags, `render`). `P : Prims` are the opaque text functions (`html.unescape`, the `HTMLParser` behind
`strip_tags`, `urllib.parse.unquote`, base64, `str(list)`): every theorem holds for all of them.

Hypotheses of the property's first sentence, as decidable predicates on a template: `nodesOk t` — literal text and
string literals contain no raw `<`, `>`, `'`, `"` (`isClean`), and neither the `safe` filter nor the HTML-generating
`newline_to_br` is used (`FName.allowed`); `EnvInv d` — the values the caller explicitly marked safe (`Markup`,
`__html__`) are themselves free of raw specials (otherwise they are, by the property's second sentence, output unchanged).
-/
namespace LiquidVerif.C05
open LiquidVerif.Escape LiquidVerif.Taint

/-- "text that comes from render data reaches the output only in HTML-escaped form": whatever the data string,
`markupsafe.escape` emits no raw `<`, `>`, `'`, `"`, and every `&` it emits begins one of its five entities. -/
theorem escape_clean (s : Str) : Clean (escape s) ∧ Ent (escape s) :=
  ⟨escape_isClean s, escape_isEnt s⟩

/-- The three combinators every filter and tag is built from preserve "a `Markup` holds no raw special":
`keepSafe f` for a special-preserving `f`, `mixEscaping` (`+`, `join`, `replace`), and anything returning a plain `str`. -/
theorem combinators_preserve_inv :
    (∀ (f : Str → Str) (s : TStr), (∀ c, Clean c → Clean (f c)) → s.Inv → (keepSafe f s).Inv) ∧
    (∀ a b : TStr, a.Inv → b.Inv → (mixAdd a b).Inv) ∧
    (∀ (sep : TStr) (items : List TStr), sep.Inv → (∀ x ∈ items, x.Inv) → (joinT sep items).Inv) ∧
    (∀ (first : Bool) (s old new : TStr), s.Inv → new.Inv → (replaceT first s old new).Inv) ∧
    (∀ c : Str, (⟨c, false⟩ : TStr).Inv) :=
  ⟨fun _ _ hf h => keepSafe_inv hf h, fun _ _ => mixAdd_inv, fun _ _ => joinT_inv, fun f _ old _ => replaceT_inv f old,
   inv_unsafe⟩

/-- Every modelled filter except `safe` and `newline_to_br` — `escape escape_once join split replace* remove* append prepend
slice strip_html url_decode base64_* default upcase downcase capitalize strip lstrip rstrip squish truncate truncatewords
url_encode escapejs strip_newlines first last reverse concat size` — keeps the safe/unsafe distinction sound, for every
receiver, every argument list and all opaque text functions. -/
theorem filter_preserves_inv (P : Prims) (f : FName) (v : Val) (args : List Val) (r : Val)
    (hf : f.allowed = true) (hv : v.Inv) (ha : ∀ a ∈ args, a.Inv) (h : applyFilter P true f v args = .ok r) : r.Inv :=
  applyFilter_inv P hf hv ha h

/-- Filter chains of any length, and ternary expressions (`a | f if c else b | g || tail`), preserve it. -/
theorem expression_preserves_inv (P : Prims) (st : St) (e : Expr) (r : Val)
    (hst : st.Inv) (he : e.ok = true) (h : evalExpr P true st e = .ok r) : r.Inv :=
  evalExpr_inv P hst he h

/-- `capture` stores the already-escaped buffer as `Markup`: after a capture block whose nodes satisfy the hypotheses,
the state still satisfies the invariant — in particular the captured `Markup` is free of raw specials. -/
theorem capture_safe (P : Prims) (name : String) (body : List Node) (st st' : St)
    (hb : nodesOk body = true) (hst : st.Inv) (h : renderNode P true (.capture name body) st = .ok st') : st'.Inv :=
  (render_inv_aux P).1 (.capture name body) st (by simpa [Node.ok] using hb) hst st' h

/-- **First sentence of the property, raw-special part.** For every template `t` over output/echo, assign, capture, cycle,
for, if/unless/case, include, render, translate with chains of any modelled filters, whose literal text is clean and which
uses neither `safe` nor an HTML-generating filter, and for every render data `d` (strings, Markup, lists, numbers, objects
with `__html__`): if the render succeeds, its output contains no raw `<`, `>`, `'` or `"`. No bound on sizes or depth. -/
theorem output_no_raw_specials (P : Prims) (t : List Node) (d : Env) (out : Str)
    (ht : nodesOk t = true) (hd : EnvInv d) (h : render P true t d = .ok out) : Clean out := by
  unfold render at h
  split at h
  · rename_i st hst
    simp only [Except.ok.injEq] at h; subst h
    exact ((render_inv_aux P).2.2 t _ ht ⟨fun e he => (by cases he), fun p hp => (by cases hp), hd, clean_nil⟩ st hst).out
  · cases h

/-- **Second sentence.** A value explicitly marked safe is written unchanged: a `Markup`, an object with `__html__`, and a
list of `Markup`s. -/
theorem safe_values_unchanged (s h t : Str) (xs : List Str) :
    outVal true (.str ⟨s, true⟩) = s ∧ outVal true (.obj h t) = h ∧
    outVal true (.arr (xs.map fun x => ⟨x, true⟩)) = xs.flatten := by
  refine ⟨rfl, rfl, ?_⟩
  simp [outVal, escT, List.map_map, Function.comp_def]

/-- … also at template level: `{{ x }}` with `x` bound to `Markup(s)` renders exactly `s`, for every `s` -/
theorem safe_value_rendered_unchanged (P : Prims) (s : Str) :
    render P true [.output (.chain (.var "x") [])] [("x", .str ⟨s, true⟩)] = .ok s := by
  simp [render, renderNodes, renderNode, evalExpr, applyChain, evalArg, St.get, lookupScopes, lookupEnv, St.write, outVal, escT]

/-- The hypothesis "no `safe` filter" is needed: `{{ x | safe }}` with `x = "<"` outputs a raw `<` (by design). -/
theorem safe_filter_counterexample (P : Prims) :
    render P true [.output (.chain (.var "x") [⟨.safe, []⟩])] [("x", .str ⟨['<'], false⟩)] = .ok ['<'] := by
  simp [render, renderNodes, renderNode, evalExpr, applyChain, applyFilter, evalArg, St.get, lookupScopes, lookupEnv, St.write,
    outVal, escT, okS, recvS]

/-- Non-vacuity: a template with an escaped variable, a capture that is then upper-cased, a join with a data separator —
the hypotheses hold and the render succeeds. -/
example : nodesOk [.text "a".toList, .capture "c" [.output (.chain (.var "x") [⟨.append, [.lit "-".toList]⟩])],
    .output (.chain (.var "c") [⟨.upcase, []⟩])] = true := by decide

/-- **First sentence, "every & begins an escape sequence" — partial.** For templates whose literals are clean *and*
entity-complete and which apply only entity-friendly filters (`FName.entFriendly`: every modelled filter except `slice split
remove remove_first remove_last replace replace_first replace_last upcase`), every successful render is free of raw specials and
each `&` of the output begins one of `&amp; &lt; &gt; &#39; &#34;`. The exclusion is exact: each excluded filter has a
counter-example (`amp_entities_counterexample*`, `amp_entities_exclusions_exact`). -/
theorem amp_entities_partial (P : Prims) (t : List Node) (d : Env) (out : Str)
    (ht : nodesOkE t = true) (hd : EnvInvE d) (h : render P true t d = .ok out) : Clean out ∧ Ent out := by
  unfold render at h
  split at h
  · rename_i st hst
    simp only [Except.ok.injEq] at h; subst h
    exact ((render_inv_auxE P).2.2 t _ ht ⟨fun e he => (by cases he), fun p hp => (by cases hp), hd, good_nil⟩ st hst).out
  · cases h

/-- a template that is a single output statement renders the value of its expression -/
theorem render_single (P : Prims) (auto : Bool) (e : Expr) (d : Env) :
    render P auto [.output e] d =
      (match evalExpr P auto ⟨[], [], d, [], []⟩ e with | .ok v => .ok (outVal auto v) | .error err => .error err) := by
  simp only [render, renderNodes, renderNode, St.write]
  cases evalExpr P auto ⟨[], [], d, [], []⟩ e <;> simp

/-- the one-variable template `{{ x | f₁ | f₂ }}` on the data `x = s` (plain `str`) -/
def chain2 (f1 f2 : FCall) (s : Str) (P : Prims) (auto : Bool := true) : Except Err Str :=
  render P auto [.output (.chain (.var "x") [f1, f2])] [("x", .str ⟨s, false⟩)]

/-- the opaque functions are irrelevant to the counter-examples; any instance will do -/
def noPrims : Prims := ⟨id, id, id, fun _ s => some s, fun _ => []⟩

/-- **The full statement fails in the code as it is**: `{{ x | escape | slice: 0, 1 }}` with `x = "&"` satisfies every
hypothesis of the property (no literal text, no `safe`) and outputs a bare `&` (known finding `amp|cut`). -/
theorem amp_entities_counterexample :
    chain2 ⟨.escape, []⟩ ⟨.slice, [.int 0, .int 1]⟩ ['&'] noPrims = .ok ['&'] ∧ ¬ Ent ['&'] := by
  refine ⟨?_, by decide⟩
  rw [chain2, render_single]; rfl

/-- `{{ x | escape | remove: ';' }}` with `x = "<"` outputs `&lt` (known finding `amp|replace`) -/
theorem amp_entities_counterexample_replace :
    chain2 ⟨.escape, []⟩ ⟨.remove, [.lit [';']]⟩ ['<'] noPrims = .ok ['&', 'l', 't'] ∧ ¬ Ent ['&', 'l', 't'] := by
  refine ⟨?_, by decide⟩
  rw [chain2, render_single]; rfl

/-- `{{ x | escape | upcase }}` with `x = "<"` outputs `&LT;` (known finding `amp|case`) -/
theorem amp_entities_counterexample_upcase :
    chain2 ⟨.escape, []⟩ ⟨.upcase, []⟩ ['<'] noPrims = .ok ['&', 'L', 'T', ';'] ∧ ¬ Ent ['&', 'L', 'T', ';'] := by
  refine ⟨?_, by decide⟩
  rw [chain2, render_single]; rfl

/-- **The exclusion list of `amp_entities_partial` is exact**: for each of the nine excluded filters, `{{ x | escape | f … }}`
on a one-character `x` yields an output with a bare `&`. -/
theorem amp_entities_exclusions_exact :
    (chain2 ⟨.escape, []⟩ ⟨.slice, [.int 0, .int 1]⟩ ['&'] noPrims = .ok ['&']) ∧
    (chain2 ⟨.escape, []⟩ ⟨.split, [.lit ['m']]⟩ ['&'] noPrims = .ok ['&', 'a', 'p', ';']) ∧
    (chain2 ⟨.escape, []⟩ ⟨.remove, [.lit [';']]⟩ ['<'] noPrims = .ok ['&', 'l', 't']) ∧
    (chain2 ⟨.escape, []⟩ ⟨.remove_first, [.lit [';']]⟩ ['<'] noPrims = .ok ['&', 'l', 't']) ∧
    (chain2 ⟨.escape, []⟩ ⟨.remove_last, [.lit [';']]⟩ ['<'] noPrims = .ok ['&', 'l', 't']) ∧
    (chain2 ⟨.escape, []⟩ ⟨.replace, [.lit [';'], .lit ['x']]⟩ ['<'] noPrims = .ok ['&', 'l', 't', 'x']) ∧
    (chain2 ⟨.escape, []⟩ ⟨.replace_first, [.lit [';'], .lit ['x']]⟩ ['<'] noPrims = .ok ['&', 'l', 't', 'x']) ∧
    (chain2 ⟨.escape, []⟩ ⟨.replace_last, [.lit [';'], .lit ['x']]⟩ ['<'] noPrims = .ok ['&', 'l', 't', 'x']) ∧
    (chain2 ⟨.escape, []⟩ ⟨.upcase, []⟩ ['<'] noPrims = .ok ['&', 'L', 'T', ';']) ∧
    ¬ Ent ['&'] ∧ ¬ Ent ['&', 'a', 'p', ';'] ∧ ¬ Ent ['&', 'l', 't'] ∧ ¬ Ent ['&', 'l', 't', 'x'] ∧ ¬ Ent ['&', 'L', 'T', ';'] := by
  refine ⟨?_, ?_, ?_, ?_, ?_, ?_, ?_, ?_, ?_, by decide, by decide, by decide, by decide, by decide⟩ <;>
    (rw [chain2, render_single]; rfl)

/-- … none of which is a raw special: the three outputs are `Clean` (as `output_no_raw_specials` says they must be). -/
example : Clean ['&'] ∧ Clean ['&', 'l', 't'] ∧ Clean ['&', 'L', 'T', ';'] := by decide

/-- **Third sentence, read on outputs, fails in the code as it is**: `{{ x | append: 'a' | size }}` with `x = "<"` renders
`2` with autoescape off and `5` with autoescape on — neither output contains a special character (known finding
`noop|escaped-value-observed`: the literal is a `Markup`, so `append` escapes `x`, and `size` measures the escaped text). -/
theorem autoescape_noop_counterexample :
    chain2 ⟨.append, [.lit ['a']]⟩ ⟨.size, []⟩ ['<'] noPrims false = .ok ['2'] ∧
    chain2 ⟨.append, [.lit ['a']]⟩ ⟨.size, []⟩ ['<'] noPrims true = .ok ['5'] := by
  have hd : ∀ n : Nat, n < 10 → intStr (n : Int) = [Char.ofNat (48 + n)] := by
    intro n hn
    have h0 : ¬ ((n : Int) < 0) := by omega
    simp only [intStr, h0, if_false, Int.natAbs_natCast]
    rw [natDigits]; simp [hn]
  constructor
  · rw [chain2, render_single]
    show (Except.ok (outVal false (.num (2 : Nat))) : Except Err Str) = _
    simp only [outVal]; rw [hd 2 (by decide)]
  · rw [chain2, render_single]
    show (Except.ok (outVal true (.num (5 : Nat))) : Except Err Str) = _
    simp only [outVal]; rw [hd 5 (by decide)]

/-- **Third sentence — partial (operator level).** On text that contains none of `< > ' " &`, every place where autoescape
changes what the engine computes is the identity: `markupsafe.escape` and `html.escape` return their argument; `to_liquid_string`
writes the same characters for a value and for its flag-free twin; `+`, `join` and `replace` on `Markup`s produce the characters
of the plain `str` operations. (The statement for whole templates is not proved in Lean: it is checked on every case of the
streams by rendering with autoescape on and off — oracle signature `noop|clean-data` — and the `auto = false` half of the model is
tied to the engine by stream `render-off`. Read on *outputs* the sentence is false: `autoescape_noop_counterexample`.) -/
theorem autoescape_noop_on_clean_partial :
    (∀ s : Str, NoSp s → escape s = s ∧ htmlEscape s = s) ∧
    (∀ v : Val, v.NoSp → outVal true v = outVal false v.plain) ∧
    (∀ a b : TStr, NoSp a.chars → NoSp b.chars → (mixAdd a b).chars = a.chars ++ b.chars) ∧
    (∀ (sep : TStr) (items : List TStr), (∀ x ∈ items, NoSp x.chars) →
        (joinT sep items).chars = LiquidVerif.Filters.joinStr sep.chars (items.map (·.chars))) ∧
    (∀ (first : Bool) (s old new : TStr), NoSp new.chars →
        (replaceT first s old new).chars = (if first then replaceFirst else replaceAll) old.chars new.chars s.chars) :=
  ⟨fun _ h => ⟨escape_noop h, htmlEscape_noop h⟩, fun _ => outVal_noop, fun _ _ => mixAdd_noop, fun _ _ => joinT_noop,
   fun f s old _ => replaceT_noop f s old⟩

/-- **Third sentence — every filter.** With autoescape on and off, an admitted filter (`FName.noopOk`: every modelled filter
except the *observing* `size slice truncate truncatewords split remove* replace*`, the *decoding* `url_decode base64_decode
base64_url_safe_decode`, the HTML-generating `newline_to_br`, and `squish`) gives the same characters on values that contain none of
`< > ' " &`: the off-run on the flag-free values is the flag-free image of the on-run (`SimR`), errors included. -/
theorem filter_noop_on_clean (P : Prims) (hP : PClean P) (f : FName) (v : Val) (args : List Val)
    (hf : f.noopOk = true) (hv : v.NoSp) (ha : ∀ a ∈ args, a.NoSp) :
    SimR (applyFilter P true f v args) (applyFilter P false f v.plain (args.map Val.plain)) :=
  applyFilter_sim hP hf hv ha

/-- **Third sentence — templates `{{ head | f₁ | … | fₙ }}` with chains of any length.** If the render data `d` and the literals
contain none of the five characters and every filter is admitted, rendering with autoescape off (on the same data without Markup
flags) and with autoescape on give the same result — the same output, or the same error. The opaque text functions must not
introduce specials on special-free input (`PClean`; for the real `str(list)` that holds of the empty list only).
Not covered by a theorem: templates with several statements / block tags (checked by the on-off oracle on every generated case). -/
theorem autoescape_noop_on_clean (P : Prims) (hP : PClean P) (h : Arg) (fs : List FCall) (d : Env)
    (hh : h.noSp = true) (hfs : fs.all FCall.noopOk = true) (hd : EnvNoSp d) :
    render P false [.output (.chain h fs)] (Env.plain d) = render P true [.output (.chain h fs)] d := by
  rw [render_single, render_single]
  have hi : St.NoSp ⟨[], [], d, [], []⟩ := ⟨fun e he => (by cases he), fun p hp => (by cases hp), hd⟩
  have ha := evalArg_sim hi hh
  have hs := applyChain_sim hP hi hfs ha.2
  have hst : (⟨[], [], Env.plain d, [], []⟩ : St) = St.plain ⟨[], [], d, [], []⟩ := rfl
  simp only [evalExpr]
  rw [hst, ha.1]
  generalize applyChain P true ⟨[], [], d, [], []⟩ fs (evalArg true ⟨[], [], d, [], []⟩ h) = ron at hs
  generalize applyChain P false (St.plain ⟨[], [], d, [], []⟩) fs (evalArg true ⟨[], [], d, [], []⟩ h).plain = roff at hs
  cases ron <;> cases roff <;> simp only [SimR] at hs
  · subst hs; rfl
  · obtain ⟨h1, h2⟩ := hs; subst h1; simp only [outVal_noop h2]

/-- Non-vacuity: a chain of five admitted filters on special-free data and literals. -/
example : ([⟨.append, [.lit "-x".toList]⟩, ⟨.upcase, []⟩, ⟨.escape, []⟩, ⟨.strip, []⟩, ⟨.default, [.lit "d".toList]⟩] : List FCall).all
    FCall.noopOk = true := by decide

example : NoSp "plain text, 100% fine; a+b".toList := isNoSp_iff.mp (by decide)

/-- Non-vacuity of `amp_entities_partial`: hypotheses hold for a template with escape, append and join. -/
example : nodesOkE [.text "a&amp;".toList, .output (.chain (.var "x") [⟨.escape, []⟩, ⟨.append, [.lit "-".toList]⟩]),
    .output (.chain (.var "arr") [⟨.join, [.lit ", ".toList]⟩])] = true := by decide

end LiquidVerif.C05
