import LiquidVerif.Lemmas.Escape
/-! C05 — autoescape keeps render data from injecting HTML (first theorem; the file is extended below). -/
namespace LiquidVerif.C05
open LiquidVerif.Escape

/-- "text that comes from render data reaches the output only in HTML-escaped form": whatever the data string,
`markupsafe.escape` emits no raw `<`, `>`, `'`, `"`, and every `&` it emits begins one of its five entities. -/
theorem escape_clean (s : Str) : Clean (escape s) ∧ Ent (escape s) :=
  ⟨escape_isClean s, escape_isEnt s⟩

end LiquidVerif.C05
