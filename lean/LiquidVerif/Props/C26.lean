import LiquidVerif.Lemmas.Translate
/-!
# C26 — null translations leave message text intact

Property theorems about `Model/PyFormat.lean` (CPython `str % dict`) and `Model/Translate.lean`
(the message handling of `liquid/extra/filters/translate.py` and `liquid/extra/tags/translate_tag.py`,
after the three `fix:` commits recorded in `known_findings.d/C26.json`).
Helper lemmas live in `Lemmas/Translate.lean`.
-/
namespace LiquidVerif.C26
open LiquidVerif.PyFormat LiquidVerif.Translate

/-! ## The specification: placeholder substitution -/

/-- **"The message text unchanged except that `%(name)s` placeholders are replaced by the named
variables."**  Read the text left to right; at a `%` that is followed by `(name)s` (name a non-empty run
of `\w`) write the variable's value and continue after the `s`; copy every other character. -/
def substitute (w : Char → Bool) (val : Str → Str) (text : Str) : Str :=
  match text with
  | [] => []
  | c :: rest =>
    if c = '%' then
      match h : placeholder? w rest with
      | some (n, u) => val n ++ substitute w val u
      | none => c :: substitute w val rest
    else c :: substitute w val rest
termination_by text.length
decreasing_by
  · have := placeholder?_length h
    simp only [List.length_cons]; omega
  · simp only [List.length_cons]; omega
  · simp only [List.length_cons]; omega

theorem substitute_nil (w : Char → Bool) (val : Str → Str) : substitute w val [] = [] := by
  rw [substitute]

theorem substitute_literal (w : Char → Bool) (val : Str → Str) {c : Char} (hc : c ≠ '%') (rest : Str) :
    substitute w val (c :: rest) = c :: substitute w val rest := by
  rw [substitute]; simp [hc]

theorem substitute_stray (w : Char → Bool) (val : Str → Str) {rest : Str} (h : placeholder? w rest = none) :
    substitute w val ('%' :: rest) = '%' :: substitute w val rest := by
  rw [substitute]
  simp only [if_true]
  split
  · rename_i n u he; rw [h] at he; cases he
  · rfl

theorem substitute_placeholder (w : Char → Bool) (val : Str → Str) {rest n u : Str}
    (h : placeholder? w rest = some (n, u)) :
    substitute w val ('%' :: rest) = val n ++ substitute w val u := by
  rw [substitute]
  simp only [if_true]
  split
  · rename_i n2 u2 he
    rw [h] at he
    simp only [Option.some.injEq, Prod.mk.injEq] at he
    obtain ⟨rfl, rfl⟩ := he; rfl
  · rename_i he; rw [h] at he; cases he

/-- The specification, characterised independently of how it is computed: a text without any `%` is
returned as is, and a well-formed placeholder between two texts is replaced by its value. -/
theorem substitute_no_percent (w : Char → Bool) (val : Str → Str) (text : Str) (h : ∀ c ∈ text, c ≠ '%') :
    substitute w val text = text := by
  induction text with
  | nil => exact substitute_nil w val
  | cons c rest ih =>
    rw [substitute_literal w val (h c (by simp)), ih (fun x hx => h x (by simp [hx]))]

theorem substitute_segment (w : Char → Bool) (hw : WordClass w) (val : Str → Str) (lit n rest : Str)
    (hlit : ∀ c ∈ lit, c ≠ '%') (hn : n ≠ []) (hall : ∀ c ∈ n, w c = true) :
    substitute w val (lit ++ '%' :: '(' :: (n ++ ')' :: 's' :: rest)) = lit ++ val n ++ substitute w val rest := by
  induction lit with
  | nil =>
    simp only [List.nil_append]
    exact substitute_placeholder w val (placeholder?_of_shape hw hn hall)
  | cons c l ih =>
    have hc := hlit c (by simp)
    simp only [List.cons_append]
    rw [substitute_literal w val hc, ih (fun x hx => hlit x (by simp [hx]))]

/-! ## Filters: escaping + CPython formatting = substitution -/

/-- The engine of the proof, for any mapping that holds the values of the variables found in the text and
any "argument already consumed" state of the formatter. -/
theorem formatAux_escapePercent (w : Char → Bool) (hw : WordClass w) (val : Str → Str) (env : Env) :
    ∀ (text : Str) (used : Bool), (∀ n ∈ findVars w text, env.lookup n = some (val n)) →
      formatAux env used (escapePercent w text) = .ok (substitute w val text) := by
  intro text
  induction h : text.length using Nat.strongRecOn generalizing text with
  | _ len ih =>
    intro used henv
    cases text with
    | nil => simp [escapePercent, formatAux_nil, substitute_nil]
    | cons c rest =>
      by_cases hc : c = '%'
      · subst hc
        cases hp : placeholder? w rest with
        | none =>
          -- a stray `%`: doubled, read back as one `%`
          have hesc : escapePercent w ('%' :: rest) = '%' :: '%' :: escapePercent w rest := by
            simp [escapePercent, hp]
          have hsub := ih rest.length (by subst h; simp) rest rfl used
            (fun n hn => henv n (findVars_cons_subset w '%' rest n hn))
          rw [hesc, formatAux_directive env used _ (directive_percent env used _), hsub,
            substitute_stray w val hp]
          rfl
        | some p =>
          obtain ⟨n, u⟩ := p
          obtain ⟨hrest, hn, hall⟩ := placeholder?_some hp
          have hns := word_no_special hw hall
          -- the escaping leaves the placeholder alone
          have hesc : escapePercent w ('%' :: rest) = '%' :: '(' :: (n ++ ')' :: 's' :: escapePercent w u) := by
            have h1 : escapePercent w ('%' :: rest) = '%' :: escapePercent w rest := by
              simp [escapePercent, hp]
            have h2 : rest = ('(' :: (n ++ [')', 's'])) ++ u := by simp [hrest]
            have h3 : ∀ c ∈ ('(' :: (n ++ [')', 's'])), c ≠ '%' := by
              intro c hc
              simp only [List.mem_cons, List.mem_append, List.not_mem_nil, or_false] at hc
              rcases hc with rfl | hc | rfl | rfl
              · decide
              · exact (hns c hc).1
              · decide
              · decide
            rw [h1, h2, escapePercent_prefix w h3]
            simp
          -- the variable is in `_vars`
          have hmem : n ∈ findVars w ('%' :: rest) := by simp [findVars, hp]
          have hlk := henv n hmem
          have hdir := directive_placeholder env used (val n) (escapePercent w u)
            (fun c hc => ⟨(hns c hc).2.1, (hns c hc).2.2⟩) hlk
          have hsub := ih u.length (by subst h; have := placeholder?_length hp; simp; omega) u rfl true
            (fun m hm => henv m (by
              rw [hrest]
              exact findVars_append_subset w ('%' :: '(' :: (n ++ [')', 's'])) u m hm |> fun x => by
                simpa using x))
          rw [hesc, formatAux_directive env used _ hdir, hsub, substitute_placeholder w val hp]
          rfl
      · have hesc : escapePercent w (c :: rest) = c :: escapePercent w rest := by
          simp [escapePercent, hc]
        have hsub := ih rest.length (by subst h; simp) rest rfl used
          (fun n hn => henv n (findVars_cons_subset w c rest n hn))
        rw [hesc, formatAux_literal env used hc, hsub, substitute_literal w val hc]
        rfl

/-- **format_is_substitution** (first sentence of the property, filters `t`, `gettext`, `ngettext`,
`pgettext`, `npgettext`): for *every* message text — any mixture of `%`, `%%`, `%s`, `%(name)s`, `(`, `)`,
whitespace, markup — `format_message` never fails and returns the text with exactly the `%(name)s`
placeholders replaced; every other character, every other percent sign included, is untouched.
Holds for every `\w` class that excludes `%`, `(`, `)` and whatever `str(_vars)` is. -/
theorem format_is_substitution (w : Char → Bool) (hw : WordClass w) (val : Str → Str) (selfStr text : Str) :
    formatMessage w val selfStr text = .ok (substitute w val text) := by
  unfold formatMessage format
  apply formatAux_escapePercent w hw val
  intro n hn
  simp [varsEnv, hn]

end LiquidVerif.C26
