import LiquidVerif.Lemmas.TranslateTrim
/-!
# C26 — null translations leave message text intact

Property theorems about `Model/PyFormat.lean` (CPython `str % dict`) and `Model/Translate.lean`
(the message handling of `liquid/extra/filters/translate.py` and `liquid/extra/tags/translate_tag.py`,
after the three `fix:` commits recorded in `known_findings.d/C26.json`).
Helper lemmas live in `Lemmas/Translate.lean`.
-/
namespace LiquidVerif.C26
open LiquidVerif.PyFormat LiquidVerif.Translate

/-! ## The specification: placeholder substitution -/

/-- **"The message text unchanged except that `%(name)s` placeholders are replaced by the named
variables."**  Read the text left to right; at a `%` that is followed by `(name)s` (name a non-empty run
of `\w`) write the variable's value and continue after the `s`; copy every other character. -/
def substitute (w : Char → Bool) (val : Str → Str) (text : Str) : Str :=
  match text with
  | [] => []
  | c :: rest =>
    if c = '%' then
      match h : placeholder? w rest with
      | some (n, u) => val n ++ substitute w val u
      | none => c :: substitute w val rest
    else c :: substitute w val rest
termination_by text.length
decreasing_by
  · have := placeholder?_length h
    simp only [List.length_cons]; omega
  · simp only [List.length_cons]; omega
  · simp only [List.length_cons]; omega

theorem substitute_nil (w : Char → Bool) (val : Str → Str) : substitute w val [] = [] := by
  rw [substitute]

theorem substitute_literal (w : Char → Bool) (val : Str → Str) {c : Char} (hc : c ≠ '%') (rest : Str) :
    substitute w val (c :: rest) = c :: substitute w val rest := by
  rw [substitute]; simp [hc]

theorem substitute_stray (w : Char → Bool) (val : Str → Str) {rest : Str} (h : placeholder? w rest = none) :
    substitute w val ('%' :: rest) = '%' :: substitute w val rest := by
  rw [substitute]
  simp only [if_true]
  split
  · rename_i n u he; rw [h] at he; cases he
  · rfl

theorem substitute_placeholder (w : Char → Bool) (val : Str → Str) {rest n u : Str}
    (h : placeholder? w rest = some (n, u)) :
    substitute w val ('%' :: rest) = val n ++ substitute w val u := by
  rw [substitute]
  simp only [if_true]
  split
  · rename_i n2 u2 he
    rw [h] at he
    simp only [Option.some.injEq, Prod.mk.injEq] at he
    obtain ⟨rfl, rfl⟩ := he; rfl
  · rename_i he; rw [h] at he; cases he

/-- The specification, characterised independently of how it is computed: a text without any `%` is
returned as is, and a well-formed placeholder between two texts is replaced by its value. -/
theorem substitute_no_percent (w : Char → Bool) (val : Str → Str) (text : Str) (h : ∀ c ∈ text, c ≠ '%') :
    substitute w val text = text := by
  induction text with
  | nil => exact substitute_nil w val
  | cons c rest ih =>
    rw [substitute_literal w val (h c (by simp)), ih (fun x hx => h x (by simp [hx]))]

theorem substitute_segment (w : Char → Bool) (hw : WordClass w) (val : Str → Str) (lit n rest : Str)
    (hlit : ∀ c ∈ lit, c ≠ '%') (hn : n ≠ []) (hall : ∀ c ∈ n, w c = true) :
    substitute w val (lit ++ '%' :: '(' :: (n ++ ')' :: 's' :: rest)) = lit ++ val n ++ substitute w val rest := by
  induction lit with
  | nil =>
    simp only [List.nil_append]
    exact substitute_placeholder w val (placeholder?_of_shape hw hn hall)
  | cons c l ih =>
    have hc := hlit c (by simp)
    simp only [List.cons_append]
    rw [substitute_literal w val hc, ih (fun x hx => hlit x (by simp [hx]))]

/-! ## Filters: escaping + CPython formatting = substitution -/

/-- The engine of the proof, for any mapping that holds the values of the variables found in the text and
any "argument already consumed" state of the formatter. -/
theorem formatAux_escapePercent (w : Char → Bool) (hw : WordClass w) (val : Str → Str) (env : Env) :
    ∀ (text : Str) (used : Bool), (∀ n ∈ findVars w text, env.lookup n = some (val n)) →
      formatAux env used (escapePercent w text) = .ok (substitute w val text) := by
  intro text
  induction h : text.length using Nat.strongRecOn generalizing text with
  | _ len ih =>
    intro used henv
    cases text with
    | nil => simp [escapePercent, formatAux_nil, substitute_nil]
    | cons c rest =>
      by_cases hc : c = '%'
      · subst hc
        cases hp : placeholder? w rest with
        | none =>
          -- a stray `%`: doubled, read back as one `%`
          have hesc : escapePercent w ('%' :: rest) = '%' :: '%' :: escapePercent w rest := by
            simp [escapePercent, hp]
          have hsub := ih rest.length (by subst h; simp) rest rfl used
            (fun n hn => henv n (findVars_cons_subset w '%' rest n hn))
          rw [hesc, formatAux_directive env used _ (directive_percent env used _), hsub,
            substitute_stray w val hp]
          rfl
        | some p =>
          obtain ⟨n, u⟩ := p
          obtain ⟨hrest, hn, hall⟩ := placeholder?_some hp
          have hns := word_no_special hw hall
          -- the escaping leaves the placeholder alone
          have hesc : escapePercent w ('%' :: rest) = '%' :: '(' :: (n ++ ')' :: 's' :: escapePercent w u) := by
            have h1 : escapePercent w ('%' :: rest) = '%' :: escapePercent w rest := by
              simp [escapePercent, hp]
            have h2 : rest = ('(' :: (n ++ [')', 's'])) ++ u := by simp [hrest]
            have h3 : ∀ c ∈ ('(' :: (n ++ [')', 's'])), c ≠ '%' := by
              intro c hc
              simp only [List.mem_cons, List.mem_append, List.not_mem_nil, or_false] at hc
              rcases hc with rfl | hc | rfl | rfl
              · decide
              · exact (hns c hc).1
              · decide
              · decide
            rw [h1, h2, escapePercent_prefix w h3]
            simp
          -- the variable is in `_vars`
          have hmem : n ∈ findVars w ('%' :: rest) := by simp [findVars, hp]
          have hlk := henv n hmem
          have hdir := directive_placeholder env used (val n) (escapePercent w u)
            (fun c hc => ⟨(hns c hc).2.1, (hns c hc).2.2⟩) hlk
          have hsub := ih u.length (by subst h; have := placeholder?_length hp; simp; omega) u rfl true
            (fun m hm => henv m (by
              rw [hrest]
              exact findVars_append_subset w ('%' :: '(' :: (n ++ [')', 's'])) u m hm |> fun x => by
                simpa using x))
          rw [hesc, formatAux_directive env used _ hdir, hsub, substitute_placeholder w val hp]
          rfl
      · have hesc : escapePercent w (c :: rest) = c :: escapePercent w rest := by
          simp [escapePercent, hc]
        have hsub := ih rest.length (by subst h; simp) rest rfl used
          (fun n hn => henv n (findVars_cons_subset w c rest n hn))
        rw [hesc, formatAux_literal env used hc, hsub, substitute_literal w val hc]
        rfl

/-- **format_is_substitution** (first sentence of the property, filters `t`, `gettext`, `ngettext`,
`pgettext`, `npgettext`): for *every* message text — any mixture of `%`, `%%`, `%s`, `%(name)s`, `(`, `)`,
whitespace, markup — `format_message` never fails and returns the text with exactly the `%(name)s`
placeholders replaced; every other character, every other percent sign included, is untouched.
Holds for every `\w` class that excludes `%`, `(`, `)` and whatever `str(_vars)` is. -/
theorem format_is_substitution (w : Char → Bool) (hw : WordClass w) (val : Str → Str) (selfStr text : Str) :
    formatMessage w val selfStr text = .ok (substitute w val text) := by
  unfold formatMessage format
  apply formatAux_escapePercent w hw val
  intro n hn
  simp [varsEnv, hn]

/-! ## The translate tag -/

/-- what the block stands for: content as written, variables by value -/
def expandPieces (val : Str → Str) : List Piece → Str
  | [] => []
  | .content s :: ps => s ++ expandPieces val ps
  | .var n :: ps => val n ++ expandPieces val ps

theorem formatAux_messageText (w : Char → Bool) (hw : WordClass w) (val : Str → Str) (env : Env) :
    ∀ (ps : List Piece) (used : Bool), WordNames w ps → (∀ n ∈ varNames ps, env.lookup n = some (val n)) →
      formatAux env used (messageText ps) = .ok (expandPieces val ps) := by
  intro ps
  induction ps with
  | nil => intro used _ _; simp [messageText, formatAux_nil, expandPieces]
  | cons p ps ih =>
    intro used hn henv
    cases p with
    | content s =>
      have := ih used (fun n h => hn n (by simpa [varNames] using h))
        (fun n h => henv n (by simpa [varNames] using h))
      simp only [messageText, List.flatMap_cons, pieceText, expandPieces] at this ⊢
      rw [formatAux_doublePercent, this]; rfl
    | var n =>
      have hnn := hn n (by simp [varNames])
      have hns := word_no_special hw hnn.2
      have := ih true (fun m h => hn m (by simp [varNames, h])) (fun m h => henv m (by simp [varNames, h]))
      simp only [messageText, List.flatMap_cons, pieceText, expandPieces] at this ⊢
      have h2 : '%' :: '(' :: (n ++ [')', 's']) ++ List.flatMap pieceText ps
          = '%' :: '(' :: (n ++ ')' :: 's' :: List.flatMap pieceText ps) := by simp
      have hdir := directive_placeholder env used (val n) (List.flatMap pieceText ps)
        (fun c hc => ⟨(hns c hc).2.1, (hns c hc).2.2⟩) (henv n (by simp [varNames]))
      rw [h2, formatAux_directive env used _ hdir, this]; rfl

/-- **tag_format_is_expansion_partial** (first sentence of the property, `translate` tag, with
`trim_messages` off): doubling `%` in the literal text and writing `{{ name }}` as `%(name)s`, then
formatting, gives back the block — literal text untouched (every percent sign included), variables by
value.  *Partial*: the variable names must be `\w+` words; `tag_format_counterexample` shows the code fails
for `{{ a-b }}` (a valid Liquid identifier). -/
theorem tag_format_is_expansion_partial (w : Char → Bool) (hw : WordClass w) (val : Str → Str) (selfStr : Str)
    (ps : List Piece) (hn : WordNames w ps) :
    tagFormatText w val selfStr (messageText ps) = .ok (expandPieces val ps) := by
  unfold tagFormatText format
  apply formatAux_messageText w hw val _ ps false hn
  intro n hmem
  simp [varsEnv, findVarsTag_messageText w hw ps hn, hmem]

/-- The full-strength statement is false for the code as it is, even with the widened name class
`[^()%]` of the fixed tag: a variable reached by bracket notation whose name contains a parenthesis,
`{{ ['a)b'] }}`, makes `_format_message` raise `KeyError` (known finding
`tag|var-paren-percent|raises-KeyError`).  With the `\w` class of the unfixed tag the same happens for
`{{ a-b }}` (`tag_format_counterexample_word`). -/
theorem tag_format_counterexample :
    ¬ (∀ (val : Str → Str) (ps : List Piece),
        tagFormatText tagNameChar val [] (messageText ps) = .ok (expandPieces val ps)) := by
  intro h
  have := h (fun _ => ['V']) [.var ['a', ')', 'b']]
  have hmsg : messageText [.var ['a', ')', 'b']] = ['%', '(', 'a', ')', 'b', ')', 's'] := by decide
  have hvars : findVarsTag tagNameChar ['%', '(', 'a', ')', 'b', ')', 's'] = [] := by decide
  have hdir : directive (varsEnv [] (fun _ => ['V']) []) false ['(', 'a', ')', 'b', ')', 's'] = .error .keyError := by
    rfl
  rw [hmsg] at this
  unfold tagFormatText format at this
  rw [hvars, formatAux_directive_error _ _ _ hdir] at this
  cases this

theorem tag_format_counterexample_word :
    ¬ (∀ (val : Str → Str) (ps : List Piece),
        tagFormatText asciiWord val [] (messageText ps) = .ok (expandPieces val ps)) := by
  intro h
  have := h (fun _ => ['V']) [.var ['a', '-', 'b']]
  have hmsg : messageText [.var ['a', '-', 'b']] = ['%', '(', 'a', '-', 'b', ')', 's'] := by decide
  have hvars : findVarsTag asciiWord ['%', '(', 'a', '-', 'b', ')', 's'] = [] := by decide
  have hdir : directive (varsEnv [] (fun _ => ['V']) []) false ['(', 'a', '-', 'b', ')', 's'] = .error .keyError := by
    rfl
  rw [hmsg] at this
  unfold tagFormatText format at this
  rw [hvars, formatAux_directive_error _ _ _ hdir] at this
  cases this

/-- after the fix a hyphenated identifier is an admissible name -/
example : WordNames tagNameChar [.content ['x'], .var ['a', '-', 'b']] := by
  intro n hn
  simp only [varNames, List.mem_cons, List.not_mem_nil, or_false] at hn
  subst hn
  exact ⟨by decide, by decide⟩

/-! ## Plural choice -/

/-- **plural_choice** (second sentence of the property): null translations choose the singular for
`n = 1` and the plural for every other `n` — `0` included. -/
theorem null_plural_choice (s p : Str) (n : Int) : nullNgettext s p n = if n = 1 then s else p := rfl

/-- An integer count — zero too — is a count for the `t` filter (`_count` after the fix). -/
theorem t_count_int (i : Int) : tCount (some (.int i)) = .ok (some i) := rfl

/-- `None`, `True`, `False` and a missing `count` argument are "no count". -/
theorem t_count_absent : tCount none = .ok none ∧ tCount (some .none) = .ok none ∧
    ∀ b, tCount (some (.bool b)) = .ok none := ⟨rfl, rfl, fun _ => rfl⟩

/-- **plural_choice_t**: the `t` filter with a plural and a usable count `n` picks exactly what gettext's
null translations pick, with or without a message context. -/
theorem plural_choice_t (left plural : Str) (ctx? : Option Str) (count? : Option CountVal) (n : Int)
    (hn : tCount count? = .ok (some n)) :
    tChoice left ctx? (some plural) count? = .ok (if n = 1 then left else plural) := by
  unfold tChoice
  rw [hn]
  cases ctx? <;> rfl

/-- without a plural, or without a usable count, the `t` filter keeps the singular message -/
theorem singular_choice_t (left : Str) (ctx? plural? : Option Str) (count? : Option CountVal)
    (h : plural? = none ∨ tCount count? = .ok none) :
    tChoice left ctx? plural? count? = .ok left ∨ ∃ e, tCount count? = .error e := by
  unfold tChoice
  cases hc : tCount count? with
  | error e => exact Or.inr ⟨e, rfl⟩
  | ok n? =>
    left
    rcases h with h | h
    · subst h; cases n? <;> cases ctx? <;> rfl
    · rw [hc] at h; cases h; cases plural? <;> cases ctx? <;> rfl

/-- **plural_choice_n**: the `ngettext` / `npgettext` filters with an integer count. -/
theorem plural_choice_n (left plural : Str) (i : Int) :
    nChoice left plural (.int i) = .ok (if i = 1 then left else plural) := rfl

/-- **plural_choice_tag**: the tag with a plural block and an integer count (zero too). -/
theorem plural_choice_tag (singular plural : Str) (i : Int) :
    tagChoice singular (some plural) (some (.int i)) = .ok (if i = 1 then singular else plural) := rfl

/-- the tag without `count` behaves as `count: 1` -/
theorem tag_default_count (singular : Str) (plural? : Option Str) :
    tagChoice singular plural? none = .ok singular := by
  cases plural? <;> rfl

/-! ## End to end -/

/-- the `t` filter: whatever message is chosen is output by substitution -/
theorem t_filter_output (w : Char → Bool) (hw : WordClass w) (val : Str → Str) (left : Str)
    (ctx? plural? : Option Str) (count? : Option CountVal) (m : Str)
    (h : tChoice left ctx? plural? count? = .ok m) :
    tFilter w val left ctx? plural? count? = .ok (substitute w val m) := by
  unfold tFilter bindE
  rw [h]
  exact format_is_substitution w hw val [] m

/-- `{{ left | t: plural: p, count: 0 }}` outputs the substituted *plural*. -/
theorem t_filter_count_zero (w : Char → Bool) (hw : WordClass w) (val : Str → Str) (left plural : Str)
    (ctx? : Option Str) :
    tFilter w val left ctx? (some plural) (some (.int 0)) = .ok (substitute w val plural) := by
  apply t_filter_output w hw
  rw [plural_choice_t left plural ctx? _ 0 rfl]; rfl

/-- the `ngettext` / `npgettext` filters -/
theorem n_filter_output (w : Char → Bool) (hw : WordClass w) (val : Str → Str) (left plural : Str) (i : Int) :
    nFilter w val left plural (.int i) = .ok (substitute w val (if i = 1 then left else plural)) := by
  unfold nFilter bindE
  rw [plural_choice_n]
  exact format_is_substitution w hw val [] _

/-- the `translate` tag (no trimming), integer count -/
theorem translate_tag_output_partial (w ws : Char → Bool) (hw : WordClass w) (val : Str → Str)
    (singular plural : List Piece) (i : Int) (hs : WordNames w singular) (hp : WordNames w plural) :
    translateTag w ws val false singular (some plural) (some (.int i))
      = .ok (expandPieces val (if i = 1 then singular else plural)) := by
  unfold translateTag bindE
  simp only [blockText, Option.map_some, plural_choice_tag, Bool.false_eq_true, if_false]
  by_cases hi : i = 1
  · simp only [hi, if_true]; exact tag_format_is_expansion_partial w hw val [] singular hs
  · simp only [hi, if_false]; exact tag_format_is_expansion_partial w hw val [] plural hp

/-! ## The translate tag with `trim_messages` (the default) -/

theorem expandPieces_piecesOf (val : Str → Str) (as : List Atom) :
    expandPieces val (piecesOf as) = expandAtoms val as := by
  induction as with
  | nil => rfl
  | cons a r ih => cases a <;> simp [piecesOf, expandPieces, expandAtoms, ih]

/-- the atom view of a block agrees with the piece view -/
theorem expandAtoms_atomsOf (val : Str → Str) (ps : List Piece) :
    expandAtoms val (atomsOf ps) = expandPieces val ps := by
  induction ps with
  | nil => rfl
  | cons p ps ih =>
    cases p with
    | content s =>
      simp only [atomsOf, expandPieces]
      induction s with
      | nil => simpa using ih
      | cons c s' ih2 => simp [expandAtoms, ih2]
    | var n => simp [atomsOf, expandPieces, expandAtoms, ih]

/-- **tag_format_trimmed_partial** ("the tag also collapses whitespace runs"): with `trim_messages` on, the
message text is stripped and every whitespace run containing a newline becomes one space *before* it is
formatted; the output is the block's atoms — literal characters and `{{ name }}` placeholders —
trimmed by exactly that rule (`trimAtoms`, a placeholder never counting as whitespace), literal `%` intact and
variables by value (values themselves are not trimmed).  For every `\s` class that excludes `%`, `(`, `)`,
`s`.  *Partial*: variable names are words of the name class and contain no whitespace. -/
theorem tag_format_trimmed_partial (w ws : Char → Bool) (hw : WordClass w) (hs : SpaceClass ws)
    (val : Str → Str) (selfStr : Str) (ps : List Piece) (hn : WordNames w ps)
    (hnw : ∀ n ∈ varNames ps, ∀ c ∈ n, ws c = false) :
    tagFormatText w val selfStr (trimMessage ws (messageText ps))
      = .ok (expandAtoms val (trimAtoms ws (atomsOf ps))) := by
  have hno : NoWsNames ws (atomsOf ps) := fun n hm c hc => hnw n ((ph_mem_atomsOf ps n).mp hm) c hc
  rw [messageText_eq_flatMap, trimMessage_flatMap hs _ hno, ← messageText_piecesOf]
  have hwn : WordNames w (piecesOf (trimAtoms ws (atomsOf ps))) := by
    intro n hm
    have := (varNames_piecesOf _ n).mp hm
    exact hn n ((ph_mem_atomsOf ps n).mp (ph_mem_trimAtoms this))
  rw [tag_format_is_expansion_partial w hw val selfStr _ hwn, expandPieces_piecesOf]

/-- the `translate` tag as shipped (trimming on), integer count -/
theorem translate_tag_output_trimmed_partial (w ws : Char → Bool) (hw : WordClass w) (hs : SpaceClass ws)
    (val : Str → Str) (singular plural : List Piece) (i : Int)
    (hsn : WordNames w singular) (hpn : WordNames w plural)
    (hsw : ∀ n ∈ varNames singular, ∀ c ∈ n, ws c = false)
    (hpw : ∀ n ∈ varNames plural, ∀ c ∈ n, ws c = false) :
    translateTag w ws val true singular (some plural) (some (.int i))
      = .ok (expandAtoms val (trimAtoms ws (atomsOf (if i = 1 then singular else plural)))) := by
  unfold translateTag bindE
  simp only [blockText, Option.map_some, plural_choice_tag, if_true]
  by_cases hi : i = 1
  · simp only [hi, if_true]; exact tag_format_trimmed_partial w ws hw hs val [] singular hsn hsw
  · simp only [hi, if_false]; exact tag_format_trimmed_partial w ws hw hs val [] plural hpn hpw

example : SpaceClass isPySpace := isPySpace_spaceClass

/-! ## Non-vacuity -/

example : WordClass asciiWord := asciiWord_wordClass

example : WordNames asciiWord [.content ['1', '0', '0', '%'], .var ['y', 'o', 'u']] := by
  intro n hn
  simp only [varNames, List.mem_cons, List.not_mem_nil, or_false] at hn
  subst hn
  exact ⟨by decide, by decide⟩

example : tCount (some (.int 0)) = .ok (some 0) := rfl

end LiquidVerif.C26
