import LiquidVerif.Model.Analysis
/-! placeholder, replaced below -/
namespace LiquidVerif.C19
open LiquidVerif.Analysis
theorem placeholder_reach_nil : reach .nil "" = [] := rfl
end LiquidVerif.C19
