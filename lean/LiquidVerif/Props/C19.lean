import LiquidVerif.Lemmas.AnalysisSim
import LiquidVerif.Lemmas.AnalysisFirst
import LiquidVerif.Lemmas.AnalysisKeyed
import LiquidVerif.Lemmas.AnalysisSpans
import LiquidVerif.Gen.NodeExprCoverage
/-!
# C19 — static analysis reports everything a render can touch

Model: `LiquidVerif/Model/Analysis.lean` (`analyze` mirrors `_visit` of `liquid/static_analysis.py`;
`render` is the choice-driven render emitting the access trace; `reach` is everything some render can
emit).  An event `Ev.get l exc` is a lookup of root `l.root` at reference `(l.tmpl, l.pos)`; the ghost
flag `exc` says the reference is inside a block binding the root or preceded in source order by an
assignment to it.  `evOk st e` is what the property asks of the analysis result `st` for event `e`:

* `get l exc`  — `l ∈ st.vars`  (sentence 1: the variable path is reported), and
                 `exc = false → l ∈ st.globs` (sentence 2, for a lookup of *any* origin — in particular
                 one that reads the render arguments or globals);
* `filt f`     — `f ∈ st.filters` (sentence 1: filter names);
* `tag t`      — some entry of `st.tags` is named `t` (sentence 1: tag names).
-/

namespace LiquidVerif.C19
open LiquidVerif.Analysis

/-- Hypotheses of the partial theorem: every partial name (and the root's name) is reached at most once
— so no partial is reached twice, from different scopes or otherwise, and there is no recursion —
and no `include` sits below a `render`ed partial or a macro body. -/
def Hyp (ns : Nodes) (tmpl : Name) : Prop :=
  (tmpl :: partNamesNodes ns).Nodup ∧ noDeadIncNodes ns false = true

instance (ns : Nodes) (tmpl : Name) : Decidable (Hyp ns tmpl) := by unfold Hyp; infer_instance

/-- What the property asks for one traced event. -/
def Reported (st : St) : Ev → Prop
  | .get l exc => l ∈ st.vars ∧ (exc = false → l ∈ st.globs)
  | .filt f => f ∈ st.filters
  | .tag t => ∃ x ∈ st.tags, x.1 = t

theorem reported_iff (st : St) (e : Ev) : Reported st e ↔ evOk st e = true := by
  rw [evOk_iff]; cases e <;> rfl

/-- Dynamic side: whatever the data (choices), a render only emits reachable events: it evaluates only
`expressions()` of nodes it renders, renders only `children()`, and `include` below a `render`/macro
raises before evaluating anything. -/
theorem render_sub_reach (ns : Nodes) (tmpl : Name) (ch : List Bool) :
    ∀ e ∈ render ns tmpl ch, e ∈ reach ns tmpl :=
  renderNodes_sub ns tmpl [] [] false ch

/-- Static side of the partial theorem: under `Hyp` every reachable event is reported. -/
theorem reach_reported_partial (ns : Nodes) (tmpl : Name) (h : Hyp ns tmpl) :
    ∀ e ∈ reach ns tmpl, Reported (analyze ns tmpl) e := by
  intro e he
  rw [reported_iff]
  have hnd := List.nodup_cons.1 h.1
  have := visitNodes_ok ns tmpl St.init [] [] false
    (by intro nm _ k hk; simp [St.init] at hk) hnd.2 hnd.1 h.2 (fun _ => rfl)
    (by intro n; simp [St.init, St.cur, Scope.has])
  exact this.evs e he

/-- **C19, both sentences, for templates whose partials are each reached once and that have no
`include` below a `render`/macro** (`_partial`: the excluded inputs are the decidable `¬ Hyp`): for any
data, every lookup of a render is a reported variable, every applied filter and rendered tag is
reported, and every lookup at a reference that is neither inside a block binding the root nor preceded
by an assignment to it has its root reported as a global. -/
theorem analysis_sound_partial (ns : Nodes) (tmpl : Name) (h : Hyp ns tmpl) (ch : List Bool) :
    ∀ e ∈ render ns tmpl ch, Reported (analyze ns tmpl) e :=
  fun e he => reach_reported_partial ns tmpl h e (render_sub_reach ns tmpl ch e he)

/-- The four clauses of `analysis_sound_partial` spelled out. -/
theorem analysis_sound_partial_clauses (ns : Nodes) (tmpl : Name) (h : Hyp ns tmpl) (ch : List Bool) :
    (∀ l exc, Ev.get l exc ∈ render ns tmpl ch → l ∈ (analyze ns tmpl).vars) ∧
    (∀ f, Ev.filt f ∈ render ns tmpl ch → f ∈ (analyze ns tmpl).filters) ∧
    (∀ t, Ev.tag t ∈ render ns tmpl ch → t ∈ (analyze ns tmpl).tags.map (·.1)) ∧
    (∀ l, Ev.get l false ∈ render ns tmpl ch → l ∈ (analyze ns tmpl).globs) := by
  refine ⟨?_, ?_, ?_, ?_⟩
  · intro l exc he; exact (analysis_sound_partial ns tmpl h ch _ he).1
  · intro f he; exact analysis_sound_partial ns tmpl h ch _ he
  · intro t he
    obtain ⟨x, hx, hxt⟩ := analysis_sound_partial ns tmpl h ch _ he
    exact List.mem_map.2 ⟨x, hx, hxt⟩
  · intro l he; exact (analysis_sound_partial ns tmpl h ch _ he).2 rfl

/-- The Boolean form the correspondence harness evaluates on every case (`hyp → sound`). -/
theorem sound_of_hyp (ns : Nodes) (tmpl : Name) (h : Hyp ns tmpl) :
    (reach ns tmpl).all (evOk (analyze ns tmpl)) = true := by
  rw [List.all_eq_true]
  intro e he
  exact (reported_iff _ _).1 (reach_reported_partial ns tmpl h e he)

/-! ## Sentence 1 at full strength (partials reached any number of times) -/

/-- Sentence 1 for one event: the looked-up reference is a reported variable, the filter / tag name is reported. -/
def Reported1 (st : St) : Ev → Prop
  | .get l _ => l ∈ st.vars
  | .filt f => f ∈ st.filters
  | .tag t => ∃ x ∈ st.tags, x.1 = t

/-- **C19, first sentence, without the reached-once hypothesis**: for every tree in which each partial name
stands for one template (`ConsNodes B`: the body of a partial node named `nm` is `B nm`, names are non-empty
and no partial contains itself) and that does not include its own root, whatever the `seen` map skips or
visits "globals only" — partials included or rendered several times, from any scopes, `include` below
`render` — every lookup of any render is a reported variable reference and every applied filter and
rendered tag is reported.  (Invariant: every name in `seen` is in progress or has its whole body recorded.) -/
theorem analysis_reports_all (ns : Nodes) (tmpl : Name) (B : Name → Nodes) (hc : ConsNodes B ns)
    (ht : tmpl ∉ partNamesNodes ns) (ch : List Bool) :
    ∀ e ∈ render ns tmpl ch, Reported1 (analyze ns tmpl) e := by
  intro e he
  have h := visitNodes_first ns tmpl false St.init [tmpl] B hc
    (by intro nm hnm hh; rw [List.mem_singleton.1 hnm] at hh; exact ht hh)
    (fun _ => List.mem_singleton.2 rfl) (by intro p hp; simp [St.init] at hp) (fun hh => by cases hh)
  have := reachNodes_sub_all (analyze ns tmpl) ns tmpl [] [] false h.recd e (renderNodes_sub ns tmpl [] [] false ch e he)
  rw [evOk1_iff] at this
  cases e <;> exact this

/-! ## Sentence 2 under the hypothesis the `seen` de-duplication needs -/

/-- **C19, both sentences, with rendered partials reached any number of times** (`_partial`; weaker
hypothesis than `Hyp` on the render side): the tree is consistent (`ConsNodes B`: one template per partial
name, no partial containing itself), and `hyp2b`: no `include` below a `render`/macro, every *included* name
is reached once and is not also rendered, the root is not a partial, and **equal `render` keys (name,
argument names) mean equal bound variables — every reach of a rendered partial under one key happens under the
same static scope**.  Then, for any data, every lookup is a reported variable, every filter and tag is
reported, and every lookup at an unbound reference has its root reported global: a `render` reached again with
a known key is skipped soundly, with a new key it is revisited "globals only" soundly.
(Invariant `InvG`: every keyed `seen` entry is in progress or all unbound lookups of that partial under that
key's scope are already reported.) -/
theorem analysis_sound_keyed_partial (ns : Nodes) (tmpl : Name) (B : Name → Nodes) (hc : ConsNodes B ns)
    (h2 : hyp2b ns tmpl = true) (ch : List Bool) :
    ∀ e ∈ render ns tmpl ch, Reported (analyze ns tmpl) e := by
  intro e he
  have htm : tmpl ∉ partNamesNodes ns := by
    simp only [hyp2b, Bool.and_eq_true, Bool.not_eq_true'] at h2
    intro hh; have := List.contains_iff_mem.2 hh; simp_all
  have h1 := analysis_reports_all ns tmpl B hc htm ch e he
  have hr := render_sub_reach ns tmpl ch e he
  cases e with
  | get l exc =>
    refine ⟨h1, fun hx => ?_⟩
    subst hx
    exact keyed_globals B ns tmpl hc h2 _ hr l rfl
  | filt f => exact h1
  | tag t => exact h1

/-- Boolean form evaluated by the driver on every case (`hyp2 → sound`; consistency holds by construction of
the extracted trees). -/
theorem sound_of_hyp2 (ns : Nodes) (tmpl : Name) (B : Name → Nodes) (hc : ConsNodes B ns)
    (h2 : hyp2b ns tmpl = true) : (reach ns tmpl).all (evOk (analyze ns tmpl)) = true := by
  rw [List.all_eq_true]
  intro e he
  rw [evOk_iff]
  have htm : tmpl ∉ partNamesNodes ns := by
    simp only [hyp2b, Bool.and_eq_true, Bool.not_eq_true'] at h2
    intro hh; have := List.contains_iff_mem.2 hh; simp_all
  have h := visitNodes_first ns tmpl false St.init [tmpl] B hc
    (by intro nm hnm hh; rw [List.mem_singleton.1 hnm] at hh; exact htm hh)
    (fun _ => List.mem_singleton.2 rfl) (by intro p hp; simp [St.init] at hp) (fun hh => by cases hh)
  have h1 := reachNodes_sub_all (analyze ns tmpl) ns tmpl [] [] false h.recd e he
  rw [evOk1_iff] at h1
  cases e with
  | get l exc =>
    refine ⟨h1, fun hx => ?_⟩
    subst hx
    exact keyed_globals B ns tmpl hc h2 _ he l rfl
  | filt f => exact h1
  | tag t => exact h1

/-! ## Locations (ties in with C20) -/

/-- **No phantom locations**: for every tree and either mode of `_visit`, every location the analysis reports
in `variables` or in `globals` is the (root, template, token index) of a `Path` that occurs in the expanded
tree — a reported `Span` is always the position of a reference a render can evaluate, never an invented one.
(Together with `analysis_reports_all`: the reported locations are exactly the tree's references.) -/
theorem reported_locations_are_references (ns : Nodes) (tmpl : Name) :
    (∀ l ∈ (analyze ns tmpl).vars, Ev.get l false ∈ allEvNodes ns tmpl) ∧
    (∀ l ∈ (analyze ns tmpl).globs, Ev.get l false ∈ allEvNodes ns tmpl) := by
  have h := visitNodes_locs ns tmpl false St.init
  constructor
  · intro l hl
    rcases h.1 l hl with h1 | h1
    · simp [St.init] at h1
    · exact h1
  · intro l hl
    rcases h.2 l hl with h1 | h1
    · simp [St.init] at h1
    · exact h1

/-! ## Stages (DESIGN §10): no partials, then `include`, then `render` -/

mutual
/-- Every partial of the tree is SHARED (`include`). -/
def allSharedNode : Node → Bool
  | .plain _ cs => allSharedNodes cs
  | .part _ iso _ _ _ body => !iso && allSharedNodes body
def allSharedNodes : Nodes → Bool
  | .nil => true
  | .cons n ns => allSharedNode n && allSharedNodes ns
end

/-- Stage 1 — templates without partials (nested block scopes, assignment order, macros, captures):
the property holds in full, with no hypothesis. -/
theorem analysis_sound_nopartials (ns : Nodes) (tmpl : Name) (hnp : partNamesNodes ns = []) (ch : List Bool) :
    ∀ e ∈ render ns tmpl ch, Reported (analyze ns tmpl) e :=
  analysis_sound_partial ns tmpl ⟨by rw [hnp]; simp, noDead_of_noParts_nodes ns false hnp⟩ ch

/-- Stage 2 — `include` only: every partial is SHARED, each reached once, none below a macro body. -/
theorem analysis_sound_include_partial (ns : Nodes) (tmpl : Name) (_hs : allSharedNodes ns = true)
    (h : Hyp ns tmpl) (ch : List Bool) :
    ∀ e ∈ render ns tmpl ch, Reported (analyze ns tmpl) e :=
  analysis_sound_partial ns tmpl h ch

/-- Stage 3 — `include` and `render` mixed (= `analysis_sound_partial`). -/
theorem analysis_sound_render_partial (ns : Nodes) (tmpl : Name) (h : Hyp ns tmpl) (ch : List Bool) :
    ∀ e ∈ render ns tmpl ch, Reported (analyze ns tmpl) e :=
  analysis_sound_partial ns tmpl h ch

/-! ## The full statement fails: kernel-decided witnesses (replayed on the implementation) -/

def out (root : Name) (pos : Nat) : Node :=
  .plain ⟨none, [⟨[⟨root, pos⟩], []⟩], [], [], false⟩ .nil
def block (ns : Nodes) : Node := .plain ⟨none, [], [], [], false⟩ ns
def one (n : Node) : Nodes := .cons n .nil

/-- `{% for x in a %}{% include 'p' %}{% endfor %}{% include 'p' %}` with `p` = `[{{ x }}]`. -/
def ce1 : Nodes :=
  .cons (.plain ⟨some ("for", 3), [⟨[⟨"a", 12⟩], []⟩], [], ["x", "forloop"], false⟩
          (one (block (one (.part ⟨some ("include", 19), [⟨[], []⟩], [], [], false⟩ false "p" [] none
            (one (out "x" 4)))))))
    (one (.part ⟨some ("include", 47), [⟨[], []⟩], [], [], false⟩ false "p" [] none (one (out "x" 4))))

/-- `{% render 'iso' %}{{ x }}`, `iso` = `{% if false %}{% include 'p' %}{% endif %}`, `p` = `{% assign x = 1 %}`. -/
def ce2 : Nodes :=
  .cons (.part ⟨some ("render", 3), [], [], [], false⟩ true "iso" [] none
          (one (.plain ⟨some ("if", 3), [⟨[], []⟩], [], [], false⟩
            (one (block (one (.part ⟨some ("include", 17), [⟨[], []⟩], [], [], false⟩ false "p" [] none
              (one (.plain ⟨some ("assign", 3), [⟨[], []⟩], ["x"], [], false⟩ .nil)))))))))
    (one (out "x" 21))

/-- `{% render 'p' with a as y %}{% render 'p' with a as z %}` with `p` = `[{{ y }}{{ z }}]`:
the de-duplication key ignores the alias. -/
def ce3 : Nodes :=
  .cons (.part ⟨some ("render", 3), [⟨[⟨"a", 19⟩], []⟩], [], [], false⟩ true "p" [] (some "y")
          (.cons (out "y" 4) (one (out "z" 11))))
    (one (.part ⟨some ("render", 31), [⟨[⟨"a", 47⟩], []⟩], [], [], false⟩ true "p" [] (some "z")
          (.cons (out "y" 4) (one (out "z" 11)))))

/-- A partial reached twice from different scopes: the second, unbound, lookup of `x` is a reachable
event whose root is not reported global. -/
theorem analysis_counterexample_partial_reached_twice :
    Ev.get ⟨"x", "p", 4⟩ false ∈ reach ce1 "" ∧ ⟨"x", "p", 4⟩ ∉ (analyze ce1 "").globs ∧ ¬ Hyp ce1 "" := by
  decide

/-- An `include` below a `render` (never executed — the tag is disabled there) still adds its partial's
assignments to the *root* scope: the later `{{ x }}` of the root template is not reported global. -/
theorem analysis_counterexample_include_under_render :
    Ev.get ⟨"x", "", 21⟩ false ∈ reach ce2 "" ∧ ⟨"x", "", 21⟩ ∉ (analyze ce2 "").globs ∧ ¬ Hyp ce2 "" := by
  decide

/-- `render` twice with the same argument names but another alias: the second visit is skipped. -/
theorem analysis_counterexample_render_alias :
    Ev.get ⟨"y", "p", 4⟩ false ∈ reach ce3 "" ∧ ⟨"y", "p", 4⟩ ∉ (analyze ce3 "").globs ∧ ¬ Hyp ce3 "" := by
  decide

/-- Hence the unrestricted statement is false in the model (and, replayed, in the implementation). -/
theorem analysis_counterexample :
    ¬ (∀ (ns : Nodes) (tmpl : Name) (ch : List Bool), ∀ e ∈ render ns tmpl ch, Reported (analyze ns tmpl) e) := by
  intro h
  have hr : Ev.get ⟨"x", "p", 4⟩ false ∈ render ce1 "" (List.replicate 12 true) := by decide
  exact analysis_counterexample_partial_reached_twice.2.1 ((h ce1 "" _ _ hr).2 rfl)

/-- The first counterexample tree (a partial reached twice) satisfies the hypotheses of
`analysis_reports_all`: sentence 1 holds there although sentence 2 fails. -/
example : ConsNodes (fun nm => if nm = "p" then one (out "x" 4) else .nil) ce1 := by
  simp [ConsNodes, ConsNode, ce1, one, block, out, partNamesNodes, partNamesNode]

/-- `{% render 'q', k: y %}{% render 'q', k: x %}{% render 'q', j: 1 %}`, `q` = `{{ k }}{{ y }}`: the same partial
rendered three times (same key twice, a new key once). `Hyp` fails, the weaker hypothesis holds. -/
def ok2 : Nodes :=
  .cons (.part ⟨some ("render", 3), [⟨[⟨"y", 18⟩], []⟩], [], [], false⟩ true "q" ["k"] none
          (.cons (out "k" 3) (one (out "y" 10))))
  (.cons (.part ⟨some ("render", 26), [⟨[⟨"x", 41⟩], []⟩], [], [], false⟩ true "q" ["k"] none
          (.cons (out "k" 3) (one (out "y" 10))))
  (one (.part ⟨some ("render", 49), [⟨[], []⟩], [], [], false⟩ true "q" ["j"] none
          (.cons (out "k" 3) (one (out "y" 10))))))

example : hyp2b ok2 "" = true ∧ ¬ Hyp ok2 "" := by decide
example : ConsNodes (fun nm => if nm = "q" then .cons (out "k" 3) (one (out "y" 10)) else .nil) ok2 := by
  simp [ConsNodes, ConsNode, ok2, one, out, partNamesNodes, partNamesNode]
example : Ev.get ⟨"k", "q", 3⟩ false ∈ reach ok2 "" ∧ Ev.get ⟨"k", "q", 3⟩ true ∈ reach ok2 "" := by decide
/-- The three counterexample trees violate the weaker hypothesis too (as they must). -/
example : hyp2b ce1 "" = false ∧ hyp2b ce2 "" = false ∧ hyp2b ce3 "" = false := by decide

/-! ## Tie of the dynamic model to the source (translator) -/

/-- For every `Node` subclass of the tree under test: each attribute its `render_to_output(_async)`
evaluates is mentioned by `expressions()` or reached through `children()`, each attribute it renders is
mentioned by `children()`, and nothing is evaluated that the translator could not attribute to an
attribute (waivers are listed in `Gen.C19.waivers`).  Regenerated from the source on every run. -/
theorem exprs_covered :
    LiquidVerif.Gen.C19.nodeRows.all (fun r =>
      r.evaluated.all (fun a => r.yielded.contains a || r.children.contains a) &&
      r.rendered.all (fun a => r.children.contains a) && r.unattributed.isEmpty) = true := by
  decide

/-- The table is not empty and knows the nodes C19 quantifies over. -/
theorem exprs_table_nontrivial :
    ["ForNode", "IncludeNode", "RenderNode", "CaptureNode", "AssignNode", "WithNode", "MacroNode", "CallNode",
     "OutputNode", "IfNode"].all (fun c => LiquidVerif.Gen.C19.nodeRows.any (·.cls == c)) = true := by
  decide

/-! ## Non-vacuity -/

/-- `{% assign y = x %}{% for x in a %}{{ x }}{% render 'q', k: y %}{% endfor %}{{ x }}`, `q` = `{{ k }}{{ y }}`. -/
def ok1 : Nodes :=
  .cons (.plain ⟨some ("assign", 3), [⟨[⟨"x", 14⟩], []⟩], ["y"], [], false⟩ .nil)
  (.cons (.plain ⟨some ("for", 22), [⟨[⟨"a", 31⟩], []⟩], [], ["x", "forloop"], false⟩
      (one (block (.cons (out "x" 39)
        (one (.part ⟨some ("render", 47), [⟨[⟨"y", 62⟩], []⟩], [], [], false⟩ true "q" ["k"] none
          (.cons (out "k" 3) (one (out "y" 10)))))))))
  (one (out "x" 81)))

example : Hyp ok1 "" := by decide
example : Ev.get ⟨"x", "", 39⟩ true ∈ render ok1 "" (List.replicate 20 true) := by decide
example : Ev.get ⟨"x", "", 81⟩ false ∈ render ok1 "" (List.replicate 20 true) := by decide
example : Ev.get ⟨"y", "q", 10⟩ false ∈ render ok1 "" (List.replicate 20 true) := by decide
example : Ev.get ⟨"k", "q", 3⟩ true ∈ render ok1 "" (List.replicate 20 true) := by decide
example : (analyze ok1 "").globs.map (·.root) = ["x", "a", "y", "x"] := by decide
example : render ok1 "" [] = [] := by decide

end LiquidVerif.C19
