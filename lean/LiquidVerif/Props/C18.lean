import LiquidVerif.Model.Inherit
/-!
# C18 — template inheritance resolves blocks to the most-derived definition
-/
namespace LiquidVerif.C18
open LiquidVerif.Inherit

/-- `_stack_blocks` only ever fails with TemplateInheritanceError. -/
theorem stackBlocks_error (st : Stacks) (t : Template) (e : Err) (h : stackBlocks st t = .error e) :
    e = .inheritance := by
  unfold stackBlocks at h
  split at h
  · cases h; rfl
  · split at h
    · cases h; rfl
    · cases h

end LiquidVerif.C18
