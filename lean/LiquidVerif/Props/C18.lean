import LiquidVerif.Lemmas.Inherit
import LiquidVerif.Lemmas.InheritFlat
import LiquidVerif.Lemmas.InheritAssign
/-!
# C18 — template inheritance resolves blocks to the most-derived definition

Property theorems about `LiquidVerif.Model.Inherit` (the model of `liquid/extra/tags/extends_tag.py`) and the
declarative reading `LiquidVerif.Model.InheritSpec` (`defOf`, `defsOf`, `flatten`, `Linked`).
Helper lemmas live in `Lemmas/Inherit.lean`.
-/
namespace LiquidVerif.C18
open LiquidVerif.Inherit

/-- "most-derived definition": along a chain (leaf first) the definitions of a block are the leaf's own
definition, if it has one, followed by those of the rest of the chain; the head of the list is what a block tag
renders, the tail is what `block.super` walks. -/
theorem most_derived_first (t : Template) (ts : List Template) (name : String) :
    defsOf (t :: ts) name =
      match defOf t name with
      | some d => d :: defsOf ts name
      | none => defsOf ts name := by
  simp only [defsOf, List.filterMap_cons]
  cases defOf t name <;> rfl

/-- `_build_block_stacks` (leaf-first walk, `seen` set, per-name stacks with parent links) computes exactly the
declarative definition lists: for every chain of any length and every block name, the stack built for the name
is `defsOf chain name`, and the template returned as base is the root of the chain. -/
theorem stacks_eq_defs (ld : Loader) (t : Template) (ts : List Template) (h : Linked ld [] t ts) :
    ∃ st r, buildFrom ld [] [] t = .ok (st, r) ∧ ts.getLast? = some r ∧
      ∀ name, stackOf st name = defsOf ts name := by
  obtain ⟨r, hl, _, hb⟩ := buildFrom_linked h []
  exact ⟨_, r, hb, hl, fun name => stackOf_chain ts h.dupfree name⟩

/-- **Sentence 1** (for every chain connected by `extends`, any length, any nesting): rendering a leaf whose
nodes are `pre`, then an `extends` tag, then anything, outputs `pre` followed by the flattening of the chain:
the root template with every block replaced by its most-derived definition, `block.super` = the next
definition up, nested blocks resolved again. -/
theorem inherit_eq_flatten (lim : Nat) (ld : Loader) (name : String) (data : Scope) (t : Template)
    (pre : List Item) (p : String) (post : List Top) (ts : List Template)
    (hl : lookup ld name = some t) (hi : t.items = pre.map .node ++ .ext p :: post)
    (hc : Linked ld [] t ts) :
    renderTemplate lim ld name data
      = seqOut (renderItems lim (stackOf []) 0 none [] data pre) (flatten lim ts data) := by
  obtain ⟨r, hlast, _, hb⟩ := buildFrom_linked hc []
  have hres : stackOf (storeBlocks [] (chainBlocks ts)) = defsOf ts :=
    funext (fun n => stackOf_chain ts hc.dupfree n)
  simp only [renderTemplate, hl, hi, renderTops_pre, renderTops, hb, hres, flatten, rootOf, hlast]

/-- chain of length 1: a template without `extends` renders its own nodes; every block renders its own body
(`required` raises, `block.super` is undefined). -/
theorem direct_render (lim : Nat) (ld : Loader) (name : String) (data : Scope) (t : Template)
    (hl : lookup ld name = some t) (he : t.exts = []) :
    renderTemplate lim ld name data = renderItems lim (fun _ => []) 0 none [] data t.nodes := by
  have hitems : t.items = t.nodes.map .node := tops_of_no_ext t.items he
  have h := renderTops_pre lim ld t data t.nodes []
  rw [List.append_nil, ← hitems] at h
  simp only [renderTemplate, hl]
  rw [h, renderTops, seqOut_ok_empty]
  rfl

/-- **Sentence 2**: in a child template nothing after the `extends` tag is rendered except through blocks: two
children with the same nodes before the tag, and after it the same block definitions (and `extends` tags),
render identically, whatever else follows the tag. -/
theorem child_renders_only_blocks (lim : Nat) (ld : Loader) (data : Scope) (t t' : Template)
    (pre : List Item) (p : String) (post post' : List Top)
    (ht : t.items = pre.map .node ++ .ext p :: post) (ht' : t'.items = pre.map .node ++ .ext p :: post')
    (hb : topsBlocks post = topsBlocks post') (he : topsExts post = topsExts post') :
    renderTops lim ld t data t.items = renderTops lim ld t' data t'.items := by
  have hexts : t.exts = t'.exts := by
    simp only [Template.exts, ht, ht', topsExts_append, topsExts, he]
  have hblocks : t.blocks = t'.blocks := by
    simp only [Template.blocks, ht, ht', topsBlocks_append, topsBlocks, hb]
  have hne : t.exts ≠ [] := by
    simp [Template.exts, ht, topsExts_append, topsExts]
  rw [ht, ht', renderTops_pre, renderTops_pre]
  simp only [renderTops, buildFrom_congr ld [] [] t t' hexts hblocks hne]

/-- **Sentence 3a**: a block tag whose most-derived definition is flagged `required` raises
RequiredBlockError — in particular a required block of the root that no descendant overrides
(`required_not_overridden`). -/
theorem required_raises (lim : Nat) (ld : Loader) (name : String) (data : Scope) (t : Template)
    (pre : List Item) (p : String) (post : List Top) (ts : List Template)
    (hl : lookup ld name = some t) (hi : t.items = pre.map .node ++ .ext p :: post)
    (hc : Linked ld [] t ts)
    (before after : List Item) (bname : String) (r : Bool) (body : List Item)
    (hroot : rootOf ts = before ++ .block bname r body :: after)
    (a b : String)
    (hpre : renderItems lim (stackOf []) 0 none [] data pre = .ok a)
    (hbefore : renderItems lim (defsOf ts) 0 none [] data before = .ok b)
    (d : Def) (ds : List Def) (hd : defsOf ts bname = d :: ds) (hreq : d.required = true) :
    renderTemplate lim ld name data = .error .requiredBlock := by
  rw [inherit_eq_flatten lim ld name data t pre p post ts hl hi hc, hpre, flatten, hroot,
    renderItems_append, hbefore, renderItems_cons, renderItem_block_required _ _ _ _ _ _ _ _ _ d ds hd hreq]
  rfl

/-- "a required block that no descendant overrides": if the root defines `bname` as required and no other
template of the chain defines it, its most-derived definition is the required one. -/
theorem required_not_overridden (ts : List Template) (root : Template) (bname : String) (d : Def)
    (hdesc : ∀ t ∈ ts, defOf t bname = none) (hroot : defOf root bname = some d) :
    defsOf (ts ++ [root]) bname = [d] := by
  induction ts with
  | nil => simp [defsOf, hroot]
  | cons t ts ih =>
    have h1 := hdesc t (List.mem_cons_self ..)
    have h2 := ih (fun u hu => hdesc u (List.mem_cons_of_mem _ hu))
    simp only [defsOf, List.cons_append, List.filterMap_cons, h1] at h2 ⊢
    exact h2

/-- **Sentence 3b**: circular `extends` raises TemplateInheritanceError.  `R` is any set of templates closed
under "parent": each has exactly one `extends`, whose target the loader finds and which is again in `R` (so no
root is ever reached — every cycle is such a set).  The walk of `_build_block_stacks` from a member of `R`
terminates (the function is total: each round consumes a loader name not yet in `seen`) and its result is
TemplateInheritanceError, never a render, never TemplateNotFoundError. -/
theorem cycle_raises (ld : Loader) (R : Template → Prop)
    (hclosed : ∀ t, R t → ∃ p t', t.exts = [p] ∧ lookup ld p = some t' ∧ R t')
    (st : Stacks) (seen : List String) (t : Template) (ht : R t) :
    buildFrom ld st seen t = .error .inheritance := by
  generalize hn : (unseen ld seen).length = n
  induction n using Nat.strongRecOn generalizing st seen t with
  | ind n ih =>
    obtain ⟨p, t', he, hf, hR⟩ := hclosed t ht
    cases hdup : hasDup t.blocks with
    | true =>
      apply buildFrom_error
      simp [stackBlocks, he, hdup]
    | false =>
      have hsb := stackBlocks_ok st t (by simp [he]) hdup
      rw [he] at hsb
      cases hs : seen.contains p with
      | true => exact buildFrom_seen ld st _ seen t p hsb hs
      | false =>
        rw [buildFrom_step ld st _ seen t t' p hsb hs hf]
        exact ih _ (by rw [← hn]; exact unseen_lt ld seen p t' hs hf) _ _ _ hR rfl

/-- the same at the level of a render: a leaf in such a set raises TemplateInheritanceError as soon as its
`extends` tag is reached. -/
theorem cycle_raises_render (lim : Nat) (ld : Loader) (R : Template → Prop)
    (hclosed : ∀ t, R t → ∃ p t', t.exts = [p] ∧ lookup ld p = some t' ∧ R t')
    (name : String) (data : Scope) (t : Template) (pre : List Item) (p : String) (post : List Top) (a : String)
    (hl : lookup ld name = some t) (hi : t.items = pre.map .node ++ .ext p :: post) (ht : R t)
    (hpre : renderItems lim (stackOf []) 0 none [] data pre = .ok a) :
    renderTemplate lim ld name data = .error .inheritance := by
  simp only [renderTemplate, hl, hi, renderTops_pre, renderTops, hpre,
    cycle_raises ld R hclosed [] [] t ht]
  rfl

/-- **Sentence 3c, part proved**: duplicate block names are rejected in every template that the chain walk
visits (the leaf that contains the `extends` tag, every intermediate template, the root).  The hypothesis
`Reaches` says the template with the duplicate is arrived at by the walk. -/
theorem dup_rejected_partial (lim : Nat) (ld : Loader) (name : String) (data : Scope) (t u : Template)
    (pre : List Item) (p : String) (post : List Top) (a : String)
    (hl : lookup ld name = some t) (hi : t.items = pre.map .node ++ .ext p :: post)
    (hreach : Reaches ld [] t u) (hdup : hasDup u.blocks = true)
    (hpre : renderItems lim (stackOf []) 0 none [] data pre = .ok a) :
    renderTemplate lim ld name data = .error .inheritance := by
  simp only [renderTemplate, hl, hi, renderTops_pre, renderTops, hpre, buildFrom_reaches_dup hreach hdup []]
  rfl

/-- `{% extends 'p' %}{% block a %}{% for i in (1..2) %}{{ block.super }}{% endfor %}{% endblock %}` -/
def capChild : Template := ⟨[.ext "p", .node (.block "a" false [.loop "i" 2 [.super]])]⟩
/-- `{% block a %}{{ i }}{% endblock %}` -/
def capParent : Template := ⟨[.node (.block "a" false [.var "i"])]⟩

/-- `{% block a %}x{% endblock %}{% block a %}y{% endblock %}` -/
def dupTemplate : Template :=
  ⟨[.node (.block "a" false [.text "x"]), .node (.block "a" false [.text "y"])]⟩

/-- **Sentence 3c at full strength fails**: "duplicate block names are rejected" is false for a template that is
rendered directly (no `extends` anywhere): both blocks render. Replayed on the implementation as the known
finding `dup-direct|accepted`. -/
theorem dup_rejected_counterexample :
    ¬ (∀ (lim : Nat) (ld : Loader) (name : String) (data : Scope) (t : Template),
        lookup ld name = some t → hasDup t.blocks = true →
        renderTemplate lim ld name data = .error .inheritance) := by
  intro h
  have h1 := h 30 [("t0", dupTemplate)] "t0" [] dupTemplate (by simp) (by decide)
  rw [direct_render 30 [("t0", dupTemplate)] "t0" [] dupTemplate (by simp) (by decide)] at h1
  simp [dupTemplate, Template.nodes, topsNodes, renderItems_cons, renderItems_nil, renderItem, seqOut] at h1

/-- **Sentence 3d**: a mismatched `endblock` name is rejected.  Whatever precedes it (`pre`, parsed without
error) and whatever follows it, an `{% endblock m %}` that closes a block whose name is not `m` makes the parse
fail with TemplateInheritanceError. -/
theorem endblock_mismatch_rejected (pre rest : List Tok) (m : String) (s : PState) (f : Frame) (fs : List Frame)
    (hpre : prun pinit pre = .ok s) (hopen : s.frames = f :: fs) (hne : m ≠ f.name) :
    parseToks (pre ++ .cls (some m) :: rest) = .error .inheritance := by
  simp only [parseToks, prun_append, hpre, prun, pstep, hopen]
  simp [hne]

/-- … and nothing else is: a parse fails with TemplateInheritanceError only at a named `endblock` that differs
from the innermost open block (an `endblock` without a name, or with the block's own name, is accepted). -/
theorem endblock_rejected_only_on_mismatch (toks : List Tok) (h : parseToks toks = .error .inheritance) :
    ∃ pre m rest s f fs, toks = pre ++ .cls (some m) :: rest ∧ prun pinit pre = .ok s ∧
      s.frames = f :: fs ∧ m ≠ f.name := by
  unfold parseToks at h
  cases hr : prun pinit toks with
  | error e =>
    simp only [hr] at h
    cases h
    exact prun_inheritance pinit toks hr
  | ok s =>
    simp only [hr] at h
    cases hf : s.frames with
    | nil => simp [hf] at h
    | cons a as => simp [hf] at h

/-- child: `{% extends 'p' %}{% block a %}{% block b %}{{ block.super }}{% endblock %}{% endblock %}` -/
def invChild : Template := ⟨[.ext "p", .node (.block "a" false [.block "b" false [.super]])]⟩
/-- parent: `{% block b %}{% block a %}{% endblock %}{% endblock %}` -/
def invParent : Template := ⟨[.node (.block "b" false [.block "a" false []])]⟩

/-- Inverted nesting with `block.super`: the child nests `b` in `a`, the parent nests `a` in `b`. Both templates
are free of duplicates and form a well-formed chain, yet "replace every block by its most-derived definition,
resolving nested blocks again" never bottoms out (`b → super → a → b → …`): for **every** depth budget the
flattening is `contextDepth`, i.e. no finite flattened template exists. (Known finding
`unbounded-recursion|RecursionError`: the implementation lets Python's RecursionError escape on such chains.) -/
theorem flatten_unbounded_example (lim : Nat) (data : Scope) :
    flatten lim [invChild, invParent] data = .error .contextDepth := by
  have ha : defsOf [invChild, invParent] "a" = [⟨false, [.block "b" false [.super]]⟩, ⟨false, []⟩] := by rfl
  have hb : defsOf [invChild, invParent] "b" = [⟨false, [.super]⟩, ⟨false, [.block "a" false []]⟩] := by rfl
  have hr : rootOf [invChild, invParent] = [.block "b" false [.block "a" false []]] := by rfl
  unfold flatten
  rw [hr]
  generalize defsOf [invChild, invParent] = res at ha hb
  have key : ∀ n depth outer parents sc r body, lim + 1 - depth = n →
      renderItem lim res depth outer parents sc (.block "b" r body) = .error .contextDepth := by
    intro n
    induction n using Nat.strongRecOn with
    | ind n ih =>
      intro depth outer parents sc r body hn
      rw [renderItem]
      simp only [hb]
      by_cases h1 : depth > lim
      · simp [h1]
      · simp only [h1, Bool.false_eq_true, if_false, dite_false]
        rw [renderItems_cons, renderItem, renderItems_cons, renderItem]
        simp only [ha]
        by_cases h2 : depth + 1 > lim
        · simp [h2, seqOut]
        · simp only [h2, Bool.false_eq_true, if_false, dite_false]
          rw [renderItems_cons, ih (lim + 1 - (depth + 1 + 1)) (by omega) (depth + 1 + 1) _ _ _ _ _ rfl]
          simp [seqOut]
  rw [renderItems_cons, key _ 0 _ _ _ _ _ rfl]
  rfl

example : Linked [("c", invChild), ("p", invParent)] [] invChild [invChild, invParent] :=
  .step [] invChild "p" invParent _ (by decide) (by decide) (by decide) (by simp)
    (.root _ invParent (by decide) (by decide))

/-! ### the purely syntactic flattening (deepening round) -/

/-- `flatten` (the declarative reading) is the plain renderer applied to the *syntactically* flattened template:
`flattenSyn lim chain` is computed from the templates alone (no render data, no scopes) and contains no
`extends`, `block` or `block.super`. -/
theorem flatten_eq_flattenSyn (lim : Nat) (chain : List Template) (data : Scope) :
    flatten lim chain data = renderPlains none data (flattenSyn lim chain) :=
  (render_eq_flat lim (defsOf chain)).2.2 0 none [] data (rootOf chain)

/-- **Sentence 1, syntactic form**: rendering a leaf = rendering the block-free template `flattenSyn lim chain`
(the root with every block replaced by its most-derived body, `block.super` inlined, nested blocks resolved
again) with the plain renderer — for every chain, every nesting, every budget. Where the budget runs out the
flattened template has a `raise contextDepth` node, exactly where the implementation's `context.copy` guard
fires. -/
theorem inherit_eq_flattenSyn (lim : Nat) (ld : Loader) (name : String) (data : Scope) (t : Template)
    (pre : List Item) (p : String) (post : List Top) (ts : List Template)
    (hl : lookup ld name = some t) (hi : t.items = pre.map .node ++ .ext p :: post)
    (hc : Linked ld [] t ts) :
    renderTemplate lim ld name data
      = seqOut (renderPlains none data (flatItems lim (stackOf []) 0 [] pre))
          (renderPlains none data (flattenSyn lim ts)) := by
  rw [inherit_eq_flatten lim ld name data t pre p post ts hl hi hc, flatten_eq_flattenSyn,
    (render_eq_flat lim (stackOf [])).2.2 0 none [] data pre]

/-- **Finiteness condition.** `finiteWithin lim chain` (decidable: the flattened template has no
`raise contextDepth` node) says the chain has a finite flattening inside the budget; then the render of the chain
never fails with ContextDepthError and the flattened template is a genuine finite template. -/
theorem finite_no_depth_error (lim : Nat) (chain : List Template) (data : Scope)
    (h : finiteWithin lim chain = true) : flatten lim chain data ≠ .error .contextDepth := by
  intro he
  rw [flatten_eq_flattenSyn] at he
  have := depth_error_needs_raise.2.1 none data _ he
  simp [finiteWithin, this] at h

/-- The condition is needed: the inverted-nesting chain of `flatten_unbounded_example` has no finite flattening
within any budget. -/
theorem flattenSyn_unbounded_example (lim : Nat) : finiteWithin lim [invChild, invParent] = false := by
  cases h : finiteWithin lim [invChild, invParent] with
  | false => rfl
  | true => exact absurd (flatten_unbounded_example lim []) (finite_no_depth_error lim _ [] h)

/-- **Plain Liquid.** When no `{{ block.super }}` is written under a `{% for %}` of the same block definition
(`hygienics`, decidable on the flattened template) the scope annotations are redundant: the chain renders like
the annotation-free template `eraseScopes (flattenSyn lim chain)`, which consists of text, variable output,
`for` and raise nodes only — an ordinary template that needs no inheritance machinery at all. -/
theorem inherit_eq_plain_template (lim : Nat) (chain : List Template) (data : Scope)
    (hh : hygienics (flattenSyn lim chain) = true) :
    flatten lim chain data = renderPlains none data (eraseScopes (flattenSyn lim chain)) := by
  rw [flatten_eq_flattenSyn]
  exact erase_scope_aux.2.1 none data _ hh (Or.inr (Or.inl rfl))

/-- The hygiene hypothesis is needed: with `block.super` under a `for` whose variable the parent definition reads,
the annotation-free inlining prints the loop variable where the implementation (and the model) print nothing.
Child `{% block a %}{% for i in (1..2) %}{{ block.super }}{% endfor %}{% endblock %}`, parent
`{% block a %}{{ i }}{% endblock %}`. -/
theorem erase_scope_counterexample :
    ¬ (∀ (lim : Nat) (chain : List Template) (data : Scope),
        flatten lim chain data = renderPlains none data (eraseScopes (flattenSyn lim chain))) := by
  intro h
  have h1 := h 30 [capChild, capParent] []
  have hd : defsOf [capChild, capParent] "a"
      = [⟨false, [.loop "i" 2 [.super]]⟩, ⟨false, [.var "i"]⟩] := by rfl
  have hr : rootOf [capChild, capParent] = [.block "a" false [.var "i"]] := by rfl
  rw [flatten_eq_flattenSyn] at h1
  unfold flattenSyn at h1
  rw [hr] at h1
  generalize defsOf [capChild, capParent] = res at hd h1
  simp [flatItems, flatItem, hd, eraseScopes, eraseScope, renderPlains_cons, renderPlains_nil, renderPlain,
    renderPlainLoop_succ, renderPlainLoop_zero, seqOut, lookupVar] at h1

/-- root: `{% for i in (1..n) %}{% block a %}{{ i }}{% endblock %}{% endfor %}` -/
def loopRoot (n : Nat) : Template := ⟨[.node (.loop "i" n [.block "a" false [.var "i"]])]⟩
/-- child: `{% extends 'r' %}{% block a %}<{{ block.super }}>{% endblock %}` -/
def loopChild : Template := ⟨[.ext "r", .node (.block "a" false [.text "<", .super, .text ">"])]⟩

/-- `<n-k+1><n-k+2>…<n>` -/
def loopOut (n : Nat) : Nat → String
  | 0 => ""
  | k + 1 => ("<" ++ (toString (n - k) ++ ">")) ++ loopOut n k

/-- **A block inside a `for` whose `block.super` depends on the loop variable** (any number of iterations): the
overriding definition and, through `block.super`, the parent definition are rendered afresh in every iteration,
in the scope of the block tag — the parent's `{{ i }}` prints the current value each time (a cached super output,
seeded change C18-2, would repeat the first one). -/
theorem super_rerendered_per_iteration (lim n : Nat) (data : Scope) :
    flatten lim [loopChild, loopRoot n] data = .ok (loopOut n n) := by
  have hd : defsOf [loopChild, loopRoot n] "a"
      = [⟨false, [.text "<", .super, .text ">"]⟩, ⟨false, [.var "i"]⟩] := by rfl
  have hr : rootOf [loopChild, loopRoot n] = [.loop "i" n [.block "a" false [.var "i"]]] := by rfl
  unfold flatten
  rw [hr]
  generalize defsOf [loopChild, loopRoot n] = res at hd
  have key : ∀ k, renderLoop lim res 0 none [] data "i" n [.block "a" false [.var "i"]] k = .ok (loopOut n k) := by
    intro k
    induction k with
    | zero => rw [renderLoop]; rfl
    | succ k ih =>
      rw [renderLoop, ih]
      simp [renderItems_cons, renderItems_nil, renderItem, hd, seqOut, lookupVar, loopOut]
  rw [renderItems_cons, renderItem, key n, renderItems_nil]
  simp [seqOut]

/-! ### assign / capture inside blocks (deepening round) -/

/-- **A block is its own scope — the part that holds.** When the most-derived definition of a block has no
`{{ block.super }}` at its top level, rendering the block tag leaves every live context's locals exactly as they
were: whatever the definition (and the blocks nested in it, and their supers) assign is gone when the block ends.
Holds in both modes (`m`), at any depth, for any resolver. -/
theorem block_assign_scoped_partial (lim : Nat) (res : String → List ADef) (globals : Scope) (depth : Nat)
    (m : Bool) (parents : List ADef) (fr : Frames) (name : String) (body : List AItem) (d : ADef) (ds : List ADef)
    (out : String) (fr' : Frames)
    (hd : res name = d :: ds) (hnt : noTopSupers d.body = true) (hs : Sized m fr)
    (h : arenderItem lim res globals depth m parents fr (.block name body) = .ok (out, fr')) : fr' = fr := by
  rw [arenderItem] at h
  simp only [hd] at h
  split at h
  · cases h
  · split at h
    · cases h
    · rename_i o r hok
      cases h
      have hne : 1 ≤ fr.length := by cases m <;> simp [Sized] at hs <;> omega
      have := assign_frames.2 (depth + 1) true ds ([] :: fr) d.body (by simp [Sized]; omega) _ _ hok
      simpa using (this.2.2 rfl).2 hnt

/-- **… and the part that does not**: "a block never changes the locals of the context it stands in" is false as
soon as the definition calls `block.super`: the parent definition runs on the block tag's own context
(`BlockDrop.context`, via `extend`), so its `assign` survives the block. Witness: child
`{% block a %}{{ block.super }}{% endblock %}`, parent `{% block a %}{% assign x = 'R' %}{% endblock %}`;
replayed on the implementation as the known finding `assign-leak|super`. -/
theorem block_assign_scoped_counterexample :
    ¬ (∀ (lim : Nat) (res : String → List ADef) (globals : Scope) (depth : Nat) (m : Bool) (parents : List ADef)
        (fr : Frames) (name : String) (body : List AItem) (out : String) (fr' : Frames), Sized m fr →
        arenderItem lim res globals depth m parents fr (.block name body) = .ok (out, fr') → fr' = fr) := by
  intro h
  have := h 30 (fun _ => [⟨[.super]⟩, ⟨[.assign "x" "R"]⟩]) [] 0 false [] [[]] "a" [] "" [[("x", "R")]]
    (by simp [Sized])
    (by simp [arenderItem, arenderItems, assignHead])
  simp at this

/-- The same root, three renders: directly (`<R>`), extended by a child that overrides nothing (`<>`), extended
by a child whose block only calls `block.super` (`R`-leak: `<R>`). Root:
`{% block a %}{% assign x = 'R' %}{% endblock %}<{{ x }}>`. -/
theorem assign_scope_depends_on_override (lim : Nat) :
    let root : List AItem := [.block "a" [.assign "x" "R"], .text "<", .var "x", .text ">"]
    arenderChain lim [root] [] = .ok ("<R>", [[("x", "R")]]) ∧
    arenderChain lim [[], root] [] = .ok ("<>", [[]]) ∧
    arenderChain lim [[.block "a" [.super]], root] [] = .ok ("<R>", [[("x", "R")]]) := by
  refine ⟨?_, ?_, ?_⟩
  · simp [arenderChain, arenderItems, arenderItem, assignHead, lookupFrames]
  · have hd : adefsOf [[], [AItem.block "a" [.assign "x" "R"], .text "<", .var "x", .text ">"]] "a"
        = [⟨[.assign "x" "R"]⟩] := by rfl
    simp only [arenderChain]
    generalize adefsOf [[], [AItem.block "a" [.assign "x" "R"], .text "<", .var "x", .text ">"]] = res at hd
    simp [arenderItems, arenderItem, hd, assignHead, lookupFrames, lookupVar]
  · have hd : adefsOf [[AItem.block "a" [.super]], [AItem.block "a" [.assign "x" "R"], .text "<", .var "x", .text ">"]] "a"
        = [⟨[.super]⟩, ⟨[.assign "x" "R"]⟩] := by rfl
    simp only [arenderChain]
    generalize adefsOf [[AItem.block "a" [.super]], [AItem.block "a" [.assign "x" "R"], .text "<", .var "x", .text ">"]] = res at hd
    simp [arenderItems, arenderItem, hd, assignHead, lookupFrames]

/-! ### non-vacuity: the hypotheses of the theorems are met by concrete chains -/

/-- `[{% block a %}ra{% endblock %}]` -/
def exRoot : Template := ⟨[.node (.text "["), .node (.block "a" false [.text "ra"]), .node (.text "]")]⟩
/-- `{% extends 'root' %}{% block a %}M{{ block.super }}{% endblock %}` -/
def exMid : Template := ⟨[.ext "root", .node (.block "a" false [.text "M", .super])]⟩
/-- `pre{% extends 'mid' %}junk{% block a %}L{{ block.super }}{% endblock %}` -/
def exLeaf : Template :=
  ⟨[.node (.text "pre"), .ext "mid", .node (.text "junk"), .node (.block "a" false [.text "L", .super])]⟩
def exLoader : Loader := [("leaf", exLeaf), ("mid", exMid), ("root", exRoot)]

example : Linked exLoader [] exLeaf [exLeaf, exMid, exRoot] :=
  .step [] exLeaf "mid" exMid _ (by decide) (by decide) (by decide) (by simp [exLoader])
    (.step _ exMid "root" exRoot _ (by decide) (by decide) (by decide) (by simp [exLoader])
      (.root _ exRoot (by decide) (by decide)))

example : defsOf [exLeaf, exMid, exRoot] "a"
    = [⟨false, [.text "L", .super]⟩, ⟨false, [.text "M", .super]⟩, ⟨false, [.text "ra"]⟩] := by rfl

/-- the flattening of that chain is `[LMra]`: leaf's definition, its super (mid's), its super (root's) -/
example : flatten 30 [exLeaf, exMid, exRoot] [] = .ok "[LMra]" := by
  have h : defsOf [exLeaf, exMid, exRoot] "a"
      = [⟨false, [.text "L", .super]⟩, ⟨false, [.text "M", .super]⟩, ⟨false, [.text "ra"]⟩] := by rfl
  unfold flatten
  generalize defsOf [exLeaf, exMid, exRoot] = res at h
  simp [rootOf, exRoot, Template.nodes, topsNodes, renderItems_cons, renderItems_nil, renderItem, h, seqOut]

/-- a two-template cycle `a ⇄ b` is a set closed under "parent" (hypothesis of `cycle_raises`) -/
def exA : Template := ⟨[.ext "b", .node (.block "x" false [])]⟩
def exB : Template := ⟨[.ext "a"]⟩
example : ∀ t, (t = exA ∨ t = exB) → ∃ p t', t.exts = [p] ∧ lookup [("a", exA), ("b", exB)] p = some t' ∧
    (t' = exA ∨ t' = exB) := by
  intro t ht
  rcases ht with rfl | rfl
  · exact ⟨"b", exB, by decide, by simp, Or.inr rfl⟩
  · exact ⟨"a", exA, by decide, by simp, Or.inl rfl⟩

/-- hypotheses of `required_not_overridden` / `required_raises` -/
def exReqRoot : Template := ⟨[.node (.block "r" true [])]⟩
def exReqChild : Template := ⟨[.ext "root", .node (.block "other" false [.text "o"])]⟩
example : defsOf ([exReqChild] ++ [exReqRoot]) "r" = [⟨true, []⟩] :=
  required_not_overridden [exReqChild] exReqRoot "r" ⟨true, []⟩ (by decide) (by rfl)

/-- `{% block a %}x{% endblock b %}` : hypothesis of `endblock_mismatch_rejected` -/
example : parseToks ([.opn "a" false, .text "x"] ++ .cls (some "b") :: []) = .error .inheritance :=
  endblock_mismatch_rejected [.opn "a" false, .text "x"] [] "b" ⟨[⟨"a", false, [.text "x"]⟩], []⟩
    ⟨"a", false, [.text "x"]⟩ [] (by rfl) rfl (by decide)

/-- `{% block a %}x{% endblock a %}` parses -/
example : parseToks [.opn "a" false, .text "x", .cls (some "a")] = .ok [.block "a" false [.text "x"]] := by
  rfl

end LiquidVerif.C18
