import LiquidVerif.Lemmas.Loop
import LiquidVerif.Lemmas.LoopStack
/-!
# C13 — loops visit exactly the documented items

Property theorems about `Model/Loop.lean` and `Model/LoopRender.lean` (the models of
`LoopExpression._to_iter/_slice/evaluate`, `RenderContext.stopindex`, the `ForLoop` and `TableRow`
drops, `ForNode`/`TablerowNode`/`BlockNode` rendering, `break` and `continue`).
Helper lemmas live in `Lemmas/Loop.lean`.
-/
namespace LiquidVerif.C13
open LiquidVerif.Loop

/-! ## The reference semantics -/

/-- **Reference window**: the items whose index `i` satisfies `max start 0 ≤ i < start + limit`
(no upper bound without a limit). A limit of zero or a negative limit gives nothing; a negative
start behaves as 0 for the lower bound. -/
def specVisited (xs : List Item) (limit : Option Int) (start : Int) : List Item :=
  match limit with
  | none => xs.drop start.toNat
  | some l => (xs.take (start + l).toNat).drop start.toNat

/-- the window `_slice` computes lies inside the collection and is never inverted -/
theorem window_bounds (n : Nat) (limit : Option Int) (start : Int) :
    0 ≤ (window n limit start).start_ ∧ (window n limit start).start_ ≤ (window n limit start).stop_ ∧
    (window n limit start).stop_ ≤ n ∧
    (window n limit start).length_ = (window n limit start).stop_ - (window n limit start).start_ := by
  cases limit <;> simp only [window, Option.map] <;> omega

/-- the window is the reference window -/
theorem window_is_spec (xs : List Item) (limit : Option Int) (start : Int) :
    (xs.take (window xs.length limit start).stop_.toNat).drop (window xs.length limit start).start_.toNat
      = specVisited xs limit start := by
  cases limit with
  | none =>
    simp only [window, Option.map, specVisited]
    have h1 : (min (max start 0) (xs.length : Int)).toNat = min start.toNat xs.length := by omega
    have h2 : ((xs.length : Int)).toNat = xs.length := by omega
    rw [h1, h2, List.take_of_length_le (Nat.le_refl _)]
    by_cases h : xs.length ≤ start.toNat
    · rw [Nat.min_eq_right h, List.drop_eq_nil_of_le (Nat.le_refl _), List.drop_eq_nil_of_le h]
    · rw [Nat.min_eq_left (by omega)]
  | some l =>
    simp only [window, Option.map, specVisited]
    have h1 : (min (max start 0) (xs.length : Int)).toNat = min start.toNat xs.length := by omega
    have h2 : (min (max (l + start) (min (max start 0) (xs.length : Int))) (xs.length : Int)).toNat
        = min (max (start + l).toNat (min start.toNat xs.length)) xs.length := by omega
    rw [h1, h2]
    exact take_drop_clamp xs _ _

/-- **`_slice` never raises** (for integer limits and offsets of any sign and size): the bounds handed
to `islice` are never negative. -/
theorem slice_never_raises (m : StopIndex) (key : String) (xs : List Item) (n : Nat)
    (limit : Option Int) (offset : Option (Option Int)) (reversed : Bool) :
    ∃ sl, slice m key xs n limit offset reversed = .ok sl := by
  have hb := window_bounds n limit (startOf m key offset)
  simp only [slice, islice]
  rw [if_neg (by omega)]
  exact ⟨_, rfl⟩

/-- **The loop visits exactly the reference items** — for every collection, every integer limit
(zero, negative, huge), every offset (absent, integer of any sign and size, `continue`), reversed or
not — and the length it reports (which decides the `else` block and feeds every helper) is the number
of items visited. -/
theorem slice_visits_spec (m : StopIndex) (key : String) (xs : List Item)
    (limit : Option Int) (offset : Option (Option Int)) (reversed : Bool) :
    ∃ sl, slice m key xs xs.length limit offset reversed = .ok sl ∧
      sl.items = (if reversed then (specVisited xs limit (startOf m key offset)).reverse
                  else specVisited xs limit (startOf m key offset)) ∧
      sl.length = (specVisited xs limit (startOf m key offset)).length := by
  have hb := window_bounds xs.length limit (startOf m key offset)
  have hw := window_is_spec xs limit (startOf m key offset)
  simp only [slice, islice]
  rw [if_neg (by omega)]
  refine ⟨_, rfl, ?_, ?_⟩
  · simp only [hw]
  · simp only
    rw [← hw, List.length_drop, List.length_take]
    omega


/-! ## What the reference window contains -/

/-- **`limit: 0` and negative limits visit nothing**, whatever the offset. -/
theorem limit_nonpos_visits_nothing (xs : List Item) (l start : Int) (h : l ≤ 0) :
    specVisited xs (some l) start = [] := by
  simp only [specVisited]
  exact drop_take_nil_of_le xs _ _ (by omega)

/-- **A negative offset behaves as offset 0** for the first item visited. -/
theorem negative_offset_as_zero (xs : List Item) (l start : Int) (h : start ≤ 0) :
    specVisited xs none start = xs ∧ specVisited xs (some l) start = xs.take (start + l).toNat := by
  have : start.toNat = 0 := by omega
  simp [specVisited, this]

/-- **Exactly the documented items, by position**: the `k`-th visited item is item number
`max start 0 + k` of the collection, as long as that index is below `start + limit`. -/
theorem slice_visits_indices (xs : List Item) (limit : Option Int) (start : Int) (k : Nat) :
    (specVisited xs limit start)[k]? =
      match limit with
      | none => xs[start.toNat + k]?
      | some l => if start.toNat + k < (start + l).toNat then xs[start.toNat + k]? else none := by
  cases limit with
  | none => simp [specVisited, List.getElem?_drop]
  | some l => simp [specVisited, List.getElem?_drop, List.getElem?_take]

/-- the number of items visited: indices `i` with `max start 0 ≤ i < min (start + limit) length` -/
def specCount (n : Nat) (limit : Option Int) (start : Int) : Nat :=
  let lo := max start 0
  let hi : Int := match limit with | none => n | some l => min (start + l) n
  (max (hi - min lo n) 0).toNat

theorem length_is_visited (xs : List Item) (limit : Option Int) (start : Int) :
    (specVisited xs limit start).length = specCount xs.length limit start := by
  cases limit with
  | none => simp only [specVisited, specCount, List.length_drop]; omega
  | some l => simp only [specVisited, specCount, List.length_drop, List.length_take]; omega

/-- **`reversed` visits the same items in the opposite order.** -/
theorem reversed_spec (m : StopIndex) (key : String) (xs : List Item)
    (limit : Option Int) (offset : Option (Option Int)) :
    ∃ a b, slice m key xs xs.length limit offset true = .ok a ∧
           slice m key xs xs.length limit offset false = .ok b ∧
           a.items = b.items.reverse ∧ a.length = b.length ∧ a.stop = b.stop := by
  obtain ⟨a, ha, hai, hal⟩ := slice_visits_spec m key xs limit offset true
  obtain ⟨b, hb, hbi, hbl⟩ := slice_visits_spec m key xs limit offset false
  refine ⟨a, b, ha, hb, ?_, ?_, ?_⟩
  · simp_all
  · simp_all
  · have hb0 := window_bounds xs.length limit (startOf m key offset)
    simp only [slice, islice] at ha hb
    rw [if_neg (by omega)] at ha hb
    cases ha; cases hb; rfl

/-- **The else block is rendered exactly when no item is visited**: the length `_slice` reports is
zero iff its iterator is empty. -/
theorem else_iff_empty (m : StopIndex) (key : String) (xs : List Item)
    (limit : Option Int) (offset : Option (Option Int)) (reversed : Bool) (sl : Sliced)
    (h : slice m key xs xs.length limit offset reversed = .ok sl) :
    sl.length = 0 ↔ sl.items = [] := by
  obtain ⟨sl', h', hi, hl⟩ := slice_visits_spec m key xs limit offset reversed
  rw [h] at h'; cases h'
  rw [hi, hl]
  cases reversed <;> simp [List.length_eq_zero_iff]

/-! ## `evaluate`: literals, variables and numeric strings -/

/-- an integer written as a numeric string is the same loop argument -/
theorem numeric_string_same_as_int (i : Int) :
    evalLimit (some (.numStr i)) = evalLimit (some (.int i)) ∧
    evalOffset (.val (.numStr i)) = evalOffset (.val (.int i)) ∧
    evalLimit (some (.int i)) = .ok (some i) ∧ evalOffset (.val (.int i)) = .ok (some (some i)) := by
  simp [evalLimit, evalOffset, toInt, Except.map]

/-- where `offset: continue` resumes: the clamped start plus the number of items visited -/
def contPos (xs : List Item) (limit : Option Int) (start : Int) : Int :=
  min (max start 0) xs.length + (specVisited xs limit start).length

/-- **`LoopExpression.evaluate` on any kind of collection** (array, hash, range, string, anything
else) with integer-valued arguments: succeeds, yields exactly the reference items of what `_to_iter`
lists, reports their number, and records where `offset: continue` resumes. -/
theorem evaluate_visits_spec (ss : Bool) (m : StopIndex) (spec : LoopSpec)
    (lim : Option Int) (off : Option (Option Int))
    (hl : evalLimit spec.limit = .ok lim) (ho : evalOffset spec.offset = .ok off) :
    ∃ sl, evaluate ss m spec = .ok sl ∧
      sl.items = (if spec.reversed then (specVisited (toIter ss spec.obj).1 lim (startOf m spec.key off)).reverse
                  else specVisited (toIter ss spec.obj).1 lim (startOf m spec.key off)) ∧
      sl.length = (specVisited (toIter ss spec.obj).1 lim (startOf m spec.key off)).length ∧
      sl.stop = m.set spec.key (contPos (toIter ss spec.obj).1 lim (startOf m spec.key off)) := by
  simp only [evaluate, hl, ho]
  rw [toIter_length]
  obtain ⟨sl, h, hi, hlen⟩ := slice_visits_spec m spec.key (toIter ss spec.obj).1 lim off spec.reversed
  refine ⟨sl, h, hi, hlen, ?_⟩
  have hb := window_bounds (toIter ss spec.obj).1.length lim (startOf m spec.key off)
  have hw := window_is_spec (toIter ss spec.obj).1 lim (startOf m spec.key off)
  simp only [slice, islice] at h
  rw [if_neg (by omega)] at h
  cases h
  simp only [contPos]
  congr 1
  rw [← hw, List.length_drop, List.length_take]
  have : (window (toIter ss spec.obj).1.length lim (startOf m spec.key off)).start_
      = min (max (startOf m spec.key off) 0) (toIter ss spec.obj).1.length := by
    cases lim <;> simp [window]
  omega

/-! ## `offset: continue` -/

/-- **`offset: continue` starts where the previous loop over the same key stopped**: after any loop,
the stop index of its key is the clamped start plus the number of items it visited, and a following
loop with `offset: continue` and the same key visits the reference window that begins there. -/
theorem continue_offset (m : StopIndex) (key : String) (xs : List Item)
    (lim1 : Option Int) (off1 : Option (Option Int)) (rev1 : Bool) (lim2 : Option Int) (rev2 : Bool) :
    ∃ s1 s2, slice m key xs xs.length lim1 off1 rev1 = .ok s1 ∧
      s1.stop.get key = contPos xs lim1 (startOf m key off1) ∧
      slice s1.stop key xs xs.length lim2 none rev2 = .ok s2 ∧
      s2.items = (if rev2 then (specVisited xs lim2 (contPos xs lim1 (startOf m key off1))).reverse
                  else specVisited xs lim2 (contPos xs lim1 (startOf m key off1))) := by
  obtain ⟨s1, h1, _, _⟩ := slice_visits_spec m key xs lim1 off1 rev1
  have hb := window_bounds xs.length lim1 (startOf m key off1)
  have hw := window_is_spec xs lim1 (startOf m key off1)
  have hstop : s1.stop.get key = contPos xs lim1 (startOf m key off1) := by
    have h1' := h1
    simp only [slice, islice] at h1'
    rw [if_neg (by omega)] at h1'
    cases h1'
    simp only [get_set_self, contPos]
    rw [← hw, List.length_drop, List.length_take]
    have : (window xs.length lim1 (startOf m key off1)).start_ = min (max (startOf m key off1) 0) xs.length := by
      cases lim1 <;> simp [window]
    omega
  obtain ⟨s2, h2, h2i, _⟩ := slice_visits_spec s1.stop key xs lim2 none rev2
  refine ⟨s1, s2, h1, hstop, h2, ?_⟩
  rw [h2i]
  simp only [startOf, hstop]

/-- without a limit, the continuing loop visits exactly the rest: the two loops together see every
item from the first loop's start on, once, in order -/
theorem continue_visits_the_rest (xs : List Item) (lim : Option Int) (start : Int) :
    specVisited xs lim start ++ specVisited xs none (contPos xs lim start) = xs.drop start.toNat := by
  have hlen := length_is_visited xs lim start
  cases lim with
  | none =>
    have : (contPos xs none start).toNat ≥ xs.length := by
      simp only [contPos, specVisited, List.length_drop]; omega
    simp only [specVisited]
    rw [List.drop_eq_nil_of_le this]; simp
  | some l =>
    simp only [specVisited, contPos]
    by_cases h : start.toNat ≤ (start + l).toNat
    · by_cases h2 : (start + l).toNat ≤ xs.length
      · have e : (min (max start 0) (xs.length : Int) + ((List.drop start.toNat (List.take (start + l).toNat xs)).length : Int)).toNat
            = (start + l).toNat := by
          simp only [List.length_drop, List.length_take]; omega
        rw [e, List.drop_take]
        have : (start + l).toNat = start.toNat + ((start + l).toNat - start.toNat) := by omega
        rw [this, ← List.drop_drop]
        simp only [Nat.add_sub_cancel_left]
        exact List.take_append_drop _ _
      · have e : (min (max start 0) (xs.length : Int) + ((List.drop start.toNat (List.take (start + l).toNat xs)).length : Int)).toNat
            ≥ xs.length := by
          simp only [List.length_drop, List.length_take]; omega
        rw [List.drop_eq_nil_of_le e, List.take_of_length_le (by omega)]; simp
    · have e : (min (max start 0) (xs.length : Int) + ((List.drop start.toNat (List.take (start + l).toNat xs)).length : Int)).toNat
          = min start.toNat xs.length := by
        simp only [List.length_drop, List.length_take]; omega
      rw [e, drop_take_nil_of_le xs _ _ (by omega)]
      by_cases h3 : start.toNat ≤ xs.length
      · rw [Nat.min_eq_left h3]; simp
      · rw [Nat.min_eq_right (by omega), List.drop_eq_nil_of_le (Nat.le_refl _), List.drop_eq_nil_of_le (by omega)]; simp

/-- a chain of loops `limit: l offset: continue` over one key, each resuming from the previous one -/
def chainVisits (key : String) (xs : List Item) : StopIndex → List Int → List (List Item)
  | _, [] => []
  | m, l :: ls =>
    match slice m key xs xs.length (some l) none false with
    | .ok sl => sl.items :: chainVisits key xs sl.stop ls
    | .error _ => []

/-- **Sequences of loops sharing an `offset: continue` key**: any chain of loops `limit: lᵢ offset:
continue` over one key visits consecutive segments — together exactly the `Σ max lᵢ 0` items that
follow the position the chain started from, each once, in order. -/
theorem continue_chain (key : String) (xs : List Item) (ls : List Int) (m : StopIndex) (h0 : 0 ≤ m.get key) :
    (chainVisits key xs m ls).flatten = (xs.drop (m.get key).toNat).take ((ls.map Int.toNat).sum) := by
  induction ls generalizing m with
  | nil => simp [chainVisits]
  | cons l ls ih =>
    obtain ⟨s1, _, h1, hstop, _, _⟩ := continue_offset m key xs (some l) none false none false
    obtain ⟨s1', h1', hi, _⟩ := slice_visits_spec m key xs (some l) none false
    rw [h1] at h1'; cases h1'
    simp only [chainVisits, h1, List.flatten_cons, List.map_cons, List.sum_cons]
    have hstart : startOf m key none = m.get key := rfl
    rw [hstart] at hstop hi
    simp only [Bool.false_eq_true, if_false] at hi
    have hspec : specVisited xs (some l) (m.get key) = (xs.drop (m.get key).toNat).take l.toNat := by
      simp only [specVisited]
      rw [List.drop_take]
      congr 1; omega
    have hlen : (specVisited xs (some l) (m.get key)).length = min l.toNat (xs.length - (m.get key).toNat) := by
      rw [hspec]; simp [List.length_take, List.length_drop]
    have hpos : 0 ≤ s1.stop.get key := by rw [hstop]; simp only [contPos]; omega
    rw [ih s1.stop hpos, hi, hspec, hstop]
    simp only [contPos, hlen]
    by_cases hfit : (m.get key).toNat + l.toNat ≤ xs.length
    · have : (min (max (m.get key) 0) (xs.length : Int) + ((min l.toNat (xs.length - (m.get key).toNat) : Nat) : Int)).toNat
          = (m.get key).toNat + l.toNat := by omega
      rw [this]
      exact take_drop_append xs _ _ _
    · have e1 : (min (max (m.get key) 0) (xs.length : Int) + ((min l.toNat (xs.length - (m.get key).toNat) : Nat) : Int)).toNat
          ≥ xs.length := by omega
      rw [List.drop_eq_nil_of_le e1, List.take_nil, List.append_nil]
      rw [List.take_of_length_le (by simp only [List.length_drop]; omega),
          List.take_of_length_le (by simp only [List.length_drop]; omega)]

/-- **Loops over a different `identifier-iterable` key do not disturb a continue position.** -/
theorem stopindex_frame (m : StopIndex) (key key2 : String) (xs : List Item) (n : Nat)
    (limit : Option Int) (offset : Option (Option Int)) (reversed : Bool) (sl : Sliced)
    (hk : key2 ≠ key) (h : slice m key xs n limit offset reversed = .ok sl) :
    sl.stop.get key2 = m.get key2 := by
  simp only [slice] at h
  split at h
  · cases h
  · cases h; exact get_set_ne m key key2 _ hk

/-! ## The `forloop` helpers -/

/-- **Helper values at every position of every loop**: while the `k`-th visited item (0-based) of a
loop that visits `n` items is rendered, `index0 = k`, `index = k + 1`, `rindex = n - k`,
`rindex0 = n - k - 1`, `length = n`, `first` iff `k = 0`, `last` iff `k = n - 1`. -/
theorem forloop_helpers (xs : List Item) (k : Nat) (hk : k < xs.length) :
    ∃ s, (forRows (ForState.init xs.length) xs)[k]? = some (xs[k], s) ∧
      s.index0 = k ∧ s.index = k + 1 ∧ s.rindex = xs.length - k ∧ s.rindex0 = xs.length - k - 1 ∧
      s.length = xs.length ∧ (s.first = true ↔ k = 0) ∧ (s.last = true ↔ k + 1 = xs.length) := by
  refine ⟨{ length := xs.length, idx := k }, ?_, ?_⟩
  · rw [forRows_getElem?, List.getElem?_eq_getElem hk]
    simp only [ForState.init, Option.map_some, Option.some.injEq, Prod.mk.injEq, true_and, ForState.mk.injEq]
    omega
  · simp only [ForState.index0, ForState.index, ForState.rindex, ForState.rindex0, ForState.first, ForState.last,
      beq_iff_eq, true_and]
    omega

/-- every visited item gets exactly one row, in order -/
theorem forloop_rows_are_items (xs : List Item) (n : Int) :
    (forRows (ForState.init n) xs).map (·.1) = xs := by
  apply List.ext_getElem?
  intro k
  simp only [List.getElem?_map, forRows_getElem?]
  cases xs[k]? <;> rfl

/-- helper values stay in range: `1 ≤ index ≤ length`, `0 ≤ rindex0 < length` -/
theorem forloop_helpers_in_range (xs : List Item) (k : Nat) (r : Item × ForState)
    (h : (forRows (ForState.init xs.length) xs)[k]? = some r) :
    1 ≤ r.2.index ∧ r.2.index ≤ xs.length ∧ 0 ≤ r.2.rindex0 ∧ r.2.rindex0 < xs.length ∧
    r.2.index + r.2.rindex0 = xs.length := by
  rw [forRows_getElem?] at h
  cases hx : xs[k]? with
  | none => rw [hx] at h; cases h
  | some x =>
    have hk : k < xs.length := by
      have := List.getElem?_eq_some_iff.mp hx
      exact this.1
    rw [hx] at h; cases h
    simp only [ForState.init, ForState.index, ForState.rindex0]
    omega

/-- **`forloop.parentloop` is the enclosing loop's drop**: inside a loop body, one more
`.parentloop` reads what the shorter chain reads in the enclosing block. -/
theorem parentloop_is_enclosing (e : Env) (m : StopIndex) (s : ForState) (name : String) (x : Item)
    (up : Nat) (f : Field) :
    renderNode { e with vars := (name, x) :: e.vars, loops := s :: e.loops } m (.forloop (up + 1) f)
      = renderNode e m (.forloop up f) := by
  simp [renderNode]

/-- `forloop` itself is the drop of the innermost enclosing `for` -/
theorem forloop_is_innermost (e : Env) (m : StopIndex) (s : ForState) (f : Field) :
    renderNode { e with loops := s :: e.loops } m (.forloop 0 f) = .ok (m, s.field f, .normal) := by
  simp [renderNode]

/-! ## `tablerow` -/

/-- **The grid, for every `cols ≥ 1` and every length**: while the `k`-th item is rendered,
`col = k % cols + 1` (cycling `1..cols`), `row = k / cols + 1`, `col0 = k % cols`,
`col_first` iff `k % cols = 0`, `col_last` iff `(k + 1) % cols = 0`, and the index helpers are those of
`forloop`. -/
theorem tablerow_grid (xs : List Item) (c k : Nat) (hc : 0 < c) (hk : k < xs.length) :
    ∃ s, (tableRows (RowState.init xs.length c) xs)[k]? = some (xs[k], s) ∧
      s.col = (k % c + 1 : Nat) ∧ s.row = (k / c + 1 : Nat) ∧ s.col0 = (k % c : Nat) ∧
      (s.colFirst = true ↔ k % c = 0) ∧ (s.colLast = true ↔ (k + 1) % c = 0) ∧
      s.index0 = k ∧ s.index = k + 1 ∧ s.rindex = xs.length - k ∧ s.rindex0 = xs.length - k - 1 ∧
      s.length = xs.length ∧ (s.first = true ↔ k = 0) ∧ (s.last = true ↔ k + 1 = xs.length) := by
  refine ⟨gridState xs.length c k, ?_, ?_⟩
  · cases xs with
    | nil => simp at hk
    | cons x xs =>
      simp only [tableRows, init_step _ c hc]
      cases k with
      | zero => simp
      | succ k =>
        simp only [List.getElem?_cons_succ, List.getElem_cons_succ]
        rw [tableRows_grid_from _ c hc, List.getElem?_eq_getElem (by simpa using hk)]
        simp only [Option.map_some, Option.some.injEq, Prod.mk.injEq, true_and]
        congr 1; omega
  · have hlt := Nat.mod_lt k hc
    have hw : (k + 1) % c = 0 ↔ k % c + 1 = c := by
      constructor
      · intro h
        by_cases hw : k % c + 1 = c
        · exact hw
        · have := succ_div_mod_nowrap k c hc hw; omega
      · intro h; exact (succ_div_mod_wrap k c hc h).1
    simp only [gridState, RowState.col0, RowState.colFirst, RowState.colLast, RowState.index0, RowState.index,
      RowState.rindex, RowState.rindex0, RowState.first, RowState.last, beq_iff_eq, hw, true_and]
    omega

/-- **`cols ≤ 0` never wraps**: one row, `col = k + 1`, `col_last` never. -/
theorem tablerow_nowrap (xs : List Item) (c : Int) (k : Nat) (hc : c ≤ 0) (hk : k < xs.length) :
    ∃ s, (tableRows (RowState.init xs.length c) xs)[k]? = some (xs[k], s) ∧
      s.col = k + 1 ∧ s.row = 1 ∧ s.colLast = false ∧ s.index0 = k := by
  refine ⟨flatState xs.length c k, ?_, ?_⟩
  · cases xs with
    | nil => simp at hk
    | cons x xs =>
      simp only [tableRows, init_step_flat]
      cases k with
      | zero => simp
      | succ k =>
        simp only [List.getElem?_cons_succ, List.getElem_cons_succ]
        rw [tableRows_flat_from _ c hc, List.getElem?_eq_getElem (by simpa using hk)]
        simp only [Option.map_some, Option.some.injEq, Prod.mk.injEq, true_and]
        congr 1; omega
  · simp only [flatState, RowState.colLast, RowState.index0, beq_eq_false_iff_ne, ne_eq, true_and, and_true]
    omega

/-- without `cols:` the row is as wide as the loop: everything in row 1, `col_last` on the last item -/
theorem tablerow_default_cols (xs : List Item) (k : Nat) (hk : k < xs.length) :
    ∃ s, (tableRows (RowState.init xs.length xs.length) xs)[k]? = some (xs[k], s) ∧
      s.row = 1 ∧ s.col = k + 1 ∧ (s.colLast = true ↔ k + 1 = xs.length) := by
  obtain ⟨s, h, hcol, hrow, _, _, hlast, _⟩ := tablerow_grid xs xs.length k (by omega) hk
  refine ⟨s, h, ?_, ?_, ?_⟩
  · rw [hrow, Nat.div_eq_of_lt hk]; rfl
  · rw [hcol, Nat.mod_eq_of_lt hk]; omega
  · rw [hlast]
    constructor
    · intro h
      by_cases hk2 : k + 1 = xs.length
      · exact hk2
      · rw [Nat.mod_eq_of_lt (by omega)] at h; omega
    · intro h; rw [h]; exact Nat.mod_self _

/-- **The row/column structure of the rendered table**: a `tablerow` whose body leaves the continue
positions alone renders, per visited item in order, one `<td class="colC">…</td>` cell followed by a
row separator exactly when the drop says the column is the last of its row and the item is not the
last one (`row_separator_iff` says when that is). -/
theorem tablerow_structure (o : RowState → Item → String) (m : StopIndex) (s : RowState) (xs : List Item) (out : String) :
    iterRow (fun m' s' x => .ok (m', o s' x, .normal)) m s xs out
      = .ok (m, out ++ joinStr ((tableRows s xs).map (cellHtml o))) := by
  induction xs generalizing s out with
  | nil =>
    have : joinStr [] = "" := rfl
    simp only [iterRow, tableRows, List.map_nil, this, String.append_empty]
  | cons x xs ih =>
    have hs : Signal.normal ≠ Signal.break_ := by intro h; cases h
    have hb : (fun (m' : StopIndex) (s' : RowState) (x : Item) => (Except.ok (m', o s' x, Signal.normal) : Res)) m s.step x
        = .ok (m, o s.step x, .normal) := rfl
    rw [iterRow_cons_normal _ m m s x xs out (o s.step x) .normal hs hb]
    rw [ih]
    rw [tableRows, List.map_cons, joinStr_cons]
    generalize joinStr (List.map (cellHtml o) (tableRows s.step xs)) = rest
    unfold cellHtml
    generalize s.step = t
    generalize ht : toString t.col = tc
    generalize toString (t.row + 1) = tr
    generalize o t x = ox
    cases (t.colLast && !t.last)
    · simp only [Bool.false_eq_true, if_false, String.append_assoc, String.append_empty]
    · simp only [if_true, String.append_assoc]
/-- with `cols = c ≥ 1` a row separator follows item `k` exactly when `k + 1` is a multiple of `c`
and item `k` is not the last one: rows of `c` cells, a shorter last row, never an empty row -/
theorem row_separator_iff (xs : List Item) (c k : Nat) (hc : 0 < c) (hk : k < xs.length) :
    ∃ s, (tableRows (RowState.init xs.length c) xs)[k]? = some (xs[k], s) ∧
      ((s.colLast && !s.last) = true ↔ ((k + 1) % c = 0 ∧ k + 1 ≠ xs.length)) ∧
      ((k + 1) % c = 0 → s.row + 1 = ((k + 1) / c + 1 : Nat)) := by
  obtain ⟨s, h, _, hrow, _, _, hcl, _, _, _, _, _, _, hl⟩ := tablerow_grid xs c k hc hk
  refine ⟨s, h, ?_, ?_⟩
  · simp only [Bool.and_eq_true, Bool.not_eq_true', hcl]
    constructor
    · rintro ⟨h1, h2⟩
      refine ⟨h1, ?_⟩
      intro h3
      have := hl.mpr h3
      simp_all
    · rintro ⟨h1, h2⟩
      refine ⟨h1, ?_⟩
      cases hls : s.last with
      | false => rfl
      | true => exact absurd (hl.mp hls) h2
  · intro hm
    rw [hrow]
    have hw : k % c + 1 = c := by
      by_cases hw : k % c + 1 = c
      · exact hw
      · have := succ_div_mod_nowrap k c hc hw; omega
    have := succ_div_mod_wrap k c hc hw
    omega

/-! ## `break`, `continue`, blocks -/

/-- **`break` is honoured**: a loop whose body leaves the continue positions alone renders the
rows up to and including the first row whose body signals `break`, and nothing after it;
`continue` (and normal completion) goes on with the next item. -/
theorem break_honoured (o : ForState → Item → String) (sig : ForState → Item → Signal)
    (m : StopIndex) (s : ForState) (xs : List Item) (out : String) :
    iterFor (fun m' s' x => .ok (m', o s' x, sig s' x)) m s xs out
      = .ok (m, out ++ joinStr ((takeThrough (fun r => decide (sig r.2 r.1 = .break_)) (forRows s xs)).map
                                  (fun r => o r.2 r.1))) :=
  iterFor_stateless o sig m s xs out

/-- one step of any loop: `break` ends it with the output written so far -/
theorem break_ends_loop (body : StopIndex → ForState → Item → Res) (m m' : StopIndex) (s : ForState)
    (x : Item) (xs : List Item) (out o : String) (h : body m s.step x = .ok (m', o, .break_)) :
    iterFor body m s (x :: xs) out = .ok (m', out ++ o) := by
  simp [iterFor, h]

/-- one step of any loop: `continue` (like normal completion) goes on with the next item -/
theorem continue_honoured (body : StopIndex → ForState → Item → Res) (m m' : StopIndex) (s : ForState)
    (x : Item) (xs : List Item) (out o : String) (sig : Signal) (hs : sig ≠ .break_)
    (h : body m s.step x = .ok (m', o, sig)) :
    iterFor body m s (x :: xs) out = iterFor body m' s.step xs (out ++ o) := by
  simp [iterFor, h, hs]

/-- **an interrupt leaves the block at once**: what follows `break`/`continue` in a block is not
rendered for this item, what precedes it is -/
theorem interrupt_skips_rest_of_block (e : Env) (m m' : StopIndex) (n : Node) (ns : List Node) (o : String)
    (sig : Signal) (hs : sig ≠ .normal) (h : renderNode e m n = .ok (m', o, sig)) :
    renderBlock e m (n :: ns) = .ok (m', o, sig) := by
  simp [renderBlock, h, hs]

theorem normal_goes_on (e : Env) (m m' : StopIndex) (n : Node) (ns : List Node) (o : String)
    (h : renderNode e m n = .ok (m', o, .normal)) :
    renderBlock e m (n :: ns) =
      match renderBlock e m' ns with
      | .error err => .error err
      | .ok (m'', o', sig') => .ok (m'', o ++ o', sig') := by
  simp only [renderBlock, h, ne_eq, not_true_eq_false, if_false]
  cases renderBlock e m' ns <;> rfl

/-- in a `tablerow`, `break` closes the current cell and ends the table without opening another row -/
theorem tablerow_break_ends (body : StopIndex → RowState → Item → Res) (m m' : StopIndex) (s : RowState)
    (x : Item) (xs : List Item) (out o : String) (h : body m s.step x = .ok (m', o, .break_)) :
    iterRow body m s (x :: xs) out
      = .ok (m', out ++ "<td class=\"col" ++ toString s.step.col ++ "\">" ++ o ++ "</td>") := by
  simp [iterRow, h]

/-! ## The `for` tag as a whole -/

/-- **Rendering a `for` tag**: with integer-valued arguments it never fails in `evaluate`; it renders
the else block (if any) exactly when the reference window is empty, otherwise its body once per
reference item, in order, with a `forloop` drop of that length; the continue position is recorded
either way. -/
theorem for_renders_spec (e : Env) (m : StopIndex) (spec : LoopSpec) (body : List Node)
    (els : Option (List Node)) (lim : Option Int) (off : Option (Option Int))
    (hl : evalLimit spec.limit = .ok lim) (ho : evalOffset spec.offset = .ok off) :
    let base := specVisited (toIter e.stringSequences spec.obj).1 lim (startOf m spec.key off)
    let vis := if spec.reversed then base.reverse else base
    let m1 := m.set spec.key (contPos (toIter e.stringSequences spec.obj).1 lim (startOf m spec.key off))
    renderNode e m (.for_ spec body els) =
      if vis = [] then
        (match els with
         | none => .ok (m1, "", .normal)
         | some d => renderBlock e m1 d)
      else
        (match iterFor (fun m' s x => renderBlock { e with vars := (spec.ident, x) :: e.vars, loops := s :: e.loops } m' body)
                 m1 (ForState.init vis.length) vis "" with
         | .error err => .error err
         | .ok (m', out) => .ok (m', out, .normal)) := by
  intro base vis m1
  obtain ⟨sl, hev, hi, hlen, hstop⟩ := evaluate_visits_spec e.stringSequences m spec lim off hl ho
  have hvl : vis.length = base.length := by
    simp only [vis]; split <;> simp
  have hsl : sl.length = (vis.length : Int) := by rw [hvl]; exact hlen
  have hvis : sl.items = vis := hi
  rw [renderNode, hev]
  simp only [hstop, hvis, hsl]
  by_cases hv : vis = []
  · have h0 : ¬ ((vis.length : Int) ≠ 0) := by rw [hv]; simp
    rw [if_neg h0, if_pos hv]
    cases els <;> rfl
  · have h0 : (vis.length : Int) ≠ 0 := by
      intro h0
      have : vis.length = 0 := by omega
      exact hv (List.length_eq_zero_iff.mp this)
    rw [if_pos h0, if_neg hv]
    cases iterFor (fun m' s x => renderBlock { e with vars := (spec.ident, x) :: e.vars, loops := s :: e.loops } m' body) m1 (ForState.init vis.length) vis "" <;> rfl


/-! ## Outside the quantifier: a limit that is not an integer

The property quantifies over integer limits (literals, variables, numeric strings). What the code does
with `nil` and with an undefined variable is recorded here so that it is explicit: `nil` is a
`LiquidTypeError`, an undefined variable reads as 0 (`Undefined.__int__`) and therefore — like
`limit: 0` — visits nothing. The reference implementation treats both as "no limit"; see notes/C13.md. -/

theorem nil_and_undefined_limit :
    evalLimit (some .nil) = .error .liquidType ∧ evalLimit (some .undefined) = .ok (some 0) := by
  simp [evalLimit, toInt, Except.map]

theorem undefined_limit_visits_nothing (ss : Bool) (m : StopIndex) (spec : LoopSpec) (off : Option (Option Int))
    (hl : spec.limit = some .undefined) (ho : evalOffset spec.offset = .ok off) :
    ∃ sl, evaluate ss m spec = .ok sl ∧ sl.items = [] ∧ sl.length = 0 := by
  have hl' : evalLimit spec.limit = .ok (some 0) := by rw [hl]; exact nil_and_undefined_limit.2
  obtain ⟨sl, h, hi, hlen, _⟩ := evaluate_visits_spec ss m spec (some 0) off hl' ho
  have h0 := limit_nonpos_visits_nothing (toIter ss spec.obj).1 0 (startOf m spec.key off) (by omega)
  refine ⟨sl, h, ?_, ?_⟩
  · rw [hi, h0]; simp
  · rw [hlen, h0]; rfl

/-! ## The loop stack under exceptions (`Model/LoopStack.lean`) -/
section LoopStackSection
open LiquidVerif.LoopStack

/-- **The loop stack is restored however a loop is left**: after rendering any node — completed,
left by `break`/`continue`, aborted by an error raised in its body at any depth, or refused by the
context-depth check of its own `extend` — `context.loops` is exactly what it was before. -/
theorem loop_stack_restored (n : LoopStack.Node) : ∀ (env : LoopStack.Env) (st : LoopStack.St),
    (LoopStack.render env st n).1.loops = st.loops := by
  induction n with
  | nop => intro env st; rfl
  | text s => intro env st; rfl
  | fail => intro env st; rfl
  | ref up f => intro env st; rfl
  | brk => intro env st; rfl
  | cont => intro env st; rfl
  | seq a b iha ihb =>
    intro env st
    simp only [render]
    have ha := iha env st
    cases hra : render env st a with
    | mk st' oc =>
      rw [hra] at ha
      cases oc with
      | normal => simp only []; rw [ihb, ha]
      | brk => simpa using ha
      | cont => simpa using ha
      | err e => simpa using ha
  | for_ n body ih =>
    intro env st
    simp only [render]
    split
    · rfl
    · split
      · rfl
      · have key := iterLoop_loops
          (fun s k => render { env with depth := env.depth + 1, forloop := some (LoopObj.mk n k st.loops.head?) }
                 { s with loops := setFromBottom s.loops st.loops.length (LoopObj.mk n k st.loops.head?) } body)
          st.loops
          (by
            intro s k o hs
            refine ⟨LoopObj.mk n k st.loops.head?, ?_⟩
            rw [ih]
            simp only [hs]
            exact setFromBottom_top _ _ _)
          { st with loops := LoopObj.mk n (-1) st.loops.head? :: st.loops } 0 n _ rfl
        obtain ⟨o', ho'⟩ := key
        simp only [ho', List.tail_cons]
  | tablerow n body ih =>
    intro env st
    simp only [render]
    split
    · rfl
    · have key := iterRow_loops (fun s _ => render { env with depth := env.depth + 1 } s body)
        (fun s _ => ih _ s) { st with out := st.out ++ "<tr class=\"row1\">\n" } 0 n
      cases hr : iterRow (fun s _ => render { env with depth := env.depth + 1 } s body)
          { st with out := st.out ++ "<tr class=\"row1\">\n" } 0 n with
      | mk st2 oc =>
        rw [hr] at key
        cases oc <;> simpa using key


/-- **In every mode a whole render leaves the loop stack as it found it**; in particular after errors
that lax/warn mode suppressed, later top-level loops start from the same stack. -/
theorem template_loop_stack_restored (mode : LoopStack.Mode) (d : Nat) (ns : List LoopStack.Node) :
    ∀ st : LoopStack.St, (renderTemplate mode d st ns).1.loops = st.loops := by
  induction ns with
  | nil => intro st; rfl
  | cons n ns ih =>
    intro st
    simp only [renderTemplate]
    have h := loop_stack_restored n { maxDepth := d, depth := 0, forloop := none } st
    cases hr : LoopStack.render { maxDepth := d, depth := 0, forloop := none } st n with
    | mk st' oc =>
      rw [hr] at h
      cases oc with
      | normal => simp only []; rw [ih, h]
      | brk => simp only []; split; · exact h
               · rw [ih, h]
      | cont => simp only []; split; · exact h
                · rw [ih, h]
      | err e => simp only []; split; · exact h
                 · rw [ih, h]

/-- **`parentloop` of a loop is the loop on top of the stack when it starts** — with
`loop_stack_restored`: the enclosing loop, or undefined for a top-level loop, whatever failed before. -/
theorem new_loop_parent (env : LoopStack.Env) (st : LoopStack.St) (n : Nat) (f : Ref)
    (hn : n ≠ 0) (hd : env.depth < env.maxDepth) :
    (LoopStack.render env st (.for_ n (.seq (.ref 1 f) .brk))).1.out
      = st.out ++ showRef st.loops.head? f := by
  obtain ⟨k, rfl⟩ : ∃ k, n = k + 1 := ⟨n - 1, by omega⟩
  have hd' : ¬ env.depth ≥ env.maxDepth := by omega
  simp [LoopStack.render, hd', iterLoop, LoopObj.up, LoopObj.parent]

example : (renderTemplate .lax 1 { loops := [], out := "" }
    [.for_ 2 (.for_ 2 (.text "x")), .for_ 1 (.ref 1 .defined)]).1.out = "-" := by decide
example : (renderTemplate .lax 5 { loops := [], out := "" }
    [.for_ 2 (.seq (.text "a") .fail), .for_ 1 (.ref 1 .defined)]).1.out = "a-" := by decide

end LoopStackSection

/-! ## Non-vacuity -/

example : specVisited [.int 1, .int 2, .int 3, .int 4, .int 5] (some 2) 1 = [.int 2, .int 3] := by decide
example : specVisited [.int 1, .int 2, .int 3] (some 0) 0 = [] := by decide
example : specVisited [.int 1, .int 2, .int 3] (some (-1)) 2 = [] := by decide
example : specVisited [.int 1, .int 2, .int 3] (some 2) (-1) = [.int 1] := by decide
example : (slice [] "i-a" [.int 1, .int 2, .int 3] 3 (some 0) (some none) false).toOption.map (·.items) = some [] := by decide
example : (slice [("i-a", 2)] "i-a" [.int 1, .int 2, .int 3] 3 none none true).toOption.map (·.items) = some [.int 3] := by decide
example : ((tableRows (RowState.init 5 2) [.int 1, .int 2, .int 3, .int 4, .int 5]).map (fun r => (r.2.row, r.2.col)))
    = [(1, 1), (1, 2), (2, 1), (2, 2), (3, 1)] := by decide

end LiquidVerif.C13
