import LiquidVerif.Lemmas.Loop
/-!
# C13 — loops visit exactly the documented items

Property theorems about `Model/Loop.lean` and `Model/LoopRender.lean` (the models of
`LoopExpression._to_iter/_slice/evaluate`, `RenderContext.stopindex`, the `ForLoop` and `TableRow`
drops, `ForNode`/`TablerowNode`/`BlockNode` rendering, `break` and `continue`).
Helper lemmas live in `Lemmas/Loop.lean`.
-/
namespace LiquidVerif.C13
open LiquidVerif.Loop

/-! ## The reference semantics -/

/-- **Reference window**: the items whose index `i` satisfies `max start 0 ≤ i < start + limit`
(no upper bound without a limit). A limit of zero or a negative limit gives nothing; a negative
start behaves as 0 for the lower bound. -/
def specVisited (xs : List Item) (limit : Option Int) (start : Int) : List Item :=
  match limit with
  | none => xs.drop start.toNat
  | some l => (xs.take (start + l).toNat).drop start.toNat

/-- the window `_slice` computes lies inside the collection and is never inverted -/
theorem window_bounds (n : Nat) (limit : Option Int) (start : Int) :
    0 ≤ (window n limit start).start_ ∧ (window n limit start).start_ ≤ (window n limit start).stop_ ∧
    (window n limit start).stop_ ≤ n ∧
    (window n limit start).length_ = (window n limit start).stop_ - (window n limit start).start_ := by
  cases limit <;> simp only [window, Option.map] <;> omega

/-- the window is the reference window -/
theorem window_is_spec (xs : List Item) (limit : Option Int) (start : Int) :
    (xs.take (window xs.length limit start).stop_.toNat).drop (window xs.length limit start).start_.toNat
      = specVisited xs limit start := by
  cases limit with
  | none =>
    simp only [window, Option.map, specVisited]
    have h1 : (min (max start 0) (xs.length : Int)).toNat = min start.toNat xs.length := by omega
    have h2 : ((xs.length : Int)).toNat = xs.length := by omega
    rw [h1, h2, List.take_of_length_le (Nat.le_refl _)]
    by_cases h : xs.length ≤ start.toNat
    · rw [Nat.min_eq_right h, List.drop_eq_nil_of_le (Nat.le_refl _), List.drop_eq_nil_of_le h]
    · rw [Nat.min_eq_left (by omega)]
  | some l =>
    simp only [window, Option.map, specVisited]
    have h1 : (min (max start 0) (xs.length : Int)).toNat = min start.toNat xs.length := by omega
    have h2 : (min (max (l + start) (min (max start 0) (xs.length : Int))) (xs.length : Int)).toNat
        = min (max (start + l).toNat (min start.toNat xs.length)) xs.length := by omega
    rw [h1, h2]
    exact take_drop_clamp xs _ _

/-- **`_slice` never raises** (for integer limits and offsets of any sign and size): the bounds handed
to `islice` are never negative. -/
theorem slice_never_raises (m : StopIndex) (key : String) (xs : List Item) (n : Nat)
    (limit : Option Int) (offset : Option (Option Int)) (reversed : Bool) :
    ∃ sl, slice m key xs n limit offset reversed = .ok sl := by
  have hb := window_bounds n limit (startOf m key offset)
  simp only [slice, islice]
  rw [if_neg (by omega)]
  exact ⟨_, rfl⟩

/-- **The loop visits exactly the reference items** — for every collection, every integer limit
(zero, negative, huge), every offset (absent, integer of any sign and size, `continue`), reversed or
not — and the length it reports (which decides the `else` block and feeds every helper) is the number
of items visited. -/
theorem slice_visits_spec (m : StopIndex) (key : String) (xs : List Item)
    (limit : Option Int) (offset : Option (Option Int)) (reversed : Bool) :
    ∃ sl, slice m key xs xs.length limit offset reversed = .ok sl ∧
      sl.items = (if reversed then (specVisited xs limit (startOf m key offset)).reverse
                  else specVisited xs limit (startOf m key offset)) ∧
      sl.length = (specVisited xs limit (startOf m key offset)).length := by
  have hb := window_bounds xs.length limit (startOf m key offset)
  have hw := window_is_spec xs limit (startOf m key offset)
  simp only [slice, islice]
  rw [if_neg (by omega)]
  refine ⟨_, rfl, ?_, ?_⟩
  · simp only [hw]
  · simp only
    rw [← hw, List.length_drop, List.length_take]
    omega

end LiquidVerif.C13
