import LiquidVerif.Model.LoopLimitModes
import LiquidVerif.Lemmas.LoopLimit
/-!
Helper lemmas for the all-modes part of `Props/C06.lean` (model `Model/LoopLimitModes.lean`).
-/
set_option linter.unusedSimpArgs false
namespace LiquidVerif.LoopLimitModes
open LiquidVerif.LoopLimit (Cx Ev reduceMul prod overLimit AllLe GhostInv allLe_nil allLe_append allLe_cons
  ghostInv_step ghostInv_same ghostInv_copied le_of_not_over reduceMul_snoc reduceMul_mul)

theorem allLe_andThen {N : Nat} {a : Out} {b : MacrosX → Out} (ha : AllLe N a.tr) (hb : ∀ m1, AllLe N (b m1).tr) :
    AllLe N (a.andThen b).tr := by
  unfold Out.andThen
  split
  · exact allLe_append.mpr ⟨ha, hb _⟩
  · exact ha

theorem catchNode_tr (s p : Bool) (o : Out) : (catchNode s p o).tr = o.tr := by
  unfold catchNode
  split <;> (try split) <;> (try split) <;> rfl

theorem afterForBody_tr (o : Out) : (afterForBody o).1.tr = o.tr := by
  unfold afterForBody; split <;> rfl

theorem discard_tr (m : MacrosX) (o : Out) : (o.discard m).tr = o.tr := rfl

theorem allLe_emit {N : Nat} (m : MacrosX) (e : Ev) (h : prod e.enclosing ≤ N) : AllLe N (emit m e).tr := by
  simp [emit, allLe_cons, allLe_nil, h]

theorem bounded_aux (E : Env) (N : Nat) (hl : E.limit = some N) (hN : N ≠ 0) :
    (∀ c m node, GhostInv c → prod c.ghost ≤ N → AllLe N (render E c m node).tr) ∧
    (∀ c pass m site body, GhostInv c → prod c.ghost ≤ N → AllLe N (renderPartial E c pass m site body).tr) ∧
    (∀ c pass m body, GhostInv c → prod c.ghost ≤ N → AllLe N (renderNodes E c pass m body).tr) ∧
    (∀ c pass m site body k, GhostInv c → prod c.ghost ≤ N → AllLe N (iterPartial E c pass m site body k).tr) ∧
    (∀ c m id body k, GhostInv c → prod c.ghost ≤ N → AllLe N (iter E c m id body k).tr) ∧
    (∀ c m body, GhostInv c → prod c.ghost ≤ N → AllLe N (renderList E c m body).tr) := by
  apply render.mutual_induct E
    (motive1 := fun c m node => GhostInv c → prod c.ghost ≤ N → AllLe N (render E c m node).tr)
    (motive2 := fun c pass m site body => GhostInv c → prod c.ghost ≤ N → AllLe N (renderPartial E c pass m site body).tr)
    (motive3 := fun c pass m body => GhostInv c → prod c.ghost ≤ N → AllLe N (renderNodes E c pass m body).tr)
    (motive4 := fun c pass m site body k => GhostInv c → prod c.ghost ≤ N → AllLe N (iterPartial E c pass m site body k).tr)
    (motive5 := fun c m id body k => GhostInv c → prod c.ghost ≤ N → AllLe N (iter E c m id body k).tr)
    (motive6 := fun c m body => GhostInv c → prod c.ghost ≤ N → AllLe N (renderList E c m body).tr)
  all_goals try (intros; simp [render, renderList, renderNodes, iter, iterPartial, renderPartial, done, fail, emit, allLe_nil, allLe_cons, *]; done)
  case case6 => intro c m id n body dflt hn ho _ _; simp [render, hn, ho, fail, allLe_nil]
  case case7 => intro c m id n body dflt hn ho hs _ _; simp [render, hn, ho, hs, fail, allLe_nil]
  case case8 =>
    intro c m id n body dflt hn ho hs ih hi hb
    simp only [render, hn, ho, hs, ne_eq, not_false_eq_true, if_true, if_false, dite_false]
    rw [hl] at ho
    exact ih (ghostInv_step rfl (by simp [Cx.measured, reduceMul_snoc]) hi) (le_of_not_over hN hi rfl ho)
  case case10 => intro c m id n body ho _ _; simp [render, ho, fail, allLe_nil]
  case case11 => intro c m id n body ho hs _ _; simp [render, ho, hs, fail, allLe_nil]
  case case12 =>
    intro c m id n body ho hs ih hi hb
    simp only [render, ho, hs, if_false, dite_false]
    rw [hl] at ho
    exact ih (ghostInv_step rfl (by simp [Cx.measured, reduceMul_mul]) hi) (le_of_not_over hN hi rfl ho)
  case case16 =>
    intro c m site name hni body hlk hs n ho _ _
    have hni' : c.noInclude = false := by simpa using hni
    simp only [hni'] at ho
    simp [render, hni', hlk, hs, ho, fail, allLe_nil]
  case case17 =>
    intro c m site name hni body hlk hs n ho ih hi hb
    have hni' : c.noInclude = false := by simpa using hni
    simp only [hni'] at ho ih
    simp only [render, hni', hlk, hs, ho, Bool.false_eq_true, if_false, dite_false]
    rw [hl] at ho
    exact ih (ghostInv_step rfl (by simp [Cx.measured, reduceMul_mul]) hi) (le_of_not_over hN hi rfl ho)
  case case18 =>
    intro c m site name hni body hlk hs ih hi hb
    have hni' : c.noInclude = false := by simpa using hni
    simp only [hni'] at ih
    simp only [render, hni', hlk, hs, Bool.false_eq_true, if_false, dite_false]
    exact ih (ghostInv_same rfl rfl hi) hb
  case case21 => intro c m site name body hlk hd n ho _ _; simp [render, hlk, hd, ho, fail, allLe_nil]
  case case22 =>
    intro c m site name body hlk hd n ho ih hi hb
    simp only [render, hlk, hd, ho, if_false, dite_false, discard_tr]
    rw [hl] at ho
    exact ih (ghostInv_step rfl (by simp [Cx.measured, Cx.copied]) hi)
      (le_of_not_over hN hi (by simp [Cx.measured, Cx.copied]) ho)
  case case23 =>
    intro c m site name body hlk hd ih hi hb
    simp only [render, hlk, hd, dite_false, discard_tr]
    exact ih (ghostInv_copied hi) hb
  case case27 =>
    intro c m name body hlk hd ih hi hb
    simp only [render, hlk, hd, dite_false, discard_tr]
    exact ih (ghostInv_copied hi) hb
  case case29 =>
    intro c pass m site body hs ih hi hb
    rw [renderPartial]; simp only [hs, dite_false]
    exact allLe_andThen (allLe_emit _ _ hb) (fun m0 => ih m0 (ghostInv_same rfl rfl hi) hb)
  case case31 =>
    intro c pass m n ns ih1 ih2 hi hb
    rw [renderNodes]
    exact allLe_andThen (by rw [catchNode_tr]; exact ih1 hi hb) (fun m1 => ih2 m1 hi hb)
  case case33 =>
    intro c pass m site body k ih1 ih2 hi hb
    rw [iterPartial]
    exact allLe_andThen (ih1 hi hb) (fun m1 => ih2 m1 hi hb)
  case case35 =>
    intro c m id body k o hgo ih1 ih2 hi hb
    rw [iter]
    have ho : AllLe N o.tr := allLe_andThen (allLe_emit _ _ hb) (fun m0 => ih1 m0 hi hb)
    rw [if_pos hgo]
    exact allLe_andThen (by rw [afterForBody_tr]; exact ho) (fun m1 => ih2 m1 hi hb)
  case case36 =>
    intro c m id body k o hgo ih1 hi hb
    rw [iter]
    have ho : AllLe N o.tr := allLe_andThen (allLe_emit _ _ hb) (fun m0 => ih1 m0 hi hb)
    rw [if_neg hgo, afterForBody_tr]; exact ho
  case case38 =>
    intro c m n ns ih1 ih2 hi hb
    rw [renderList]
    exact allLe_andThen (ih1 hi hb) (fun m1 => ih2 m1 hi hb)
theorem andThen_sig_normal {a : Out} {b : MacrosX → Out} (ha : a.sig = .normal) (hb : ∀ m1, (b m1).sig = .normal) :
    (a.andThen b).sig = .normal := by
  unfold Out.andThen; rw [ha]; exact hb _

theorem catchNode_lax_sig (o : Out) : (catchNode false false o).sig = .normal := by
  unfold catchNode
  split
  · assumption
  · rfl
  · rfl

/-- in LAX / WARN mode nothing escapes the node loop of a top-level (or `render`ed) template -/
theorem renderNodes_lax_sig (E : Env) (hs : E.strict = false) (c : Cx) (m : MacrosX) (ns : List Node) :
    (renderNodes E c false m ns).sig = .normal := by
  induction ns generalizing m with
  | nil => rw [renderNodes]; rfl
  | cons n ns ih =>
    rw [renderNodes, hs]
    exact andThen_sig_normal (catchNode_lax_sig _) (fun m1 => ih m1)

end LiquidVerif.LoopLimitModes
