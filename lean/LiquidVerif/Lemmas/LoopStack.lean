import LiquidVerif.Model.LoopStack
/-! Helper lemmas for the loop-stack discipline (C13). Core Lean only. -/
namespace LiquidVerif.LoopStack

theorem setFromBottom_top (o o' : LoopObj) (l : List LoopObj) : setFromBottom (o :: l) l.length o' = o' :: l := by
  simp [setFromBottom]

theorem iterLoop_loops (f : St → Nat → St × Outcome) (base : List LoopObj)
    (hf : ∀ s k o, s.loops = o :: base → ∃ o', (f s k).1.loops = o' :: base)
    (st : St) (k r : Nat) (o : LoopObj) (h : st.loops = o :: base) :
    ∃ o', (iterLoop f st k r).1.loops = o' :: base := by
  induction r generalizing st k o with
  | zero => exact ⟨o, by simpa [iterLoop] using h⟩
  | succ r ih =>
    obtain ⟨o', ho'⟩ := hf st k o h
    simp only [iterLoop]
    cases hfs : f st k with
    | mk st' oc =>
      rw [hfs] at ho'
      cases oc with
      | normal => exact ih st' (k + 1) o' ho'
      | cont => exact ih st' (k + 1) o' ho'
      | brk => exact ⟨o', ho'⟩
      | err e => exact ⟨o', ho'⟩

theorem iterRow_loops (f : St → Nat → St × Outcome) (hf : ∀ s k, (f s k).1.loops = s.loops)
    (st : St) (k r : Nat) : (iterRow f st k r).1.loops = st.loops := by
  induction r generalizing st k with
  | zero => simp [iterRow]
  | succ r ih =>
    simp only [iterRow]
    have h1 := hf { st with out := st.out ++ "<td class=\"col" ++ toString (k + 1) ++ "\">" } k
    cases hfs : f { st with out := st.out ++ "<td class=\"col" ++ toString (k + 1) ++ "\">" } k with
    | mk st' oc =>
      rw [hfs] at h1
      cases oc with
      | err e => simpa using h1
      | brk => simpa using h1
      | normal => simp only []; rw [ih]; simpa using h1
      | cont => simp only []; rw [ih]; simpa using h1

end LiquidVerif.LoopStack
