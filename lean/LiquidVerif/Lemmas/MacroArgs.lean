import LiquidVerif.Model.MacroRender
/-!
Helper lemmas for C27: dictionaries as association lists, the two binding loops.
-/
namespace LiquidVerif.MacroArgs

theorem dictGet_dictSet {α} (d : List (Name × α)) (k k' : Name) (v : α) :
    dictGet (dictSet d k v) k' = if k' = k then some v else dictGet d k' := by
  induction d with
  | nil => simp [dictSet, dictGet, eq_comm]
  | cons p r ih =>
    obtain ⟨a, b⟩ := p
    by_cases h : a = k
    · subst h; by_cases h2 : k' = a <;> simp [dictSet, dictGet, h2, eq_comm]
    · by_cases h2 : a = k'
      · subst h2; simp [dictSet, dictGet, h]
      · simp [dictSet, dictGet, h, h2, ih]

theorem dictGet_none_iff {α} (d : List (Name × α)) (k : Name) : dictGet d k = none ↔ k ∉ keys d := by
  induction d with
  | nil => simp [dictGet, keys]
  | cons p r ih =>
    obtain ⟨a, b⟩ := p
    by_cases h : a = k
    · subst h; simp [dictGet, keys]
    · simp only [dictGet, h, if_false, ih, keys, List.map_cons, List.mem_cons, not_or]
      exact ⟨fun x => ⟨fun e => h e.symm, x⟩, fun x => x.2⟩

theorem dictGet_isSome_iff {α} (d : List (Name × α)) (k : Name) : (dictGet d k).isSome ↔ k ∈ keys d := by
  have := dictGet_none_iff d k
  cases h : dictGet d k with
  | none => simp [h] at this; simp [this]
  | some v =>
    simp only [h, reduceCtorEq, false_iff] at this
    simp [Decidable.of_not_not this]

theorem keys_dictSet_mem {α} (d : List (Name × α)) (k : Name) (v : α) (h : k ∈ keys d) :
    keys (dictSet d k v) = keys d := by
  induction d with
  | nil => simp [keys] at h
  | cons p r ih =>
    obtain ⟨a, b⟩ := p
    by_cases ha : a = k
    · subst ha; simp [dictSet, keys]
    · have hr : k ∈ keys r := by
        simp only [keys, List.map_cons, List.mem_cons] at h
        rcases h with h | h
        · exact absurd h.symm ha
        · exact h
      have := ih hr
      simp only [keys] at this ⊢
      simp [dictSet, ha, this]

theorem keys_dictSet_not_mem {α} (d : List (Name × α)) (k : Name) (v : α) (h : k ∉ keys d) :
    keys (dictSet d k v) = keys d ++ [k] := by
  induction d with
  | nil => simp [dictSet, keys]
  | cons p r ih =>
    obtain ⟨a, b⟩ := p
    simp only [keys, List.map_cons, List.mem_cons, not_or] at h
    have ha : ¬ a = k := fun e => h.1 e.symm
    have := ih h.2
    simp only [keys] at this ⊢
    simp [dictSet, ha, this]

theorem nodup_keys_dictSet {α} (d : List (Name × α)) (k : Name) (v : α) (h : (keys d).Nodup) :
    (keys (dictSet d k v)).Nodup := by
  by_cases hk : k ∈ keys d
  · rw [keys_dictSet_mem d k v hk]; exact h
  · rw [keys_dictSet_not_mem d k v hk]
    exact List.nodup_append.mpr ⟨h, by simp, by intro a ha b hb; simp at hb; subst hb; intro e; subst e; exact hk ha⟩

theorem nodup_keys_foldl_dictSet {α} (ps : List (Name × α)) (d : List (Name × α)) (h : (keys d).Nodup) :
    (keys (ps.foldl (fun d p => dictSet d p.1 p.2) d)).Nodup := by
  induction ps generalizing d with
  | nil => exact h
  | cons p ps ih => exact ih _ (nodup_keys_dictSet d p.1 p.2 h)

/-- `dictOf` — hence `Parameter.parse` and a `with` tag's namespace — has unique keys -/
theorem nodup_keys_dictOf {α} (ps : List (Name × α)) : (keys (dictOf ps)).Nodup :=
  nodup_keys_foldl_dictSet ps [] (by simp [keys])

theorem dictGet_foldl_dictSet {α} (ps : List (Name × α)) (d : List (Name × α)) (n : Name) :
    dictGet (ps.foldl (fun d p => dictSet d p.1 p.2) d) n =
      match lastOf ps n with
      | some v => some v
      | none => dictGet d n := by
  induction ps generalizing d with
  | nil => simp [lastOf]
  | cons p ps ih =>
    obtain ⟨k, v⟩ := p
    simp only [List.foldl_cons, ih, lastOf]
    cases lastOf ps n with
    | some x => rfl
    | none =>
      simp only [dictGet_dictSet]
      by_cases h : k = n
      · subst h; simp
      · have : ¬ n = k := fun e => h e.symm
        simp [h, this]

/-- `dictOf` keeps the last value of a repeated key -/
theorem dictGet_dictOf {α} (ps : List (Name × α)) (n : Name) : dictGet (dictOf ps) n = lastOf ps n := by
  unfold dictOf
  rw [dictGet_foldl_dictSet]
  cases lastOf ps n <;> simp [dictGet]

/-! ### the positional loop -/

theorem bp_get (names : List Name) (pos : List Expr) (args : List (Name × Option Expr)) (ex : List Expr) (n : Name) :
    dictGet (bindPositional names pos args ex).1 n =
      match lastOf (names.zip pos) n with
      | some e => some (some e)
      | none => dictGet args n := by
  induction names generalizing pos args ex with
  | nil =>
    induction pos generalizing ex with
    | nil => simp [bindPositional, lastOf]
    | cons e es ih => simp only [bindPositional]; rw [ih]; simp [lastOf]
  | cons m ms ih =>
    cases pos with
    | nil => simp [bindPositional, lastOf]
    | cons e es =>
      simp only [bindPositional, List.zip_cons_cons, lastOf]
      rw [ih]
      cases lastOf (ms.zip es) n with
      | some x => rfl
      | none =>
        simp only [dictGet_dictSet]
        by_cases h : m = n
        · subst h; simp
        · have : ¬ n = m := fun e => h e.symm
          simp [h, this]

theorem bp_keys (names : List Name) (pos : List Expr) (args : List (Name × Option Expr)) (ex : List Expr)
    (h : ∀ x ∈ names, x ∈ keys args) : keys (bindPositional names pos args ex).1 = keys args := by
  induction names generalizing pos args ex with
  | nil =>
    induction pos generalizing ex with
    | nil => simp [bindPositional]
    | cons e es ih => simp only [bindPositional]; exact ih _
  | cons m ms ih =>
    cases pos with
    | nil => simp [bindPositional]
    | cons e es =>
      simp only [bindPositional]
      have hm := h m (by simp)
      rw [ih es _ _ (fun x hx => by rw [keys_dictSet_mem _ _ _ hm]; exact h x (by simp [hx]))]
      exact keys_dictSet_mem _ _ _ hm

theorem bp_excess (names : List Name) (pos : List Expr) (args : List (Name × Option Expr)) (ex : List Expr) :
    (bindPositional names pos args ex).2 = ex ++ pos.drop names.length := by
  induction names generalizing pos args ex with
  | nil =>
    induction pos generalizing ex with
    | nil => simp [bindPositional]
    | cons e es ih => simp only [bindPositional]; rw [ih]; simp
  | cons m ms ih =>
    cases pos with
    | nil => simp [bindPositional]
    | cons e es => simp only [bindPositional]; rw [ih]; simp

/-! ### the keyword loop -/

theorem lastOf_filter_pos {α} (p : Name → Bool) (kw : List (Name × α)) (n : Name) (h : p n = true) :
    lastOf (kw.filter fun a => p a.1) n = lastOf kw n := by
  induction kw with
  | nil => rfl
  | cons a r ih =>
    obtain ⟨k, v⟩ := a
    by_cases hk : p k = true
    · simp only [List.filter_cons, hk, if_true, lastOf, ih]
    · have hne : ¬ k = n := fun e => hk (e ▸ h)
      simp only [List.filter_cons, hk, Bool.false_eq_true, if_false]
      rw [ih]
      simp only [lastOf, hne, if_false]
      cases lastOf r n <;> rfl

theorem lastOf_filter_neg {α} (p : Name → Bool) (kw : List (Name × α)) (n : Name) (h : p n = false) :
    lastOf (kw.filter fun a => p a.1) n = none := by
  induction kw with
  | nil => rfl
  | cons a r ih =>
    obtain ⟨k, v⟩ := a
    by_cases hk : p k = true
    · have hne : ¬ k = n := fun e => by subst e; simp [h] at hk
      simp only [List.filter_cons, hk, if_true, lastOf, ih, hne, if_false]
    · simp only [List.filter_cons, hk, Bool.false_eq_true, if_false]
      exact ih

theorem bk_get_args (P : List Name) (kw : List (Name × Expr)) (args : List (Name × Option Expr))
    (ek : List (Name × Expr)) (n : Name) :
    dictGet (bindKeywords P kw args ek).1 n =
      match lastOf (kw.filter fun a => decide (a.1 ∈ P)) n with
      | some e => some (some e)
      | none => dictGet args n := by
  induction kw generalizing args ek with
  | nil => simp [bindKeywords, lastOf]
  | cons a r ih =>
    obtain ⟨k, e⟩ := a
    by_cases hk : k ∈ P
    · simp only [bindKeywords, hk, if_true, List.filter_cons, decide_true, lastOf]
      rw [ih]
      cases lastOf (r.filter fun a => decide (a.1 ∈ P)) n with
      | some x => rfl
      | none =>
        simp only [dictGet_dictSet]
        by_cases h : k = n
        · subst h; simp
        · have : ¬ n = k := fun e => h e.symm
          simp [h, this]
    · simp only [bindKeywords, hk, if_false, List.filter_cons, decide_false]
      rw [ih]
      simp

theorem bk_get_ek (P : List Name) (kw : List (Name × Expr)) (args : List (Name × Option Expr))
    (ek : List (Name × Expr)) (n : Name) :
    dictGet (bindKeywords P kw args ek).2 n =
      match lastOf (kw.filter fun a => !decide (a.1 ∈ P)) n with
      | some e => some e
      | none => dictGet ek n := by
  induction kw generalizing args ek with
  | nil => simp [bindKeywords, lastOf]
  | cons a r ih =>
    obtain ⟨k, e⟩ := a
    by_cases hk : k ∈ P
    · simp only [bindKeywords, hk, if_true, List.filter_cons, decide_true, Bool.not_true]
      rw [ih]
      simp
    · simp only [bindKeywords, hk, if_false, List.filter_cons, decide_false, Bool.not_false, if_true, lastOf]
      rw [ih]
      cases lastOf (r.filter fun a => !decide (a.1 ∈ P)) n with
      | some x => rfl
      | none =>
        simp only [dictGet_dictSet]
        by_cases h : k = n
        · subst h; simp
        · have : ¬ n = k := fun e => h e.symm
          simp [h, this]

theorem bk_keys (P : List Name) (kw : List (Name × Expr)) (args : List (Name × Option Expr))
    (ek : List (Name × Expr)) (h : ∀ x ∈ P, x ∈ keys args) : keys (bindKeywords P kw args ek).1 = keys args := by
  induction kw generalizing args ek with
  | nil => simp [bindKeywords]
  | cons a r ih =>
    obtain ⟨k, e⟩ := a
    by_cases hk : k ∈ P
    · simp only [bindKeywords, hk, if_true]
      have hm := h k hk
      rw [ih _ _ (fun x hx => by rw [keys_dictSet_mem _ _ _ hm]; exact h x hx)]
      exact keys_dictSet_mem _ _ _ hm
    · simp only [bindKeywords, hk, if_false]
      exact ih _ _ h

theorem bk_nodup_ek (P : List Name) (kw : List (Name × Expr)) (args : List (Name × Option Expr))
    (ek : List (Name × Expr)) (h : (keys ek).Nodup) : (keys (bindKeywords P kw args ek).2).Nodup := by
  induction kw generalizing args ek with
  | nil => simpa [bindKeywords] using h
  | cons a r ih =>
    obtain ⟨k, e⟩ := a
    by_cases hk : k ∈ P
    · simp only [bindKeywords, hk, if_true]; exact ih _ _ h
    · simp only [bindKeywords, hk, if_false]; exact ih _ _ (nodup_keys_dictSet _ _ _ h)

theorem lastOf_zip_some_mem (ms : List Name) (es : List Expr) (m : Name) (x : Expr)
    (h : lastOf (ms.zip es) m = some x) : m ∈ ms := by
  induction ms generalizing es x with
  | nil => simp [lastOf] at h
  | cons a as ih =>
    cases es with
    | nil => simp [lastOf] at h
    | cons b bs =>
      simp only [List.zip_cons_cons, lastOf] at h
      cases h2 : lastOf (as.zip bs) m with
      | some y => exact List.mem_cons_of_mem _ (ih bs y h2)
      | none =>
        rw [h2] at h
        by_cases ham : a = m
        · subst ham; simp
        · simp [ham] at h

/-- in a list without repetitions the i-th name is paired with the i-th argument -/
theorem lastOf_zip_index (names : List Name) (pos : List Expr) (hn : names.Nodup) (i : Nat)
    (hi : i < names.length) (hp : i < pos.length) : lastOf (names.zip pos) names[i] = some pos[i] := by
  induction names generalizing pos i with
  | nil => simp at hi
  | cons m ms ih =>
    cases pos with
    | nil => simp at hp
    | cons e es =>
      have hnd := List.nodup_cons.mp hn
      cases i with
      | zero =>
        simp only [List.zip_cons_cons, lastOf, List.getElem_cons_zero]
        have : lastOf (ms.zip es) m = none := by
          cases h : lastOf (ms.zip es) m with
          | none => rfl
          | some x => exact absurd (lastOf_zip_some_mem ms es m x h) hnd.1
        simp [this]
      | succ j =>
        simp only [List.zip_cons_cons, lastOf, List.getElem_cons_succ]
        have := ih es hnd.2 j (by simpa using hi) (by simpa using hp)
        rw [this]

/-- a name beyond the positional arguments is not bound by them -/
theorem lastOf_zip_beyond (names : List Name) (pos : List Expr) (hn : names.Nodup) (i : Nat)
    (hi : i < names.length) (hp : pos.length ≤ i) : lastOf (names.zip pos) names[i] = none := by
  induction names generalizing pos i with
  | nil => simp at hi
  | cons m ms ih =>
    cases pos with
    | nil => simp [lastOf]
    | cons e es =>
      have hnd := List.nodup_cons.mp hn
      cases i with
      | zero => simp at hp
      | succ j =>
        simp only [List.zip_cons_cons, lastOf, List.getElem_cons_succ]
        have hj : j < ms.length := by simpa using hi
        rw [ih es hnd.2 j hj (by simpa using hp)]
        have hne : ¬ m = ms[j] := fun e => hnd.1 (e ▸ List.getElem_mem hj)
        simp [hne]

end LiquidVerif.MacroArgs
