import LiquidVerif.Model.LexScan
import LiquidVerif.Lemmas.Lex
/-!
Lemmas about the string-level scanner `scan` (Model/LexScan.lean): on a well-formed *text* piece the scanner finds
exactly the content match `matchesOf` states, with the look-ahead hyphen of what follows.
-/
namespace LiquidVerif.Lex

theorem stripPrefix_none_of_startsWith : ∀ (p t : Str), startsWith p t = false → stripPrefix? p t = none
  | [], t, h => by simp [startsWith] at h
  | _ :: _, [], _ => rfl
  | x :: p, c :: t, h => by
    simp only [startsWith, Bool.and_eq_false_iff] at h
    simp only [stripPrefix?]
    by_cases hx : (x == c) = true
    · simp only [hx, if_true]
      rcases h with h | h
      · simp [hx] at h
      · exact stripPrefix_none_of_startsWith p t h
    · simp [hx]

/-- no opening delimiter at the head of `t` -/
theorem no_opener {d : Delims} {t : Str} (h : startsMarkup d t = false) :
    stripPrefix? d.tagS t = none ∧ stripPrefix? d.stmtS t = none ∧ (d.cmtS = [] ∨ stripPrefix? d.cmtS t = none) := by
  simp only [startsMarkup, Bool.or_eq_false_iff, Bool.and_eq_false_iff] at h
  refine ⟨stripPrefix_none_of_startsWith _ _ h.1.1, stripPrefix_none_of_startsWith _ _ h.1.2, ?_⟩
  rcases h.2 with h2 | h2
  · left; simpa using h2
  · right; exact stripPrefix_none_of_startsWith _ _ h2

theorem openerAt_none {d : Delims} {t : Str} (h : startsMarkup d t = false) : openerAt? d t = none := by
  obtain ⟨h1, h2, h3⟩ := no_opener h
  unfold openerAt?
  rw [h1, h2]
  rcases h3 with h3 | h3
  · simp [h3]
  · simp [h3]

/-- the lazy content match runs to the end of a well-formed text and sees the hyphen of what follows -/
theorem contentAfter_text (d : Delims) : ∀ (s rest : Str) (la : Bool),
    allSuffixes (fun t => !startsMarkup d t) s rest = true →
    (rest = [] ∧ la = false ∨ rest ≠ [] ∧ openerAt? d rest = some la) →
    contentAfter d (s ++ rest) = (s.length, la)
  | [], rest, la, _, hr => by
    rcases hr with ⟨rfl, rfl⟩ | ⟨hne, hr⟩
    · rfl
    · cases rest with
      | nil => exact absurd rfl hne
      | cons c cs => simp [contentAfter, hr]
  | c :: s, rest, la, h, hr => by
    simp only [allSuffixes, Bool.and_eq_true, Bool.not_eq_true'] at h
    have ih := contentAfter_text d s rest la h.2 hr
    have h1 : openerAt? d (c :: (s ++ rest)) = none := by simpa using openerAt_none h.1
    simp [contentAfter, h1, ih]

/-- **The scanner on text.** At the start of a well-formed text piece `c :: s` followed by `rest` (nothing, or
markup whose opener shows the hyphen `la`), the alternation finds no RAW / DOC / COMMENT / OUTPUT / TAG match and
the content rule matches exactly the text, with look-ahead group `la` — the match `matchesOf` states. -/
theorem matchAt_text (d : Delims) (pos : Nat) (c : Char) (s rest : Str) (la : Bool)
    (hwf : allSuffixes (fun t => !startsMarkup d t) (c :: s) rest = true)
    (hrest : rest = [] ∧ la = false ∨ rest ≠ [] ∧ openerAt? d rest = some la) :
    matchAt d pos c (s ++ rest) = pieceMatch d pos la (.text (c :: s)) := by
  simp only [allSuffixes, Bool.and_eq_true, Bool.not_eq_true'] at hwf
  obtain ⟨h1, h2, h3⟩ := no_opener hwf.1
  have h1' : stripPrefix? d.tagS (c :: (s ++ rest)) = none := by simpa using h1
  have h2' : stripPrefix? d.stmtS (c :: (s ++ rest)) = none := by simpa using h2
  have hca := contentAfter_text d s rest la hwf.2 hrest
  have hraw : blockAt? d kwRaw kwEndraw (c :: (s ++ rest)) = none := by simp [blockAt?, kwTagAt?, h1']
  have hdoc : blockAt? d kwDoc kwEnddoc (c :: (s ++ rest)) = none := by simp [blockAt?, kwTagAt?, h1']
  have htake : List.take (s.length + 1) (c :: (s ++ rest)) = c :: s := by simp
  rcases h3 with h3 | h3
  · simp [matchAt, hraw, hdoc, h1', h2', h3, hca, pieceMatch, Piece.src, htake]
  · have h3' : stripPrefix? d.cmtS (c :: (s ++ rest)) = none := by simpa using h3
    by_cases hc : d.cmtS = []
    · simp [matchAt, hraw, hdoc, h1', h2', hc, hca, pieceMatch, Piece.src, htake]
    · simp [matchAt, hraw, hdoc, h1', h2', hc, h3', hca, pieceMatch, Piece.src, htake]

/-! ## from pieces to the whole source -/

/-- "the scanner finds markup piece `p` when `rest` follows": at the start of `p`'s source the alternation yields
the match `matchesOf` states, and a content match ending just before `p` sees `p`'s opening hyphen -/
def MarkupFound (d : Delims) (p : Piece) (rest : Str) : Prop :=
  p.src d ≠ [] ∧
  (∀ pos la, ∃ c r, p.src d ++ rest = c :: r ∧ matchAt d pos c r = pieceMatch d pos la p) ∧
  openerAt? d (p.src d ++ rest) = some p.openHyphen

/-- every markup piece of the list is found in its context -/
def AllMarkupFound (d : Delims) : List Piece → Prop
  | [] => True
  | p :: rest => (p.isText = false → MarkupFound d p (assemble d rest)) ∧ AllMarkupFound d rest

theorem pieceMatch_stop (d : Delims) (pos : Nat) (la : Bool) (p : Piece) :
    (pieceMatch d pos la p).stop = pos + (p.src d).length := by
  cases p <;> rfl

theorem scanFrom_cons (d : Delims) (pos : Nat) (c : Char) (r : Str) :
    scanFrom d pos (c :: r) =
      matchAt d pos c r ::
        scanFrom d (pos + (((matchAt d pos c r).stop - pos - 1) + 1)) (r.drop ((matchAt d pos c r).stop - pos - 1)) := by
  rw [scanFrom]

/-- **String level, reduced to single markup pieces.** For a well-formed piece list in which every markup piece is
found by the scanner in its context, scanning the assembled *string* yields exactly `matchesOf`: text pieces are
handled here for every delimiter set (`matchAt_text`), the positions add up, and nothing is skipped. -/
theorem scan_assemble (d : Delims) : ∀ (ps : List Piece) (pos : Nat), srcWf d ps = true → AllMarkupFound d ps →
    scanFrom d pos (assemble d ps) = matchesOf d pos ps
  | [], pos, _, _ => by simp [assemble, scanFrom, matchesOf]
  | p :: rest, pos, hwf, hall => by
    simp only [srcWf, Bool.and_eq_true] at hwf
    obtain ⟨⟨hp, hadj⟩, hrestwf⟩ := hwf
    obtain ⟨hfound, hallrest⟩ := hall
    have ih := scan_assemble d rest (pos + (p.src d).length) hrestwf hallrest
    by_cases ht : p.isText = true
    · cases p with
      | text s =>
        cases s with
        | nil => simp [Piece.wf] at hp
        | cons c s' =>
          simp only [Piece.wf, Bool.and_eq_true] at hp
          -- what follows: nothing, or a markup piece that is found
          have hrest : (assemble d rest = [] ∧ nextOpen rest = false) ∨
              (assemble d rest ≠ [] ∧ openerAt? d (assemble d rest) = some (nextOpen rest)) := by
            cases rest with
            | nil => left; exact ⟨rfl, rfl⟩
            | cons q rest' =>
              right
              have hq : q.isText = false := by simpa [Piece.isText] using hadj
              obtain ⟨hne, _, hop⟩ := hallrest.1 hq
              refine ⟨?_, by simpa [assemble, nextOpen] using hop⟩
              intro h0
              simp only [assemble, List.append_eq_nil_iff] at h0
              exact hne h0.1
          have hm := matchAt_text d pos c s' (assemble d rest) (nextOpen rest) hp.2 hrest
          have hsrc : assemble d (Piece.text (c :: s') :: rest) = c :: (s' ++ assemble d rest) := by
            simp [assemble, Piece.src]
          rw [hsrc, scanFrom_cons, hm, matchesOf_cons, pieceMatch_stop]
          have hlen : (Piece.src d (Piece.text (c :: s'))).length = s'.length + 1 := by simp [Piece.src]
          have h1 : pos + (Piece.src d (Piece.text (c :: s'))).length - pos - 1 = s'.length := by omega
          rw [h1, List.drop_left' rfl, ← hlen]
          exact congrArg _ ih
      | _ => simp [Piece.isText] at ht
    · have ht' : p.isText = false := by simpa using ht
      obtain ⟨hne, hm, _⟩ := hfound ht'
      obtain ⟨c, r, hsrc, hmatch⟩ := hm pos (nextOpen rest)
      have hsrc' : assemble d (p :: rest) = c :: r := by simpa [assemble] using hsrc
      rw [hsrc', scanFrom_cons, hmatch, matchesOf_cons, pieceMatch_stop]
      have hpos : 0 < (p.src d).length := List.length_pos_iff.mpr hne
      have h1 : pos + (p.src d).length - pos - 1 = (p.src d).length - 1 := by omega
      have hdrop : r.drop ((p.src d).length - 1) = assemble d rest := by
        have : (c :: r).drop (p.src d).length = assemble d rest := by rw [← hsrc]; simp
        have h2 : (p.src d).length = ((p.src d).length - 1) + 1 := by omega
        rw [h2, List.drop_succ_cons] at this
        exact this
      rw [h1, hdrop]
      have h3 : pos + ((p.src d).length - 1 + 1) = pos + (p.src d).length := by omega
      rw [h3]
      exact congrArg _ ih


/-! ## markup pieces: the output statement -/


theorem stripPrefix_append : ∀ (p t : Str), stripPrefix? p (p ++ t) = some t
  | [], t => by simp [stripPrefix?]
  | x :: p, t => by simp [stripPrefix?, stripPrefix_append p t]

theorem skipSpaces_append : ∀ (ws t : Str), allSpace ws = true → headIs isSpace t = false →
    skipSpaces (ws ++ t) = (ws.length, t)
  | [], t, _, ht => by
    cases t with
    | nil => rfl
    | cons c cs => simp only [headIs] at ht; simp [skipSpaces, ht]
  | w :: ws, t, hw, ht => by
    simp only [allSpace, List.all_cons, Bool.and_eq_true] at hw
    have ih := skipSpaces_append ws t (by simpa [allSpace] using hw.2) ht
    simp [skipSpaces, hw.1, ih]

theorem skipSpaces_snd : ∀ (t : Str), (skipSpaces t).2 = t.dropWhile isSpace
  | [] => rfl
  | c :: cs => by
    by_cases h : isSpace c = true
    · simp [skipSpaces, h, List.dropWhile, skipSpaces_snd cs]
    · simp [skipSpaces, h, List.dropWhile]

theorem headIs_plain {close : Str} (h : plainDelim close = true) (rest : Str) :
    headIs isSpace (close ++ rest) = false ∧ headIs (· == '-') (close ++ rest) = false := by
  cases close with
  | nil => simp [plainDelim] at h
  | cons c cs =>
    simp only [plainDelim, Bool.and_eq_true, Bool.not_eq_true', bne_iff_ne, ne_eq] at h
    simp [headIs, h.1.1, h.1.2]

theorem optHyphen_of_not_head {t : Str} (h : headIs (· == '-') t = false) : optHyphen t = (false, t) := by
  cases t with
  | nil => rfl
  | cons c cs =>
    simp only [headIs, beq_eq_false_iff_ne, ne_eq] at h
    unfold optHyphen
    split
    · next heq => cases heq; exact absurd rfl h
    · rfl

/-- `\s*(-?)CLOSE` matches right at the padded closing delimiter of a piece -/
theorem closeAt_tail (close ws2 rest : Str) (r : Bool) (hws : allSpace ws2 = true) (hp : plainDelim close = true) :
    closeAt? close (ws2 ++ hy r ++ close ++ rest) = some (r, ws2.length + (if r then 1 else 0) + close.length) := by
  obtain ⟨h1, h2⟩ := headIs_plain hp rest
  cases r with
  | true =>
    have hsp := skipSpaces_append ws2 ('-' :: (close ++ rest)) hws (by simp [headIs, isSpace])
    simp only [hy, if_true, List.append_assoc, List.cons_append, List.nil_append]
    simp [closeAt?, hsp, optHyphen, stripPrefix_append]
  | false =>
    have hsp := skipSpaces_append ws2 (close ++ rest) hws h1
    simp only [hy, Bool.false_eq_true, if_false, List.append_nil, List.append_assoc]
    simp [closeAt?, hsp, optHyphen_of_not_head h2, stripPrefix_append]

/-- where `\s*-?CLOSE` does not match (as stated by `closesHere` in `Piece.wf`) the scanner's `closeAt?` fails -/
theorem closeAt_none (close t : Str) (h : closesHere close t = false) : closeAt? close t = none := by
  simp only [closesHere, Bool.or_eq_false_iff] at h
  rw [← skipSpaces_snd] at h
  obtain ⟨ha, hb⟩ := h
  unfold closeAt?
  simp only
  cases hsp : (skipSpaces t).2 with
  | nil =>
    rw [hsp] at ha
    simp [optHyphen, stripPrefix_none_of_startsWith _ _ ha]
  | cons c u =>
    rw [hsp] at ha hb
    by_cases hc : c = '-'
    · subst hc
      have hb' : startsWith close u = false := by simpa [startsWith] using hb
      simp [optHyphen, stripPrefix_none_of_startsWith _ _ hb', stripPrefix_none_of_startsWith _ _ ha]
    · have : optHyphen (c :: u) = (false, c :: u) := optHyphen_of_not_head (by simp [headIs, hc])
      simp [this, stripPrefix_none_of_startsWith _ _ ha]

/-- the lazy group stops exactly at the end of the expression -/
theorem findFirst_exact {α : Type} (f : Str → Option α) (g : Str → Bool) (hfg : ∀ t, g t = false → f t = none) :
    ∀ (e tail : Str) (a : α), allSuffixes (fun t => !g t) e tail = true → f tail = some a →
      findFirst f (e ++ tail) = some (e.length, a)
  | [], tail, a, _, hf => by
    cases tail with
    | nil => simp [findFirst, hf]
    | cons c cs => simp [findFirst, hf]
  | c :: e, tail, a, h, hf => by
    simp only [allSuffixes, Bool.and_eq_true, Bool.not_eq_true'] at h
    have hnone := hfg _ h.1
    have ih := findFirst_exact f g hfg e tail a h.2 hf
    simp only [List.cons_append] at hnone ⊢
    simp [findFirst, hnone, ih]





theorem isSpace_ne_hyphen {c : Char} (h : isSpace c = true) : c ≠ '-' := by
  intro hc; subst hc; simp [isSpace] at h

theorem headIs_hyphen_ws {ws t : Str} (hws : allSpace ws = true) (hne : ws ≠ []) :
    headIs (· == '-') (ws ++ t) = false := by
  cases ws with
  | nil => exact absurd rfl hne
  | cons c cs =>
    simp only [allSpace, List.all_cons, Bool.and_eq_true] at hws
    simp [headIs, isSpace_ne_hyphen hws.1]

theorem optHyphen_hy (l : Bool) (y : Str) (h : l = true ∨ headIs (· == '-') y = false) :
    optHyphen (hy l ++ y) = (l, y) := by
  cases l with
  | true => simp [hy, optHyphen]
  | false =>
    rcases h with h | h
    · cases h
    · simpa [hy] using optHyphen_of_not_head h

/-- the conditions of `Piece.wf` on an output piece, with what follows included in the search for the closing
delimiter -/
structure OutputWf (d : Delims) (l r : Bool) (ws1 e ws2 rest : Str) : Prop where
  hws1 : allSpace ws1 = true
  hws2 : allSpace ws2 = true
  eHead : headIs isSpace e = false
  eEmpty : e ≠ [] ∨ ws2 = []
  lead : l = true ∨ ws1 ≠ [] ∨ (headIs (· == '-') e = false ∧ (e ≠ [] ∨ r = false))
  close : allSuffixes (fun t => !closesHere d.stmtE t) e (ws2 ++ hy r ++ d.stmtE ++ rest) = true

theorem output_found (d : Delims) (hT : d.tagS = ['{', '%']) (hS : d.stmtS = ['{', '{'])
    (hE : plainDelim d.stmtE = true) (hC : d.cmtS = [] ∨ d.cmtS = ['{', '#'])
    (l r : Bool) (ws1 e ws2 rest : Str) (hw : OutputWf d l r ws1 e ws2 rest) :
    MarkupFound d (.output l r ws1 e ws2) rest := by
  obtain ⟨hp1, hp2⟩ := headIs_plain hE rest
  -- what follows the opening `{{`
  have hY : l = true ∨ headIs (· == '-') (ws1 ++ (e ++ (ws2 ++ (hy r ++ (d.stmtE ++ rest))))) = false := by
    rcases hw.lead with h | h | ⟨h1, h2⟩
    · exact Or.inl h
    · exact Or.inr (headIs_hyphen_ws hw.hws1 h)
    · by_cases hws : ws1 = []
      · right
        subst hws
        cases e with
        | cons c cs => simpa [headIs] using h1
        | nil =>
          have hws2 : ws2 = [] := by rcases hw.eEmpty with h | h; exact absurd rfl h; exact h
          have hr : r = false := by rcases h2 with h | h; exact absurd rfl h; exact h
          subst hws2; subst hr
          simpa [hy] using hp2
      · exact Or.inr (headIs_hyphen_ws hw.hws1 hws)
  have hZ : headIs isSpace (e ++ (ws2 ++ (hy r ++ (d.stmtE ++ rest)))) = false := by
    cases e with
    | cons c cs => simpa [headIs] using hw.eHead
    | nil =>
      have hws2 : ws2 = [] := by rcases hw.eEmpty with h | h; exact absurd rfl h; exact h
      subst hws2
      cases r with
      | true => simp [hy, headIs, isSpace]
      | false => simpa [hy] using hp1
  have hsrc : (Piece.output l r ws1 e ws2).src d ++ rest =
      '{' :: '{' :: (hy l ++ (ws1 ++ (e ++ (ws2 ++ (hy r ++ (d.stmtE ++ rest)))))) := by
    simp [Piece.src, hS, List.append_assoc]
  have hopt := optHyphen_hy l _ hY
  have hsp := skipSpaces_append ws1 _ hw.hws1 hZ
  have hclose := closeAt_tail d.stmtE ws2 rest r hw.hws2 hE
  have hfind := findFirst_exact (closeAt? d.stmtE) (closesHere d.stmtE) (closeAt_none d.stmtE) e
    (ws2 ++ hy r ++ d.stmtE ++ rest) _ hw.close hclose
  simp only [List.append_assoc] at hfind
  refine ⟨by simp [Piece.src, hS], ?_, ?_⟩
  · intro pos la
    refine ⟨'{', _, hsrc, ?_⟩
    have hlen : (hy l).length = if l = true then 1 else 0 := by cases l <;> rfl
    have hlenr : (hy r).length = if r = true then 1 else 0 := by cases r <;> rfl
    have htake : List.take ((Piece.output l r ws1 e ws2).src d).length ((Piece.output l r ws1 e ws2).src d ++ rest)
        = (Piece.output l r ws1 e ws2).src d := by simp
    rw [hsrc] at htake
    have hn : (2 + if l = true then 1 else 0) + ws1.length + e.length +
        ((ws2.length + if r = true then 1 else 0) + d.stmtE.length) = ((Piece.output l r ws1 e ws2).src d).length := by
      simp only [Piece.src, hS, List.length_append, List.length_cons, List.length_nil, hlen, hlenr]; omega
    rcases hC with hC | hC
    · simp [matchAt, blockAt?, kwTagAt?, stripPrefix?, hT, hS, hC, hopt, hsp, hfind, pieceMatch]
      exact ⟨hn, by rw [hn]; exact htake, by rw [hlen]; omega⟩
    · simp [matchAt, blockAt?, kwTagAt?, stripPrefix?, hT, hS, hC, hopt, hsp, hfind, pieceMatch]
      exact ⟨hn, by rw [hn]; exact htake, by rw [hlen]; omega⟩
  · rw [hsrc]
    simp [openerAt?, stripPrefix?, hT, hS, hopt, Piece.openHyphen]


/-! ## markup pieces: the shorthand comment -/

theorem shortCloseAt_none (cmtE t : Str)
    (h : (startsWith cmtE t || startsWith ('-' :: cmtE) t) = false) : shortCloseAt? cmtE t = none := by
  simp only [Bool.or_eq_false_iff] at h
  obtain ⟨ha, hb⟩ := h
  cases t with
  | nil => simp [shortCloseAt?, stripPrefix_none_of_startsWith _ _ ha]
  | cons c u =>
    by_cases hc : c = '-'
    · subst hc
      have hb' : startsWith cmtE u = false := by simpa [startsWith] using hb
      simp [shortCloseAt?, stripPrefix_none_of_startsWith _ _ hb', stripPrefix_none_of_startsWith _ _ ha]
    · unfold shortCloseAt?
      split
      · next heq => cases heq; exact absurd rfl hc
      · simp [stripPrefix_none_of_startsWith _ _ ha]

theorem shortCloseAt_tail (cmtE rest : Str) (r : Bool) (hp : plainDelim cmtE = true) :
    shortCloseAt? cmtE (hy r ++ cmtE ++ rest) = some (r, (if r then 1 else 0) + cmtE.length) := by
  cases r with
  | true => simp [hy, shortCloseAt?, stripPrefix_append]
  | false =>
    obtain ⟨_, h2⟩ := headIs_plain hp rest
    cases hc : cmtE with
    | nil => simp [hc, plainDelim] at hp
    | cons c cs =>
      rw [hc] at h2
      have hne : c ≠ '-' := by simpa [headIs] using h2
      have := stripPrefix_append (c :: cs) rest
      unfold shortCloseAt?
      simp only [hy, Bool.false_eq_true, if_false, List.nil_append, List.cons_append]
      split
      · next heq => cases heq; exact absurd rfl hne
      · simp only [List.cons_append] at this; simp [this]


/-- the conditions of `Piece.wf` on a shorthand comment -/
structure ShortWf (d : Delims) (l r : Bool) (body rest : Str) : Prop where
  lead : l = true ∨ (headIs (· == '-') body = false ∧ (body ≠ [] ∨ r = false))
  close : allSuffixes (fun t => !(startsWith d.cmtE t || startsWith ('-' :: d.cmtE) t)) (hy l ++ body)
            (hy r ++ d.cmtE ++ rest) = true

theorem short_found (d : Delims) (hT : d.tagS = ['{', '%']) (hS : d.stmtS = ['{', '{'])
    (hCs : d.cmtS = ['{', '#']) (hCe : plainDelim d.cmtE = true)
    (l r : Bool) (body rest : Str) (hw : ShortWf d l r body rest) :
    MarkupFound d (.short l r body) rest := by
  obtain ⟨_, hp2⟩ := headIs_plain hCe rest
  have hY : l = true ∨ headIs (· == '-') (body ++ (hy r ++ (d.cmtE ++ rest))) = false := by
    rcases hw.lead with h | ⟨h1, h2⟩
    · exact Or.inl h
    · right
      cases body with
      | cons c cs => simpa [headIs] using h1
      | nil =>
        have hr : r = false := by rcases h2 with h | h; exact absurd rfl h; exact h
        subst hr; simpa [hy] using hp2
  have hsrc : (Piece.short l r body).src d ++ rest = '{' :: '#' :: (hy l ++ (body ++ (hy r ++ (d.cmtE ++ rest)))) := by
    simp [Piece.src, hCs, List.append_assoc]
  have hopt := optHyphen_hy l _ hY
  have hfind := findFirst_exact (shortCloseAt? d.cmtE)
    (fun t => startsWith d.cmtE t || startsWith ('-' :: d.cmtE) t) (shortCloseAt_none d.cmtE) (hy l ++ body)
    (hy r ++ d.cmtE ++ rest) _ hw.close (shortCloseAt_tail d.cmtE rest r hCe)
  simp only [List.append_assoc] at hfind
  refine ⟨by simp [Piece.src, hCs], ?_, ?_⟩
  · intro pos la
    refine ⟨'{', _, hsrc, ?_⟩
    have hlenr : (hy r).length = if r = true then 1 else 0 := by cases r <;> rfl
    have htake : List.take ((Piece.short l r body).src d).length ((Piece.short l r body).src d ++ rest)
        = (Piece.short l r body).src d := by simp
    rw [hsrc] at htake
    have hn : 2 + ((hy l).length + body.length) + ((if r = true then 1 else 0) + d.cmtE.length)
        = ((Piece.short l r body).src d).length := by
      simp only [Piece.src, hCs, List.length_append, List.length_cons, List.length_nil, hlenr]; omega
    have htk : List.take ((hy l).length + body.length) (hy l ++ (body ++ (hy r ++ (d.cmtE ++ rest)))) = hy l ++ body := by
      have h1 : hy l ++ (body ++ (hy r ++ (d.cmtE ++ rest))) = (hy l ++ body) ++ (hy r ++ (d.cmtE ++ rest)) := by
        simp [List.append_assoc]
      rw [h1]; exact List.take_left' (by simp)
    simp [matchAt, blockAt?, kwTagAt?, stripPrefix?, hT, hS, hCs, hfind, pieceMatch, htk]
    exact ⟨hn, by rw [hn]; exact htake⟩
  · rw [hsrc]
    simp [openerAt?, stripPrefix?, hT, hS, hCs, hopt, Piece.openHyphen]

theorem outputWf_of_wf (d : Delims) (l r : Bool) (ws1 e ws2 next : Str)
    (h : (Piece.output l r ws1 e ws2).wf d next = true) : OutputWf d l r ws1 e ws2 next := by
  simp only [Piece.wf, Bool.and_eq_true, Bool.or_eq_true, Bool.not_eq_true', decide_eq_true_eq] at h
  obtain ⟨⟨⟨⟨⟨⟨h1, h2⟩, h3⟩, _⟩, h5⟩, h6⟩, h7⟩ := h
  refine ⟨h1, h2, h3, h5, ?_, h7⟩
  rcases h6 with (h6 | h6) | ⟨h6a, h6b⟩
  · exact Or.inl h6
  · exact Or.inr (Or.inl h6)
  · refine Or.inr (Or.inr ⟨h6a, ?_⟩)
    rcases h6b with h | h
    · exact Or.inl h
    · exact Or.inr h

def Piece.isOutput : Piece → Bool
  | .output _ _ _ _ _ => true
  | _ => false

/-- for templates made of text and output statements, well-formedness implies that the scanner finds every
markup piece (default tag / output openers, a plain output closer, shorthand comments off or `{#`) -/
theorem allMarkupFound_text_output (d : Delims) (hT : d.tagS = ['{', '%']) (hS : d.stmtS = ['{', '{'])
    (hE : plainDelim d.stmtE = true) (hC : d.cmtS = [] ∨ d.cmtS = ['{', '#']) :
    ∀ (ps : List Piece), ps.all (fun p => p.isText || p.isOutput) = true → srcWf d ps = true → AllMarkupFound d ps
  | [], _, _ => trivial
  | p :: rest, hall, hwf => by
    simp only [List.all_cons, Bool.and_eq_true] at hall
    simp only [srcWf, Bool.and_eq_true] at hwf
    refine ⟨fun ht => ?_, allMarkupFound_text_output d hT hS hE hC rest hall.2 hwf.2⟩
    cases p with
    | output l r ws1 e ws2 => exact output_found d hT hS hE hC l r ws1 e ws2 _ (outputWf_of_wf d l r ws1 e ws2 _ hwf.1.1)
    | text s => simp [Piece.isText] at ht
    | _ => simp [Piece.isText, Piece.isOutput] at hall

theorem shortWf_of_wf (d : Delims) (l r : Bool) (body next : Str)
    (h : (Piece.short l r body).wf d next = true) : d.cmtS ≠ [] ∧ ShortWf d l r body next := by
  simp only [Piece.wf, Bool.and_eq_true, Bool.or_eq_true, Bool.not_eq_true', decide_eq_true_eq] at h
  obtain ⟨⟨h1, h2⟩, h3⟩ := h
  refine ⟨h1, ?_, h3⟩
  rcases h2 with h2 | ⟨h2a, h2b⟩
  · exact Or.inl h2
  · refine Or.inr ⟨h2a, ?_⟩
    rcases h2b with h | h
    · exact Or.inl h
    · exact Or.inr h

def Piece.isShort : Piece → Bool
  | .short _ _ _ => true
  | _ => false

/-- the same for templates of text, output statements and shorthand comments -/
theorem allMarkupFound_text_output_short (d : Delims) (hT : d.tagS = ['{', '%']) (hS : d.stmtS = ['{', '{'])
    (hE : plainDelim d.stmtE = true) (hC : d.cmtS = [] ∨ (d.cmtS = ['{', '#'] ∧ plainDelim d.cmtE = true)) :
    ∀ (ps : List Piece), ps.all (fun p => p.isText || p.isOutput || p.isShort) = true → srcWf d ps = true →
      AllMarkupFound d ps
  | [], _, _ => trivial
  | p :: rest, hall, hwf => by
    simp only [List.all_cons, Bool.and_eq_true] at hall
    simp only [srcWf, Bool.and_eq_true] at hwf
    refine ⟨fun ht => ?_, allMarkupFound_text_output_short d hT hS hE hC rest hall.2 hwf.2⟩
    have hC' : d.cmtS = [] ∨ d.cmtS = ['{', '#'] := by
      rcases hC with h | h
      · exact Or.inl h
      · exact Or.inr h.1
    cases p with
    | output l r ws1 e ws2 =>
      exact output_found d hT hS hE hC' l r ws1 e ws2 _ (outputWf_of_wf d l r ws1 e ws2 _ hwf.1.1)
    | short l r body =>
      obtain ⟨hne, hw⟩ := shortWf_of_wf d l r body _ hwf.1.1
      rcases hC with h | h
      · exact absurd h hne
      · exact short_found d hT hS h.1 h.2 l r body _ hw
    | text s => simp [Piece.isText] at ht
    | _ => simp [Piece.isText, Piece.isOutput, Piece.isShort] at hall

/-- lex and parse a template given as a STRING: scanner, tokenizer, parser -/
def nodesOfString (d : Delims) (src : Str) : Except LexError (List Node) :=
  match tokenize {} (scan d src) with
  | .error e => .error e
  | .ok ts => .ok (parse ts)

end LiquidVerif.Lex
