import LiquidVerif.Model.LexScan
import LiquidVerif.Lemmas.Lex
/-!
Lemmas about the string-level scanner `scan` (Model/LexScan.lean): on a well-formed *text* piece the scanner finds
exactly the content match `matchesOf` states, with the look-ahead hyphen of what follows.
-/
namespace LiquidVerif.Lex

theorem stripPrefix_none_of_startsWith : ∀ (p t : Str), startsWith p t = false → stripPrefix? p t = none
  | [], t, h => by simp [startsWith] at h
  | _ :: _, [], _ => rfl
  | x :: p, c :: t, h => by
    simp only [startsWith, Bool.and_eq_false_iff] at h
    simp only [stripPrefix?]
    by_cases hx : (x == c) = true
    · simp only [hx, if_true]
      rcases h with h | h
      · simp [hx] at h
      · exact stripPrefix_none_of_startsWith p t h
    · simp [hx]

/-- no opening delimiter at the head of `t` -/
theorem no_opener {d : Delims} {t : Str} (h : startsMarkup d t = false) :
    stripPrefix? d.tagS t = none ∧ stripPrefix? d.stmtS t = none ∧ (d.cmtS = [] ∨ stripPrefix? d.cmtS t = none) := by
  simp only [startsMarkup, Bool.or_eq_false_iff, Bool.and_eq_false_iff] at h
  refine ⟨stripPrefix_none_of_startsWith _ _ h.1.1, stripPrefix_none_of_startsWith _ _ h.1.2, ?_⟩
  rcases h.2 with h2 | h2
  · left; simpa using h2
  · right; exact stripPrefix_none_of_startsWith _ _ h2

theorem openerAt_none {d : Delims} {t : Str} (h : startsMarkup d t = false) : openerAt? d t = none := by
  obtain ⟨h1, h2, h3⟩ := no_opener h
  unfold openerAt?
  rw [h1, h2]
  rcases h3 with h3 | h3
  · simp [h3]
  · simp [h3]

/-- the lazy content match runs to the end of a well-formed text and sees the hyphen of what follows -/
theorem contentAfter_text (d : Delims) : ∀ (s rest : Str) (la : Bool),
    allSuffixes (fun t => !startsMarkup d t) s rest = true →
    (rest = [] ∧ la = false ∨ rest ≠ [] ∧ openerAt? d rest = some la) →
    contentAfter d (s ++ rest) = (s.length, la)
  | [], rest, la, _, hr => by
    rcases hr with ⟨rfl, rfl⟩ | ⟨hne, hr⟩
    · rfl
    · cases rest with
      | nil => exact absurd rfl hne
      | cons c cs => simp [contentAfter, hr]
  | c :: s, rest, la, h, hr => by
    simp only [allSuffixes, Bool.and_eq_true, Bool.not_eq_true'] at h
    have ih := contentAfter_text d s rest la h.2 hr
    have h1 : openerAt? d (c :: (s ++ rest)) = none := by simpa using openerAt_none h.1
    simp [contentAfter, h1, ih]

/-- **The scanner on text.** At the start of a well-formed text piece `c :: s` followed by `rest` (nothing, or
markup whose opener shows the hyphen `la`), the alternation finds no RAW / DOC / COMMENT / OUTPUT / TAG match and
the content rule matches exactly the text, with look-ahead group `la` — the match `matchesOf` states. -/
theorem matchAt_text (d : Delims) (pos : Nat) (c : Char) (s rest : Str) (la : Bool)
    (hwf : allSuffixes (fun t => !startsMarkup d t) (c :: s) rest = true)
    (hrest : rest = [] ∧ la = false ∨ rest ≠ [] ∧ openerAt? d rest = some la) :
    matchAt d pos c (s ++ rest) = pieceMatch d pos la (.text (c :: s)) := by
  simp only [allSuffixes, Bool.and_eq_true, Bool.not_eq_true'] at hwf
  obtain ⟨h1, h2, h3⟩ := no_opener hwf.1
  have h1' : stripPrefix? d.tagS (c :: (s ++ rest)) = none := by simpa using h1
  have h2' : stripPrefix? d.stmtS (c :: (s ++ rest)) = none := by simpa using h2
  have hca := contentAfter_text d s rest la hwf.2 hrest
  have hraw : blockAt? d kwRaw kwEndraw (c :: (s ++ rest)) = none := by simp [blockAt?, kwTagAt?, h1']
  have hdoc : blockAt? d kwDoc kwEnddoc (c :: (s ++ rest)) = none := by simp [blockAt?, kwTagAt?, h1']
  have htake : List.take (s.length + 1) (c :: (s ++ rest)) = c :: s := by simp
  rcases h3 with h3 | h3
  · simp [matchAt, hraw, hdoc, h1', h2', h3, hca, pieceMatch, Piece.src, htake]
  · have h3' : stripPrefix? d.cmtS (c :: (s ++ rest)) = none := by simpa using h3
    by_cases hc : d.cmtS = []
    · simp [matchAt, hraw, hdoc, h1', h2', hc, hca, pieceMatch, Piece.src, htake]
    · simp [matchAt, hraw, hdoc, h1', h2', hc, h3', hca, pieceMatch, Piece.src, htake]

/-! ## from pieces to the whole source -/

/-- "the scanner finds markup piece `p` when `rest` follows": at the start of `p`'s source the alternation yields
the match `matchesOf` states, and a content match ending just before `p` sees `p`'s opening hyphen -/
def MarkupFound (d : Delims) (p : Piece) (rest : Str) : Prop :=
  p.src d ≠ [] ∧
  (∀ pos la, ∃ c r, p.src d ++ rest = c :: r ∧ matchAt d pos c r = pieceMatch d pos la p) ∧
  openerAt? d (p.src d ++ rest) = some p.openHyphen

/-- every markup piece of the list is found in its context -/
def AllMarkupFound (d : Delims) : List Piece → Prop
  | [] => True
  | p :: rest => (p.isText = false → MarkupFound d p (assemble d rest)) ∧ AllMarkupFound d rest

theorem pieceMatch_stop (d : Delims) (pos : Nat) (la : Bool) (p : Piece) :
    (pieceMatch d pos la p).stop = pos + (p.src d).length := by
  cases p <;> rfl

theorem scanFrom_cons (d : Delims) (pos : Nat) (c : Char) (r : Str) :
    scanFrom d pos (c :: r) =
      matchAt d pos c r ::
        scanFrom d (pos + (((matchAt d pos c r).stop - pos - 1) + 1)) (r.drop ((matchAt d pos c r).stop - pos - 1)) := by
  rw [scanFrom]

/-- **String level, reduced to single markup pieces.** For a well-formed piece list in which every markup piece is
found by the scanner in its context, scanning the assembled *string* yields exactly `matchesOf`: text pieces are
handled here for every delimiter set (`matchAt_text`), the positions add up, and nothing is skipped. -/
theorem scan_assemble (d : Delims) : ∀ (ps : List Piece) (pos : Nat), srcWf d ps = true → AllMarkupFound d ps →
    scanFrom d pos (assemble d ps) = matchesOf d pos ps
  | [], pos, _, _ => by simp [assemble, scanFrom, matchesOf]
  | p :: rest, pos, hwf, hall => by
    simp only [srcWf, Bool.and_eq_true] at hwf
    obtain ⟨⟨hp, hadj⟩, hrestwf⟩ := hwf
    obtain ⟨hfound, hallrest⟩ := hall
    have ih := scan_assemble d rest (pos + (p.src d).length) hrestwf hallrest
    by_cases ht : p.isText = true
    · cases p with
      | text s =>
        cases s with
        | nil => simp [Piece.wf] at hp
        | cons c s' =>
          simp only [Piece.wf, Bool.and_eq_true] at hp
          -- what follows: nothing, or a markup piece that is found
          have hrest : (assemble d rest = [] ∧ nextOpen rest = false) ∨
              (assemble d rest ≠ [] ∧ openerAt? d (assemble d rest) = some (nextOpen rest)) := by
            cases rest with
            | nil => left; exact ⟨rfl, rfl⟩
            | cons q rest' =>
              right
              have hq : q.isText = false := by simpa [Piece.isText] using hadj
              obtain ⟨hne, _, hop⟩ := hallrest.1 hq
              refine ⟨?_, by simpa [assemble, nextOpen] using hop⟩
              intro h0
              simp only [assemble, List.append_eq_nil_iff] at h0
              exact hne h0.1
          have hm := matchAt_text d pos c s' (assemble d rest) (nextOpen rest) hp.2 hrest
          have hsrc : assemble d (Piece.text (c :: s') :: rest) = c :: (s' ++ assemble d rest) := by
            simp [assemble, Piece.src]
          rw [hsrc, scanFrom_cons, hm, matchesOf_cons, pieceMatch_stop]
          have hlen : (Piece.src d (Piece.text (c :: s'))).length = s'.length + 1 := by simp [Piece.src]
          have h1 : pos + (Piece.src d (Piece.text (c :: s'))).length - pos - 1 = s'.length := by omega
          rw [h1, List.drop_left' rfl, ← hlen]
          exact congrArg _ ih
      | _ => simp [Piece.isText] at ht
    · have ht' : p.isText = false := by simpa using ht
      obtain ⟨hne, hm, _⟩ := hfound ht'
      obtain ⟨c, r, hsrc, hmatch⟩ := hm pos (nextOpen rest)
      have hsrc' : assemble d (p :: rest) = c :: r := by simpa [assemble] using hsrc
      rw [hsrc', scanFrom_cons, hmatch, matchesOf_cons, pieceMatch_stop]
      have hpos : 0 < (p.src d).length := List.length_pos_iff.mpr hne
      have h1 : pos + (p.src d).length - pos - 1 = (p.src d).length - 1 := by omega
      have hdrop : r.drop ((p.src d).length - 1) = assemble d rest := by
        have : (c :: r).drop (p.src d).length = assemble d rest := by rw [← hsrc]; simp
        have h2 : (p.src d).length = ((p.src d).length - 1) + 1 := by omega
        rw [h2, List.drop_succ_cons] at this
        exact this
      rw [h1, hdrop]
      have h3 : pos + ((p.src d).length - 1 + 1) = pos + (p.src d).length := by omega
      rw [h3]
      exact congrArg _ ih


/-! ## markup pieces: the output statement -/


theorem stripPrefix_append : ∀ (p t : Str), stripPrefix? p (p ++ t) = some t
  | [], t => by simp [stripPrefix?]
  | x :: p, t => by simp [stripPrefix?, stripPrefix_append p t]

theorem skipSpaces_append : ∀ (ws t : Str), allSpace ws = true → headIs isSpace t = false →
    skipSpaces (ws ++ t) = (ws.length, t)
  | [], t, _, ht => by
    cases t with
    | nil => rfl
    | cons c cs => simp only [headIs] at ht; simp [skipSpaces, ht]
  | w :: ws, t, hw, ht => by
    simp only [allSpace, List.all_cons, Bool.and_eq_true] at hw
    have ih := skipSpaces_append ws t (by simpa [allSpace] using hw.2) ht
    simp [skipSpaces, hw.1, ih]

theorem skipSpaces_snd : ∀ (t : Str), (skipSpaces t).2 = t.dropWhile isSpace
  | [] => rfl
  | c :: cs => by
    by_cases h : isSpace c = true
    · simp [skipSpaces, h, List.dropWhile, skipSpaces_snd cs]
    · simp [skipSpaces, h, List.dropWhile]

theorem headIs_plain {close : Str} (h : plainDelim close = true) (rest : Str) :
    headIs isSpace (close ++ rest) = false ∧ headIs (· == '-') (close ++ rest) = false := by
  cases close with
  | nil => simp [plainDelim] at h
  | cons c cs =>
    simp only [plainDelim, Bool.and_eq_true, Bool.not_eq_true', bne_iff_ne, ne_eq] at h
    simp [headIs, h.1.1, h.1.2]

theorem optHyphen_of_not_head {t : Str} (h : headIs (· == '-') t = false) : optHyphen t = (false, t) := by
  cases t with
  | nil => rfl
  | cons c cs =>
    simp only [headIs, beq_eq_false_iff_ne, ne_eq] at h
    unfold optHyphen
    split
    · next heq => cases heq; exact absurd rfl h
    · rfl

/-- `\s*(-?)CLOSE` matches right at the padded closing delimiter of a piece -/
theorem closeAt_tail (close ws2 rest : Str) (r : Bool) (hws : allSpace ws2 = true) (hp : plainDelim close = true) :
    closeAt? close (ws2 ++ hy r ++ close ++ rest) = some (r, ws2.length + (if r then 1 else 0) + close.length) := by
  obtain ⟨h1, h2⟩ := headIs_plain hp rest
  cases r with
  | true =>
    have hsp := skipSpaces_append ws2 ('-' :: (close ++ rest)) hws (by simp [headIs, isSpace])
    simp only [hy, if_true, List.append_assoc, List.cons_append, List.nil_append]
    simp [closeAt?, hsp, optHyphen, stripPrefix_append]
  | false =>
    have hsp := skipSpaces_append ws2 (close ++ rest) hws h1
    simp only [hy, Bool.false_eq_true, if_false, List.append_nil, List.append_assoc]
    simp [closeAt?, hsp, optHyphen_of_not_head h2, stripPrefix_append]

/-- where `\s*-?CLOSE` does not match (as stated by `closesHere` in `Piece.wf`) the scanner's `closeAt?` fails -/
theorem closeAt_none (close t : Str) (h : closesHere close t = false) : closeAt? close t = none := by
  simp only [closesHere, Bool.or_eq_false_iff] at h
  rw [← skipSpaces_snd] at h
  obtain ⟨ha, hb⟩ := h
  unfold closeAt?
  simp only
  cases hsp : (skipSpaces t).2 with
  | nil =>
    rw [hsp] at ha
    simp [optHyphen, stripPrefix_none_of_startsWith _ _ ha]
  | cons c u =>
    rw [hsp] at ha hb
    by_cases hc : c = '-'
    · subst hc
      have hb' : startsWith close u = false := by simpa [startsWith] using hb
      simp [optHyphen, stripPrefix_none_of_startsWith _ _ hb', stripPrefix_none_of_startsWith _ _ ha]
    · have : optHyphen (c :: u) = (false, c :: u) := optHyphen_of_not_head (by simp [headIs, hc])
      simp [this, stripPrefix_none_of_startsWith _ _ ha]

/-- the lazy group stops exactly at the end of the expression -/
theorem findFirst_exact {α : Type} (f : Str → Option α) (g : Str → Bool) (hfg : ∀ t, g t = false → f t = none) :
    ∀ (e tail : Str) (a : α), allSuffixes (fun t => !g t) e tail = true → f tail = some a →
      findFirst f (e ++ tail) = some (e.length, a)
  | [], tail, a, _, hf => by
    cases tail with
    | nil => simp [findFirst, hf]
    | cons c cs => simp [findFirst, hf]
  | c :: e, tail, a, h, hf => by
    simp only [allSuffixes, Bool.and_eq_true, Bool.not_eq_true'] at h
    have hnone := hfg _ h.1
    have ih := findFirst_exact f g hfg e tail a h.2 hf
    simp only [List.cons_append] at hnone ⊢
    simp [findFirst, hnone, ih]





theorem isSpace_ne_hyphen {c : Char} (h : isSpace c = true) : c ≠ '-' := by
  intro hc; subst hc; simp [isSpace] at h

theorem headIs_hyphen_ws {ws t : Str} (hws : allSpace ws = true) (hne : ws ≠ []) :
    headIs (· == '-') (ws ++ t) = false := by
  cases ws with
  | nil => exact absurd rfl hne
  | cons c cs =>
    simp only [allSpace, List.all_cons, Bool.and_eq_true] at hws
    simp [headIs, isSpace_ne_hyphen hws.1]

theorem optHyphen_hy (l : Bool) (y : Str) (h : l = true ∨ headIs (· == '-') y = false) :
    optHyphen (hy l ++ y) = (l, y) := by
  cases l with
  | true => simp [hy, optHyphen]
  | false =>
    rcases h with h | h
    · cases h
    · simpa [hy] using optHyphen_of_not_head h

/-- the conditions of `Piece.wf` on an output piece, with what follows included in the search for the closing
delimiter -/
structure OutputWf (d : Delims) (l r : Bool) (ws1 e ws2 rest : Str) : Prop where
  hws1 : allSpace ws1 = true
  hws2 : allSpace ws2 = true
  eHead : headIs isSpace e = false
  eEmpty : e ≠ [] ∨ ws2 = []
  lead : l = true ∨ ws1 ≠ [] ∨ (headIs (· == '-') e = false ∧ (e ≠ [] ∨ r = false))
  close : allSuffixes (fun t => !closesHere d.stmtE t) e (ws2 ++ hy r ++ d.stmtE ++ rest) = true

theorem output_found (d : Delims) (hT : d.tagS = ['{', '%']) (hS : d.stmtS = ['{', '{'])
    (hE : plainDelim d.stmtE = true) (hC : d.cmtS = [] ∨ d.cmtS = ['{', '#'])
    (l r : Bool) (ws1 e ws2 rest : Str) (hw : OutputWf d l r ws1 e ws2 rest) :
    MarkupFound d (.output l r ws1 e ws2) rest := by
  obtain ⟨hp1, hp2⟩ := headIs_plain hE rest
  -- what follows the opening `{{`
  have hY : l = true ∨ headIs (· == '-') (ws1 ++ (e ++ (ws2 ++ (hy r ++ (d.stmtE ++ rest))))) = false := by
    rcases hw.lead with h | h | ⟨h1, h2⟩
    · exact Or.inl h
    · exact Or.inr (headIs_hyphen_ws hw.hws1 h)
    · by_cases hws : ws1 = []
      · right
        subst hws
        cases e with
        | cons c cs => simpa [headIs] using h1
        | nil =>
          have hws2 : ws2 = [] := by rcases hw.eEmpty with h | h; exact absurd rfl h; exact h
          have hr : r = false := by rcases h2 with h | h; exact absurd rfl h; exact h
          subst hws2; subst hr
          simpa [hy] using hp2
      · exact Or.inr (headIs_hyphen_ws hw.hws1 hws)
  have hZ : headIs isSpace (e ++ (ws2 ++ (hy r ++ (d.stmtE ++ rest)))) = false := by
    cases e with
    | cons c cs => simpa [headIs] using hw.eHead
    | nil =>
      have hws2 : ws2 = [] := by rcases hw.eEmpty with h | h; exact absurd rfl h; exact h
      subst hws2
      cases r with
      | true => simp [hy, headIs, isSpace]
      | false => simpa [hy] using hp1
  have hsrc : (Piece.output l r ws1 e ws2).src d ++ rest =
      '{' :: '{' :: (hy l ++ (ws1 ++ (e ++ (ws2 ++ (hy r ++ (d.stmtE ++ rest)))))) := by
    simp [Piece.src, hS, List.append_assoc]
  have hopt := optHyphen_hy l _ hY
  have hsp := skipSpaces_append ws1 _ hw.hws1 hZ
  have hclose := closeAt_tail d.stmtE ws2 rest r hw.hws2 hE
  have hfind := findFirst_exact (closeAt? d.stmtE) (closesHere d.stmtE) (closeAt_none d.stmtE) e
    (ws2 ++ hy r ++ d.stmtE ++ rest) _ hw.close hclose
  simp only [List.append_assoc] at hfind
  refine ⟨by simp [Piece.src, hS], ?_, ?_⟩
  · intro pos la
    refine ⟨'{', _, hsrc, ?_⟩
    have hlen : (hy l).length = if l = true then 1 else 0 := by cases l <;> rfl
    have hlenr : (hy r).length = if r = true then 1 else 0 := by cases r <;> rfl
    have htake : List.take ((Piece.output l r ws1 e ws2).src d).length ((Piece.output l r ws1 e ws2).src d ++ rest)
        = (Piece.output l r ws1 e ws2).src d := by simp
    rw [hsrc] at htake
    have hn : (2 + if l = true then 1 else 0) + ws1.length + e.length +
        ((ws2.length + if r = true then 1 else 0) + d.stmtE.length) = ((Piece.output l r ws1 e ws2).src d).length := by
      simp only [Piece.src, hS, List.length_append, List.length_cons, List.length_nil, hlen, hlenr]; omega
    rcases hC with hC | hC
    · simp [matchAt, blockAt?, kwTagAt?, stripPrefix?, hT, hS, hC, hopt, hsp, hfind, pieceMatch]
      exact ⟨hn, by rw [hn]; exact htake, by rw [hlen]; omega⟩
    · simp [matchAt, blockAt?, kwTagAt?, stripPrefix?, hT, hS, hC, hopt, hsp, hfind, pieceMatch]
      exact ⟨hn, by rw [hn]; exact htake, by rw [hlen]; omega⟩
  · rw [hsrc]
    simp [openerAt?, stripPrefix?, hT, hS, hopt, Piece.openHyphen]


/-! ## markup pieces: the shorthand comment -/

theorem shortCloseAt_none (cmtE t : Str)
    (h : (startsWith cmtE t || startsWith ('-' :: cmtE) t) = false) : shortCloseAt? cmtE t = none := by
  simp only [Bool.or_eq_false_iff] at h
  obtain ⟨ha, hb⟩ := h
  cases t with
  | nil => simp [shortCloseAt?, stripPrefix_none_of_startsWith _ _ ha]
  | cons c u =>
    by_cases hc : c = '-'
    · subst hc
      have hb' : startsWith cmtE u = false := by simpa [startsWith] using hb
      simp [shortCloseAt?, stripPrefix_none_of_startsWith _ _ hb', stripPrefix_none_of_startsWith _ _ ha]
    · unfold shortCloseAt?
      split
      · next heq => cases heq; exact absurd rfl hc
      · simp [stripPrefix_none_of_startsWith _ _ ha]

theorem shortCloseAt_tail (cmtE rest : Str) (r : Bool) (hp : plainDelim cmtE = true) :
    shortCloseAt? cmtE (hy r ++ cmtE ++ rest) = some (r, (if r then 1 else 0) + cmtE.length) := by
  cases r with
  | true => simp [hy, shortCloseAt?, stripPrefix_append]
  | false =>
    obtain ⟨_, h2⟩ := headIs_plain hp rest
    cases hc : cmtE with
    | nil => simp [hc, plainDelim] at hp
    | cons c cs =>
      rw [hc] at h2
      have hne : c ≠ '-' := by simpa [headIs] using h2
      have := stripPrefix_append (c :: cs) rest
      unfold shortCloseAt?
      simp only [hy, Bool.false_eq_true, if_false, List.nil_append, List.cons_append]
      split
      · next heq => cases heq; exact absurd rfl hne
      · simp only [List.cons_append] at this; simp [this]


/-- the conditions of `Piece.wf` on a shorthand comment -/
structure ShortWf (d : Delims) (l r : Bool) (body rest : Str) : Prop where
  lead : l = true ∨ (headIs (· == '-') body = false ∧ (body ≠ [] ∨ r = false))
  close : allSuffixes (fun t => !(startsWith d.cmtE t || startsWith ('-' :: d.cmtE) t)) (hy l ++ body)
            (hy r ++ d.cmtE ++ rest) = true

theorem short_found (d : Delims) (hT : d.tagS = ['{', '%']) (hS : d.stmtS = ['{', '{'])
    (hCs : d.cmtS = ['{', '#']) (hCe : plainDelim d.cmtE = true)
    (l r : Bool) (body rest : Str) (hw : ShortWf d l r body rest) :
    MarkupFound d (.short l r body) rest := by
  obtain ⟨_, hp2⟩ := headIs_plain hCe rest
  have hY : l = true ∨ headIs (· == '-') (body ++ (hy r ++ (d.cmtE ++ rest))) = false := by
    rcases hw.lead with h | ⟨h1, h2⟩
    · exact Or.inl h
    · right
      cases body with
      | cons c cs => simpa [headIs] using h1
      | nil =>
        have hr : r = false := by rcases h2 with h | h; exact absurd rfl h; exact h
        subst hr; simpa [hy] using hp2
  have hsrc : (Piece.short l r body).src d ++ rest = '{' :: '#' :: (hy l ++ (body ++ (hy r ++ (d.cmtE ++ rest)))) := by
    simp [Piece.src, hCs, List.append_assoc]
  have hopt := optHyphen_hy l _ hY
  have hfind := findFirst_exact (shortCloseAt? d.cmtE)
    (fun t => startsWith d.cmtE t || startsWith ('-' :: d.cmtE) t) (shortCloseAt_none d.cmtE) (hy l ++ body)
    (hy r ++ d.cmtE ++ rest) _ hw.close (shortCloseAt_tail d.cmtE rest r hCe)
  simp only [List.append_assoc] at hfind
  refine ⟨by simp [Piece.src, hCs], ?_, ?_⟩
  · intro pos la
    refine ⟨'{', _, hsrc, ?_⟩
    have hlenr : (hy r).length = if r = true then 1 else 0 := by cases r <;> rfl
    have htake : List.take ((Piece.short l r body).src d).length ((Piece.short l r body).src d ++ rest)
        = (Piece.short l r body).src d := by simp
    rw [hsrc] at htake
    have hn : 2 + ((hy l).length + body.length) + ((if r = true then 1 else 0) + d.cmtE.length)
        = ((Piece.short l r body).src d).length := by
      simp only [Piece.src, hCs, List.length_append, List.length_cons, List.length_nil, hlenr]; omega
    have htk : List.take ((hy l).length + body.length) (hy l ++ (body ++ (hy r ++ (d.cmtE ++ rest)))) = hy l ++ body := by
      have h1 : hy l ++ (body ++ (hy r ++ (d.cmtE ++ rest))) = (hy l ++ body) ++ (hy r ++ (d.cmtE ++ rest)) := by
        simp [List.append_assoc]
      rw [h1]; exact List.take_left' (by simp)
    simp [matchAt, blockAt?, kwTagAt?, stripPrefix?, hT, hS, hCs, hfind, pieceMatch, htk]
    exact ⟨hn, by rw [hn]; exact htake⟩
  · rw [hsrc]
    simp [openerAt?, stripPrefix?, hT, hS, hCs, hopt, Piece.openHyphen]

/-! ## markup pieces: raw and doc blocks -/


theorem stripPrefix_some : ∀ (p t r : Str), stripPrefix? p t = some r → startsWith p t = true ∧ r = t.drop p.length
  | [], t, r, h => by simp [stripPrefix?] at h; subst h; simp [startsWith]
  | _ :: _, [], r, h => by simp [stripPrefix?] at h
  | x :: p, c :: t, r, h => by
    simp only [stripPrefix?] at h
    by_cases hx : (x == c) = true
    · simp only [hx, if_true] at h
      obtain ⟨h1, h2⟩ := stripPrefix_some p t r h
      simp [startsWith, hx, h1, h2]
    · simp [hx] at h

/-- `endTagHere` (the predicate of `Piece.wf`) in the scanner's vocabulary -/
theorem endTagHere_eq (d : Delims) (kw t : Str) :
    endTagHere d kw t =
      (startsWith d.tagS t &&
        (startsWith kw (skipSpaces (optHyphen (t.drop d.tagS.length)).2).2 &&
          closesHere d.tagE ((skipSpaces (optHyphen (t.drop d.tagS.length)).2).2.drop kw.length))) := by
  unfold endTagHere closesHere
  simp only [skipSpaces_snd]
  generalize t.drop d.tagS.length = u
  cases u with
  | nil => rfl
  | cons c cs =>
    by_cases hc : c = '-'
    · subst hc; rfl
    · have : optHyphen (c :: cs) = (false, c :: cs) := optHyphen_of_not_head (by simp [headIs, hc])
      rw [this]
      split
      · next heq => cases heq; exact absurd rfl hc
      · rfl

/-- where `Piece.wf` says no end tag starts (`endTagHere`), the scanner's `kwTagAt?` fails -/
theorem kwTagAt_none (d : Delims) (kw t : Str) (h : endTagHere d kw t = false) : kwTagAt? d kw t = none := by
  rw [endTagHere_eq] at h
  unfold kwTagAt?
  cases h1 : stripPrefix? d.tagS t with
  | none => rfl
  | some t1 =>
    obtain ⟨hs, ht1⟩ := stripPrefix_some _ _ _ h1
    simp only
    cases h2 : stripPrefix? kw (skipSpaces (optHyphen t1).2).2 with
    | none => rfl
    | some t2 =>
      obtain ⟨hk, ht2⟩ := stripPrefix_some _ _ _ h2
      simp only
      rw [← ht1] at h
      simp only [hs, hk, Bool.true_and] at h
      rw [← ht2] at h
      simp [closeAt_none _ _ h]

/-- `{%[-] ws1 kw ws2 [-]%}` is matched exactly by `kwTagAt?` (keyword starting with a letter) -/
theorem kwTagAt_exact (d : Delims) (hp : plainDelim d.tagE = true) (k : Char) (ks : Str) (hk : isSpace k = false)
    (hk2 : k ≠ '-') (x : Ends) (hx : x.wf = true) (rest : Str) :
    kwTagAt? d (k :: ks) (x.src d (k :: ks) ++ rest) = some (x.r, (x.src d (k :: ks)).length) := by
  simp only [Ends.wf, Bool.and_eq_true] at hx
  have hsrc : x.src d (k :: ks) ++ rest =
      d.tagS ++ (hy x.l ++ (x.ws1 ++ ((k :: ks) ++ (x.ws2 ++ hy x.r ++ d.tagE ++ rest)))) := by
    simp [Ends.src, List.append_assoc]
  have hopt := optHyphen_hy x.l (x.ws1 ++ ((k :: ks) ++ (x.ws2 ++ hy x.r ++ d.tagE ++ rest))) (by
    right
    by_cases hw : x.ws1 = []
    · simp [hw, headIs, hk2]
    · exact headIs_hyphen_ws hx.1 hw)
  have hsp := skipSpaces_append x.ws1 ((k :: ks) ++ (x.ws2 ++ hy x.r ++ d.tagE ++ rest)) hx.1 (by simp [headIs, hk])
  have hclose := closeAt_tail d.tagE x.ws2 rest x.r hx.2 hp
  have hlen : (hy x.l).length = if x.l = true then 1 else 0 := by cases x.l <;> rfl
  have hlenr : (hy x.r).length = if x.r = true then 1 else 0 := by cases x.r <;> rfl
  rw [hsrc]
  simp only [kwTagAt?, stripPrefix_append, hopt, hsp, hclose]
  simp only [Ends.src, List.length_append, List.length_cons, hlen, hlenr, Option.some.injEq, Prod.mk.injEq, true_and]
  omega





/-- the conditions of `Piece.wf` on a raw / doc block -/
structure BlockWf (d : Delims) (kwClose : Str) (o c : Ends) (body rest : Str) : Prop where
  ho : o.wf = true
  hc : c.wf = true
  close : allSuffixes (fun t => !endTagHere d kwClose t) body (c.src d kwClose ++ rest) = true

theorem block_core (d : Delims) (hp : plainDelim d.tagE = true) (k : Char) (ks : Str) (hk : isSpace k = false)
    (hk2 : k ≠ '-') (k' : Char) (ks' : Str) (hk' : isSpace k' = false) (hk2' : k' ≠ '-')
    (o c : Ends) (body rest : Str) (hw : BlockWf d (k' :: ks') o c body rest) :
    blockAt? d (k :: ks) (k' :: ks') (o.src d (k :: ks) ++ (body ++ (c.src d (k' :: ks') ++ rest))) =
      some (body, o.r, c.r, (o.src d (k :: ks)).length + body.length + (c.src d (k' :: ks')).length) := by
  have h1 := kwTagAt_exact d hp k ks hk hk2 o hw.ho (body ++ (c.src d (k' :: ks') ++ rest))
  have h2 := kwTagAt_exact d hp k' ks' hk' hk2' c hw.hc rest
  have hfind := findFirst_exact (kwTagAt? d (k' :: ks')) (endTagHere d (k' :: ks')) (kwTagAt_none d (k' :: ks'))
    body (c.src d (k' :: ks') ++ rest) _ hw.close h2
  simp only [blockAt?, h1, List.drop_left' rfl, hfind, List.take_left' rfl]

theorem raw_found (d : Delims) (hTS : d.tagS ≠ []) (hp : plainDelim d.tagE = true)
    (o c : Ends) (body rest : Str) (hw : BlockWf d kwEndraw o c body rest) :
    MarkupFound d (.raw o body c) rest := by
  have hcore := block_core d hp 'r' ['a', 'w'] (by decide) (by decide) 'e' ['n', 'd', 'r', 'a', 'w'] (by decide) (by decide)
    o c body rest hw
  have hsrc : (Piece.raw o body c).src d ++ rest = o.src d kwRaw ++ (body ++ (c.src d kwEndraw ++ rest)) := by
    simp [Piece.src, List.append_assoc]
  have hne : (Piece.raw o body c).src d ≠ [] := by
    simp [Piece.src, Ends.src, hTS]
  have hlen : ((Piece.raw o body c).src d).length = (o.src d kwRaw).length + body.length + (c.src d kwEndraw).length := by
    simp [Piece.src, List.length_append, Nat.add_assoc]
  refine ⟨hne, ?_, ?_⟩
  · intro pos la
    cases hcr : (Piece.raw o body c).src d ++ rest with
    | nil => simp at hcr; exact absurd hcr.1 hne
    | cons ch r =>
      refine ⟨ch, r, rfl, ?_⟩
      have hcore' : blockAt? d kwRaw kwEndraw (ch :: r) =
          some (body, o.r, c.r, ((Piece.raw o body c).src d).length) := by
        rw [← hcr, hsrc, hlen]; exact hcore
      have htake : List.take ((Piece.raw o body c).src d).length (ch :: r) = (Piece.raw o body c).src d := by
        rw [← hcr]; simp
      simp [matchAt, hcore', pieceMatch, htake]
  · have : (Piece.raw o body c).src d ++ rest =
        d.tagS ++ (hy o.l ++ (o.ws1 ++ (kwRaw ++ (o.ws2 ++ hy o.r ++ d.tagE ++ body ++ c.src d kwEndraw ++ rest)))) := by
      simp [Piece.src, Ends.src, List.append_assoc]
    rw [this]
    have hopt := optHyphen_hy o.l (o.ws1 ++ (kwRaw ++ (o.ws2 ++ hy o.r ++ d.tagE ++ body ++ c.src d kwEndraw ++ rest))) (by
      right
      by_cases hws : o.ws1 = []
      · simp [hws, headIs, kwRaw]
      · have := hw.ho; simp only [Ends.wf, Bool.and_eq_true] at this
        exact headIs_hyphen_ws this.1 hws)
    simp only [List.append_assoc] at hopt
    simp [openerAt?, stripPrefix_append, hopt, Piece.openHyphen]





/-- a keyword tag is not matched by `kwTagAt?` for a keyword that starts differently -/
theorem kwTagAt_other (d : Delims) (k : Char) (ks : Str) (hk : isSpace k = false) (hk2 : k ≠ '-')
    (k2 : Char) (ks2 : Str) (hdiff : k2 ≠ k) (x : Ends) (hx : x.wf = true) (rest : Str) :
    kwTagAt? d (k2 :: ks2) (x.src d (k :: ks) ++ rest) = none := by
  simp only [Ends.wf, Bool.and_eq_true] at hx
  have hsrc : x.src d (k :: ks) ++ rest =
      d.tagS ++ (hy x.l ++ (x.ws1 ++ ((k :: ks) ++ (x.ws2 ++ hy x.r ++ d.tagE ++ rest)))) := by
    simp [Ends.src, List.append_assoc]
  have hopt := optHyphen_hy x.l (x.ws1 ++ ((k :: ks) ++ (x.ws2 ++ hy x.r ++ d.tagE ++ rest))) (by
    right
    by_cases hw : x.ws1 = []
    · simp [hw, headIs, hk2]
    · exact headIs_hyphen_ws hx.1 hw)
  have hsp := skipSpaces_append x.ws1 ((k :: ks) ++ (x.ws2 ++ hy x.r ++ d.tagE ++ rest)) hx.1 (by simp [headIs, hk])
  rw [hsrc]
  simp only [kwTagAt?, stripPrefix_append, hopt, hsp]
  simp [stripPrefix?, hdiff]

theorem doc_found (d : Delims) (hTS : d.tagS ≠ []) (hp : plainDelim d.tagE = true)
    (o c : Ends) (body rest : Str) (hw : BlockWf d kwEnddoc o c body rest) :
    MarkupFound d (.doc o body c) rest := by
  have hcore := block_core d hp 'd' ['o', 'c'] (by decide) (by decide) 'e' ['n', 'd', 'd', 'o', 'c'] (by decide) (by decide)
    o c body rest hw
  have hraw : blockAt? d kwRaw kwEndraw (o.src d kwDoc ++ (body ++ (c.src d kwEnddoc ++ rest))) = none := by
    have := kwTagAt_other d 'd' ['o', 'c'] (by decide) (by decide) 'r' ['a', 'w'] (by decide) o hw.ho
      (body ++ (c.src d kwEnddoc ++ rest))
    simp only [blockAt?, kwRaw, kwDoc, this]
  have hsrc : (Piece.doc o body c).src d ++ rest = o.src d kwDoc ++ (body ++ (c.src d kwEnddoc ++ rest)) := by
    simp [Piece.src, List.append_assoc]
  have hne : (Piece.doc o body c).src d ≠ [] := by
    simp [Piece.src, Ends.src, hTS]
  have hlen : ((Piece.doc o body c).src d).length = (o.src d kwDoc).length + body.length + (c.src d kwEnddoc).length := by
    simp [Piece.src, List.length_append, Nat.add_assoc]
  refine ⟨hne, ?_, ?_⟩
  · intro pos la
    cases hcr : (Piece.doc o body c).src d ++ rest with
    | nil => simp at hcr; exact absurd hcr.1 hne
    | cons ch r =>
      refine ⟨ch, r, rfl, ?_⟩
      have hraw' : blockAt? d kwRaw kwEndraw (ch :: r) = none := by rw [← hcr, hsrc]; exact hraw
      have hcore' : blockAt? d kwDoc kwEnddoc (ch :: r) =
          some (body, o.r, c.r, ((Piece.doc o body c).src d).length) := by
        rw [← hcr, hsrc, hlen]; exact hcore
      have htake : List.take ((Piece.doc o body c).src d).length (ch :: r) = (Piece.doc o body c).src d := by
        rw [← hcr]; simp
      simp [matchAt, hraw', hcore', pieceMatch, htake]
  · have : (Piece.doc o body c).src d ++ rest =
        d.tagS ++ (hy o.l ++ (o.ws1 ++ (kwDoc ++ (o.ws2 ++ hy o.r ++ d.tagE ++ body ++ c.src d kwEnddoc ++ rest)))) := by
      simp [Piece.src, Ends.src, List.append_assoc]
    rw [this]
    have hopt := optHyphen_hy o.l (o.ws1 ++ (kwDoc ++ (o.ws2 ++ hy o.r ++ d.tagE ++ body ++ c.src d kwEnddoc ++ rest))) (by
      right
      by_cases hws : o.ws1 = []
      · simp [hws, headIs, kwDoc]
      · have := hw.ho; simp only [Ends.wf, Bool.and_eq_true] at this
        exact headIs_hyphen_ws this.1 hws)
    simp only [List.append_assoc] at hopt
    simp [openerAt?, stripPrefix_append, hopt, Piece.openHyphen]



/-! ## markup pieces: tags -/


theorem isWord_not_space {c : Char} (h : isWord c = true) : isSpace c = false := by
  simp only [isWord, isSpace, Bool.or_eq_true, Bool.and_eq_true, decide_eq_true_eq, beq_iff_eq] at h ⊢
  simp only [Bool.or_eq_false_iff, Bool.and_eq_false_iff, decide_eq_false_iff_not, beq_eq_false_iff_ne]
  omega

theorem isWord_ne_hyphen {c : Char} (h : isWord c = true) : c ≠ '-' := by
  intro hc; subst hc; simp [isWord] at h

theorem isWord_ne_hash {c : Char} (h : isWord c = true) : c ≠ '#' := by
  intro hc; subst hc; simp [isWord] at h

theorem isSpace_not_word {c : Char} (h : isSpace c = true) : isWord c = false := by
  cases hw : isWord c with
  | false => rfl
  | true => rw [isWord_not_space hw] at h; cases h

theorem takeWord_append : ∀ (name u : Str), name.all isWord = true → headIs isWord u = false →
    takeWord (name ++ u) = (name, u)
  | [], u, _, hu => by
    cases u with
    | nil => rfl
    | cons c cs => simp only [headIs] at hu; simp [takeWord, hu]
  | n :: name, u, hn, hu => by
    simp only [List.all_cons, Bool.and_eq_true] at hn
    simp [takeWord, hn.1, takeWord_append name u hn.2 hu]

/-- stripping an all-word keyword from `v` strips it from the leading word of `v` -/
theorem takeWord_stripPrefix : ∀ (kw v t2 : Str), kw.all isWord = true → stripPrefix? kw v = some t2 →
    (takeWord v).1 = kw ++ (takeWord t2).1
  | [], v, t2, _, h => by simp [stripPrefix?] at h; subst h; simp
  | _ :: _, [], _, _, h => by simp [stripPrefix?] at h
  | k :: kw, c :: v, t2, hk, h => by
    simp only [List.all_cons, Bool.and_eq_true] at hk
    simp only [stripPrefix?] at h
    by_cases hx : (k == c) = true
    · simp only [hx, if_true] at h
      have hkc : k = c := by simpa using hx
      subst hkc
      simp [takeWord, hk.1, takeWord_stripPrefix kw v t2 hk.2 h]
    · simp [hx] at h

/-- `\s*-?CLOSE` cannot start at a word character when CLOSE starts with a non-word character -/
theorem closeAt_word_none (close t : Str) (hp : plainDelim close = true) (ht : headIs isWord t = true) :
    closeAt? close t = none := by
  cases t with
  | nil => simp [headIs] at ht
  | cons c cs =>
    simp only [headIs] at ht
    cases hc : close with
    | nil => simp [hc, plainDelim] at hp
    | cons x xs =>
      rw [hc] at hp
      simp only [plainDelim, Bool.and_eq_true, Bool.not_eq_true', bne_iff_ne, ne_eq] at hp
      have hxc : (x == c) = false := by
        simp only [beq_eq_false_iff_ne, ne_eq]; intro h; subst h; rw [ht] at hp; cases hp.2
      have hsp : skipSpaces (c :: cs) = (0, c :: cs) := by simp [skipSpaces, isWord_not_space ht]
      have hopt : optHyphen (c :: cs) = (false, c :: cs) :=
        optHyphen_of_not_head (by simp [headIs, isWord_ne_hyphen ht])
      simp [closeAt?, hsp, hopt, stripPrefix?, hxc]

/-- a tag whose name is not `kw` is not a `kw` tag: after the (stripped) opener, `kw \s* -? TAG_E` does not match -/
theorem kw_fails (close kw name u t2 : Str) (hp : plainDelim close = true) (hkw : kw.all isWord = true)
    (hkw0 : headIs isWord kw = true)
    (hname : name = kwHash ∨ name.all isWord = true) (hne : name ≠ kw)
    (hu : name.all isWord = true → headIs isWord u = false)
    (hs : stripPrefix? kw (name ++ u) = some t2) : closeAt? close t2 = none := by
  rcases hname with hname | hname
  · subst hname
    cases kw with
    | nil => simp [headIs] at hkw0
    | cons k ks =>
      simp only [headIs] at hkw0
      have : (k == '#') = false := by simpa using isWord_ne_hash hkw0
      simp [kwHash, stripPrefix?, this] at hs
  · have h1 := takeWord_stripPrefix kw (name ++ u) t2 hkw hs
    rw [takeWord_append name u hname (hu hname)] at h1
    by_cases ht2 : headIs isWord t2 = true
    · exact closeAt_word_none close t2 hp ht2
    · have : (takeWord t2).1 = [] := by
        cases t2 with
        | nil => rfl
        | cons c cs => simp only [headIs] at ht2; simp [takeWord, ht2]
      rw [this, List.append_nil] at h1
      exact absurd h1 hne

/-- the conditions of `Piece.wf` on a tag piece -/
structure TagWf (d : Delims) (l r : Bool) (ws0 name ws1 e ws2 rest : Str) : Prop where
  hws0 : allSpace ws0 = true
  hws1 : allSpace ws1 = true
  hws2 : allSpace ws2 = true
  eHead : headIs isSpace e = false
  nameOk : name = kwHash ∨ name.all isWord = true
  notRaw : name ≠ kwRaw
  notDoc : name ≠ kwDoc
  eEmpty : e ≠ [] ∨ ws2 = []
  noName : name ≠ [] ∨ (ws1 = [] ∧ headIs isWord e = false ∧ headIs (· == '#') e = false)
  wordEnd : name = [] ∨ name = kwHash ∨ ws1 ≠ [] ∨ headIs isWord e = false
  lead : l = true ∨ ws0 ≠ [] ∨ name ≠ [] ∨ (headIs (· == '-') e = false ∧ (e ≠ [] ∨ r = false))
  close : allSuffixes (fun t => !closesHere d.tagE t) e (ws2 ++ hy r ++ d.tagE ++ rest) = true

theorem headIs_false_of_ws {f : Char → Bool} {ws t : Str} (hws : allSpace ws = true) (hne : ws ≠ [])
    (hf : ∀ c, isSpace c = true → f c = false) : headIs f (ws ++ t) = false := by
  cases ws with
  | nil => exact absurd rfl hne
  | cons c cs =>
    simp only [allSpace, List.all_cons, Bool.and_eq_true] at hws
    simp [headIs, hf c hws.1]

theorem tag_found (d : Delims) (hT : d.tagS = ['{', '%']) (hS : d.stmtS = ['{', '{']) (hE : d.tagE = ['%', '}'])
    (hC : d.cmtS = [] ∨ d.cmtS = ['{', '#'])
    (l r : Bool) (ws0 name ws1 e ws2 rest : Str) (hw : TagWf d l r ws0 name ws1 e ws2 rest) :
    MarkupFound d (.tag l r ws0 name ws1 e ws2) rest := by
  have hp : plainDelim d.tagE = true := by rw [hE]; decide
  -- Z: from the expression on
  have hZ : ∀ (f : Char → Bool), f '-' = false → f '%' = false → headIs f e = false →
      headIs f (e ++ (ws2 ++ (hy r ++ (d.tagE ++ rest)))) = false := by
    intro f h1 h2 h3
    cases he : e with
    | cons c cs => rw [he] at h3; simpa [headIs] using h3
    | nil =>
      have hws2 : ws2 = [] := by rcases hw.eEmpty with h | h; exact absurd he h; exact h
      subst hws2
      cases r <;> simp [hy, headIs, hE, h1, h2]
  have hZsp := hZ isSpace (by decide) (by decide) hw.eHead
  -- name is `#` or a word, so its head is not a space / hyphen
  have hnameHead : ∀ (f : Char → Bool), f '#' = false → (∀ c, isWord c = true → f c = false) → name ≠ [] →
      ∀ t, headIs f (name ++ t) = false := by
    intro f h1 h2 hne t
    rcases hw.nameOk with h | h
    · subst h; simp [kwHash, headIs, h1]
    · cases name with
      | nil => exact absurd rfl hne
      | cons c cs =>
        simp only [List.all_cons, Bool.and_eq_true] at h
        simp [headIs, h2 c h.1]
  have hUw : name.all isWord = true → headIs isWord (ws1 ++ (e ++ (ws2 ++ (hy r ++ (d.tagE ++ rest))))) = false := by
    intro hall
    have hnh : name ≠ kwHash := by intro h; subst h; simp [kwHash, isWord] at hall
    by_cases hws1 : ws1 = []
    · subst hws1
      have hew : headIs isWord e = false := by
        rcases hw.wordEnd with h | h | h | h
        · rcases hw.noName with h' | h'
          · exact absurd h h'
          · exact h'.2.1
        · exact absurd h hnh
        · exact absurd rfl h
        · exact h
      simpa using hZ isWord (by decide) (by decide) hew
    · exact headIs_false_of_ws hw.hws1 hws1 (fun c hc => isSpace_not_word hc)
  have hVsp : headIs isSpace (name ++ (ws1 ++ (e ++ (ws2 ++ (hy r ++ (d.tagE ++ rest)))))) = false := by
    by_cases hn : name = []
    · rcases hw.noName with h | h
      · exact absurd hn h
      · subst hn; rw [h.1]; simpa using hZsp
    · exact hnameHead isSpace (by decide) (fun c hc => isWord_not_space hc) hn _
  have hWhy : l = true ∨
      headIs (· == '-') (ws0 ++ (name ++ (ws1 ++ (e ++ (ws2 ++ (hy r ++ (d.tagE ++ rest))))))) = false := by
    by_cases hl : l = true
    · exact Or.inl hl
    · right
      by_cases hws0 : ws0 = []
      · subst hws0
        by_cases hn : name = []
        · rcases hw.noName with h | h
          · exact absurd hn h
          · subst hn; rw [h.1]
            have hlead : headIs (· == '-') e = false ∧ (e ≠ [] ∨ r = false) := by
              rcases hw.lead with h' | h' | h' | h'
              · exact absurd h' hl
              · exact absurd rfl h'
              · exact absurd rfl h'
              · exact h'
            cases he : e with
            | cons c cs => have := hlead.1; rw [he] at this; simpa [headIs] using this
            | nil =>
              have hws2 : ws2 = [] := by rcases hw.eEmpty with h'' | h''; exact absurd he h''; exact h''
              have hr : r = false := by rcases hlead.2 with h'' | h''; exact absurd he h''; exact h''
              subst hws2; subst hr; simp [hy, headIs, hE]
        · simpa using hnameHead (· == '-') (by decide) (fun c hc => by simpa using isWord_ne_hyphen hc) hn _
      · exact headIs_hyphen_ws hw.hws0 hws0
  have hopt := optHyphen_hy l _ hWhy
  have hsp0 := skipSpaces_append ws0 _ hw.hws0 hVsp
  have hsp1 := skipSpaces_append ws1 _ hw.hws1 hZsp
  have hclose := closeAt_tail d.tagE ws2 rest r hw.hws2 hp
  have hfind := findFirst_exact (closeAt? d.tagE) (closesHere d.tagE) (closeAt_none d.tagE) e
    (ws2 ++ hy r ++ d.tagE ++ rest) _ hw.close hclose
  simp only [List.append_assoc] at hfind
  -- the name group `#|\w*`
  have hnm : nameGroup (name ++ (ws1 ++ (e ++ (ws2 ++ (hy r ++ (d.tagE ++ rest)))))) =
      (name, ws1 ++ (e ++ (ws2 ++ (hy r ++ (d.tagE ++ rest))))) := by
    rcases hw.nameOk with h | h
    · subst h; rfl
    · have htw := takeWord_append name _ h (hUw h)
      have hnh : headIs (· == '#') (name ++ (ws1 ++ (e ++ (ws2 ++ (hy r ++ (d.tagE ++ rest)))))) = false := by
        by_cases hn : name = []
        · rcases hw.noName with h' | h'
          · exact absurd hn h'
          · subst hn; rw [h'.1]; simpa using hZ (· == '#') (by decide) (by decide) h'.2.2
        · cases hname : name with
          | nil => exact absurd hname hn
          | cons c cs =>
            rw [hname] at h
            simp only [List.all_cons, Bool.and_eq_true] at h
            simp [headIs, isWord_ne_hash h.1]
      unfold nameGroup
      split
      · next u heq => rw [heq] at hnh; simp [headIs] at hnh
      · exact htw
  have hsrc : (Piece.tag l r ws0 name ws1 e ws2).src d ++ rest =
      '{' :: '%' :: (hy l ++ (ws0 ++ (name ++ (ws1 ++ (e ++ (ws2 ++ (hy r ++ (d.tagE ++ rest)))))))) := by
    simp [Piece.src, hT, List.append_assoc]
  have hblock : ∀ (kw kwc : Str), kw.all isWord = true → headIs isWord kw = true → name ≠ kw →
      blockAt? d kw kwc ('{' :: '%' :: (hy l ++ (ws0 ++ (name ++ (ws1 ++ (e ++ (ws2 ++ (hy r ++ (d.tagE ++ rest))))))))) = none := by
    intro kw kwc h1 h2 h3
    have : kwTagAt? d kw ('{' :: '%' :: (hy l ++ (ws0 ++ (name ++ (ws1 ++ (e ++ (ws2 ++ (hy r ++ (d.tagE ++ rest))))))))) = none := by
      simp only [kwTagAt?, hT, stripPrefix?, beq_self_eq_true, if_true, hopt, hsp0]
      cases hs : stripPrefix? kw (name ++ (ws1 ++ (e ++ (ws2 ++ (hy r ++ (d.tagE ++ rest)))))) with
      | none => rfl
      | some t2 => simp [kw_fails d.tagE kw name _ t2 hp h1 h2 hw.nameOk h3 hUw hs]
    simp [blockAt?, this]
  have hraw := hblock kwRaw kwEndraw (by decide) (by decide) hw.notRaw
  have hdoc := hblock kwDoc kwEnddoc (by decide) (by decide) hw.notDoc
  have hlen : (hy l).length = if l = true then 1 else 0 := by cases l <;> rfl
  have hlenr : (hy r).length = if r = true then 1 else 0 := by cases r <;> rfl
  refine ⟨by simp [Piece.src, hT], ?_, ?_⟩
  · intro pos la
    refine ⟨'{', _, hsrc, ?_⟩
    have htake : List.take ((Piece.tag l r ws0 name ws1 e ws2).src d).length
        ((Piece.tag l r ws0 name ws1 e ws2).src d ++ rest) = (Piece.tag l r ws0 name ws1 e ws2).src d := by simp
    rw [hsrc] at htake
    have hn : (2 + if l = true then 1 else 0) + ws0.length + name.length + ws1.length + e.length +
        ((ws2.length + if r = true then 1 else 0) + d.tagE.length) = ((Piece.tag l r ws0 name ws1 e ws2).src d).length := by
      simp only [Piece.src, hT, List.length_append, List.length_cons, List.length_nil, hlen, hlenr]; omega
    rcases hC with hC | hC
    · simp [matchAt, hraw, hdoc, stripPrefix?, hT, hS, hC, hopt, hsp0, hnm, hsp1, hfind, pieceMatch]
      exact ⟨hn, by rw [hn]; exact htake, by rw [hlen]; omega, by rw [hlen]; omega⟩
    · simp [matchAt, hraw, hdoc, stripPrefix?, hT, hS, hC, hopt, hsp0, hnm, hsp1, hfind, pieceMatch]
      exact ⟨hn, by rw [hn]; exact htake, by rw [hlen]; omega, by rw [hlen]; omega⟩
  · rw [hsrc]
    simp [openerAt?, stripPrefix?, hT, hopt, Piece.openHyphen]



theorem outputWf_of_wf (d : Delims) (l r : Bool) (ws1 e ws2 next : Str)
    (h : (Piece.output l r ws1 e ws2).wf d next = true) : OutputWf d l r ws1 e ws2 next := by
  simp only [Piece.wf, Bool.and_eq_true, Bool.or_eq_true, Bool.not_eq_true', decide_eq_true_eq] at h
  obtain ⟨⟨⟨⟨⟨⟨h1, h2⟩, h3⟩, _⟩, h5⟩, h6⟩, h7⟩ := h
  refine ⟨h1, h2, h3, h5, ?_, h7⟩
  rcases h6 with (h6 | h6) | ⟨h6a, h6b⟩
  · exact Or.inl h6
  · exact Or.inr (Or.inl h6)
  · refine Or.inr (Or.inr ⟨h6a, ?_⟩)
    rcases h6b with h | h
    · exact Or.inl h
    · exact Or.inr h

def Piece.isOutput : Piece → Bool
  | .output _ _ _ _ _ => true
  | _ => false

/-- for templates made of text and output statements, well-formedness implies that the scanner finds every
markup piece (default tag / output openers, a plain output closer, shorthand comments off or `{#`) -/
theorem allMarkupFound_text_output (d : Delims) (hT : d.tagS = ['{', '%']) (hS : d.stmtS = ['{', '{'])
    (hE : plainDelim d.stmtE = true) (hC : d.cmtS = [] ∨ d.cmtS = ['{', '#']) :
    ∀ (ps : List Piece), ps.all (fun p => p.isText || p.isOutput) = true → srcWf d ps = true → AllMarkupFound d ps
  | [], _, _ => trivial
  | p :: rest, hall, hwf => by
    simp only [List.all_cons, Bool.and_eq_true] at hall
    simp only [srcWf, Bool.and_eq_true] at hwf
    refine ⟨fun ht => ?_, allMarkupFound_text_output d hT hS hE hC rest hall.2 hwf.2⟩
    cases p with
    | output l r ws1 e ws2 => exact output_found d hT hS hE hC l r ws1 e ws2 _ (outputWf_of_wf d l r ws1 e ws2 _ hwf.1.1)
    | text s => simp [Piece.isText] at ht
    | _ => simp [Piece.isText, Piece.isOutput] at hall

theorem shortWf_of_wf (d : Delims) (l r : Bool) (body next : Str)
    (h : (Piece.short l r body).wf d next = true) : d.cmtS ≠ [] ∧ ShortWf d l r body next := by
  simp only [Piece.wf, Bool.and_eq_true, Bool.or_eq_true, Bool.not_eq_true', decide_eq_true_eq] at h
  obtain ⟨⟨h1, h2⟩, h3⟩ := h
  refine ⟨h1, ?_, h3⟩
  rcases h2 with h2 | ⟨h2a, h2b⟩
  · exact Or.inl h2
  · refine Or.inr ⟨h2a, ?_⟩
    rcases h2b with h | h
    · exact Or.inl h
    · exact Or.inr h

def Piece.isShort : Piece → Bool
  | .short _ _ _ => true
  | _ => false

/-- the same for templates of text, output statements and shorthand comments -/
theorem allMarkupFound_text_output_short (d : Delims) (hT : d.tagS = ['{', '%']) (hS : d.stmtS = ['{', '{'])
    (hE : plainDelim d.stmtE = true) (hC : d.cmtS = [] ∨ (d.cmtS = ['{', '#'] ∧ plainDelim d.cmtE = true)) :
    ∀ (ps : List Piece), ps.all (fun p => p.isText || p.isOutput || p.isShort) = true → srcWf d ps = true →
      AllMarkupFound d ps
  | [], _, _ => trivial
  | p :: rest, hall, hwf => by
    simp only [List.all_cons, Bool.and_eq_true] at hall
    simp only [srcWf, Bool.and_eq_true] at hwf
    refine ⟨fun ht => ?_, allMarkupFound_text_output_short d hT hS hE hC rest hall.2 hwf.2⟩
    have hC' : d.cmtS = [] ∨ d.cmtS = ['{', '#'] := by
      rcases hC with h | h
      · exact Or.inl h
      · exact Or.inr h.1
    cases p with
    | output l r ws1 e ws2 =>
      exact output_found d hT hS hE hC' l r ws1 e ws2 _ (outputWf_of_wf d l r ws1 e ws2 _ hwf.1.1)
    | short l r body =>
      obtain ⟨hne, hw⟩ := shortWf_of_wf d l r body _ hwf.1.1
      rcases hC with h | h
      · exact absurd h hne
      · exact short_found d hT hS h.1 h.2 l r body _ hw
    | text s => simp [Piece.isText] at ht
    | _ => simp [Piece.isText, Piece.isOutput, Piece.isShort] at hall


/-! ## from `Piece.wf` to the scanner: every markup piece is found (default delimiters) -/

theorem blockWf_of_wf_raw (d : Delims) (o c : Ends) (body next : Str)
    (h : (Piece.raw o body c).wf d next = true) : BlockWf d kwEndraw o c body next := by
  simp only [Piece.wf, Bool.and_eq_true] at h
  exact ⟨h.1.1, h.1.2, h.2⟩

theorem blockWf_of_wf_doc (d : Delims) (o c : Ends) (body next : Str)
    (h : (Piece.doc o body c).wf d next = true) : BlockWf d kwEnddoc o c body next := by
  simp only [Piece.wf, Bool.and_eq_true] at h
  exact ⟨h.1.1, h.1.2, h.2⟩

theorem tagWf_of_wf (d : Delims) (l r : Bool) (ws0 name ws1 e ws2 next : Str)
    (h : (Piece.tag l r ws0 name ws1 e ws2).wf d next = true) : TagWf d l r ws0 name ws1 e ws2 next := by
  simp only [Piece.wf, Bool.and_eq_true, Bool.or_eq_true, Bool.not_eq_true', decide_eq_true_eq] at h
  obtain ⟨⟨⟨⟨⟨⟨⟨⟨⟨⟨⟨⟨h1, h2⟩, h3⟩, h4⟩, _⟩, h6⟩, h7⟩, h8⟩, h9⟩, h10⟩, h11⟩, h12⟩, h13⟩ := h
  refine ⟨h1, h2, h3, h4, h6, h7, h8, h9, ?_, ?_, ?_, h13⟩
  · rcases h10 with h | ⟨⟨ha, hb⟩, hc⟩
    · exact Or.inl h
    · exact Or.inr ⟨ha, hb, hc⟩
  · rcases h11 with ((h | h) | h) | h
    · exact Or.inl h
    · exact Or.inr (Or.inl h)
    · exact Or.inr (Or.inr (Or.inl h))
    · exact Or.inr (Or.inr (Or.inr h))
  · rcases h12 with ((h | h) | h) | ⟨ha, hb⟩
    · exact Or.inl h
    · exact Or.inr (Or.inl h)
    · exact Or.inr (Or.inr (Or.inl h))
    · refine Or.inr (Or.inr (Or.inr ⟨ha, ?_⟩))
      rcases hb with hb | hb
      · exact Or.inl hb
      · exact Or.inr hb

/-- **Every markup piece of a well-formed piece list is found by the scanner** — default delimiters, shorthand
comments off or `{# #}`. -/
theorem allMarkupFound_of_srcWf (d : Delims) (hT : d.tagS = ['{', '%']) (hTE : d.tagE = ['%', '}'])
    (hS : d.stmtS = ['{', '{']) (hE : plainDelim d.stmtE = true)
    (hC : d.cmtS = [] ∨ (d.cmtS = ['{', '#'] ∧ plainDelim d.cmtE = true)) :
    ∀ (ps : List Piece), srcWf d ps = true → AllMarkupFound d ps
  | [], _ => trivial
  | p :: rest, hwf => by
    simp only [srcWf, Bool.and_eq_true] at hwf
    refine ⟨fun ht => ?_, allMarkupFound_of_srcWf d hT hTE hS hE hC rest hwf.2⟩
    have hC' : d.cmtS = [] ∨ d.cmtS = ['{', '#'] := by
      rcases hC with h | h
      · exact Or.inl h
      · exact Or.inr h.1
    have hTS : d.tagS ≠ [] := by rw [hT]; simp
    have hp : plainDelim d.tagE = true := by rw [hTE]; decide
    cases p with
    | text s => simp [Piece.isText] at ht
    | output l r ws1 e ws2 =>
      exact output_found d hT hS hE hC' l r ws1 e ws2 _ (outputWf_of_wf d l r ws1 e ws2 _ hwf.1.1)
    | tag l r ws0 name ws1 e ws2 =>
      exact tag_found d hT hS hTE hC' l r ws0 name ws1 e ws2 _ (tagWf_of_wf d l r ws0 name ws1 e ws2 _ hwf.1.1)
    | raw o body c => exact raw_found d hTS hp o c body _ (blockWf_of_wf_raw d o c body _ hwf.1.1)
    | doc o body c => exact doc_found d hTS hp o c body _ (blockWf_of_wf_doc d o c body _ hwf.1.1)
    | short l r body =>
      obtain ⟨hne, hw⟩ := shortWf_of_wf d l r body _ hwf.1.1
      rcases hC with h | h
      · exact absurd h hne
      · exact short_found d hT hS h.1 h.2 l r body _ hw

/-- lex and parse a template given as a STRING: scanner, tokenizer, parser -/
def nodesOfString (d : Delims) (src : Str) : Except LexError (List Node) :=
  match tokenize {} (scan d src) with
  | .error e => .error e
  | .ok ts => .ok (parse ts)

end LiquidVerif.Lex
