import LiquidVerif.Model.LexScan
import LiquidVerif.Lemmas.Lex
/-!
Lemmas about the string-level scanner `scan` (Model/LexScan.lean): on a well-formed *text* piece the scanner finds
exactly the content match `matchesOf` states, with the look-ahead hyphen of what follows.
-/
namespace LiquidVerif.Lex

theorem stripPrefix_none_of_startsWith : ∀ (p t : Str), startsWith p t = false → stripPrefix? p t = none
  | [], t, h => by simp [startsWith] at h
  | _ :: _, [], _ => rfl
  | x :: p, c :: t, h => by
    simp only [startsWith, Bool.and_eq_false_iff] at h
    simp only [stripPrefix?]
    by_cases hx : (x == c) = true
    · simp only [hx, if_true]
      rcases h with h | h
      · simp [hx] at h
      · exact stripPrefix_none_of_startsWith p t h
    · simp [hx]

/-- no opening delimiter at the head of `t` -/
theorem no_opener {d : Delims} {t : Str} (h : startsMarkup d t = false) :
    stripPrefix? d.tagS t = none ∧ stripPrefix? d.stmtS t = none ∧ (d.cmtS = [] ∨ stripPrefix? d.cmtS t = none) := by
  simp only [startsMarkup, Bool.or_eq_false_iff, Bool.and_eq_false_iff] at h
  refine ⟨stripPrefix_none_of_startsWith _ _ h.1.1, stripPrefix_none_of_startsWith _ _ h.1.2, ?_⟩
  rcases h.2 with h2 | h2
  · left; simpa using h2
  · right; exact stripPrefix_none_of_startsWith _ _ h2

theorem openerAt_none {d : Delims} {t : Str} (h : startsMarkup d t = false) : openerAt? d t = none := by
  obtain ⟨h1, h2, h3⟩ := no_opener h
  unfold openerAt?
  rw [h1, h2]
  rcases h3 with h3 | h3
  · simp [h3]
  · simp [h3]

/-- the lazy content match runs to the end of a well-formed text and sees the hyphen of what follows -/
theorem contentAfter_text (d : Delims) : ∀ (s rest : Str) (la : Bool),
    allSuffixes (fun t => !startsMarkup d t) s rest = true →
    (rest = [] ∧ la = false ∨ rest ≠ [] ∧ openerAt? d rest = some la) →
    contentAfter d (s ++ rest) = (s.length, la)
  | [], rest, la, _, hr => by
    rcases hr with ⟨rfl, rfl⟩ | ⟨hne, hr⟩
    · rfl
    · cases rest with
      | nil => exact absurd rfl hne
      | cons c cs => simp [contentAfter, hr]
  | c :: s, rest, la, h, hr => by
    simp only [allSuffixes, Bool.and_eq_true, Bool.not_eq_true'] at h
    have ih := contentAfter_text d s rest la h.2 hr
    have h1 : openerAt? d (c :: (s ++ rest)) = none := by simpa using openerAt_none h.1
    simp [contentAfter, h1, ih]

/-- **The scanner on text.** At the start of a well-formed text piece `c :: s` followed by `rest` (nothing, or
markup whose opener shows the hyphen `la`), the alternation finds no RAW / DOC / COMMENT / OUTPUT / TAG match and
the content rule matches exactly the text, with look-ahead group `la` — the match `matchesOf` states. -/
theorem matchAt_text (d : Delims) (pos : Nat) (c : Char) (s rest : Str) (la : Bool)
    (hwf : allSuffixes (fun t => !startsMarkup d t) (c :: s) rest = true)
    (hrest : rest = [] ∧ la = false ∨ rest ≠ [] ∧ openerAt? d rest = some la) :
    matchAt d pos c (s ++ rest) = pieceMatch d pos la (.text (c :: s)) := by
  simp only [allSuffixes, Bool.and_eq_true, Bool.not_eq_true'] at hwf
  obtain ⟨h1, h2, h3⟩ := no_opener hwf.1
  have h1' : stripPrefix? d.tagS (c :: (s ++ rest)) = none := by simpa using h1
  have h2' : stripPrefix? d.stmtS (c :: (s ++ rest)) = none := by simpa using h2
  have hca := contentAfter_text d s rest la hwf.2 hrest
  have hraw : blockAt? d kwRaw kwEndraw (c :: (s ++ rest)) = none := by simp [blockAt?, kwTagAt?, h1']
  have hdoc : blockAt? d kwDoc kwEnddoc (c :: (s ++ rest)) = none := by simp [blockAt?, kwTagAt?, h1']
  have htake : List.take (s.length + 1) (c :: (s ++ rest)) = c :: s := by simp
  rcases h3 with h3 | h3
  · simp [matchAt, hraw, hdoc, h1', h2', h3, hca, pieceMatch, Piece.src, htake]
  · have h3' : stripPrefix? d.cmtS (c :: (s ++ rest)) = none := by simpa using h3
    by_cases hc : d.cmtS = []
    · simp [matchAt, hraw, hdoc, h1', h2', hc, hca, pieceMatch, Piece.src, htake]
    · simp [matchAt, hraw, hdoc, h1', h2', hc, h3', hca, pieceMatch, Piece.src, htake]

/-! ## from pieces to the whole source -/

/-- "the scanner finds markup piece `p` when `rest` follows": at the start of `p`'s source the alternation yields
the match `matchesOf` states, and a content match ending just before `p` sees `p`'s opening hyphen -/
def MarkupFound (d : Delims) (p : Piece) (rest : Str) : Prop :=
  p.src d ≠ [] ∧
  (∀ pos la, ∃ c r, p.src d ++ rest = c :: r ∧ matchAt d pos c r = pieceMatch d pos la p) ∧
  openerAt? d (p.src d ++ rest) = some p.openHyphen

/-- every markup piece of the list is found in its context -/
def AllMarkupFound (d : Delims) : List Piece → Prop
  | [] => True
  | p :: rest => (p.isText = false → MarkupFound d p (assemble d rest)) ∧ AllMarkupFound d rest

theorem pieceMatch_stop (d : Delims) (pos : Nat) (la : Bool) (p : Piece) :
    (pieceMatch d pos la p).stop = pos + (p.src d).length := by
  cases p <;> rfl

theorem scanFrom_cons (d : Delims) (pos : Nat) (c : Char) (r : Str) :
    scanFrom d pos (c :: r) =
      matchAt d pos c r ::
        scanFrom d (pos + (((matchAt d pos c r).stop - pos - 1) + 1)) (r.drop ((matchAt d pos c r).stop - pos - 1)) := by
  rw [scanFrom]

/-- **String level, reduced to single markup pieces.** For a well-formed piece list in which every markup piece is
found by the scanner in its context, scanning the assembled *string* yields exactly `matchesOf`: text pieces are
handled here for every delimiter set (`matchAt_text`), the positions add up, and nothing is skipped. -/
theorem scan_assemble (d : Delims) : ∀ (ps : List Piece) (pos : Nat), srcWf d ps = true → AllMarkupFound d ps →
    scanFrom d pos (assemble d ps) = matchesOf d pos ps
  | [], pos, _, _ => by simp [assemble, scanFrom, matchesOf]
  | p :: rest, pos, hwf, hall => by
    simp only [srcWf, Bool.and_eq_true] at hwf
    obtain ⟨⟨hp, hadj⟩, hrestwf⟩ := hwf
    obtain ⟨hfound, hallrest⟩ := hall
    have ih := scan_assemble d rest (pos + (p.src d).length) hrestwf hallrest
    by_cases ht : p.isText = true
    · cases p with
      | text s =>
        cases s with
        | nil => simp [Piece.wf] at hp
        | cons c s' =>
          simp only [Piece.wf, Bool.and_eq_true] at hp
          -- what follows: nothing, or a markup piece that is found
          have hrest : (assemble d rest = [] ∧ nextOpen rest = false) ∨
              (assemble d rest ≠ [] ∧ openerAt? d (assemble d rest) = some (nextOpen rest)) := by
            cases rest with
            | nil => left; exact ⟨rfl, rfl⟩
            | cons q rest' =>
              right
              have hq : q.isText = false := by simpa [Piece.isText] using hadj
              obtain ⟨hne, _, hop⟩ := hallrest.1 hq
              refine ⟨?_, by simpa [assemble, nextOpen] using hop⟩
              intro h0
              simp only [assemble, List.append_eq_nil_iff] at h0
              exact hne h0.1
          have hm := matchAt_text d pos c s' (assemble d rest) (nextOpen rest) hp.2 hrest
          have hsrc : assemble d (Piece.text (c :: s') :: rest) = c :: (s' ++ assemble d rest) := by
            simp [assemble, Piece.src]
          rw [hsrc, scanFrom_cons, hm, matchesOf_cons, pieceMatch_stop]
          have hlen : (Piece.src d (Piece.text (c :: s'))).length = s'.length + 1 := by simp [Piece.src]
          have h1 : pos + (Piece.src d (Piece.text (c :: s'))).length - pos - 1 = s'.length := by omega
          rw [h1, List.drop_left' rfl, ← hlen]
          exact congrArg _ ih
      | _ => simp [Piece.isText] at ht
    · have ht' : p.isText = false := by simpa using ht
      obtain ⟨hne, hm, _⟩ := hfound ht'
      obtain ⟨c, r, hsrc, hmatch⟩ := hm pos (nextOpen rest)
      have hsrc' : assemble d (p :: rest) = c :: r := by simpa [assemble] using hsrc
      rw [hsrc', scanFrom_cons, hmatch, matchesOf_cons, pieceMatch_stop]
      have hpos : 0 < (p.src d).length := List.length_pos_iff.mpr hne
      have h1 : pos + (p.src d).length - pos - 1 = (p.src d).length - 1 := by omega
      have hdrop : r.drop ((p.src d).length - 1) = assemble d rest := by
        have : (c :: r).drop (p.src d).length = assemble d rest := by rw [← hsrc]; simp
        have h2 : (p.src d).length = ((p.src d).length - 1) + 1 := by omega
        rw [h2, List.drop_succ_cons] at this
        exact this
      rw [h1, hdrop]
      have h3 : pos + ((p.src d).length - 1 + 1) = pos + (p.src d).length := by omega
      rw [h3]
      exact congrArg _ ih

/-- lex and parse a template given as a STRING: scanner, tokenizer, parser -/
def nodesOfString (d : Delims) (src : Str) : Except LexError (List Node) :=
  match tokenize {} (scan d src) with
  | .error e => .error e
  | .ok ts => .ok (parse ts)

end LiquidVerif.Lex
