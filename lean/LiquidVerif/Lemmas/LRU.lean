import LiquidVerif.Model.LRU
/-! Helper lemmas for the LRU model (C24). -/
namespace LiquidVerif.LRU

theorem find_none_iff {l : List (Nat × Nat)} {k : Nat} : find l k = none ↔ k ∉ keysOf l := by
  induction l with
  | nil => simp [find, keysOf]
  | cons p r ih =>
    obtain ⟨k', v⟩ := p
    by_cases h : k' = k
    · subst h; simp [find, keysOf]
    · have h' : (k' == k) = false := by simpa using h
      simp only [find, h', keysOf, List.map_cons, List.mem_cons] at *
      constructor
      · intro hf; rintro (he | hm)
        · exact h he.symm
        · exact (ih.mp hf) hm
      · intro hn; exact ih.mpr (fun hm => hn (Or.inr hm))

theorem find_some_mem {l : List (Nat × Nat)} {k v : Nat} (h : find l k = some v) : (k, v) ∈ l := by
  induction l with
  | nil => simp [find] at h
  | cons p r ih =>
    obtain ⟨k', v'⟩ := p
    by_cases hk : k' = k
    · subst hk; simp [find] at h; subst h; simp
    · have h' : (k' == k) = false := by simpa using hk
      simp only [find, h'] at h
      exact List.mem_cons_of_mem _ (ih h)

theorem keysOf_eraseKey (l : List (Nat × Nat)) (k : Nat) :
    keysOf (eraseKey l k) = (keysOf l).filter (· != k) := by
  induction l with
  | nil => rfl
  | cons p r ih =>
    obtain ⟨k', v⟩ := p
    by_cases h : k' = k
    · subst h; simpa [eraseKey, keysOf] using ih
    · have h' : (k' != k) = true := by simpa using h
      simp only [eraseKey, keysOf, List.filter_cons, h', List.map_cons] at *
      simp [ih]

theorem find_eraseKey_self (l : List (Nat × Nat)) (k : Nat) : find (eraseKey l k) k = none := by
  rw [find_none_iff, keysOf_eraseKey]; simp

theorem find_eraseKey_ne (l : List (Nat × Nat)) {k k' : Nat} (h : k' ≠ k) :
    find (eraseKey l k) k' = find l k' := by
  induction l with
  | nil => rfl
  | cons p r ih =>
    obtain ⟨a, v⟩ := p
    by_cases ha : a = k
    · subst ha
      have h1 : (a == k') = false := by simpa using (Ne.symm h)
      simp [eraseKey, find, h1] at *
      exact ih
    · have h2 : (a != k) = true := by simpa using ha
      have e : eraseKey ((a, v) :: r) k = (a, v) :: eraseKey r k := by
        simp [eraseKey, List.filter_cons, h2]
      rw [e]
      by_cases hk : a = k'
      · simp [find, hk]
      · have : (a == k') = false := by simpa using hk
        simp only [find, this]; exact ih

theorem find_append_single (l : List (Nat × Nat)) (k v k' : Nat) :
    find (l ++ [(k, v)]) k' = match find l k' with
      | some w => some w
      | none => if k == k' then some v else none := by
  induction l with
  | nil => simp [find]
  | cons p r ih =>
    obtain ⟨a, w⟩ := p
    by_cases ha : (a == k') = true
    · simp [find, ha]
    · have : (a == k') = false := by simpa using ha
      simp only [List.cons_append, find, this]
      exact ih

theorem length_eraseKey_le (l : List (Nat × Nat)) (k : Nat) : (eraseKey l k).length ≤ l.length :=
  List.length_filter_le _ _

theorem length_eraseKey_lt {l : List (Nat × Nat)} {k v : Nat} (h : find l k = some v) :
    (eraseKey l k).length < l.length := by
  unfold eraseKey
  apply List.length_filter_lt_length_iff_exists.mpr
  exact ⟨(k, v), find_some_mem h, by simp⟩

theorem eraseKey_of_not_mem {l : List (Nat × Nat)} {k : Nat} (h : find l k = none) : eraseKey l k = l := by
  rw [find_none_iff] at h
  unfold eraseKey
  apply List.filter_eq_self.mpr
  intro p hp
  have : p.1 ≠ k := fun e => h (e ▸ List.mem_map_of_mem (f := (·.1)) hp)
  simpa using this

theorem nodup_keys_eraseKey {l : List (Nat × Nat)} (k : Nat) (h : (keysOf l).Nodup) :
    (keysOf (eraseKey l k)).Nodup := by
  rw [keysOf_eraseKey]; exact h.filter _

theorem nodup_keys_append {l : List (Nat × Nat)} {k v : Nat} (h : (keysOf l).Nodup) (hk : find l k = none) :
    (keysOf (l ++ [(k, v)])).Nodup := by
  rw [find_none_iff] at hk
  simp only [keysOf, List.map_append, List.map_cons, List.map_nil] at *
  rw [List.nodup_append]
  refine ⟨h, by simp, ?_⟩
  intro a ha b hb
  simp at hb; subst hb
  intro e; subst e; exact hk ha

theorem nodup_keys_tail {l : List (Nat × Nat)} (h : (keysOf l).Nodup) : (keysOf l.tail).Nodup := by
  cases l with
  | nil => simpa using h
  | cons p r => simp only [keysOf, List.map_cons, List.tail_cons] at *; exact (List.nodup_cons.mp h).2

theorem find_tail_none {l : List (Nat × Nat)} {k : Nat} (h : find l k = none) : find l.tail k = none := by
  rw [find_none_iff] at *
  cases l with
  | nil => simpa using h
  | cons p r => simp only [keysOf, List.map_cons, List.tail_cons, List.mem_cons] at *; exact fun hm => h (Or.inr hm)

end LiquidVerif.LRU

namespace LiquidVerif.LRU

theorem find_of_mem {l : List (Nat × Nat)} {k v : Nat} (hn : (keysOf l).Nodup) (hm : (k, v) ∈ l) :
    find l k = some v := by
  induction l with
  | nil => cases hm
  | cons p r ih =>
    obtain ⟨a, b⟩ := p
    simp only [keysOf, List.map_cons] at hn
    have ⟨hna, hnr⟩ := List.nodup_cons.mp hn
    rcases List.mem_cons.mp hm with e | hm'
    · cases e; simp [find]
    · have hak : a ≠ k := by
        intro e; subst e
        exact hna (List.mem_map_of_mem (f := (·.1)) hm')
      have : (a == k) = false := by simpa using hak
      simp only [find, this]
      exact ih hnr hm'

theorem keysOf_reverse (l : List (Nat × Nat)) : keysOf l.reverse = (keysOf l).reverse := by
  simp [keysOf, List.map_reverse]

theorem find_reverse {l : List (Nat × Nat)} (hn : (keysOf l).Nodup) (k : Nat) :
    find l.reverse k = find l k := by
  cases hf : find l k with
  | none =>
    rw [find_none_iff] at *
    rw [keysOf_reverse]; simpa using hf
  | some v =>
    apply find_of_mem
    · rw [keysOf_reverse]
      unfold List.Nodup at *
      rw [List.pairwise_reverse]
      exact hn.imp (fun h => Ne.symm h)
    · exact List.mem_reverse.mpr (find_some_mem hf)

theorem eraseKey_reverse (l : List (Nat × Nat)) (k : Nat) : eraseKey l.reverse k = (eraseKey l k).reverse := by
  simp [eraseKey, List.filter_reverse]

end LiquidVerif.LRU
