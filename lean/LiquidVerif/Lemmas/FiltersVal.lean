import LiquidVerif.Lemmas.Filters
import LiquidVerif.Lemmas.FiltersArr
import LiquidVerif.Lemmas.Dec
/-! Helper lemmas for C25 at the level of `Val` (sequence coercion, keyed filters, Python slicing). -/
namespace LiquidVerif.Filters

theorem flatten_no_lists (l : Nat) (xs : List Val) (h : ∀ x ∈ xs, ∀ ys, x ≠ .list ys) : flatten l xs = xs := by
  induction xs with
  | nil => rfl
  | cons x r ih =>
    have hx := h x (by simp)
    have : flattenItem l x = [x] := by
      cases x with
      | list ys => exact absurd rfl (hx ys)
      | _ => rfl
    simp [flatten, this, ih (fun y hy => h y (by simp [hy]))]

theorem mapM_map_ok {α β γ ε} (f : β → Except ε γ) (g : α → β) (k : α → γ) (h : ∀ x, f (g x) = .ok (k x))
    (xs : List α) : mapM' f (xs.map g) = .ok (xs.map k) := by
  induction xs with
  | nil => rfl
  | cons x r ih => simp only [List.map, mapM', h, ih]

theorem filterM_map_ok {α β ε} (f : β → Except ε Bool) (g : α → β) (p : α → Bool) (h : ∀ x, f (g x) = .ok (p x))
    (xs : List α) : filterM' f (xs.map g) = .ok ((xs.filter p).map g) := by
  induction xs with
  | nil => rfl
  | cons x r ih =>
    simp only [List.map, filterM', h, ih, List.filter]
    cases p x <;> rfl

theorem seqOf_strs (ws : List Str) : seqOf (.list (ws.map .str)) = ws.map .str := by
  apply flatten_no_lists
  intro x hx ys
  obtain ⟨w, _, rfl⟩ := List.mem_map.1 hx
  exact fun h => by cases h

theorem fJoin_strs (ws : List Str) (sep : Str) : fJoin (.list (ws.map .str)) (.str sep) = .ok (.str (joinStr sep ws)) := by
  have hm : mapM' strItem (ws.map Val.str) = .ok ws := by
    have := mapM_map_ok strItem Val.str id (fun _ => rfl) ws
    simpa using this
  unfold fJoin
  rw [seqOf_strs, hm]
  rfl

theorem pySorted_spec (k : Val → Key) (xs ys : List Val) (h : pySorted k xs = .ok ys)
    (hpos : ∀ x ∈ xs, ∀ n d, k x = .num n d → 0 < d) :
    ys.Perm xs ∧ ys.Pairwise (fun a b => keyLt (k b) (k a) = false) ∧
    (∀ p : Val → Bool, (∀ a b, p a = true → p b = true → keyLt (k a) (k b) = false) → ys.filter p = xs.filter p) := by
  unfold pySorted at h
  split at h
  · rename_i hlen
    cases h
    refine ⟨List.Perm.refl _, ?_, fun _ _ => rfl⟩
    match xs, hlen with
    | [], _ => simp
    | [x], _ => simp
  · split at h
    · rename_i hall
      cases h
      refine ⟨sortBy_perm _ _, ?_, fun p hp => sortBy_stable _ p hp xs⟩
      have hall' : (xs.all fun x => (k x).isNum) = true ∨ (xs.all fun x => (k x).isStr) = true := by
        simpa [Bool.or_eq_true] using hall
      rcases hall' with hnum | hstr
      · -- all keys numeric
        have hS : ∀ y ∈ xs, (fun x => ∃ n d, k x = .num n d ∧ 0 < d) y := by
          intro y hy
          have := List.all_eq_true.1 hnum y hy
          cases hk : k y with
          | num n d => exact ⟨n, d, rfl, hpos y hy n d hk⟩
          | _ => simp [hk, Key.isNum] at this
        refine sortBy_sorted _ (fun x => ∃ n d, k x = .num n d ∧ 0 < d) ?_ ?_ xs hS
        · rintro a b ⟨n1, d1, h1, _⟩ ⟨n2, d2, h2, _⟩ hlt
          simp only [h1, h2, keyLt] at *
          exact ratLt_asymm _ _ _ _ hlt
        · rintro a b c ⟨n1, d1, h1, p1⟩ ⟨n2, d2, h2, p2⟩ ⟨n3, d3, h3, p3⟩ hab hbc
          simp only [h1, h2, h3, keyLt] at *
          exact ratLt_ntrans _ _ _ _ _ _ p1 p2 p3 hab hbc
      · -- all keys strings
        have hS : ∀ y ∈ xs, (fun x => ∃ s, k x = .str s) y := by
          intro y hy
          have := List.all_eq_true.1 hstr y hy
          cases hk : k y with
          | str s => exact ⟨s, rfl⟩
          | _ => simp [hk, Key.isStr] at this
        refine sortBy_sorted _ (fun x => ∃ s, k x = .str s) ?_ ?_ xs hS
        · rintro a b ⟨s1, h1⟩ ⟨s2, h2⟩ hlt
          simp only [h1, h2, keyLt] at *
          exact strLt_asymm _ _ hlt
        · rintro a b c ⟨s1, h1⟩ ⟨s2, h2⟩ ⟨s3, h3⟩ hab hbc
          simp only [h1, h2, h3, keyLt] at *
          exact strLt_ntrans _ _ _ hab hbc
    · split at h <;> cases h

theorem seqOf_dicts (ds : List (List (Str × Val))) : seqOf (.list (ds.map .dict)) = ds.map .dict := by
  apply flatten_no_lists
  intro x hx ys
  obtain ⟨w, _, rfl⟩ := List.mem_map.1 hx
  exact fun h => by cases h

theorem filterM_total {α ε} (g : α → Bool) (xs : List α) :
    filterM' (fun x => (Except.ok (g x) : Except ε Bool)) xs = .ok (xs.filter g) := by
  induction xs with
  | nil => rfl
  | cons x r ih => cases hg : g x <;> simp [filterM', ih, hg]

/-- the test `where`/`reject` apply to a dict item -/
def dictTest (a : Str) (value : Val) (kvs : List (Str × Val)) : Bool :=
  attrTest value true ((lookup a kvs).getD .nil)

theorem attrTest_neg (value got : Val) : attrTest value false got = !attrTest value true got := by
  cases value <;> simp [attrTest]

/-- Python slicing with a non-negative start and `length` items -/
theorem pySlice_nonneg {α} (xs : List α) (st ln : Nat) :
    pySlice xs (st : Int) (some ((st : Int) + (ln : Int))) = (xs.drop st).take ln := by
  simp only [pySlice]
  have h1 : ¬ ((st : Int) < 0) := by omega
  have h2 : ¬ ((st : Int) + (ln : Int) < 0) := by omega
  simp only [h1, h2, if_false]
  rw [List.drop_take]
  have e1 : (min (st : Int) (xs.length : Int)).toNat = min st xs.length := by omega
  have e2 : (min ((st : Int) + (ln : Int)) (xs.length : Int)).toNat = min (st + ln) xs.length := by omega
  rw [e1, e2]
  by_cases hle : st ≤ xs.length
  · rw [Nat.min_eq_left hle]
    apply List.ext_getElem
    · simp; omega
    · intro i h3 h4
      simp
  · have h5 : xs.drop st = [] := List.drop_eq_nil_of_le (by omega)
    have h6 : xs.drop (min st xs.length) = [] := List.drop_eq_nil_of_le (by omega)
    simp [h5, h6]

theorem ratLt_irrefl (a : Int) (b : Nat) : ratLt a b a b = false := by simp [ratLt]



theorem pySlice_neg {α} (xs : List α) (k ln : Nat) (hk : 0 < k) (hk2 : k ≤ xs.length) :
    pySlice xs (-(k : Int)) (if -(k : Int) < 0 ∧ 0 ≤ -(k : Int) + (ln : Int) then none else some (-(k : Int) + (ln : Int)))
      = (xs.drop (xs.length - k)).take ln := by
  have hneg : -(k : Int) < 0 := by omega
  by_cases hc : 0 ≤ -(k : Int) + (ln : Int)
  · have : (-(k : Int) < 0 ∧ 0 ≤ -(k : Int) + (ln : Int)) := ⟨hneg, hc⟩
    rw [if_pos this]
    simp only [pySlice, hneg, if_true]
    have e1 : (max (-(k : Int) + (xs.length : Int)) 0).toNat = xs.length - k := by omega
    have e2 : ((xs.length : Int)).toNat = xs.length := by omega
    rw [e1, e2, List.take_length]
    rw [List.take_of_length_le]
    simp; omega
  · have : ¬ (-(k : Int) < 0 ∧ 0 ≤ -(k : Int) + (ln : Int)) := fun h => hc h.2
    have hlt : -(k : Int) + (ln : Int) < 0 := by omega
    rw [if_neg this]
    simp only [pySlice, hneg, hlt, if_true]
    have e1 : (max (-(k : Int) + (xs.length : Int)) 0).toNat = xs.length - k := by omega
    have e2 : (max (-(k : Int) + (ln : Int) + (xs.length : Int)) 0).toNat = xs.length - k + ln := by omega
    rw [e1, e2, List.drop_take]
    congr 1
    omega


end LiquidVerif.Filters
