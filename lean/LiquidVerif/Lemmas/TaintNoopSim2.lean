import LiquidVerif.Lemmas.TaintNoopSim
/-! Two-run simulation, part 2: every admitted filter (`FName.noopOk`). -/
namespace LiquidVerif.Taint
open LiquidVerif.Escape
open LiquidVerif.Filters (upcase downcase capitalize lstrip rstrip strip joinStr)

theorem joinSep_sim {P : Prims} (hP : PClean P) {args : List Val} (ha : ∀ a ∈ args, a.NoSp) :
    joinSep P false (args.map Val.plain) = plT (joinSep P true args) ∧ NoSp (joinSep P true args).chars := by
  have key : ∀ sep0 : TStr, NoSp sep0.chars →
      (if (false && (plT sep0).chars == [' ']) = true then (⟨[' '], true⟩ : TStr) else plT sep0)
        = plT (if (true && sep0.chars == [' ']) = true then (⟨[' '], true⟩ : TStr) else sep0) ∧
      NoSp (if (true && sep0.chars == [' ']) = true then (⟨[' '], true⟩ : TStr) else sep0).chars := by
    intro sep0 h0
    by_cases h : sep0.chars = [' ']
    · simp [plT, h]
      exact isNoSp_iff.mp (by decide)
    · simp [plT, h]; exact h0
  rcases args with _ | ⟨a, _ | ⟨b, r⟩⟩
  · exact key ⟨[' '], false⟩ (isNoSp_iff.mp (by decide))
  · have h1 := argS_plain hP (ha a (by simp))
    have h2 := argS_nosp hP (ha a (by simp))
    simp only [joinSep, List.map_cons, List.map_nil, h1]
    exact key (argS P a) h2
  · exact key ⟨[' '], false⟩ (isNoSp_iff.mp (by decide))

theorem defaultArg_sim {args : List Val} (ha : ∀ a ∈ args, a.NoSp) :
    defaultArg (args.map Val.plain) = (defaultArg args).plain ∧ (defaultArg args).NoSp := by
  rcases args with _ | ⟨a, _ | ⟨b, r⟩⟩
  · exact ⟨rfl, nosp_nil⟩
  · exact ⟨rfl, ha a (by simp)⟩
  · exact ⟨rfl, nosp_nil⟩

theorem getLast?_plT (xs : List TStr) : (xs.map plT).getLast? = xs.getLast?.map plT := by
  simp [List.getLast?_map]

/-- **every admitted filter commutes with dropping the flags** on special-free values -/
theorem applyFilter_sim {P : Prims} (hP : PClean P) {f : FName} (hf : f.noopOk = true) {v : Val} {args : List Val}
    (hv : v.NoSp) (ha : ∀ a ∈ args, a.NoSp) :
    SimR (applyFilter P true f v args) (applyFilter P false f v.plain (args.map Val.plain)) := by
  have hs := recvS_nosp hP hv
  have hsp := recvS_plain hP hv
  have hcl := (nosp_iff.mp hs).1
  cases f <;> first | (simp [FName.noopOk] at hf; done) | skip
  case append =>
    rcases args with _ | ⟨a, _ | ⟨b, r⟩⟩ <;> simp only [applyFilter, List.map_cons, List.map_nil] <;> try exact simR_err _
    rw [hsp, argS_plain hP (ha a (by simp))]
    exact simR_okS (mixAdd_plT hs (argS_nosp hP (ha a (by simp)))) (mixAdd_nosp hs (argS_nosp hP (ha a (by simp))))
  case prepend =>
    rcases args with _ | ⟨a, _ | ⟨b, r⟩⟩ <;> simp only [applyFilter, List.map_cons, List.map_nil] <;> try exact simR_err _
    rw [hsp, argS_plain hP (ha a (by simp))]
    exact simR_okS (mixAdd_plT (argS_nosp hP (ha a (by simp))) hs) (mixAdd_nosp (argS_nosp hP (ha a (by simp))) hs)
  case upcase =>
    rcases args with _ | ⟨a, r⟩ <;> simp only [applyFilter, List.map_cons, List.map_nil] <;> try exact simR_err _
    rw [hsp]; exact simR_okS rfl (nosp_upcase hs)
  case downcase =>
    rcases args with _ | ⟨a, r⟩ <;> simp only [applyFilter, List.map_cons, List.map_nil] <;> try exact simR_err _
    rw [hsp]; exact simR_okS rfl (nosp_downcase hs)
  case capitalize =>
    rcases args with _ | ⟨a, r⟩ <;> simp only [applyFilter, List.map_cons, List.map_nil] <;> try exact simR_err _
    rw [hsp]; exact simR_okS rfl (nosp_capitalize hs)
  case lstrip =>
    rcases args with _ | ⟨a, r⟩ <;> simp only [applyFilter, List.map_cons, List.map_nil] <;> try exact simR_err _
    rw [hsp]; exact simR_okS rfl (nosp_lstrip hs)
  case rstrip =>
    rcases args with _ | ⟨a, r⟩ <;> simp only [applyFilter, List.map_cons, List.map_nil] <;> try exact simR_err _
    rw [hsp]; exact simR_okS rfl (nosp_rstrip hs)
  case strip =>
    rcases args with _ | ⟨a, r⟩ <;> simp only [applyFilter, List.map_cons, List.map_nil] <;> try exact simR_err _
    rw [hsp]; exact simR_okS rfl (nosp_strip hs)
  case escape =>
    rcases args with _ | ⟨a, r⟩ <;> simp only [applyFilter, List.map_cons, List.map_nil] <;> try exact simR_err _
    rw [hsp]
    simp only [plT, if_true, Bool.false_eq_true, if_false, escape_noop hs, htmlEscape_noop hs]
    exact simR_okS rfl hs
  case escape_once =>
    rcases args with _ | ⟨a, r⟩ <;> simp only [applyFilter, List.map_cons, List.map_nil] <;> try exact simR_err _
    rw [hsp]
    simp only [plT, if_true, Bool.false_eq_true, if_false, hP.unescape _ hs, htmlEscape_noop hs]
    exact simR_okS rfl hs
  case strip_html =>
    rcases args with _ | ⟨a, r⟩ <;> simp only [applyFilter, List.map_cons, List.map_nil] <;> try exact simR_err _
    rw [hsp]
    simp only [plT, not_contains_lt hcl, Bool.false_and, Bool.false_eq_true, if_false, Bool.true_and]
    exact simR_okS rfl hs
  case strip_newlines =>
    rcases args with _ | ⟨a, r⟩ <;> simp only [applyFilter, List.map_cons, List.map_nil] <;> try exact simR_err _
    rw [hsp]
    simp only [plT, if_true, Bool.false_eq_true, if_false, escT_noop hs]
    exact simR_okS rfl (nosp_subNewlines_nil hs)
  case url_encode =>
    rcases args with _ | ⟨a, r⟩ <;> simp only [applyFilter, List.map_cons, List.map_nil] <;> try exact simR_err _
    rw [hsp]; exact simR_okS rfl (nosp_quotePlus _)
  case escapejs =>
    rcases args with _ | ⟨a, r⟩ <;> simp only [applyFilter, List.map_cons, List.map_nil] <;> try exact simR_err _
    rw [hsp]; exact simR_okS rfl (nosp_jsEscape _)
  case safe =>
    rcases args with _ | ⟨a, r⟩ <;> simp only [applyFilter, List.map_cons, List.map_nil] <;> try exact simR_err _
    rw [hsp]
    simp only [plT, Bool.true_or, Bool.false_or]
    exact simR_okS rfl hs
  case base64_encode =>
    rcases args with _ | ⟨a, r⟩ <;> simp only [applyFilter, List.map_cons, List.map_nil] <;> try exact simR_err _
    rw [hsp]
    simp only [plT, b64Kind]
    cases hb : P.b64 0 (recvS P v).chars with
    | none => exact simR_err _
    | some r => exact simR_okS rfl (hP.b64enc _ r hs (Or.inl hb))
  case base64_url_safe_encode =>
    rcases args with _ | ⟨a, r⟩ <;> simp only [applyFilter, List.map_cons, List.map_nil] <;> try exact simR_err _
    rw [hsp]
    simp only [plT, b64Kind]
    cases hb : P.b64 2 (recvS P v).chars with
    | none => exact simR_err _
    | some r => exact simR_okS rfl (hP.b64enc _ r hs (Or.inr hb))
  case join =>
    obtain ⟨hj1, hj2⟩ := joinSep_sim hP ha
    rcases args with _ | ⟨a, _ | ⟨b, r⟩⟩ <;> simp only [applyFilter, List.map_cons, List.map_nil] <;> try exact simR_err _
    all_goals
      simp only [List.map_cons, List.map_nil] at hj1
      rw [seqOf_plain, hj1]
      cases hq : seqOf P v with
      | none => exact simR_err _
      | some items =>
        simp only [Option.map_some]
        exact simR_okS (joinT_plT (seqOf_nosp P hv hq)) (joinT_nosp hj2 (seqOf_nosp P hv hq))
  case first =>
    rcases args with _ | ⟨a, r⟩ <;> simp only [applyFilter, List.map_cons, List.map_nil] <;> try exact simR_err _
    cases v with
    | arr xs =>
      cases xs with
      | nil => exact simR_ok rfl trivial
      | cons x r => exact simR_okS rfl (hv x (by simp))
    | undef => exact simR_ok rfl trivial
    | _ => exact simR_ok rfl trivial
  case last =>
    rcases args with _ | ⟨a, r⟩ <;> simp only [applyFilter, List.map_cons, List.map_nil] <;> try exact simR_err _
    cases v with
    | arr xs =>
      show SimR (match xs.getLast? with | some x => okS x | none => .ok .nil)
                (match (xs.map plT).getLast? with | some x => okS x | none => .ok .nil)
      rw [getLast?_plT]
      cases hl : xs.getLast? with
      | none => exact simR_ok (a := .nil) rfl trivial
      | some x => exact simR_okS rfl (hv x (List.mem_of_getLast? hl))
    | undef => exact simR_ok (a := .undef) rfl trivial
    | _ => exact simR_ok (a := .nil) rfl trivial
  case reverse =>
    rcases args with _ | ⟨a, r⟩ <;> simp only [applyFilter, List.map_cons, List.map_nil] <;> try exact simR_err _
    rw [seqOf_plain]
    cases hq : seqOf P v with
    | none => exact simR_err _
    | some items =>
      simp only [Option.map_some]
      refine simR_ok (by simp [Val.plain, List.map_reverse, plT]) ?_
      intro x hx
      exact seqOf_nosp P hv hq x (List.mem_reverse.mp hx)
  case concat =>
    rcases args with _ | ⟨a, _ | ⟨b, r⟩⟩ <;> simp only [applyFilter, List.map_cons, List.map_nil] <;> try exact simR_err _
    cases a with
    | arr ys =>
      simp only [plain_arr]
      rw [seqOf_plain]
      cases hq : seqOf P v with
      | none => exact simR_err _
      | some items =>
        simp only [Option.map_some]
        refine simR_ok (by simp [Val.plain]; rfl) ?_
        intro x hx
        rcases List.mem_append.mp hx with hx | hx
        · exact seqOf_nosp P hv hq x hx
        · exact ha (.arr ys) (by simp) x hx
    | _ => exact simR_err _
  case default =>
    obtain ⟨hd1, hd2⟩ := defaultArg_sim ha
    rcases args with _ | ⟨a, _ | ⟨b, r⟩⟩ <;> simp only [applyFilter, List.map_cons, List.map_nil] <;> try exact simR_err _
    all_goals
      simp only [List.map_cons, List.map_nil] at hd1
      rw [hd1]
      cases v with
      | str s =>
        simp only [plain_str, isEmptyVal, plT]
        by_cases he : s.chars.isEmpty = true
        · simp only [he, ↓reduceIte]; exact simR_ok rfl hd2
        · simp only [he, ↓reduceIte]; exact simR_ok rfl hv
      | arr xs =>
        cases xs with
        | nil => exact simR_ok rfl hd2
        | cons x r => exact simR_ok rfl hv
      | bool b => cases b <;> first | exact simR_ok rfl hd2 | exact simR_ok rfl hv
      | num n => exact simR_ok rfl hv
      | nil => exact simR_ok rfl hd2
      | undef => exact simR_ok rfl hd2
      | obj h t => exact simR_ok rfl hv
      | other t => exact simR_ok rfl hv

end LiquidVerif.Taint
