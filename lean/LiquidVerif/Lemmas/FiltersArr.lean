import LiquidVerif.Model.Filters
import Mathlib.Tactic.Linarith
/-! Helper lemmas for C25: stable insertion sort, `uniq`, orderings. -/
namespace LiquidVerif.Filters

/-! ### `sortBy` -/

theorem insertBy_perm {α} (lt : α → α → Bool) (x : α) (l : List α) : (insertBy lt x l).Perm (x :: l) := by
  induction l with
  | nil => exact List.Perm.refl _
  | cons y ys ih =>
    simp only [insertBy]
    split
    · exact ((List.Perm.cons y ih).trans (List.Perm.swap x y ys))
    · exact List.Perm.refl _

theorem sortBy_perm {α} (lt : α → α → Bool) (l : List α) : (sortBy lt l).Perm l := by
  induction l with
  | nil => exact List.Perm.refl _
  | cons x xs ih => exact (insertBy_perm lt x _).trans (List.Perm.cons x ih)

/-- "`a` may stand before `b`": `b` is not smaller than `a` -/
def Le {α} (lt : α → α → Bool) (a b : α) : Prop := lt b a = false

theorem insertBy_sorted {α} (lt : α → α → Bool) (S : α → Prop)
    (asymm : ∀ a b, S a → S b → lt a b = true → lt b a = false)
    (ntrans : ∀ a b c, S a → S b → S c → lt a b = false → lt b c = false → lt a c = false)
    (x : α) (l : List α) (hx : S x) (hl : ∀ y ∈ l, S y) (h : l.Pairwise (Le lt)) :
    (insertBy lt x l).Pairwise (Le lt) := by
  induction l with
  | nil => simp [insertBy]
  | cons y ys ih =>
    have hy : S y := hl y (by simp)
    have hys : ∀ z ∈ ys, S z := fun z hz => hl z (by simp [hz])
    rw [List.pairwise_cons] at h
    simp only [insertBy]
    split
    · rename_i hlt
      rw [List.pairwise_cons]
      refine ⟨?_, ih hys h.2⟩
      intro z hz
      have hz' : z ∈ x :: ys := (insertBy_perm lt x ys).mem_iff.1 hz
      cases hz' with
      | head => exact asymm y x hy hx hlt
      | tail _ hz'' => exact h.1 z hz''
    · rename_i hnlt
      have hyx : lt y x = false := by simpa using hnlt
      rw [List.pairwise_cons]
      refine ⟨?_, List.pairwise_cons.2 h⟩
      intro z hz
      cases hz with
      | head => exact hyx
      | tail _ hz' => exact ntrans z y x (hys z hz') hy hx (h.1 z hz') hyx

theorem sortBy_sorted {α} (lt : α → α → Bool) (S : α → Prop)
    (asymm : ∀ a b, S a → S b → lt a b = true → lt b a = false)
    (ntrans : ∀ a b c, S a → S b → S c → lt a b = false → lt b c = false → lt a c = false)
    (l : List α) (hl : ∀ y ∈ l, S y) : (sortBy lt l).Pairwise (Le lt) := by
  induction l with
  | nil => simp [sortBy]
  | cons x xs ih =>
    have hxs : ∀ y ∈ xs, S y := fun y hy => hl y (by simp [hy])
    refine insertBy_sorted lt S asymm ntrans x _ (hl x (by simp)) ?_ (ih hxs)
    intro y hy
    exact hxs y ((sortBy_perm lt xs).mem_iff.1 hy)

/-- stability: items that are pairwise "not smaller" than each other (an equivalence class of the key)
keep their original relative order -/
theorem insertBy_filter {α} (lt : α → α → Bool) (p : α → Bool)
    (hp : ∀ a b, p a = true → p b = true → lt a b = false) (x : α) (l : List α) :
    (insertBy lt x l).filter p = (x :: l).filter p := by
  induction l with
  | nil => rfl
  | cons y ys ih =>
    simp only [insertBy]
    split
    · rename_i hlt
      by_cases hx : p x = true
      · have hy : p y = false := by
          cases hpy : p y with
          | false => rfl
          | true => have := hp y x hpy hx; rw [this] at hlt; cases hlt
        simp only [List.filter_cons, hy, ih, hx]
        simp
      · have hx' : p x = false := by simpa using hx
        simp [List.filter_cons, ih, hx']
    · rfl

theorem sortBy_stable {α} (lt : α → α → Bool) (p : α → Bool)
    (hp : ∀ a b, p a = true → p b = true → lt a b = false) (l : List α) :
    (sortBy lt l).filter p = l.filter p := by
  induction l with
  | nil => rfl
  | cons x xs ih =>
    simp only [sortBy]
    rw [insertBy_filter lt p hp, List.filter_cons, List.filter_cons, ih]

/-! ### orderings -/

theorem ratLt_asymm (a : Int) (b : Nat) (c : Int) (d : Nat) (h : ratLt a b c d = true) : ratLt c d a b = false := by
  simp only [ratLt, decide_eq_true_eq, decide_eq_false_iff_not] at *
  omega

theorem ratLt_ntrans (a : Int) (b : Nat) (c : Int) (d : Nat) (e : Int) (f : Nat)
    (hb : 0 < b) (hd : 0 < d) (hf : 0 < f)
    (h1 : ratLt a b c d = false) (h2 : ratLt c d e f = false) : ratLt a b e f = false := by
  simp only [ratLt, decide_eq_false_iff_not, not_lt] at *
  have hb' : (0 : Int) < b := by exact_mod_cast hb
  have hd' : (0 : Int) < d := by exact_mod_cast hd
  have hf' : (0 : Int) < f := by exact_mod_cast hf
  nlinarith [mul_le_mul_of_nonneg_right h1 hf'.le, mul_le_mul_of_nonneg_right h2 hb'.le]

theorem strLt_irrefl (s : Str) : strLt s s = false := by
  induction s with
  | nil => rfl
  | cons a as ih => simp [strLt, ih]

theorem strLt_asymm (s t : Str) (h : strLt s t = true) : strLt t s = false := by
  induction s generalizing t with
  | nil => cases t <;> simp [strLt] at *
  | cons a as ih =>
    cases t with
    | nil => simp [strLt] at h
    | cons b bs =>
      simp only [strLt] at *
      by_cases h1 : a.toNat < b.toNat
      · have h2 : ¬ b.toNat < a.toNat := by omega
        simp [h1, h2]
      · by_cases h2 : b.toNat < a.toNat
        · simp [h1, h2] at h
        · simp only [h1, h2, if_false] at h ⊢
          exact ih bs h

theorem strLt_ntrans (s t u : Str) (h1 : strLt s t = false) (h2 : strLt t u = false) : strLt s u = false := by
  induction s generalizing t u with
  | nil =>
    cases t with
    | nil => exact h2
    | cons b bs => simp [strLt] at h1
  | cons a as ih =>
    cases u with
    | nil => rfl
    | cons c cs =>
      cases t with
      | nil => simp [strLt] at h2
      | cons b bs =>
        simp only [strLt] at *
        by_cases hab : a.toNat < b.toNat
        · simp [hab] at h1
        · by_cases hba : b.toNat < a.toNat
          · -- b < a
            by_cases hbc : b.toNat < c.toNat
            · simp [hbc] at h2
            · have : ¬ a.toNat < c.toNat := by omega
              by_cases hcb : c.toNat < b.toNat
              · have : c.toNat < a.toNat := by omega
                simp [*]
              · have hca : c.toNat < a.toNat := by omega
                simp [*]
          · -- a = b
            simp only [hab, hba, if_false] at h1
            by_cases hbc : b.toNat < c.toNat
            · simp [hbc] at h2
            · by_cases hcb : c.toNat < b.toNat
              · have h3 : ¬ a.toNat < c.toNat := by omega
                have h4 : c.toNat < a.toNat := by omega
                simp [h3, h4]
              · simp only [hbc, hcb, if_false] at h2
                have h3 : ¬ a.toNat < c.toNat := by omega
                have h4 : ¬ c.toNat < a.toNat := by omega
                simp only [h3, h4, if_false]
                exact ih bs cs h1 h2

/-! ### `uniq` -/

theorem pyEq_refl (a : Val) : pyEq a a = true := by simp [pyEq]
theorem pyEq_symm (a b : Val) (h : pyEq a b = true) : pyEq b a = true := by
  simp only [pyEq, decide_eq_true_eq] at *; exact h.symm
theorem pyEq_trans (a b c : Val) (h1 : pyEq a b = true) (h2 : pyEq b c = true) : pyEq a c = true := by
  simp only [pyEq, decide_eq_true_eq] at *; exact h1.trans h2

theorem uniqFrom_sublist (seen xs : List Val) : (uniqFrom seen xs).Sublist xs := by
  induction xs generalizing seen with
  | nil => exact List.Sublist.slnil
  | cons x r ih =>
    simp only [uniqFrom]
    split
    · exact (ih _).cons x
    · exact (ih _).cons_cons x

/-- nothing kept is `==` to something already seen -/
theorem uniqFrom_not_seen (seen xs : List Val) :
    ∀ y ∈ uniqFrom seen xs, ∀ s ∈ seen, pyEq s y = false := by
  induction xs generalizing seen with
  | nil => simp [uniqFrom]
  | cons x r ih =>
    intro y hy s hs
    simp only [uniqFrom] at hy
    split at hy
    · exact ih (seen ++ [x]) y hy s (by simp [hs])
    · rename_i hany
      cases hy with
      | head =>
        simp only [List.any_eq_true, not_exists, not_and, Bool.not_eq_true] at hany
        exact hany s hs
      | tail _ hy => exact ih (seen ++ [x]) y hy s (by simp [hs])

theorem uniqFrom_pairwise (seen xs : List Val) :
    (uniqFrom seen xs).Pairwise (fun a b => pyEq a b = false) := by
  induction xs generalizing seen with
  | nil => simp [uniqFrom]
  | cons x r ih =>
    simp only [uniqFrom]
    split
    · exact ih _
    · rw [List.pairwise_cons]
      refine ⟨?_, ih _⟩
      intro y hy
      exact uniqFrom_not_seen (seen ++ [x]) r y hy x (by simp)

/-- every item is represented: it is `==` to something seen before or to something kept -/
theorem uniqFrom_cover (seen xs : List Val) :
    ∀ x ∈ xs, (∃ s ∈ seen, pyEq s x = true) ∨ (∃ y ∈ uniqFrom seen xs, pyEq y x = true) := by
  induction xs generalizing seen with
  | nil => simp
  | cons a r ih =>
    intro x hx
    simp only [uniqFrom]
    cases hx with
    | head =>
      split
      · rename_i hany
        simp only [List.any_eq_true] at hany
        exact Or.inl hany
      · exact Or.inr ⟨a, by simp, pyEq_refl a⟩
    | tail _ hx =>
      rcases ih (seen ++ [a]) x hx with ⟨s, hs, hsx⟩ | ⟨y, hy, hyx⟩
      · rw [List.mem_append] at hs
        rcases hs with hs | hs
        · exact Or.inl ⟨s, hs, hsx⟩
        · have : s = a := by simpa using hs
          subst this
          split
          · rename_i hany
            simp only [List.any_eq_true] at hany
            obtain ⟨t, ht, hts⟩ := hany
            exact Or.inl ⟨t, ht, pyEq_trans _ _ _ hts hsx⟩
          · exact Or.inr ⟨s, by simp, hsx⟩
      · split
        · exact Or.inr ⟨y, hy, hyx⟩
        · exact Or.inr ⟨y, by simp [hy], hyx⟩

end LiquidVerif.Filters
