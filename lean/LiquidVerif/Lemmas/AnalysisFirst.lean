import LiquidVerif.Lemmas.Analysis
/-! C19, first sentence without the once-only hypothesis: whatever the de-duplication does, every
variable reference, filter and tag a render can touch is reported — for consistent, acyclic partial trees. -/

namespace LiquidVerif.Analysis

theorem evOk1_iff (st : St) (e : Ev) : evOk1 st e = true ↔
    match e with
    | .get l _ => l ∈ st.vars
    | .filt f => f ∈ st.filters
    | .tag t => ∃ x ∈ st.tags, x.1 = t := by
  cases e with
  | get l exc => simp [evOk1]
  | filt f => simp [evOk1]
  | tag t => simp [evOk1, List.any_eq_true]

theorem evOk1_mono {st st' : St} (h : Mono st st') (e : Ev) (he : evOk1 st e = true) : evOk1 st' e = true := by
  rw [evOk1_iff] at he ⊢
  cases e with
  | get l exc => exact h.vars l he
  | filt f => exact h.filters f he
  | tag t => obtain ⟨x, hx, hxt⟩ := he; exact ⟨x, h.tags x hx, hxt⟩

/-! ### monotonicity and `seen` bookkeeping of the header step, in both modes -/

theorem exprStep_mono (tmpl : Name) (jg : Bool) (st : St) (e : Expr) : Mono st (exprStep tmpl jg st e) := by
  cases jg <;> exact ⟨fun l h => by simp [exprStep, h], fun l h => by simp [exprStep, h],
    fun l h => by simp [exprStep, h], fun l h => by simpa [exprStep] using h⟩

theorem exprStep_seen (tmpl : Name) (jg : Bool) (st : St) (e : Expr) : (exprStep tmpl jg st e).seen = st.seen := rfl

theorem exprs_mono (tmpl : Name) (jg : Bool) (es : List Expr) (st : St) :
    Mono st (es.foldl (exprStep tmpl jg) st) ∧ (es.foldl (exprStep tmpl jg) st).seen = st.seen := by
  induction es generalizing st with
  | nil => exact ⟨Mono.rfl' st, rfl⟩
  | cons e es ih =>
    obtain ⟨h1, h2⟩ := ih (exprStep tmpl jg st e)
    exact ⟨(exprStep_mono tmpl jg st e).trans h1, by rw [List.foldl_cons, h2]; rfl⟩

theorem scopeAdds_mono (xs : List Name) (st : St) :
    Mono st (xs.foldl scopeAdd st) ∧ (xs.foldl scopeAdd st).seen = st.seen := by
  obtain ⟨_, h2, h3, h4, h5, h6, _, _, _⟩ := scopeAdd_fold xs st
  exact ⟨Mono.of_eq h4 h5 h6 h3, h2⟩

theorem markSeen_mono (tmpl : Name) (jg : Bool) (st : St) : Mono st (markSeen tmpl jg st) := by
  unfold markSeen; split <;> exact Mono.of_eq rfl rfl rfl rfl

theorem addTag_mono (h : Hdr) (tmpl : Name) (jg : Bool) (st : St) :
    Mono st (addTag h tmpl jg st) ∧ (addTag h tmpl jg st).seen = st.seen := by
  unfold addTag
  cases h.tag with
  | none => exact ⟨Mono.rfl' st, rfl⟩
  | some tp =>
    obtain ⟨t, p⟩ := tp
    cases jg
    · exact ⟨⟨fun _ h => h, fun _ h => h, fun _ h => h, fun x hx => by simp [hx]⟩, rfl⟩
    · exact ⟨Mono.rfl' st, rfl⟩

theorem hdrStep_mono (h : Hdr) (tmpl : Name) (jg : Bool) (st : St) : Mono st (hdrStep h tmpl jg st) := by
  unfold hdrStep
  exact (markSeen_mono tmpl jg st).trans ((addTag_mono h tmpl jg _).1.trans
    ((exprs_mono tmpl jg h.exprs _).1.trans (scopeAdds_mono h.tscope _).1))

theorem hdrStep_seen_eq (h : Hdr) (tmpl : Name) (jg : Bool) (st : St) :
    (hdrStep h tmpl jg st).seen = (markSeen tmpl jg st).seen := by
  unfold hdrStep
  rw [(scopeAdds_mono h.tscope _).2, (exprs_mono tmpl jg h.exprs _).2, (addTag_mono h tmpl jg _).2]

theorem markSeen_seen (tmpl : Name) (jg : Bool) (st : St) :
    (∀ p ∈ st.seen, p ∈ (markSeen tmpl jg st).seen) ∧
    (∀ p ∈ (markSeen tmpl jg st).seen, p ∈ st.seen ∨ (p = (tmpl, none) ∧ jg = false)) := by
  unfold markSeen; split
  · rename_i hc; simp; grind
  · simp; grind

/-- In normal mode the header step records the node's tag, every Path and every filter of its expressions. -/
theorem hdrStep_first (h : Hdr) (tmpl : Name) (st : St) (A K : List Name) :
    ∀ e ∈ hdrEvents h tmpl A K, evOk1 (hdrStep h tmpl false st) e = true := by
  obtain ⟨a1, a2, a3, a4, a5, a6, a7, a8, a9⟩ := markSeen_facts tmpl st
  obtain ⟨b1, b2, b3, b4, b5, b6, b7, b8, b9⟩ := addTag_facts h tmpl (markSeen tmpl false st)
  obtain ⟨c1, c2, c3, c4, c5, c6, c7, c8⟩ := exprs_fold tmpl h.exprs (addTag h tmpl false (markSeen tmpl false st))
  obtain ⟨d1, d2, d3, d4, d5, d6, d7, d8, d9⟩ :=
    scopeAdd_fold h.tscope (h.exprs.foldl (exprStep tmpl false) (addTag h tmpl false (markSeen tmpl false st)))
  have hvars : (hdrStep h tmpl false st).vars = st.vars ++ h.exprs.flatMap (fun e => e.refs.map (mkLoc tmpl)) := by
    unfold hdrStep; rw [d4, c6, b4, a4]
  have hfilters : (hdrStep h tmpl false st).filters = st.filters ++ h.exprs.flatMap (fun e => e.filters) := by
    unfold hdrStep; rw [d6, c8, b6, a6]
  have htags : (hdrStep h tmpl false st).tags = (addTag h tmpl false (markSeen tmpl false st)).tags := by
    unfold hdrStep; rw [d3, c5]
  intro e he
  unfold hdrEvents at he
  rw [List.mem_append] at he
  rw [evOk1_iff]
  rcases he with he | he
  · have := b9 e he
    rw [evOk_iff] at this
    unfold tagEvents at he
    cases e with
    | tag t => simp only; rw [htags]; exact this
    | get l exc => cases ht : h.tag <;> simp [ht] at he
    | filt f => cases ht : h.tag <;> simp [ht] at he
  · rw [List.mem_flatMap] at he
    obtain ⟨ex, hex, he⟩ := he
    unfold exprEvents at he
    rw [List.mem_append, List.mem_map, List.mem_map] at he
    rcases he with ⟨r, hr, rfl⟩ | ⟨f, hf, rfl⟩
    · simp only; rw [hvars]
      exact List.mem_append_right _ (List.mem_flatMap.2 ⟨ex, hex, List.mem_map.2 ⟨r, hr, rfl⟩⟩)
    · simp only; rw [hfilters]
      exact List.mem_append_right _ (List.mem_flatMap.2 ⟨ex, hex, hf⟩)

/-! ### everything a subtree can emit, whatever the context -/

mutual
def allEvNode : Node → Name → List Ev
  | .plain h cs, tmpl => hdrEvents h tmpl [] [] ++ allEvNodes cs tmpl
  | .part h _ name _ _ body, tmpl => hdrEvents h tmpl [] [] ++ allEvNodes body (if name = "" then tmpl else name)
def allEvNodes : Nodes → Name → List Ev
  | .nil, _ => []
  | .cons n ns, tmpl => allEvNode n tmpl ++ allEvNodes ns tmpl
end

theorem hdr_shape (st : St) (h : Hdr) (tmpl : Name) (A K : List Name)
    (hh : ∀ e ∈ hdrEvents h tmpl [] [], evOk1 st e = true) : ∀ e ∈ hdrEvents h tmpl A K, evOk1 st e = true := by
  intro e he
  unfold hdrEvents at he hh
  rcases List.mem_append.1 he with h1 | h1
  · exact hh e (List.mem_append_left _ h1)
  · obtain ⟨ex, hex, h2⟩ := List.mem_flatMap.1 h1
    unfold exprEvents at h2
    rcases List.mem_append.1 h2 with h3 | h3
    · obtain ⟨r, hr, rfl⟩ := List.mem_map.1 h3
      have := hh (Ev.get (mkLoc tmpl r) (([] : List Name).contains r.root || ([] : List Name).contains r.root))
        (List.mem_append_right _ (List.mem_flatMap.2 ⟨ex, hex, by
          unfold exprEvents; exact List.mem_append_left _ (List.mem_map.2 ⟨r, hr, rfl⟩)⟩))
      rw [evOk1_iff] at this ⊢
      exact this
    · exact hh e (List.mem_append_right _ (List.mem_flatMap.2 ⟨ex, hex, by
        unfold exprEvents; exact List.mem_append_right _ h3⟩))

mutual
theorem reachNode_sub_all (st : St) (n : Node) (tmpl : Name) (A K : List Name) (dis : Bool)
    (hh : ∀ e ∈ allEvNode n tmpl, evOk1 st e = true) : ∀ e ∈ reachNode n tmpl A K dis, evOk1 st e = true := by
  match n with
  | .plain h cs =>
    simp only [allEvNode] at hh
    simp only [reachNode]
    intro e he
    rcases List.mem_append.1 he with h1 | h1
    · exact hdr_shape st h tmpl A K (fun e he => hh e (List.mem_append_left _ he)) e h1
    · exact reachNodes_sub_all st cs tmpl _ _ _ (fun e he => hh e (List.mem_append_right _ he)) e h1
  | .part h iso name argNames bound body =>
    simp only [allEvNode] at hh
    simp only [reachNode]
    intro e he
    split at he
    · cases he
    · rcases List.mem_append.1 he with h1 | h1
      · exact hdr_shape st h tmpl A K (fun e he => hh e (List.mem_append_left _ he)) e h1
      · cases iso with
        | true => exact reachNodes_sub_all st body _ _ _ _ (fun e he => hh e (List.mem_append_right _ he)) e h1
        | false => exact reachNodes_sub_all st body _ _ _ _ (fun e he => hh e (List.mem_append_right _ he)) e h1
theorem reachNodes_sub_all (st : St) (ns : Nodes) (tmpl : Name) (A K : List Name) (dis : Bool)
    (hh : ∀ e ∈ allEvNodes ns tmpl, evOk1 st e = true) : ∀ e ∈ reachNodes ns tmpl A K dis, evOk1 st e = true := by
  match ns with
  | .nil => intro e he; simp [reachNodes] at he
  | .cons n ns =>
    simp only [allEvNodes] at hh
    simp only [reachNodes]
    intro e he
    rcases List.mem_append.1 he with h1 | h1
    · exact reachNode_sub_all st n tmpl A K dis (fun e he => hh e (List.mem_append_left _ he)) e h1
    · exact reachNodes_sub_all st ns tmpl _ K dis (fun e he => hh e (List.mem_append_right _ he)) e h1
end

/-! ### consistent, acyclic trees and the invariant -/

mutual
/-- Every partial node named `nm` carries the body `B nm` (one template per name), has a non-empty name
and does not contain itself. -/
def ConsNode (B : Name → Nodes) : Node → Prop
  | .plain _ cs => ConsNodes B cs
  | .part _ _ name _ _ body => body = B name ∧ name ≠ "" ∧ name ∉ partNamesNodes body ∧ ConsNodes B body
def ConsNodes (B : Name → Nodes) : Nodes → Prop
  | .nil => True
  | .cons n ns => ConsNode B n ∧ ConsNodes B ns
end

def Rec1 (st : St) (n : Node) (tmpl : Name) : Prop := ∀ e ∈ allEvNode n tmpl, evOk1 st e = true
def Rec1s (st : St) (ns : Nodes) (tmpl : Name) : Prop := ∀ e ∈ allEvNodes ns tmpl, evOk1 st e = true

/-- Every partial name in `seen` is either being visited (`P`) or has its whole body recorded. -/
def Inv (st : St) (P : List Name) (B : Name → Nodes) : Prop :=
  ∀ p ∈ st.seen, p.1 ∈ P ∨ Rec1s st (B p.1) p.1

theorem Rec1s.mono {st st' : St} (h : Mono st st') {ns : Nodes} {tmpl : Name} (hr : Rec1s st ns tmpl) :
    Rec1s st' ns tmpl := fun e he => evOk1_mono h e (hr e he)

theorem Inv.mono {st st' : St} {P : List Name} {B : Name → Nodes} (h : Mono st st')
    (hs : ∀ p ∈ st'.seen, p ∈ st.seen ∨ p.1 ∈ P ∨ Rec1s st' (B p.1) p.1) (hi : Inv st P B) : Inv st' P B := by
  intro p hp
  rcases hs p hp with h1 | h1 | h1
  · rcases hi p h1 with h2 | h2
    · exact Or.inl h2
    · exact Or.inr (h2.mono h)
  · exact Or.inl h1
  · exact Or.inr h1

theorem hdrStep_inv (h : Hdr) (tmpl : Name) (jg : Bool) (st : St) (P : List Name) (B : Name → Nodes)
    (htm : jg = false → tmpl ∈ P) (hi : Inv st P B) : Inv (hdrStep h tmpl jg st) P B := by
  refine Inv.mono (hdrStep_mono h tmpl jg st) ?_ hi
  intro p hp
  rw [hdrStep_seen_eq] at hp
  rcases (markSeen_seen tmpl jg st).2 p hp with h1 | ⟨h1, h2⟩
  · exact Or.inl h1
  · exact Or.inr (Or.inl (by rw [h1]; exact htm h2))

/-- What a visit guarantees for the first sentence, in either mode. -/
structure FirstOk (st st' : St) (P : List Name) (B : Name → Nodes) (r : St → Prop) : Prop where
  mono : Mono st st'
  inv : Inv st' P B
  recd : r st'

mutual
theorem visitNode_first (n : Node) (tmpl : Name) (jg : Bool) (st : St) (P : List Name) (B : Name → Nodes)
    (hc : ConsNode B n) (hP : ∀ nm ∈ P, nm ∉ partNamesNode n) (htm : jg = false → tmpl ∈ P)
    (hinv : Inv st P B) (hjg : jg = true → Rec1 st n tmpl) :
    FirstOk st (visitNode n tmpl jg st) P B (fun s => Rec1 s n tmpl) := by
  match n with
  | .plain h cs =>
    simp only [ConsNode] at hc
    simp only [partNamesNode] at hP
    have hm1 := hdrStep_mono h tmpl jg st
    have hi1 := hdrStep_inv h tmpl jg st P B htm hinv
    have hm2 : Mono (hdrStep h tmpl jg st) ((hdrStep h tmpl jg st).modCur (·.push h.bscope)) :=
      Mono.of_eq (St.vars_modCur _ _) (St.globs_modCur _ _) (St.filters_modCur _ _) (St.tags_modCur _ _)
    have hi2 : Inv ((hdrStep h tmpl jg st).modCur (·.push h.bscope)) P B :=
      Inv.mono hm2 (fun p hp => Or.inl (by rw [St.seen_modCur] at hp; exact hp)) hi1
    have ih := visitNodes_first cs tmpl jg ((hdrStep h tmpl jg st).modCur (·.push h.bscope)) P B hc hP htm hi2
      (fun hj e he => evOk1_mono (hm1.trans hm2) e (hjg hj e (by
        simp only [allEvNode]; exact List.mem_append_right _ he)))
    have hm3 : Mono (visitNodes cs tmpl jg ((hdrStep h tmpl jg st).modCur (·.push h.bscope)))
        ((visitNodes cs tmpl jg ((hdrStep h tmpl jg st).modCur (·.push h.bscope))).modCur (·.pop)) :=
      Mono.of_eq (St.vars_modCur _ _) (St.globs_modCur _ _) (St.filters_modCur _ _) (St.tags_modCur _ _)
    simp only [visitNode]
    refine ⟨(hm1.trans hm2).trans (ih.mono.trans hm3), ?_, ?_⟩
    · exact Inv.mono hm3 (fun p hp => Or.inl (by rw [St.seen_modCur] at hp; exact hp)) ih.inv
    · intro e he
      simp only [allEvNode] at he
      rcases List.mem_append.1 he with h1 | h1
      · cases jg with
        | false => exact evOk1_mono (hm2.trans (ih.mono.trans hm3)) e (hdrStep_first h tmpl st [] [] e h1)
        | true =>
          exact evOk1_mono ((hm1.trans hm2).trans (ih.mono.trans hm3)) e (hjg rfl e (by
            simp only [allEvNode]; exact List.mem_append_left _ h1))
      · exact evOk1_mono hm3 e (ih.recd e h1)
  | .part h iso name argNames bound body =>
    simp only [ConsNode] at hc
    obtain ⟨hbody, hne, hacyc, hcb⟩ := hc
    simp only [partNamesNode] at hP
    have hnameP : name ∉ P := fun hh => hP name hh List.mem_cons_self
    have hPb : ∀ nm ∈ P, nm ∉ partNamesNodes body := fun nm hnm hh => hP nm hnm (List.mem_cons_of_mem _ hh)
    have htm' : (if name = "" then tmpl else name) = name := by rw [if_neg hne]
    have hm1 := hdrStep_mono h tmpl jg st
    have hi1 := hdrStep_inv h tmpl jg st P B htm hinv
    -- the header events of this node are recorded after the header step
    have hhdr : ∀ e ∈ hdrEvents h tmpl [] [], evOk1 (hdrStep h tmpl jg st) e = true := by
      intro e he
      cases jg with
      | false => exact hdrStep_first h tmpl st [] [] e he
      | true => exact evOk1_mono hm1 e (hjg rfl e (by simp only [allEvNode]; exact List.mem_append_left _ he))
    simp only [visitNode, htm']
    split
    · -- seen with the same key: skipped; the body was recorded when the name was completed
      rename_i hcont
      have hmem := List.contains_iff_mem.1 hcont
      refine ⟨hm1, hi1, ?_⟩
      intro e he
      simp only [allEvNode, htm'] at he
      rcases List.mem_append.1 he with h1 | h1
      · exact hhdr e h1
      · rcases hi1 _ hmem with h2 | h2
        · exact absurd h2 hnameP
        · exact h2 e (hbody ▸ h1)
    · -- visited (normally or for globals only)
      have key : ∀ (enter : St) (leave : St → St),
          Mono (hdrStep h tmpl jg st) enter →
          enter.seen = (name, partKey iso name argNames) :: (hdrStep h tmpl jg st).seen →
          (∀ s, Mono s (leave s)) → (∀ s, (leave s).seen = s.seen) →
          FirstOk st (leave (visitNodes body name (jg || (hdrStep h tmpl jg st).seen.any (·.1 == name)) enter)) P B
            (fun s => Rec1 s (.part h iso name argNames bound body) tmpl) := by
        intro enter leave hme hse hml hsl
        cases hj : (jg || (hdrStep h tmpl jg st).seen.any (·.1 == name)) with
        | true =>
          -- globals-only visit: the body is already recorded
          have hrec : Rec1s (hdrStep h tmpl jg st) body name := by
            cases jg with
            | true =>
              intro e he
              exact evOk1_mono hm1 e (hjg rfl e (by
                simp only [allEvNode, htm']; exact List.mem_append_right _ he))
            | false =>
              simp only [Bool.false_or] at hj
              obtain ⟨p, hp, hpe⟩ := List.any_eq_true.1 hj
              have hpn : p.1 = name := by simpa using hpe
              rcases hi1 p hp with h2 | h2
              · exact absurd (hpn ▸ h2) hnameP
              · rw [hpn] at h2; exact hbody ▸ h2
          have hie : Inv enter P B := by
            refine Inv.mono hme ?_ hi1
            intro p hp
            rw [hse] at hp
            rcases List.mem_cons.1 hp with h3 | h3
            · exact Or.inr (Or.inr (by rw [h3]; exact hbody ▸ hrec.mono hme))
            · exact Or.inl h3
          have ih := visitNodes_first body name true enter P B hcb hPb (fun hh => by cases hh) hie
            (fun _ => hrec.mono hme)
          refine ⟨(hm1.trans hme).trans (ih.mono.trans (hml _)), ?_, ?_⟩
          · exact Inv.mono (hml _) (fun p hp => Or.inl (by rw [hsl] at hp; exact hp)) ih.inv
          · intro e he
            simp only [allEvNode, htm'] at he
            rcases List.mem_append.1 he with h1 | h1
            · exact evOk1_mono (hme.trans (ih.mono.trans (hml _))) e (hhdr e h1)
            · exact evOk1_mono (hml _) e (ih.recd e h1)
        | false =>
          -- first, normal visit: the name is in progress while its body is visited
          have hjf : jg = false := by cases jg <;> simp_all
          have hie : Inv enter (name :: P) B := by
            intro p hp
            rw [hse] at hp
            rcases List.mem_cons.1 hp with h3 | h3
            · exact Or.inl (by rw [h3]; exact List.mem_cons_self)
            · rcases hi1 p h3 with h4 | h4
              · exact Or.inl (List.mem_cons_of_mem _ h4)
              · exact Or.inr (h4.mono hme)
          have ih := visitNodes_first body name false enter (name :: P) B hcb
            (by
              intro nm hnm
              rcases List.mem_cons.1 hnm with h3 | h3
              · rw [h3]; exact hacyc
              · exact hPb nm h3)
            (fun _ => List.mem_cons_self) hie (fun hh => by cases hh)
          refine ⟨(hm1.trans hme).trans (ih.mono.trans (hml _)), ?_, ?_⟩
          · intro p hp
            rw [hsl] at hp
            rcases ih.inv p hp with h3 | h3
            · rcases List.mem_cons.1 h3 with h4 | h4
              · exact Or.inr (by rw [h4]; exact hbody ▸ (Rec1s.mono (hml _) ih.recd))
              · exact Or.inl h4
            · exact Or.inr (h3.mono (hml _))
          · intro e he
            simp only [allEvNode, htm'] at he
            rcases List.mem_append.1 he with h1 | h1
            · exact evOk1_mono (hme.trans (ih.mono.trans (hml _))) e (hhdr e h1)
            · exact evOk1_mono (hml _) e (ih.recd e h1)
      cases iso with
      | true =>
        exact key (enterIso (addSeen (hdrStep h tmpl jg st) (name, partKey true name argNames)) (argNames ++ bound.toList))
          (fun s => leaveIso s (addSeen (hdrStep h tmpl jg st) (name, partKey true name argNames)))
          (Mono.of_eq rfl rfl rfl rfl) rfl (fun s => Mono.of_eq rfl rfl rfl rfl) (fun s => rfl)
      | false =>
        exact key (enterShared (addSeen (hdrStep h tmpl jg st) (name, partKey false name argNames)) (argNames ++ bound.toList))
          (fun s => leaveShared s (addSeen (hdrStep h tmpl jg st) (name, partKey false name argNames)))
          (Mono.of_eq rfl rfl rfl rfl) rfl (fun s => Mono.of_eq rfl rfl rfl rfl) (fun s => rfl)
theorem visitNodes_first (ns : Nodes) (tmpl : Name) (jg : Bool) (st : St) (P : List Name) (B : Name → Nodes)
    (hc : ConsNodes B ns) (hP : ∀ nm ∈ P, nm ∉ partNamesNodes ns) (htm : jg = false → tmpl ∈ P)
    (hinv : Inv st P B) (hjg : jg = true → Rec1s st ns tmpl) :
    FirstOk st (visitNodes ns tmpl jg st) P B (fun s => Rec1s s ns tmpl) := by
  match ns with
  | .nil =>
    simp only [visitNodes]
    exact ⟨Mono.rfl' st, hinv, fun e he => by simp [allEvNodes] at he⟩
  | .cons n ns =>
    simp only [ConsNodes] at hc
    simp only [partNamesNodes] at hP
    have h1 := visitNode_first n tmpl jg st P B hc.1 (fun nm hnm hh => hP nm hnm (List.mem_append_left _ hh)) htm hinv
      (fun hj e he => hjg hj e (by simp only [allEvNodes]; exact List.mem_append_left _ he))
    have h2 := visitNodes_first ns tmpl jg (visitNode n tmpl jg st) P B hc.2
      (fun nm hnm hh => hP nm hnm (List.mem_append_right _ hh)) htm h1.inv
      (fun hj e he => evOk1_mono h1.mono e (hjg hj e (by simp only [allEvNodes]; exact List.mem_append_right _ he)))
    simp only [visitNodes]
    refine ⟨h1.mono.trans h2.mono, h2.inv, ?_⟩
    intro e he
    simp only [allEvNodes] at he
    rcases List.mem_append.1 he with h3 | h3
    · exact evOk1_mono h2.mono e (h1.recd e h3)
    · exact h2.recd e h3
end

end LiquidVerif.Analysis
