import LiquidVerif.Model.Analysis
/-! Helper lemmas for C19: frame/monotonicity facts about `_visit`'s state and the main simulation
`visitNodes_ok` (static scope agrees with the textual context ⇒ every reachable event is reported). -/

namespace LiquidVerif.Analysis

/-! ### scopes -/

theorem Scope.has_iff (s : Scope) (n : Name) :
    s.has n = true ↔ n ∈ s.base ∨ ∃ b ∈ s.blocks, n ∈ b := by
  simp [Scope.has, List.any_eq_true]

/-- The static scope and the textual context bind the same names. -/
def Agree (s : Scope) (A K : List Name) : Prop := ∀ n, s.has n = true ↔ (n ∈ A ∨ n ∈ K)

theorem St.cur_modCur (st : St) (f : Scope → Scope) : (st.modCur f).cur = f st.cur := by
  unfold St.modCur St.cur; split <;> simp_all

theorem St.inIso_modCur (st : St) (f : Scope → Scope) : (st.modCur f).inIso = st.inIso := by
  unfold St.modCur; split <;> rfl
theorem St.seen_modCur (st : St) (f : Scope → Scope) : (st.modCur f).seen = st.seen := by
  unfold St.modCur; split <;> rfl
theorem St.vars_modCur (st : St) (f : Scope → Scope) : (st.modCur f).vars = st.vars := by
  unfold St.modCur; split <;> rfl
theorem St.globs_modCur (st : St) (f : Scope → Scope) : (st.modCur f).globs = st.globs := by
  unfold St.modCur; split <;> rfl
theorem St.filters_modCur (st : St) (f : Scope → Scope) : (st.modCur f).filters = st.filters := by
  unfold St.modCur; split <;> rfl
theorem St.tags_modCur (st : St) (f : Scope → Scope) : (st.modCur f).tags = st.tags := by
  unfold St.modCur; split <;> rfl
theorem St.root_modCur (st : St) (f : Scope → Scope) (h : st.inIso = true) : (st.modCur f).root = st.root := by
  unfold St.modCur; simp [h]

/-! ### what one event needs, and monotonicity -/

structure Mono (st st' : St) : Prop where
  vars : ∀ l ∈ st.vars, l ∈ st'.vars
  globs : ∀ l ∈ st.globs, l ∈ st'.globs
  filters : ∀ f ∈ st.filters, f ∈ st'.filters
  tags : ∀ t ∈ st.tags, t ∈ st'.tags

theorem Mono.rfl' (st : St) : Mono st st := ⟨fun _ h => h, fun _ h => h, fun _ h => h, fun _ h => h⟩
theorem Mono.trans {a b c : St} (h1 : Mono a b) (h2 : Mono b c) : Mono a c :=
  ⟨fun l h => h2.vars l (h1.vars l h), fun l h => h2.globs l (h1.globs l h),
   fun l h => h2.filters l (h1.filters l h), fun l h => h2.tags l (h1.tags l h)⟩
theorem Mono.of_eq {a b : St} (hv : b.vars = a.vars) (hg : b.globs = a.globs) (hf : b.filters = a.filters)
    (ht : b.tags = a.tags) : Mono a b :=
  ⟨fun _ h => hv ▸ h, fun _ h => hg ▸ h, fun _ h => hf ▸ h, fun _ h => ht ▸ h⟩

theorem evOk_iff (st : St) (e : Ev) : evOk st e = true ↔
    match e with
    | .get l exc => l ∈ st.vars ∧ (exc = false → l ∈ st.globs)
    | .filt f => f ∈ st.filters
    | .tag t => ∃ x ∈ st.tags, x.1 = t := by
  cases e with
  | get l exc => cases exc <;> simp [evOk]
  | filt f => simp [evOk]
  | tag t => simp [evOk, List.any_eq_true]

theorem evOk_mono {st st' : St} (h : Mono st st') (e : Ev) (he : evOk st e = true) : evOk st' e = true := by
  rw [evOk_iff] at he ⊢
  cases e with
  | get l exc => exact ⟨h.vars l he.1, fun hx => h.globs l (he.2 hx)⟩
  | filt f => exact h.filters f he
  | tag t => obtain ⟨x, hx, hxt⟩ := he; exact ⟨x, h.tags x hx, hxt⟩

/-! ### the header step -/

theorem exprStep_cur (tmpl : Name) (st : St) (e : Expr) : (exprStep tmpl false st e).cur = st.cur := rfl

/-- Exact effect of analysing a list of expressions (not in `just_globals` mode). -/
theorem exprs_fold (tmpl : Name) (es : List Expr) (st : St) :
    let st' := es.foldl (exprStep tmpl false) st
    st'.root = st.root ∧ st'.iso = st.iso ∧ st'.inIso = st.inIso ∧ st'.seen = st.seen ∧ st'.tags = st.tags ∧
    st'.vars = st.vars ++ es.flatMap (fun e => e.refs.map (mkLoc tmpl)) ∧
    st'.globs = st.globs ++ es.flatMap (fun e => (e.refs.filter fun r => !st.cur.has r.root).map (mkLoc tmpl)) ∧
    st'.filters = st.filters ++ es.flatMap (fun e => e.filters) := by
  induction es generalizing st with
  | nil => simp
  | cons e es ih =>
    have := ih (exprStep tmpl false st e)
    simp only [List.foldl_cons, List.flatMap_cons]
    rw [exprStep_cur] at this
    obtain ⟨h1, h2, h3, h4, h5, h6, h7, h8⟩ := this
    refine ⟨h1, h2, h3, h4, h5, ?_, ?_, ?_⟩
    · rw [h6]; simp [exprStep, List.append_assoc]
    · rw [h7]; simp [exprStep, List.append_assoc]
    · rw [h8]; simp [exprStep, List.append_assoc]

theorem scopeAdd_fold (xs : List Name) (st : St) :
    let st' := xs.foldl scopeAdd st
    st'.inIso = st.inIso ∧ st'.seen = st.seen ∧ st'.tags = st.tags ∧ st'.vars = st.vars ∧
    st'.globs = st.globs ∧ st'.filters = st.filters ∧
    (st.inIso = true → st'.root = st.root) ∧
    st'.cur.blocks = st.cur.blocks ∧ (∀ x, x ∈ st'.cur.base ↔ x ∈ st.cur.base ∨ x ∈ xs) := by
  induction xs generalizing st with
  | nil => simp
  | cons x xs ih =>
    have := ih (scopeAdd st x)
    simp only [List.foldl_cons]
    obtain ⟨h1, h2, h3, h4, h5, h6, h7, h8, h9⟩ := this
    have c : (scopeAdd st x).cur = st.cur.add x := by
      show (St.modCur st (·.add x)).cur = _
      exact St.cur_modCur st _
    refine ⟨?_, ?_, ?_, ?_, ?_, ?_, ?_, ?_, ?_⟩
    · rw [h1]; exact St.inIso_modCur st _
    · rw [h2]; exact St.seen_modCur st _
    · rw [h3]; exact St.tags_modCur st _
    · rw [h4]; exact St.vars_modCur st _
    · rw [h5]; exact St.globs_modCur st _
    · rw [h6]; exact St.filters_modCur st _
    · intro hi
      have hi' : (scopeAdd st x).inIso = true := by rw [← hi]; exact St.inIso_modCur st _
      rw [h7 hi']; exact St.root_modCur st _ hi
    · rw [h8, c]; rfl
    · intro y; rw [h9 y, c]; simp [Scope.add]; grind

theorem markSeen_facts (tmpl : Name) (st : St) :
    let s := markSeen tmpl false st
    s.root = st.root ∧ s.iso = st.iso ∧ s.inIso = st.inIso ∧ s.vars = st.vars ∧ s.globs = st.globs ∧
    s.filters = st.filters ∧ s.tags = st.tags ∧ (∀ p ∈ s.seen, p ∈ st.seen ∨ p = (tmpl, none)) ∧
    (∀ p ∈ st.seen, p ∈ s.seen) := by
  unfold markSeen; split <;> simp <;> grind

theorem addTag_facts (h : Hdr) (tmpl : Name) (st : St) :
    let s := addTag h tmpl false st
    s.root = st.root ∧ s.iso = st.iso ∧ s.inIso = st.inIso ∧ s.vars = st.vars ∧ s.globs = st.globs ∧
    s.filters = st.filters ∧ s.seen = st.seen ∧ (∀ t ∈ st.tags, t ∈ s.tags) ∧
    (∀ e ∈ tagEvents h, evOk s e = true) := by
  unfold addTag tagEvents
  cases h.tag with
  | none => simp
  | some tp => obtain ⟨t, p⟩ := tp; simp [evOk]; grind

theorem cur_congr {a b : St} (h1 : a.root = b.root) (h2 : a.iso = b.iso) (h3 : a.inIso = b.inIso) : a.cur = b.cur := by
  unfold St.cur; rw [h1, h2, h3]

theorem hdrStep_ok (h : Hdr) (tmpl : Name) (st : St) (A K : List Name) (hag : Agree st.cur A K) :
    let st' := hdrStep h tmpl false st
    st'.inIso = st.inIso ∧ (st.inIso = true → st'.root = st.root) ∧
    st'.cur.blocks = st.cur.blocks ∧ (∀ x, x ∈ st'.cur.base ↔ x ∈ st.cur.base ∨ x ∈ h.tscope) ∧
    Mono st st' ∧ (∀ p ∈ st'.seen, p ∈ st.seen ∨ p = (tmpl, none)) ∧ (∀ p ∈ st.seen, p ∈ st'.seen) ∧
    (∀ e ∈ hdrEvents h tmpl A K, evOk st' e = true) := by
  intro st'
  obtain ⟨a1, a2, a3, a4, a5, a6, a7, a8, a9⟩ := markSeen_facts tmpl st
  obtain ⟨b1, b2, b3, b4, b5, b6, b7, b8, b9⟩ := addTag_facts h tmpl (markSeen tmpl false st)
  obtain ⟨c1, c2, c3, c4, c5, c6, c7, c8⟩ := exprs_fold tmpl h.exprs (addTag h tmpl false (markSeen tmpl false st))
  obtain ⟨d1, d2, d3, d4, d5, d6, d7, d8, d9⟩ :=
    scopeAdd_fold h.tscope (h.exprs.foldl (exprStep tmpl false) (addTag h tmpl false (markSeen tmpl false st)))
  have hcur : (h.exprs.foldl (exprStep tmpl false) (addTag h tmpl false (markSeen tmpl false st))).cur = st.cur :=
    cur_congr (by rw [c1, b1, a1]) (by rw [c2, b2, a2]) (by rw [c3, b3, a3])
  have hcur2 : (addTag h tmpl false (markSeen tmpl false st)).cur = st.cur :=
    cur_congr (by rw [b1, a1]) (by rw [b2, a2]) (by rw [b3, a3])
  have hin : st'.inIso = st.inIso := by show (hdrStep h tmpl false st).inIso = _; unfold hdrStep; rw [d1, c3, b3, a3]
  refine ⟨hin, ?_, ?_, ?_, ?_, ?_, ?_, ?_⟩
  · intro hi
    show (hdrStep h tmpl false st).root = _
    unfold hdrStep
    rw [d7 (by rw [c3, b3, a3]; exact hi), c1, b1, a1]
  · show (hdrStep h tmpl false st).cur.blocks = _
    unfold hdrStep; rw [d8, hcur]
  · intro x
    show x ∈ (hdrStep h tmpl false st).cur.base ↔ _
    unfold hdrStep; rw [d9 x, hcur]
  · refine ⟨?_, ?_, ?_, ?_⟩
    · intro l hl; show l ∈ (hdrStep h tmpl false st).vars; unfold hdrStep
      rw [d4, c6, b4, a4]; exact List.mem_append_left _ hl
    · intro l hl; show l ∈ (hdrStep h tmpl false st).globs; unfold hdrStep
      rw [d5, c7, b5, a5]; exact List.mem_append_left _ hl
    · intro l hl; show l ∈ (hdrStep h tmpl false st).filters; unfold hdrStep
      rw [d6, c8, b6, a6]; exact List.mem_append_left _ hl
    · intro l hl; show l ∈ (hdrStep h tmpl false st).tags; unfold hdrStep
      rw [d3, c5]; exact b8 l (a7 ▸ hl)
  · intro p hp
    have : p ∈ (hdrStep h tmpl false st).seen := hp
    unfold hdrStep at this; rw [d2, c4, b7] at this; exact a8 p this
  · intro p hp
    show p ∈ (hdrStep h tmpl false st).seen
    unfold hdrStep; rw [d2, c4, b7]; exact a9 p hp
  · have hvars : st'.vars = st.vars ++ h.exprs.flatMap (fun e => e.refs.map (mkLoc tmpl)) := by
      show (hdrStep h tmpl false st).vars = _; unfold hdrStep; rw [d4, c6, b4, a4]
    have hglobs : st'.globs = st.globs ++
        h.exprs.flatMap (fun e => (e.refs.filter fun r => !st.cur.has r.root).map (mkLoc tmpl)) := by
      show (hdrStep h tmpl false st).globs = _; unfold hdrStep; rw [d5, c7, b5, a5, hcur2]
    have hfilters : st'.filters = st.filters ++ h.exprs.flatMap (fun e => e.filters) := by
      show (hdrStep h tmpl false st).filters = _; unfold hdrStep; rw [d6, c8, b6, a6]
    have htags : st'.tags = (addTag h tmpl false (markSeen tmpl false st)).tags := by
      show (hdrStep h tmpl false st).tags = _; unfold hdrStep; rw [d3, c5]
    intro e he
    unfold hdrEvents at he
    rw [List.mem_append] at he
    rw [evOk_iff]
    rcases he with he | he
    · have := b9 e he
      rw [evOk_iff] at this
      unfold tagEvents at he
      cases e with
      | tag t => simp only; rw [htags]; exact this
      | get l exc => cases ht : h.tag <;> simp [ht] at he
      | filt f => cases ht : h.tag <;> simp [ht] at he
    · rw [List.mem_flatMap] at he
      obtain ⟨ex, hex, he⟩ := he
      unfold exprEvents at he
      rw [List.mem_append, List.mem_map, List.mem_map] at he
      rcases he with ⟨r, hr, rfl⟩ | ⟨f, hf, rfl⟩
      · simp only
        rw [hvars, hglobs]
        refine ⟨List.mem_append_right _ (List.mem_flatMap.2 ⟨ex, hex, List.mem_map.2 ⟨r, hr, rfl⟩⟩), ?_⟩
        intro hexc
        refine List.mem_append_right _ (List.mem_flatMap.2 ⟨ex, hex, List.mem_map.2 ⟨r, ?_, rfl⟩⟩)
        rw [List.mem_filter]
        refine ⟨hr, ?_⟩
        have hn : ¬ (st.cur.has r.root = true) := by
          rw [hag r.root]
          simp only [Bool.or_eq_false_iff] at hexc
          intro hh
          rcases hh with hh | hh
          · have := List.contains_iff_mem.2 hh; simp_all
          · have := List.contains_iff_mem.2 hh; simp_all
        simpa using hn
      · simp only
        rw [hfilters]
        exact List.mem_append_right _ (List.mem_flatMap.2 ⟨ex, hex, hf⟩)

/-! ### the simulation -/

theorem Agree.step {sc sc' : Scope} {A K asg : List Name} (h : Agree sc A K) (hb : sc'.blocks = sc.blocks)
    (hbase : ∀ x, x ∈ sc'.base ↔ x ∈ sc.base ∨ x ∈ asg) : Agree sc' (A ++ asg) K := by
  intro n
  have := h n
  rw [Scope.has_iff] at this ⊢
  rw [hb, hbase n, List.mem_append]
  grind

theorem Agree.push {sc : Scope} {A K : List Name} (h : Agree sc A K) (b : List Name) :
    Agree (sc.push b) A (K ++ b) := by
  intro n
  have := h n
  rw [Scope.has_iff] at this ⊢
  simp only [Scope.push, List.mem_cons, List.mem_append]
  grind

/-- What visiting a subtree does (not in `just_globals` mode): frame of the scope, monotone outputs,
bounded growth of `seen`, and every event the subtree can emit is reported. -/
structure Ok (st st' : St) (tmpl : Name) (pn asg : List Name) (evs : List Ev) : Prop where
  inIso : st'.inIso = st.inIso
  root : st.inIso = true → st'.root = st.root
  blocks : st'.cur.blocks = st.cur.blocks
  base : ∀ x, x ∈ st'.cur.base ↔ x ∈ st.cur.base ∨ x ∈ asg
  mono : Mono st st'
  seen : ∀ p ∈ st'.seen, p ∈ st.seen ∨ p.1 = tmpl ∨ p.1 ∈ pn
  evs : ∀ e ∈ evs, evOk st' e = true

theorem Ok.nil (st : St) (tmpl : Name) : Ok st st tmpl [] [] [] :=
  ⟨rfl, fun _ => rfl, rfl, by simp, Mono.rfl' st, fun p hp => Or.inl hp, by simp⟩

theorem Ok.trans {a b c : St} {tmpl : Name} {pn1 pn2 asg1 asg2 : List Name} {e1 e2 : List Ev}
    (h1 : Ok a b tmpl pn1 asg1 e1) (h2 : Ok b c tmpl pn2 asg2 e2) :
    Ok a c tmpl (pn1 ++ pn2) (asg1 ++ asg2) (e1 ++ e2) where
  inIso := by rw [h2.inIso, h1.inIso]
  root := fun hi => by rw [h2.root (by rw [h1.inIso]; exact hi), h1.root hi]
  blocks := by rw [h2.blocks, h1.blocks]
  base := fun x => by rw [h2.base x, h1.base x, List.mem_append]; grind
  mono := h1.mono.trans h2.mono
  seen := fun p hp => by
    rcases h2.seen p hp with h | h | h
    · rcases h1.seen p h with h | h | h
      · exact Or.inl h
      · exact Or.inr (Or.inl h)
      · exact Or.inr (Or.inr (List.mem_append_left _ h))
    · exact Or.inr (Or.inl h)
    · exact Or.inr (Or.inr (List.mem_append_right _ h))
  evs := fun e he => by
    rcases List.mem_append.1 he with h | h
    · exact evOk_mono h2.mono e (h1.evs e h)
    · exact h2.evs e h

end LiquidVerif.Analysis
