import LiquidVerif.Lemmas.ExcFlowKnown
/-! C02 finite table (one file per table / per chunk of filters so that lake checks them in parallel). -/
namespace LiquidVerif.C02
open LiquidVerif.Gen.C02 Cls Res

theorem table_s1b :
    ((filterChunk 1).all fun f => Cls.all.all fun l => (pre f l).oks.all fun l' => (argRange f 1).all fun a =>
      ((steps f l').s1 a).excs.all fun e => knownLeak f l 1 a || postOk f (.error e)) = true := by decide +kernel

end LiquidVerif.C02
