import LiquidVerif.Model.Taint
import LiquidVerif.Lemmas.Escape
/-! Invariant lemmas for the taint model: every value marked safe is free of raw specials (`Val.Inv`), and every
filter, expression and tag preserves that. -/
namespace LiquidVerif.Taint
open LiquidVerif.Escape
open LiquidVerif.Filters (isSpace upcase downcase capitalize lstrip rstrip strip splitWs splitOn joinStr hasPrefix
  truncateChars truncateWords MAX_TRUNC_WORDS parseIntStr upperC lowerC isLowerC isUpperC splitWsAux splitOnAux)

/-- the invariant on a string value: a `Markup` contains no raw `<`, `>`, `'`, `"` -/
def TStr.Inv (s : TStr) : Prop := s.safe = true → Clean s.chars

/-- the invariant on a value -/
def Val.Inv : Val → Prop
  | .str s => s.Inv
  | .arr xs => ∀ x ∈ xs, x.Inv
  | .obj h _ => Clean h
  | _ => True

theorem inv_unsafe (c : Str) : (⟨c, false⟩ : TStr).Inv := by intro h; cases h
theorem inv_safe {c : Str} (h : Clean c) : (⟨c, true⟩ : TStr).Inv := fun _ => h
theorem inv_mk {c : Str} {b : Bool} (h : b = true → Clean c) : (⟨c, b⟩ : TStr).Inv := h

/-! ### clean-preservation of the text helpers -/

theorem clean_sublist {a b : Str} (h : a.Sublist b) (hb : Clean b) : Clean a :=
  fun c hc => hb c (h.subset hc)

theorem clean_take {s : Str} (n : Nat) (h : Clean s) : Clean (s.take n) := clean_sublist (List.take_sublist n s) h
theorem clean_drop {s : Str} (n : Nat) (h : Clean s) : Clean (s.drop n) := clean_sublist (List.drop_sublist n s) h
theorem clean_reverse {s : Str} (h : Clean s) : Clean s.reverse := fun c hc => h c (List.mem_reverse.mp hc)

theorem clean_pySlice {s : Str} (a : Int) (b : Option Int) (h : Clean s) : Clean (pySlice s a b) := by
  unfold pySlice; exact clean_drop _ (clean_take _ h)

theorem clean_sliceSeq {s : Str} (a b : Int) (h : Clean s) : Clean (sliceSeq s a b) := by
  unfold sliceSeq; exact clean_pySlice _ _ h

theorem mem_pySlice {α} {s : List α} {a : Int} {b : Option Int} {x : α} (h : x ∈ pySlice s a b) : x ∈ s := by
  unfold pySlice at h
  exact List.mem_of_mem_take (List.mem_of_mem_drop h)

theorem mem_sliceSeq {α} {s : List α} {a b : Int} {x : α} (h : x ∈ sliceSeq s a b) : x ∈ s := by
  unfold sliceSeq at h; exact mem_pySlice h

theorem special_upperC {c : Char} (h : special c = false) : special (upperC c) = false := by
  unfold upperC
  split
  · rename_i hl
    simp only [isLowerC, Bool.and_eq_true, decide_eq_true_eq] at hl
    have h1 : c.toNat - 32 < 91 := by omega
    have h2 : 65 ≤ c.toNat - 32 := by omega
    generalize c.toNat - 32 = n at h1 h2
    have : ∀ n, n < 91 → 65 ≤ n → special (Char.ofNat n) = false := by decide
    exact this n h1 h2
  · exact h

theorem special_lowerC {c : Char} (h : special c = false) : special (lowerC c) = false := by
  unfold lowerC
  split
  · rename_i hl
    simp only [isUpperC, Bool.and_eq_true, decide_eq_true_eq] at hl
    have h1 : c.toNat + 32 < 123 := by omega
    have h2 : 97 ≤ c.toNat + 32 := by omega
    generalize c.toNat + 32 = n at h1 h2
    have : ∀ n, n < 123 → 97 ≤ n → special (Char.ofNat n) = false := by decide
    exact this n h1 h2
  · exact h

theorem clean_map {f : Char → Char} (hf : ∀ c, special c = false → special (f c) = false) {s : Str} (h : Clean s) :
    Clean (s.map f) := by
  intro c hc
  obtain ⟨d, hd, rfl⟩ := List.mem_map.mp hc
  exact hf d (h d hd)

theorem clean_upcase {s : Str} (h : Clean s) : Clean (upcase s) := clean_map (fun _ => special_upperC) h
theorem clean_downcase {s : Str} (h : Clean s) : Clean (downcase s) := clean_map (fun _ => special_lowerC) h

theorem clean_capitalize {s : Str} (h : Clean s) : Clean (capitalize s) := by
  cases s with
  | nil => exact h
  | cons c cs =>
    have hc := clean_cons.mp h
    exact clean_cons.mpr ⟨special_upperC hc.1, clean_map (fun _ => special_lowerC) hc.2⟩

theorem lstrip_sublist (s : Str) : (lstrip s).Sublist s := by
  induction s with
  | nil => exact List.Sublist.refl _
  | cons c cs ih =>
    unfold lstrip
    split
    · exact List.Sublist.cons _ ih
    · exact List.Sublist.refl _

theorem clean_lstrip {s : Str} (h : Clean s) : Clean (lstrip s) := clean_sublist (lstrip_sublist s) h
theorem clean_rstrip {s : Str} (h : Clean s) : Clean (rstrip s) := by
  unfold rstrip; exact clean_reverse (clean_lstrip (clean_reverse h))
theorem clean_strip {s : Str} (h : Clean s) : Clean (strip s) := by
  unfold strip; exact clean_rstrip (clean_lstrip h)

theorem clean_joinStr {sep : Str} {xs : List Str} (hs : Clean sep) (hx : ∀ x ∈ xs, Clean x) : Clean (joinStr sep xs) := by
  induction xs with
  | nil => exact clean_nil
  | cons x r ih =>
    cases r with
    | nil => exact hx x (by simp)
    | cons y r' =>
      unfold joinStr
      exact clean_append.mpr ⟨clean_append.mpr ⟨hx x (by simp), hs⟩, ih (fun z hz => hx z (List.mem_cons_of_mem _ hz))⟩

theorem splitWsAux_clean : ∀ (s cur : Str), Clean s → Clean cur → ∀ p ∈ splitWsAux s cur, Clean p := by
  intro s
  induction s with
  | nil =>
    intro cur _ hc p hp
    unfold splitWsAux at hp
    split at hp
    · cases hp
    · simp only [List.mem_singleton] at hp; subst hp; exact clean_reverse hc
  | cons c cs ih =>
    intro cur hs hc p hp
    have hcs := clean_cons.mp hs
    unfold splitWsAux at hp
    split at hp
    · split at hp
      · exact ih [] hcs.2 clean_nil p hp
      · rcases List.mem_cons.mp hp with rfl | hp
        · exact clean_reverse hc
        · exact ih [] hcs.2 clean_nil p hp
    · exact ih (c :: cur) hcs.2 (clean_cons.mpr ⟨hcs.1, hc⟩) p hp

theorem splitWs_clean {s : Str} (h : Clean s) : ∀ p ∈ splitWs s, Clean p :=
  splitWsAux_clean s [] h clean_nil

theorem splitOnAux_clean (sep : Str) : ∀ (s : Str) (k : Nat) (cur : Str), Clean s → Clean cur →
    ∀ p ∈ splitOnAux sep k s cur, Clean p := by
  intro s
  induction s with
  | nil =>
    intro k cur _ hc p hp
    unfold splitOnAux at hp
    simp only [List.mem_singleton] at hp; subst hp; exact clean_reverse hc
  | cons c cs ih =>
    intro k cur hs hc p hp
    have hcs := clean_cons.mp hs
    cases k with
    | succ k => unfold splitOnAux at hp; exact ih k cur hcs.2 hc p hp
    | zero =>
      unfold splitOnAux at hp
      split at hp
      · rcases List.mem_cons.mp hp with rfl | hp
        · exact clean_reverse hc
        · exact ih _ [] hcs.2 clean_nil p hp
      · exact ih 0 (c :: cur) hcs.2 (clean_cons.mpr ⟨hcs.1, hc⟩) p hp

theorem splitOn_clean {sep s : Str} (h : Clean s) : ∀ p ∈ splitOn sep s, Clean p :=
  splitOnAux_clean sep s 0 [] h clean_nil

theorem clean_replaceAux (old : Str) {new : Str} (hn : Clean new) : ∀ (s : Str) (k : Nat), Clean s →
    Clean (replaceAux old new k s) := by
  intro s
  induction s with
  | nil => intro k _; unfold replaceAux; exact clean_nil
  | cons c cs ih =>
    intro k hs
    have hcs := clean_cons.mp hs
    cases k with
    | succ k => unfold replaceAux; exact ih k hcs.2
    | zero =>
      unfold replaceAux
      split
      · exact clean_append.mpr ⟨hn, ih _ hcs.2⟩
      · exact clean_cons.mpr ⟨hcs.1, ih 0 hcs.2⟩

theorem clean_replaceAll {old new s : Str} (hn : Clean new) (hs : Clean s) : Clean (replaceAll old new s) := by
  unfold replaceAll
  split
  · refine clean_append.mpr ⟨hn, clean_flatMap ?_⟩
    intro c hc
    exact clean_cons.mpr ⟨hs c hc, hn⟩
  · exact clean_replaceAux old hn s 0 hs

theorem partitionAux_clean (sep : Str) : ∀ (s acc : Str) (b a : Str), Clean s → Clean acc →
    partitionAux sep s acc = some (b, a) → Clean b ∧ Clean a := by
  intro s
  induction s with
  | nil => intro acc b a _ _ h; unfold partitionAux at h; cases h
  | cons c cs ih =>
    intro acc b a hs hacc h
    have hcs := clean_cons.mp hs
    unfold partitionAux at h
    split at h
    · simp only [Option.some.injEq, Prod.mk.injEq] at h
      obtain ⟨rfl, rfl⟩ := h
      exact ⟨clean_reverse hacc, clean_drop _ hs⟩
    · exact ih (c :: acc) b a hcs.2 (clean_cons.mpr ⟨hcs.1, hacc⟩) h

theorem partition_clean {sep s b a : Str} (hs : Clean s) (h : partition sep s = some (b, a)) : Clean b ∧ Clean a :=
  partitionAux_clean sep s [] b a hs clean_nil h

theorem rpartition_clean {sep s b a : Str} (hs : Clean s) (h : rpartition sep s = some (b, a)) : Clean b ∧ Clean a := by
  unfold rpartition at h
  split at h
  · cases h
  · rename_i x y heq
    simp only [Option.some.injEq, Prod.mk.injEq] at h
    obtain ⟨rfl, rfl⟩ := h
    have := partition_clean (clean_reverse hs) heq
    exact ⟨clean_reverse this.2, clean_reverse this.1⟩

theorem clean_replaceFirst {old new s : Str} (hn : Clean new) (hs : Clean s) : Clean (replaceFirst old new s) := by
  unfold replaceFirst
  split
  · exact clean_append.mpr ⟨hn, hs⟩
  · split
    · exact hs
    · rename_i b a heq
      have := partition_clean hs heq
      exact clean_append.mpr ⟨clean_append.mpr ⟨this.1, hn⟩, this.2⟩

theorem clean_subNewlines {rep : Str} (hr : Clean rep) : ∀ {s : Str}, Clean s → Clean (subNewlines rep s) := by
  intro s
  fun_induction subNewlines rep s with
  | case1 => intro _; exact clean_nil
  | case2 cs ih =>
    intro h
    exact clean_append.mpr ⟨hr, ih (clean_cons.mp (clean_cons.mp h).2).2⟩
  | case3 c cs hne hc ih =>
    intro h
    exact clean_append.mpr ⟨hr, ih (clean_cons.mp h).2⟩
  | case4 c cs hne hc ih =>
    intro h
    exact clean_cons.mpr ⟨(clean_cons.mp h).1, ih (clean_cons.mp h).2⟩

theorem special_hexDigit (n : Nat) : special (hexDigit n) = false := by
  have h : ∀ k, k < 16 → special (hexDigit k) = false := by decide
  have : hexDigit n = hexDigit (n % 16) := by simp [hexDigit]
  rw [this]; exact h _ (Nat.mod_lt _ (by decide))

theorem clean_quotePlus (s : Str) : Clean (quotePlus s) := by
  unfold quotePlus
  refine clean_flatMap ?_
  intro c _
  unfold quoteChar
  split
  · rename_i hu
    intro d hd
    simp only [List.mem_singleton] at hd; subst hd
    simp only [isUnreserved, Bool.or_eq_true, Bool.and_eq_true, decide_eq_true_eq, beq_iff_eq] at hu
    have hr : ∀ n, (48 ≤ n ∧ n ≤ 57 ∨ 65 ≤ n ∧ n ≤ 90) ∨ 97 ≤ n ∧ n ≤ 122 → n < 123 := by omega
    have hs : ∀ n, n < 123 → ((48 ≤ n ∧ n ≤ 57 ∨ 65 ≤ n ∧ n ≤ 90) ∨ 97 ≤ n ∧ n ≤ 122) → special (Char.ofNat n) = false := by decide
    rcases hu with (((h | h) | h) | h) | h
    · have := hs d.toNat (hr _ h) h
      simpa using this
    · subst h; decide
    · subst h; decide
    · subst h; decide
    · subst h; decide
  · split
    · decide
    · refine clean_flatMap ?_
      intro b _
      unfold pctByte
      intro d hd
      simp only [List.mem_cons, List.mem_nil_iff, or_false] at hd
      rcases hd with rfl | rfl | rfl
      · decide
      · exact special_hexDigit _
      · exact special_hexDigit _

theorem clean_jsEscape (s : Str) : Clean (jsEscape s) := by
  unfold jsEscape
  refine clean_flatMap ?_
  intro c _
  unfold jsChar
  split
  · intro d hd
    simp only [List.mem_cons, List.mem_nil_iff, or_false] at hd
    rcases hd with rfl | rfl | rfl | rfl | rfl | rfl
    · decide
    · decide
    all_goals exact special_hexDigit _
  · rename_i hm
    intro d hd
    simp only [List.mem_singleton] at hd; subst hd
    simp only [jsMapped, Bool.or_eq_true, beq_iff_eq, not_or] at hm
    simp_all [special]

theorem clean_natDigits (n : Nat) : Clean (natDigits n) := by
  have hd : ∀ k, k < 10 → special (Char.ofNat (48 + k)) = false := by decide
  induction n using Nat.strongRecOn with
  | _ n ih =>
    rw [natDigits]
    split
    · rename_i h
      intro d hdm
      simp only [List.mem_singleton] at hdm; subst hdm
      exact hd n h
    · rename_i h
      refine clean_append.mpr ⟨ih (n / 10) (by omega), ?_⟩
      intro d hdm
      simp only [List.mem_singleton] at hdm; subst hdm
      exact hd _ (Nat.mod_lt _ (by decide))

theorem clean_intStr (i : Int) : Clean (intStr i) := by
  unfold intStr
  split
  · exact clean_cons.mpr ⟨by decide, clean_natDigits _⟩
  · exact clean_natDigits _

/-! ### the combinators preserve the invariant -/

theorem clean_escT {s : TStr} (h : s.Inv) : Clean (escT s) := by
  unfold escT
  split
  · rename_i hs; exact h hs
  · exact escape_isClean _

/-- `mixEscaping`: `+` on strings keeps safe operands, escapes unsafe ones -/
theorem mixAdd_inv {a b : TStr} (ha : a.Inv) (hb : b.Inv) : (mixAdd a b).Inv := by
  unfold mixAdd
  split
  · exact inv_safe (clean_append.mpr ⟨clean_escT ha, clean_escT hb⟩)
  · exact inv_unsafe _

/-- `keepSafe f` for a special-preserving `f` -/
theorem keepSafe_inv {f : Str → Str} (hf : ∀ s, Clean s → Clean (f s)) {s : TStr} (h : s.Inv) : (keepSafe f s).Inv :=
  fun hs => hf _ (h hs)

theorem replaceT_inv (first : Bool) {s : TStr} (old : TStr) {new : TStr} (hs : s.Inv) (hn : new.Inv) :
    (replaceT first s old new).Inv := by
  cases first <;> simp only [replaceT, Bool.false_eq_true, if_false, if_true] <;> split
  · rename_i h; exact inv_safe (clean_replaceAll (clean_escT hn) (hs h))
  · exact inv_unsafe _
  · rename_i h; exact inv_safe (clean_replaceFirst (clean_escT hn) (hs h))
  · exact inv_unsafe _

theorem recvS_inv (P : Prims) {v : Val} (h : v.Inv) : (recvS P v).Inv := by
  cases v <;> first | exact h | exact inv_unsafe _

theorem argS_inv (P : Prims) {v : Val} (h : v.Inv) : (argS P v).Inv := by
  cases v <;> first | exact h | exact inv_unsafe _

theorem seqOf_inv (P : Prims) {v : Val} (h : v.Inv) {items : List TStr} (hq : seqOf P v = some items) :
    ∀ x ∈ items, x.Inv := by
  cases v <;> simp only [seqOf, Option.some.injEq, reduceCtorEq] at hq
  · subst hq; intro x hx; simp only [List.mem_singleton] at hx; subst hx; exact h
  · subst hq; exact h
  · subst hq; intro x hx; simp only [List.mem_singleton] at hx; subst hx; exact inv_unsafe _
  · subst hq; intro x hx; cases hx
  · subst hq; intro x hx; simp only [List.mem_singleton] at hx; subst hx; exact inv_unsafe _

/-- `to_liquid_string` under autoescape writes no raw special for a value that satisfies the invariant -/
theorem outVal_clean {v : Val} (h : v.Inv) : Clean (outVal true v) := by
  cases v with
  | str s => exact clean_escT h
  | arr xs =>
    simp only [outVal, if_true]
    refine clean_flatten ?_
    intro x hx
    obtain ⟨t, ht, rfl⟩ := List.mem_map.mp hx
    exact clean_escT (h t ht)
  | num n => exact clean_intStr n
  | nil => exact clean_nil
  | undef => exact clean_nil
  | bool b => cases b <;> decide
  | obj hh t => exact h
  | other t => exact escape_isClean t

theorem okS_inv {s : TStr} {r : Val} (h : okS s = .ok r) (hs : s.Inv) : r.Inv := by
  simp only [okS, Except.ok.injEq] at h; subst h; exact hs

end LiquidVerif.Taint
