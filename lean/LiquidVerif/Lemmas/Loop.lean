import LiquidVerif.Model.LoopRender
/-! Helper lemmas for C13 (list windows, the drops' automata). Core Lean only. -/
namespace LiquidVerif.Loop

theorem drop_take_nil_of_le {α} (xs : List α) (a b : Nat) (h : b ≤ a) : (xs.take b).drop a = [] := by
  apply List.drop_eq_nil_of_le
  simp only [List.length_take]; omega

/-- clamping the bounds of a window to the list does not change the window -/
theorem take_drop_clamp {α} (xs : List α) (a b : Nat) :
    (xs.take (min (max b (min a xs.length)) xs.length)).drop (min a xs.length) = (xs.take b).drop a := by
  by_cases ha : xs.length ≤ a
  · have h1 : min a xs.length = xs.length := by omega
    have h2 : min (max b xs.length) xs.length = xs.length := by omega
    rw [h1, h2]
    rw [List.drop_eq_nil_of_le (by simp), List.drop_eq_nil_of_le (by simp only [List.length_take]; omega)]
  · have h1 : min a xs.length = a := by omega
    rw [h1]
    by_cases hb : xs.length ≤ b
    · have h2 : min (max b a) xs.length = xs.length := by omega
      rw [h2, List.take_of_length_le (Nat.le_refl _), List.take_of_length_le hb]
    · by_cases hab : a ≤ b
      · have h2 : min (max b a) xs.length = b := by omega
        rw [h2]
      · have h2 : min (max b a) xs.length = a := by omega
        rw [h2, drop_take_nil_of_le xs a a (Nat.le_refl _), drop_take_nil_of_le xs a b (by omega)]

end LiquidVerif.Loop
