import LiquidVerif.Model.LoopRender
/-! Helper lemmas for C13 (list windows, the drops' automata). Core Lean only. -/
namespace LiquidVerif.Loop

theorem drop_take_nil_of_le {α} (xs : List α) (a b : Nat) (h : b ≤ a) : (xs.take b).drop a = [] := by
  apply List.drop_eq_nil_of_le
  simp only [List.length_take]; omega

/-- clamping the bounds of a window to the list does not change the window -/
theorem take_drop_clamp {α} (xs : List α) (a b : Nat) :
    (xs.take (min (max b (min a xs.length)) xs.length)).drop (min a xs.length) = (xs.take b).drop a := by
  by_cases ha : xs.length ≤ a
  · have h1 : min a xs.length = xs.length := by omega
    have h2 : min (max b xs.length) xs.length = xs.length := by omega
    rw [h1, h2]
    rw [List.drop_eq_nil_of_le (by simp), List.drop_eq_nil_of_le (by simp only [List.length_take]; omega)]
  · have h1 : min a xs.length = a := by omega
    rw [h1]
    by_cases hb : xs.length ≤ b
    · have h2 : min (max b a) xs.length = xs.length := by omega
      rw [h2, List.take_of_length_le (Nat.le_refl _), List.take_of_length_le hb]
    · by_cases hab : a ≤ b
      · have h2 : min (max b a) xs.length = b := by omega
        rw [h2]
      · have h2 : min (max b a) xs.length = a := by omega
        rw [h2, drop_take_nil_of_le xs a a (Nat.le_refl _), drop_take_nil_of_le xs a b (by omega)]

theorem succ_div_mod_wrap (k c : Nat) (h : 0 < c) (h2 : k % c + 1 = c) : (k+1) % c = 0 ∧ (k+1)/c = k/c+1 := by
  have h0 := Nat.div_add_mod k c
  have hr := Nat.mod_lt k h
  have := (Nat.div_mod_unique (a := k+1) (d := k/c+1) (c := 0) h).mpr ⟨by rw [Nat.mul_succ]; omega, h⟩
  omega

theorem succ_div_mod_nowrap (k c : Nat) (h : 0 < c) (h2 : k % c + 1 ≠ c) : (k+1) % c = k % c + 1 ∧ (k+1)/c = k/c := by
  have h0 := Nat.div_add_mod k c
  have hr := Nat.mod_lt k h
  have := (Nat.div_mod_unique (a := k+1) (d := k/c) (c := k % c + 1) h).mpr ⟨by omega, by omega⟩
  omega

/-! ### the `forloop` automaton -/

theorem forRows_length (s : ForState) (xs : List Item) : (forRows s xs).length = xs.length := by
  induction xs generalizing s with
  | nil => rfl
  | cons x xs ih => simp [forRows, ih]

/-- the k-th row carries the k-th item and a drop whose `_index` is `start + 1 + k` -/
theorem forRows_getElem? (s : ForState) (xs : List Item) (k : Nat) :
    (forRows s xs)[k]? = xs[k]?.map (fun x => (x, { length := s.length, idx := s.idx + 1 + k })) := by
  induction xs generalizing s k with
  | nil => simp [forRows]
  | cons x xs ih =>
    cases k with
    | zero => simp [forRows, ForState.step]
    | succ k =>
      simp only [forRows, List.getElem?_cons_succ, ih]
      simp only [ForState.step]
      congr; funext x; congr 2; omega

/-! ### the `tablerowloop` automaton -/

theorem tableRows_length (s : RowState) (xs : List Item) : (tableRows s xs).length = xs.length := by
  induction xs generalizing s with
  | nil => rfl
  | cons x xs ih => simp [tableRows, ih]

/-- the state of the drop while the item at position `k` is rendered, for `cols = c ≥ 1` -/
def gridState (n : Int) (c k : Nat) : RowState :=
  { length := n, ncols := c, idx := k, row := ((k / c + 1 : Nat) : Int), col := ((k % c + 1 : Nat) : Int) }

theorem gridState_step (n : Int) (c k : Nat) (h : 0 < c) : (gridState n c k).step = gridState n c (k + 1) := by
  by_cases hw : k % c + 1 = c
  · have := succ_div_mod_wrap k c h hw
    have hc : (gridState n c k).idx + 1 > 0 ∧ (gridState n c k).col = (gridState n c k).ncols := by
      simp only [gridState]; omega
    rw [RowState.step, if_pos hc]; simp only [gridState, RowState.mk.injEq, true_and]; omega
  · have := succ_div_mod_nowrap k c h hw
    have hc : ¬ ((gridState n c k).idx + 1 > 0 ∧ (gridState n c k).col = (gridState n c k).ncols) := by
      simp only [gridState]; omega
    rw [RowState.step, if_neg hc]; simp only [gridState, RowState.mk.injEq, true_and]; omega

theorem init_step (n : Int) (c : Nat) (_h : 0 < c) : (RowState.init n c).step = gridState n c 0 := by
  have h1 : 0 % c = 0 := Nat.zero_mod c
  have h2 : 0 / c = 0 := Nat.zero_div c
  have hc : ¬ ((RowState.init n c).idx + 1 > 0 ∧ (RowState.init n c).col = (RowState.init n c).ncols) := by
    simp only [RowState.init]; omega
  rw [RowState.step, if_neg hc]; simp only [RowState.init, gridState, RowState.mk.injEq, h1, h2, true_and]; omega

theorem tableRows_grid_from (n : Int) (c : Nat) (h : 0 < c) (xs : List Item) (j k : Nat) :
    (tableRows (gridState n c j) xs)[k]? = xs[k]?.map (fun x => (x, gridState n c (j + 1 + k))) := by
  induction xs generalizing j k with
  | nil => simp [tableRows]
  | cons x xs ih =>
    cases k with
    | zero => simp [tableRows, gridState_step n c j h]
    | succ k =>
      simp only [tableRows, List.getElem?_cons_succ, gridState_step n c j h, ih]
      congr; funext x; congr 2; omega

/-- the state while the item at position `k` is rendered, for `cols ≤ 0`: never wraps -/
def flatState (n c : Int) (k : Nat) : RowState :=
  { length := n, ncols := c, idx := k, row := 1, col := (k : Int) + 1 }

theorem flatState_step (n c : Int) (k : Nat) (h : c ≤ 0) : (flatState n c k).step = flatState n c (k + 1) := by
  have hc : ¬ ((flatState n c k).idx + 1 > 0 ∧ (flatState n c k).col = (flatState n c k).ncols) := by
    simp only [flatState]; omega
  rw [RowState.step, if_neg hc]; simp only [flatState, RowState.mk.injEq, true_and]; omega

theorem init_step_flat (n c : Int) : (RowState.init n c).step = flatState n c 0 := by
  have hc : ¬ ((RowState.init n c).idx + 1 > 0 ∧ (RowState.init n c).col = (RowState.init n c).ncols) := by
    simp only [RowState.init]; omega
  rw [RowState.step, if_neg hc]; simp only [RowState.init, flatState, RowState.mk.injEq, true_and]; omega

theorem tableRows_flat_from (n c : Int) (h : c ≤ 0) (xs : List Item) (j k : Nat) :
    (tableRows (flatState n c j) xs)[k]? = xs[k]?.map (fun x => (x, flatState n c (j + 1 + k))) := by
  induction xs generalizing j k with
  | nil => simp [tableRows]
  | cons x xs ih =>
    cases k with
    | zero => simp [tableRows, flatState_step n c j h]
    | succ k =>
      simp only [tableRows, List.getElem?_cons_succ, flatState_step n c j h, ih]
      congr; funext x; congr 2; omega

/-! ### `_to_iter` -/
theorem rangeItems_length (lo : Int) (n : Nat) : (rangeItems lo n).length = n := by
  induction n generalizing lo with
  | zero => rfl
  | succ n ih => simp [rangeItems, ih]

theorem rangeItems_getElem? (lo : Int) (n k : Nat) (h : k < n) : (rangeItems lo n)[k]? = some (.int (lo + k)) := by
  induction n generalizing lo k with
  | zero => omega
  | succ n ih =>
    cases k with
    | zero => simp [rangeItems]
    | succ k =>
      simp only [rangeItems, List.getElem?_cons_succ]
      rw [ih (lo + 1) k (by omega)]
      congr 2; omega

/-- the length `_to_iter` computes separately is the number of items its iterator yields -/
theorem toIter_length (ss : Bool) (o : Obj) : (toIter ss o).2 = (toIter ss o).1.length := by
  cases o with
  | mapping kvs => simp [toIter]
  | range lo hi => simp [toIter, rangeItems_length]
  | str s =>
    simp only [toIter]
    cases ss <;> simp
    split <;> simp
  | seq xs => simp [toIter]
  | other => simp [toIter]

/-! ### `stopindex` -/
theorem get_set_self (m : StopIndex) (k : String) (v : Int) : (m.set k v).get k = v := by
  induction m with
  | nil => simp [StopIndex.set, StopIndex.get]
  | cons p r ih =>
    obtain ⟨k', v'⟩ := p
    simp only [StopIndex.set]
    split
    · simp [StopIndex.get]
    · rename_i h; simp [StopIndex.get, h, ih]

theorem get_set_ne (m : StopIndex) (k k2 : String) (v : Int) (h : k2 ≠ k) : (m.set k v).get k2 = m.get k2 := by
  induction m with
  | nil =>
    have : (k == k2) = false := by simpa using (Ne.symm h)
    simp [StopIndex.set, StopIndex.get, this]
  | cons p r ih =>
    obtain ⟨k', v'⟩ := p
    simp only [StopIndex.set]
    split
    · rename_i hk
      have hk' : k' = k := by simpa using hk
      subst hk'
      have : (k' == k2) = false := by simpa using (Ne.symm h)
      simp [StopIndex.get, this]
    · simp only [StopIndex.get, ih]

/-! ### windows -/
theorem take_drop_append {α} (xs : List α) (p a b : Nat) :
    (xs.drop p).take a ++ (xs.drop (p + a)).take b = (xs.drop p).take (a + b) := by
  rw [List.take_add, List.drop_drop]

/-! ### loops over rows -/
/-- the rows up to and including the first one on which `p` holds -/
def takeThrough {α} (p : α → Bool) : List α → List α
  | [] => []
  | x :: xs => if p x then [x] else x :: takeThrough p xs

def joinStr (l : List String) : String := l.foldl (· ++ ·) ""

theorem foldl_append_init (l : List String) (a : String) : l.foldl (· ++ ·) a = a ++ l.foldl (· ++ ·) "" := by
  induction l generalizing a with
  | nil => simp
  | cons x xs ih =>
    simp only [List.foldl_cons]
    rw [ih (a ++ x), ih ("" ++ x)]
    simp [String.append_assoc]

theorem joinStr_cons (x : String) (l : List String) : joinStr (x :: l) = x ++ joinStr l := by
  simp only [joinStr, List.foldl_cons]
  rw [foldl_append_init]; simp

/-- a `for` loop whose body does not touch the `stopindex` map: output of the rows up to and
including the first row whose body signals `break`; nothing after it -/
theorem iterFor_stateless (o : ForState → Item → String) (sig : ForState → Item → Signal)
    (m : StopIndex) (s : ForState) (xs : List Item) (out : String) :
    iterFor (fun m' s' x => .ok (m', o s' x, sig s' x)) m s xs out
      = .ok (m, out ++ joinStr ((takeThrough (fun r => decide (sig r.2 r.1 = .break_)) (forRows s xs)).map (fun r => o r.2 r.1))) := by
  induction xs generalizing s out with
  | nil => simp [iterFor, forRows, takeThrough, joinStr]
  | cons x xs ih =>
    simp only [iterFor, forRows, takeThrough]
    by_cases hb : sig s.step x = .break_
    · simp [hb, joinStr]
    · simp only [hb, if_false, decide_false, Bool.false_eq_true, List.map_cons, joinStr_cons]
      rw [ih]
      simp [String.append_assoc]

/-- the HTML one cell contributes: the cell, and the row separator when the column is the last of
its row and the item is not the last of the loop -/
def cellHtml (o : RowState → Item → String) (r : Item × RowState) : String :=
  "<td class=\"col" ++ toString r.2.col ++ "\">" ++ o r.2 r.1 ++ "</td>" ++
    (if r.2.colLast && !r.2.last then "</tr>\n<tr class=\"row" ++ toString (r.2.row + 1) ++ "\">" else "")

theorem iterRow_cons_normal (body : StopIndex → RowState → Item → Res) (m m' : StopIndex) (s : RowState)
    (x : Item) (xs : List Item) (out o : String) (sig : Signal) (hs : sig ≠ .break_)
    (h : body m s.step x = .ok (m', o, sig)) :
    iterRow body m s (x :: xs) out = iterRow body m' s.step xs
      (if s.step.colLast && !s.step.last
       then out ++ "<td class=\"col" ++ toString s.step.col ++ "\">" ++ o ++ "</td>" ++ "</tr>\n<tr class=\"row" ++ toString (s.step.row + 1) ++ "\">"
       else out ++ "<td class=\"col" ++ toString s.step.col ++ "\">" ++ o ++ "</td>") := by
  rw [iterRow]
  simp only [h, hs, if_false]

end LiquidVerif.Loop
