import LiquidVerif.Model.Filters
/-! Helper lemmas for C25 (string part). -/
namespace LiquidVerif.Filters

/-! ### join / split -/

theorem joinStr_cons_cons (sep x y : Str) (r : List Str) :
    joinStr sep (x :: y :: r) = x ++ sep ++ joinStr sep (y :: r) := rfl

theorem hasPrefix_iff (p s : Str) : hasPrefix p s = true ↔ ∃ t, s = p ++ t := by
  induction p generalizing s with
  | nil => simp [hasPrefix]
  | cons a p ih =>
    cases s with
    | nil => simp [hasPrefix]
    | cons c cs =>
      simp only [hasPrefix, Bool.and_eq_true, beq_iff_eq, ih, List.cons_append, List.cons.injEq]
      constructor
      · rintro ⟨rfl, t, rfl⟩; exact ⟨t, rfl, rfl⟩
      · rintro ⟨t, rfl, rfl⟩; exact ⟨rfl, t, rfl⟩

/-- the pieces of `splitOnAux` are never an empty list -/
theorem splitOnAux_ne_nil (sep : Str) (k : Nat) (s cur : Str) : splitOnAux sep k s cur ≠ [] := by
  induction s generalizing k cur with
  | nil => cases k <;> simp [splitOnAux]
  | cons c cs ih =>
    cases k with
    | succ k => simpa [splitOnAux] using ih k cur
    | zero =>
      simp only [splitOnAux]
      split
      · simp
      · exact ih 0 (c :: cur)

theorem joinStr_cons_of_ne_nil (sep x : Str) (r : List Str) (h : r ≠ []) :
    joinStr sep (x :: r) = x ++ sep ++ joinStr sep r := by
  cases r with
  | nil => exact absurd rfl h
  | cons y r => rfl

/-- main invariant: joining the pieces gives back what was read so far plus the rest,
where `k` characters of a matched separator are still to be skipped. -/
theorem join_splitOnAux (sep : Str) (hsep : sep ≠ []) (k : Nat) (s cur : Str) (hk : k ≤ s.length) :
    joinStr sep (splitOnAux sep k s cur) = cur.reverse ++ s.drop k := by
  induction s generalizing k cur with
  | nil =>
    have : k = 0 := by simpa using hk
    subst this
    simp [splitOnAux, joinStr]
  | cons c cs ih =>
    cases k with
    | succ k =>
      simp only [splitOnAux, List.drop_succ_cons]
      exact ih k cur (by simpa using hk)
    | zero =>
      simp only [splitOnAux, List.drop_zero]
      split
      · rename_i hp
        obtain ⟨t, ht⟩ := (hasPrefix_iff sep (c :: cs)).1 hp
        cases sep with
        | nil => exact absurd rfl hsep
        | cons a sep' =>
          simp only [List.cons_append, List.cons.injEq] at ht
          obtain ⟨rfl, rfl⟩ := ht
          have hlen : (c :: sep').length - 1 ≤ (sep' ++ t).length := by simp
          rw [joinStr_cons_of_ne_nil _ _ _ (splitOnAux_ne_nil _ _ _ _), ih _ [] hlen]
          simp
      · rw [ih 0 (c :: cur) (Nat.zero_le _)]
        simp

theorem join_splitOn (sep s : Str) (hsep : sep ≠ []) : joinStr sep (splitOn sep s) = s := by
  simpa [splitOn] using join_splitOnAux sep hsep 0 s [] (Nat.zero_le _)

theorem joinStr_nil_sep (xs : List Str) : joinStr [] xs = xs.flatten := by
  induction xs with
  | nil => rfl
  | cons x r ih =>
    cases r with
    | nil => simp [joinStr]
    | cons y r => simp [joinStr_cons_cons, ih]

theorem flatten_singletons (s : Str) : (s.map fun c => [c]).flatten = s := by
  induction s with
  | nil => rfl
  | cons c cs ih => simp [ih]


/-! ### strip -/

theorem lstrip_decomp (s : Str) : ∃ pre, s = pre ++ lstrip s ∧ ∀ c ∈ pre, isSpace c = true := by
  induction s with
  | nil => exact ⟨[], rfl, by simp⟩
  | cons c cs ih =>
    by_cases h : isSpace c = true
    · obtain ⟨pre, h1, h2⟩ := ih
      refine ⟨c :: pre, ?_, ?_⟩
      · simp only [lstrip, h, if_true, List.cons_append]; rw [← h1]
      · intro x hx
        cases hx with
        | head => exact h
        | tail _ hx => exact h2 x hx
    · exact ⟨[], by simp [lstrip, h], by simp⟩

theorem lstrip_head (s : Str) (c : Char) (h : (lstrip s).head? = some c) : isSpace c = false := by
  induction s with
  | nil => simp [lstrip] at h
  | cons d ds ih =>
    by_cases hd : isSpace d = true
    · simp only [lstrip, hd, if_true] at h; exact ih h
    · simp only [lstrip, hd] at h
      simp at h; subst h; simpa using hd

theorem rstrip_decomp (s : Str) : ∃ suf, s = rstrip s ++ suf ∧ ∀ c ∈ suf, isSpace c = true := by
  obtain ⟨pre, h1, h2⟩ := lstrip_decomp s.reverse
  refine ⟨pre.reverse, ?_, by simpa using h2⟩
  have := congrArg List.reverse h1
  simpa [rstrip] using this

theorem rstrip_last (s : Str) (c : Char) (h : (rstrip s).getLast? = some c) : isSpace c = false := by
  apply lstrip_head s.reverse c
  simpa [rstrip] using h

theorem head?_append_of_ne_nil {α} (a b : List α) (h : a ≠ []) : (a ++ b).head? = a.head? := by
  cases a with
  | nil => exact absurd rfl h
  | cons x xs => rfl

/-- `strip` removes exactly a maximal whitespace prefix and a maximal whitespace suffix. -/
theorem strip_decomp (s : Str) :
    ∃ pre suf, s = pre ++ strip s ++ suf ∧ (∀ c ∈ pre, isSpace c = true) ∧ (∀ c ∈ suf, isSpace c = true)
      ∧ (∀ c, (strip s).head? = some c → isSpace c = false)
      ∧ (∀ c, (strip s).getLast? = some c → isSpace c = false) := by
  obtain ⟨pre, h1, h2⟩ := lstrip_decomp s
  obtain ⟨suf, h3, h4⟩ := rstrip_decomp (lstrip s)
  refine ⟨pre, suf, ?_, h2, h4, ?_, ?_⟩
  · unfold strip
    rw [List.append_assoc, ← h3]; exact h1
  · intro c hc
    unfold strip at hc
    by_cases hne : rstrip (lstrip s) = []
    · rw [hne] at hc; simp at hc
    · apply lstrip_head s c
      rw [h3, head?_append_of_ne_nil _ _ hne]; exact hc
  · intro c hc
    exact rstrip_last (lstrip s) c hc

/-! ### whitespace split -/

def IsWord (w : Str) : Prop := w ≠ [] ∧ ∀ c ∈ w, isSpace c = false

theorem splitWsAux_words (s cur : Str) (hcur : ∀ c ∈ cur, isSpace c = false) :
    ∀ w ∈ splitWsAux s cur, IsWord w := by
  induction s generalizing cur with
  | nil =>
    intro w hw
    simp only [splitWsAux] at hw
    split at hw
    · simp at hw
    · rename_i hne
      simp at hw; subst hw
      refine ⟨by simpa using hne, by simpa using hcur⟩
  | cons c cs ih =>
    intro w hw
    simp only [splitWsAux] at hw
    split at hw
    · split at hw
      · exact ih [] (by simp) w hw
      · rename_i hne
        cases hw with
        | head => exact ⟨by simpa using hne, by simpa using hcur⟩
        | tail _ hw => exact ih [] (by simp) w hw
    · rename_i hsp
      refine ih (c :: cur) ?_ w hw
      intro x hx
      cases hx with
      | head => simpa using hsp
      | tail _ hx => exact hcur x hx

theorem splitWs_words (s : Str) : ∀ w ∈ splitWs s, IsWord w :=
  splitWsAux_words s [] (by simp)

theorem splitWsAux_word_append (w t cur : Str) (hw : ∀ c ∈ w, isSpace c = false) :
    splitWsAux (w ++ t) cur = splitWsAux t (w.reverse ++ cur) := by
  induction w generalizing cur with
  | nil => rfl
  | cons c cs ih =>
    have hc : isSpace c = false := hw c (by simp)
    simp only [List.cons_append, splitWsAux, hc]
    rw [ih (c :: cur) (fun x hx => hw x (by simp [hx]))]
    simp

theorem splitWs_join_words (ws : List Str) (h : ∀ w ∈ ws, IsWord w) :
    splitWs (joinStr [' '] ws) = ws := by
  induction ws with
  | nil => rfl
  | cons w r ih =>
    have hw := h w (by simp)
    cases r with
    | nil =>
      have := splitWsAux_word_append w [] [] hw.2
      simp only [List.append_nil] at this
      simp only [splitWs, joinStr, this, splitWsAux]
      have hne : w.reverse.isEmpty = false := by
        cases w with
        | nil => exact absurd rfl hw.1
        | cons a b => simp
      simp [hne]
    | cons y r =>
      have ih' := ih (fun x hx => h x (by simp [hx]))
      rw [joinStr_cons_cons]
      have := splitWsAux_word_append w ([' '] ++ joinStr [' '] (y :: r)) [] hw.2
      simp only [List.append_nil] at this
      simp only [splitWs, List.append_assoc] at *
      rw [this]
      have hne : w.reverse.isEmpty = false := by
        cases w with
        | nil => exact absurd rfl hw.1
        | cons a b => simp
      have hsp : isSpace ' ' = true := by decide
      simp only [List.singleton_append, splitWsAux, hsp, hne, if_true, List.reverse_reverse]
      simp [ih']

/-! ### ASCII case mapping -/

theorem toNat_ofNat_small (n : Nat) (h : n < 55296) : (Char.ofNat n).toNat = n := by
  have hv : n.isValidChar := Or.inl h
  simp [Char.ofNat, hv, Char.toNat, Char.ofNatAux]

theorem upperC_idem (c : Char) : upperC (upperC c) = upperC c := by
  unfold upperC
  by_cases h : isLowerC c = true
  · have h' := h
    simp only [isLowerC, Bool.and_eq_true, decide_eq_true_eq] at h'
    have hn : (Char.ofNat (c.toNat - 32)).toNat = c.toNat - 32 := toNat_ofNat_small _ (by omega)
    have : isLowerC (Char.ofNat (c.toNat - 32)) = false := by
      simp only [isLowerC, hn]
      have : ¬ (97 ≤ c.toNat - 32) := by omega
      simp [this]
    simp [h, this]
  · simp [h]

theorem lowerC_idem (c : Char) : lowerC (lowerC c) = lowerC c := by
  unfold lowerC
  by_cases h : isUpperC c = true
  · have h' := h
    simp only [isUpperC, Bool.and_eq_true, decide_eq_true_eq] at h'
    have hn : (Char.ofNat (c.toNat + 32)).toNat = c.toNat + 32 := toNat_ofNat_small _ (by omega)
    have : isUpperC (Char.ofNat (c.toNat + 32)) = false := by
      simp only [isUpperC, hn]
      have : ¬ (c.toNat + 32 ≤ 90) := by omega
      simp [this]
    simp [h, this]
  · simp [h]

/-- upper-casing leaves no lower-case ASCII letter -/
theorem upperC_not_lower (c : Char) : isLowerC (upperC c) = false := by
  unfold upperC
  by_cases h : isLowerC c = true
  · rw [if_pos h]
    have h' := h
    simp only [isLowerC, Bool.and_eq_true, decide_eq_true_eq] at h'
    have hn : (Char.ofNat (c.toNat - 32)).toNat = c.toNat - 32 := toNat_ofNat_small _ (by omega)
    simp only [isLowerC, hn]
    have : ¬ (97 ≤ c.toNat - 32) := by omega
    simp [this]
  · rw [if_neg h]; simpa using h


end LiquidVerif.Filters
