import LiquidVerif.Lemmas.Scope
/-! Locality of expression evaluation: a value depends on the scope only through the roots the expression names. -/
namespace LiquidVerif.Scope

mutual
/-- the root names the evaluation of a segment looks up in the scope chain; `none` when a root is itself computed
(`[[a]].b`) and could be any name -/
def segRoots : Seg → Option (List String)
  | .name _ => some []
  | .idx _ => some []
  | .sub (.name s) t => (segsRoots t).map (s :: ·)
  | .sub _ _ => none
def segsRoots : List Seg → Option (List String)
  | [] => some []
  | s :: ss =>
    match segRoots s, segsRoots ss with
    | some a, some b => some (a ++ b)
    | _, _ => none
end

def exprRoots : Expr → Option (List String)
  | .lit _ => some []
  | .path (.name s) t => (segsRoots t).map (s :: ·)
  | .path _ _ => none

theorem ctxGet_congr (cfg : Cfg) (w₁ w₂ : View) (name : String) (vs : List Val) (h : w₁.root name = w₂.root name) :
    ctxGet cfg w₁ (.str name) vs = ctxGet cfg w₂ (.str name) vs := by
  simp only [ctxGet, h]

mutual
theorem evalSeg_congr (cfg : Cfg) (w₁ w₂ : View) : ∀ (s : Seg) (ns : List String), segRoots s = some ns →
    (∀ k ∈ ns, w₁.root k = w₂.root k) → evalSeg cfg w₁ s = evalSeg cfg w₂ s
  | .name _, _, _, _ => rfl
  | .idx _, _, _, _ => rfl
  | .sub (.name s) t, ns, h, hk => by
    simp only [segRoots, Option.map_eq_some_iff] at h
    obtain ⟨ts, ht, rfl⟩ := h
    have e1 := evalSegs_congr cfg w₁ w₂ t ts ht (fun k hk' => hk k (List.mem_cons_of_mem _ hk'))
    have e2 := hk s (List.mem_cons_self)
    simp only [evalSeg, e1]
    cases evalSegs cfg w₂ t with
    | error e => rfl
    | ok vs => exact ctxGet_congr cfg w₁ w₂ s vs e2
  | .sub (.idx _) _, _, h, _ => by simp [segRoots] at h
  | .sub (.sub _ _) _, _, h, _ => by simp [segRoots] at h
theorem evalSegs_congr (cfg : Cfg) (w₁ w₂ : View) : ∀ (ss : List Seg) (ns : List String), segsRoots ss = some ns →
    (∀ k ∈ ns, w₁.root k = w₂.root k) → evalSegs cfg w₁ ss = evalSegs cfg w₂ ss
  | [], _, _, _ => rfl
  | s :: ss, ns, h, hk => by
    simp only [segsRoots] at h
    cases h1 : segRoots s with
    | none => simp [h1] at h
    | some a =>
      cases h2 : segsRoots ss with
      | none => simp [h1, h2] at h
      | some b =>
        simp only [h1, h2, Option.some.injEq] at h
        subst h
        have e1 := evalSeg_congr cfg w₁ w₂ s a h1 (fun k hk' => hk k (List.mem_append_left _ hk'))
        have e2 := evalSegs_congr cfg w₁ w₂ ss b h2 (fun k hk' => hk k (List.mem_append_right _ hk'))
        simp only [evalSegs, e1, e2]
end

/-- an expression's value depends on the scope only through the bindings of the root names it mentions -/
theorem evalExpr_congr (cfg : Cfg) (w₁ w₂ : View) (e : Expr) (ns : List String) (h : exprRoots e = some ns)
    (hk : ∀ k ∈ ns, w₁.root k = w₂.root k) : evalExpr cfg w₁ e = evalExpr cfg w₂ e := by
  cases e with
  | lit v => rfl
  | path hd tl =>
    cases hd with
    | name s =>
      simp only [exprRoots, Option.map_eq_some_iff] at h
      obtain ⟨ts, ht, rfl⟩ := h
      have e1 := evalSegs_congr cfg w₁ w₂ tl ts ht (fun k hk' => hk k (List.mem_cons_of_mem _ hk'))
      simp only [evalExpr, evalPath, evalSeg, e1]
      cases evalSegs cfg w₂ tl with
      | error e => rfl
      | ok vs => exact ctxGet_congr cfg w₁ w₂ s vs (hk s List.mem_cons_self)
    | idx i => simp [exprRoots] at h
    | sub a b => simp [exprRoots] at h

/-- every argument mentions only names from `names` -/
def ArgsOver (names : List String) (args : List (String × Expr)) : Prop :=
  ∀ p ∈ args, ∃ ns, exprRoots p.2 = some ns ∧ ∀ k ∈ ns, k ∈ names

theorem evalArgs_congr (E : Env) (G : Frame) (st₁ st₂ : St) (names : List String)
    (hagree : ∀ k ∈ names, (view G st₁).root k = (view G st₂).root k) :
    ∀ args, ArgsOver names args → evalArgs E G st₁ args = evalArgs E G st₂ args
  | [], _ => rfl
  | (k, e) :: r, h => by
    obtain ⟨ns, h1, h2⟩ := h (k, e) List.mem_cons_self
    have e1 : eval E G st₁ e = eval E G st₂ e :=
      evalExpr_congr E.cfg _ _ e ns h1 (fun x hx => hagree x (h2 x hx))
    have e2 := evalArgs_congr E G st₁ st₂ names hagree r (fun p hp => h p (List.mem_cons_of_mem _ hp))
    simp only [evalArgs, e1, e2]


end LiquidVerif.Scope
