import LiquidVerif.Model.Printer
/-! Helper lemmas for C04: unfolding equations of the path parser and the inductive round trip. -/
namespace LiquidVerif.Printer

/-- `rest` does not continue a path: empty, or its first token is none of word / `["…"]` / `[n]` / `[` / `.` -/
def PathStop : List PTok → Prop
  | [] => True
  | .other _ :: _ => True
  | .rbracket :: _ => True
  | _ => False

theorem pathLoop_stop {rest : List PTok} (h : PathStop rest) : pathLoop rest = some (.nil, rest) := by
  unfold pathLoop
  cases rest with
  | nil => rw [pathLoopS] <;> simp
  | cons t r =>
    cases t <;> first
      | (exfalso; exact h)
      | (rw [pathLoopS] <;> simp)

theorem pathLoop_word (s : String) (r : List PTok) (h : startsWithWord r = false) :
    pathLoop (.word s :: r) = (pathLoop r).map fun x => (.cons (.name s) x.1, x.2) := by
  unfold pathLoop
  rw [pathLoopS]
  simp only [h]
  cases pathLoopS r <;> simp

theorem pathLoop_identstring (s : String) (r : List PTok) (h : startsWithWord r = false) :
    pathLoop (.identstring s :: r) = (pathLoop r).map fun x => (.cons (.name s) x.1, x.2) := by
  unfold pathLoop
  rw [pathLoopS]
  simp only [h]
  cases pathLoopS r <;> simp

theorem pathLoop_identindex (i : Int) (r : List PTok) (h : startsWithWord r = false) :
    pathLoop (.identindex i :: r) = (pathLoop r).map fun x => (.cons (.idx i) x.1, x.2) := by
  unfold pathLoop
  rw [pathLoopS]
  simp only [h]
  cases pathLoopS r <;> simp

theorem pathLoop_dot (r : List PTok) (h : startsWithWord r = true) : pathLoop (.dot :: r) = pathLoop r := by
  unfold pathLoop
  rw [pathLoopS]
  simp only [h]
  cases pathLoopS r <;> simp

theorem pathLoop_lbracket (r r' : List PTok) (q : Segs) (hq : parsePath r = some (q, .rbracket :: r'))
    (h : startsWithWord r' = false) :
    pathLoop (.lbracket :: r) = (pathLoop r').map fun x => (.cons (.sub q) x.1, x.2) := by
  unfold pathLoop
  rw [pathLoopS]
  unfold parsePath at hq
  cases hp : parsePathS r with
  | none => simp [hp] at hq
  | some x =>
    obtain ⟨q', r2, hr2⟩ := x
    simp only [hp, Option.map_some, Option.some.injEq, Prod.mk.injEq] at hq
    obtain ⟨rfl, rfl⟩ := hq
    simp only [h]
    cases pathLoopS r' <;> simp

theorem parsePath_of_loop (ts : List PTok) (s : Seg) (p : Segs) (rest : List PTok)
    (h : pathLoop ts = some (.cons s p, rest)) : parsePath ts = some (.cons s p, rest) := by
  unfold parsePath
  unfold pathLoop at h
  rw [parsePathS]
  cases hp : pathLoopS ts with
  | none => simp [hp] at h
  | some x =>
    obtain ⟨q, r⟩ := x
    simp only [hp, Option.map_some, Option.some.injEq, Prod.mk.injEq] at h
    obtain ⟨rfl, rfl⟩ := h
    simp

/-! ### well-formed paths: every (nested) path has at least one segment — what `Path.parse` produces -/
mutual
def Seg.wf : Seg → Prop
  | .name _ => True
  | .idx _ => True
  | .sub p => p ≠ .nil ∧ p.wf
def Segs.wf : Segs → Prop
  | .nil => True
  | .cons s r => s.wf ∧ r.wf
end

theorem tokSeg_false_noWord (s : Seg) (X : List PTok) : startsWithWord (tokSeg false s ++ X) = false := by
  cases s with
  | name n => unfold tokSeg; split <;> simp [startsWithWord]
  | idx i => simp [tokSeg, startsWithWord]
  | sub p => simp [tokSeg, startsWithWord]

theorem tokSegs_false_noWord (p : Segs) (rest : List PTok) (h : PathStop rest) :
    startsWithWord (tokSegs false p ++ rest) = false := by
  cases p with
  | nil =>
    simp only [tokSegs, List.nil_append]
    cases rest with
    | nil => rfl
    | cons t r => cases t <;> simp_all [PathStop, startsWithWord]
  | cons s r =>
    simp only [tokSegs, List.append_assoc]
    exact tokSeg_false_noWord s _

mutual
/-- one printed segment in front of `X` (which does not start with a word) is read as that segment -/
theorem seg_rt (s : Seg) (first : Bool) (X : List PTok) (hw : s.wf) (hX : startsWithWord X = false) :
    pathLoop (tokSeg first s ++ X) = (pathLoop X).map fun x => (.cons s x.1, x.2) := by
  cases s with
  | name n =>
    unfold tokSeg
    by_cases hp : isProperty n = true
    · cases first
      · simp only [hp, if_true, Bool.false_eq_true, if_false, List.cons_append, List.nil_append]
        rw [pathLoop_dot _ (by simp [startsWithWord]), pathLoop_word _ _ hX]
      · simp only [hp, if_true, List.cons_append, List.nil_append]
        rw [pathLoop_word _ _ hX]
    · simp only [hp, if_false, List.cons_append, List.nil_append, Bool.false_eq_true]
      rw [pathLoop_identstring _ _ hX]
  | idx i =>
    simp only [tokSeg, List.cons_append, List.nil_append]
    rw [pathLoop_identindex _ _ hX]
  | sub p =>
    obtain ⟨hne, hp⟩ := (by simpa [Seg.wf] using hw : p ≠ .nil ∧ p.wf)
    have e : tokSeg first (.sub p) ++ X = .lbracket :: (tokSegs true p ++ (.rbracket :: X)) := by
      simp [tokSeg]
    have hin := segs_rt p true (.rbracket :: X) hp (by simp [PathStop])
    cases p with
    | nil => exact absurd rfl hne
    | cons s' r' =>
      rw [e, pathLoop_lbracket _ X _ (parsePath_of_loop _ _ _ _ hin) hX]
/-- **printed path followed by a non-path token is read back as the same segments** -/
theorem segs_rt (p : Segs) (first : Bool) (rest : List PTok) (hw : p.wf) (hs : PathStop rest) :
    pathLoop (tokSegs first p ++ rest) = some (p, rest) := by
  cases p with
  | nil => simpa [tokSegs] using pathLoop_stop hs
  | cons s r =>
    obtain ⟨hsw, hrw⟩ := (by simpa [Segs.wf] using hw : s.wf ∧ r.wf)
    have e : tokSegs first (.cons s r) ++ rest = tokSeg first s ++ (tokSegs false r ++ rest) := by
      simp [tokSegs]
    rw [e, seg_rt s first _ hsw (tokSegs_false_noWord r rest hs), segs_rt r false rest hrw hs]
    simp
end

end LiquidVerif.Printer
