import LiquidVerif.Model.TagAudit
/-! Helper lemmas for the tag-audit model (C21). -/
namespace LiquidVerif.TagAudit

/-- the main loop of `_audit_tags` never fails: `pop` is only reached with a non-empty stack -/
theorem loop_ok (tbl : EnvTable) (isB isE : TagName → Bool) :
    ∀ (ts st : List TagName) (r : Report), ∃ p, loop tbl isB isE ts st r = .ok p := by
  intro ts
  induction ts with
  | nil => intro st r; exact ⟨(st, r), rfl⟩
  | cons t ts ih =>
    intro st r
    unfold loop
    by_cases hB : isB t = true
    · simp only [hB, if_true]; exact ih _ _
    · simp only [hB]
      by_cases hE : isE t = true
      · simp only [hE, if_true]
        cases st with
        | nil => simp only [List.isEmpty_nil, if_true]; exact ih _ _
        | cons s st' => simp only [List.isEmpty_cons, pyPop]; exact ih _ _
      · simp only [hE]; exact ih _ _

end LiquidVerif.TagAudit

namespace LiquidVerif.TagAudit

/-! ## Consistency of an environment table with the hand-written grammar -/

/-- inner tags the parser accepts somewhere inside a frame of this family -/
def Frame.familyInners : Frame → List TagName
  | .condThen .. | .condElse .. | .condJunk .. => [nm "elsif", nm "else"]
  | .caseStart | .caseBranch => [nm "when", nm "else"]
  | .forBody | .forElse => [nm "else"]
  | .transMsg | .transPlural => [nm "plural"]
  | .simple .. | .skip .. => []

/-- the audit's tables agree with what the parser does for this frame: the closing tag the parser
hard-codes is `"end" + name`, is a registered end tag of a registered block, and every inner tag the
parser accepts inside it is allowed there by the inner-tag map -/
def Frame.isJunk : Frame → Bool
  | .condJunk .. => true
  | _ => false

def goodFrame (tbl : EnvTable) (f : Frame) : Bool :=
  !f.isJunk && f.name.ends == 0 && f.endT == f.name.endOf
  && (registeredBlocks tbl).contains f.name && (registeredEnds tbl).contains f.endT
  && f.familyInners.all (fun t => (enclosing tbl t).contains f.name)

def infoOK (tbl : EnvTable) (i : TagInfo) : Bool :=
  match dispatch i with
  | .openF f => i.block && i.name == i.key && f.name == i.key && f.endT == i.endTag && goodFrame tbl f
      && i.key != nm "break" && i.key != nm "continue"
  | .inline => !i.block && i.name == i.key && i.key.ends == 0
      && (!(i.key == nm "break" || i.key == nm "continue") || (enclosing tbl i.key).contains (nm "for"))
  | .bad => !i.block

/-- decidable side condition tying a generated table to the grammar model (kernel-evaluated for
`defaultEnv` and `extraEnv` on every run) -/
def consistent (tbl : EnvTable) : Bool :=
  tbl.tags.all (infoOK tbl)
  && tbl.tags.all (fun i => tbl.tags.all (fun j => !(i.name == j.name) || i.block == j.block))
  && [nm "else", nm "elsif", nm "when", nm "plural"].all (fun t => !(registeredBlocks tbl).contains t)

/-- what one accepted step of the restricted parser means for the audit -/
inductive StepKind (tbl : EnvTable) (pst : List Frame) (t : TagName) (pst' : List Frame) : Prop
  | close (f : Frame) (rest : List Frame) :
      pst = f :: rest → pst' = rest → t = f.endT → StepKind tbl pst t pst'
  | inner (f f' : Frame) (rest : List Frame) :
      pst = f :: rest → pst' = f' :: rest → f'.name = f.name → goodFrame tbl f' = true →
      t.ends = 0 → (registeredBlocks tbl).contains t = false →
      (enclosing tbl t).contains f.name = true → StepKind tbl pst t pst'
  | open_ (f' : Frame) :
      pst' = f' :: pst → f'.name = t → goodFrame tbl f' = true →
      (registered tbl).contains t = true → (registeredBlocks tbl).contains t = true →
      StepKind tbl pst t pst'
  | inline :
      pst' = pst → t.ends = 0 → (registeredBlocks tbl).contains t = false →
      ((registered tbl).contains t = true ∨
        ((enclosing tbl t).contains (nm "for") = true ∧ ∃ f ∈ pst, f.name = nm "for")) →
      StepKind tbl pst t pst'

theorem consistent_info {tbl : EnvTable} (hc : consistent tbl = true) {i : TagInfo} (hi : i ∈ tbl.tags) :
    infoOK tbl i = true := by
  simp only [consistent, Bool.and_eq_true, List.all_eq_true] at hc
  exact hc.1.1 i hi

theorem consistent_names {tbl : EnvTable} (hc : consistent tbl = true) {i j : TagInfo}
    (hi : i ∈ tbl.tags) (hj : j ∈ tbl.tags) (h : i.name = j.name) : i.block = j.block := by
  simp only [consistent, Bool.and_eq_true, List.all_eq_true] at hc
  have := hc.1.2 i hi j hj
  simpa [h] using this

theorem findTag_some {tbl : EnvTable} {t : TagName} {i : TagInfo} (h : findTag tbl t = some i) :
    i ∈ tbl.tags ∧ i.key = t := by
  unfold findTag at h
  refine ⟨List.mem_of_find?_eq_some h, ?_⟩
  have := List.find?_some h
  simpa using this

theorem mem_registered {tbl : EnvTable} {i : TagInfo} (hi : i ∈ tbl.tags)
    (hb : i.key ≠ nm "break") (hcn : i.key ≠ nm "continue") : (registered tbl).contains i.key = true := by
  rw [List.contains_iff_mem]
  unfold registered
  rw [List.mem_filter]
  refine ⟨List.mem_map_of_mem hi, ?_⟩
  simp [hb, hcn]

theorem mem_registeredBlocks {tbl : EnvTable} {i : TagInfo} (hi : i ∈ tbl.tags) (hb : i.block = true) :
    (registeredBlocks tbl).contains i.name = true := by
  rw [List.contains_iff_mem]
  unfold registeredBlocks
  exact List.mem_map_of_mem (List.mem_filter.mpr ⟨hi, hb⟩)

theorem not_mem_registeredBlocks {tbl : EnvTable} (hc : consistent tbl = true) {i : TagInfo}
    (hi : i ∈ tbl.tags) (hb : i.block = false) : (registeredBlocks tbl).contains i.name = false := by
  rw [Bool.eq_false_iff]
  intro h
  rw [List.contains_iff_mem] at h
  unfold registeredBlocks at h
  obtain ⟨j, hj, hn⟩ := List.mem_map.mp h
  obtain ⟨hj, hjb⟩ := List.mem_filter.mp hj
  have := consistent_names hc hj hi hn
  simp_all

theorem isFor_name {f : Frame} (h : f.isFor = true) : f.name = nm "for" := by
  cases f <;> simp_all [Frame.isFor, Frame.name]

theorem dispatchTok_kind {tbl : EnvTable} (hc : consistent tbl = true) {pst pst' : List Frame} {t : TagName}
    (h : dispatchTok tbl Opts.restricted pst t = some pst') : StepKind tbl pst t pst' := by
  unfold dispatchTok at h
  split at h
  · cases h
  · rename_i info hf
    obtain ⟨hmem, hkey⟩ := findTag_some hf
    have hok := consistent_info hc hmem
    unfold infoOK at hok
    split at h
    · cases h
    · -- inline
      rename_i hd
      simp only [hd, Bool.and_eq_true, Bool.not_eq_true', beq_iff_eq, Bool.or_eq_true] at hok
      obtain ⟨⟨⟨hnb, hname⟩, hends⟩, hbr⟩ := hok
      split at h
      · cases h
      · rename_i hcond
        cases h
        refine .inline rfl (hkey ▸ hends) ?_ ?_
        · have := not_mem_registeredBlocks hc hmem hnb
          rw [hname, hkey] at this; exact this
        · by_cases hbc : t = nm "break" ∨ t = nm "continue"
          · right
            have hfor : (pst.any (·.isFor)) = true := by
              have hbc' : (t == nm "break" || t == nm "continue") = true := by
                rcases hbc with h | h <;> simp [h]
              simp only [Opts.restricted, hbc', Bool.not_false, Bool.and_true, Bool.true_and,
                Bool.not_eq_true', Bool.not_eq_false] at hcond
              simpa using hcond
            refine ⟨?_, ?_⟩
            · rcases hbr with hbr | hbr
              · rw [hkey] at hbr; simp at hbr; exact absurd hbc (by simp [hbr.1, hbr.2])
              · rw [hkey] at hbr; exact hbr
            · obtain ⟨f, hf, hff⟩ := List.any_eq_true.mp hfor
              exact ⟨f, hf, isFor_name hff⟩
          · left
            have := mem_registered hmem (by rw [hkey]; exact fun e => hbc (Or.inl e))
              (by rw [hkey]; exact fun e => hbc (Or.inr e))
            rw [hkey] at this; exact this
    · -- openF
      rename_i f hd
      simp only [hd, Bool.and_eq_true, beq_iff_eq, bne_iff_ne, ne_eq] at hok
      obtain ⟨⟨⟨⟨⟨⟨hb, hname⟩, hfn⟩, _hfe⟩, hgood⟩, hnb⟩, hnc⟩ := hok
      split at h
      · cases h
      · cases h
        refine .open_ f rfl (hfn.trans hkey) hgood ?_ ?_
        · have := mem_registered hmem hnb hnc
          rw [hkey] at this; exact this
        · have := mem_registeredBlocks hmem hb
          rw [hname, hkey] at this; exact this

end LiquidVerif.TagAudit

namespace LiquidVerif.TagAudit

theorem consistent_inner {tbl : EnvTable} (hc : consistent tbl = true) {t : TagName}
    (ht : t ∈ [nm "else", nm "elsif", nm "when", nm "plural"]) : (registeredBlocks tbl).contains t = false := by
  simp only [consistent, Bool.and_eq_true, List.all_eq_true] at hc
  have := hc.2 t ht
  simpa using this

theorem good_inner {tbl : EnvTable} {f : Frame} (hg : goodFrame tbl f = true) {t : TagName}
    (ht : t ∈ f.familyInners) : (enclosing tbl t).contains f.name = true := by
  simp only [goodFrame, Bool.and_eq_true, List.all_eq_true] at hg
  exact hg.2 t ht

/-- goodness only looks at the frame's name, end tag and family -/
theorem good_of_same {tbl : EnvTable} {f f' : Frame} (hg : goodFrame tbl f = true)
    (hn : f'.name = f.name) (he : f'.endT = f.endT) (hi : f'.familyInners = f.familyInners)
    (hj : f'.isJunk = false) : goodFrame tbl f' = true := by
  simp only [goodFrame, hn, he, hi, hj, Bool.and_eq_true] at hg ⊢
  exact ⟨⟨⟨⟨⟨rfl, hg.1.1.1.1.2⟩, hg.1.1.1.2⟩, hg.1.1.2⟩, hg.1.2⟩, hg.2⟩

theorem pstep_kind {tbl : EnvTable} (hc : consistent tbl = true) {pst pst' : List Frame} {t : TagName}
    (hg : ∀ f ∈ pst, goodFrame tbl f = true)
    (h : pstep tbl Opts.restricted pst t = some pst') : StepKind tbl pst t pst' := by
  unfold pstep at h
  cases pst with
  | nil => exact dispatchTok_kind hc h
  | cons f rest =>
    have hgf := hg f (List.mem_cons_self ..)
    have inner_step : ∀ (f' : Frame), f'.name = f.name → f'.endT = f.endT → f'.familyInners = f.familyInners →
        f'.isJunk = false → t ∈ f.familyInners → t ∈ [nm "else", nm "elsif", nm "when", nm "plural"] →
        StepKind tbl (f :: rest) t (f' :: rest) := by
      intro f' hn he hi hj ht ht'
      refine .inner f f' rest rfl rfl hn (good_of_same hgf hn he hi hj) ?_ (consistent_inner hc ht') (good_inner hgf ht)
      simp only [List.mem_cons, List.not_mem_nil, or_false] at ht'
      rcases ht' with h | h | h | h <;> simp [h, nm]
    cases f with
    | condThen n e lax =>
      simp only at h
      split at h
      · rename_i hte; cases h; exact .close _ _ rfl rfl (by simpa [Frame.endT] using hte)
      · split at h
        · rename_i hte; cases h
          have : t = nm "elsif" := by simpa using hte
          subst this
          exact inner_step _ rfl rfl rfl rfl (by simp [Frame.familyInners]) (by simp)
        · split at h
          · rename_i hte; cases h
            have : t = nm "else" := by simpa using hte
            subst this
            exact inner_step _ rfl rfl rfl rfl (by simp [Frame.familyInners]) (by simp)
          · exact dispatchTok_kind hc h
    | condElse n e lax =>
      simp only at h
      split at h
      · rename_i hte; cases h; exact .close _ _ rfl rfl (by simpa [Frame.endT] using hte)
      · split at h
        · simp [Opts.restricted] at h
        · exact dispatchTok_kind hc h
    | condJunk n e =>
      simp only at h
      split at h
      · rename_i hte; cases h; exact .close _ _ rfl rfl (by simpa [Frame.endT] using hte)
      · -- a junk frame is never good (it does not arise in the restricted grammar)
        simp [goodFrame, Frame.isJunk] at hgf
    | caseStart =>
      simp only at h
      split at h
      · rename_i hte; cases h; exact .close _ _ rfl rfl (by simpa [Frame.endT] using hte)
      · split at h
        · rename_i hte
          split at h
          · cases h
          · cases h
            have : t = nm "when" ∨ t = nm "else" := by simpa using hte
            rcases this with h | h <;> subst h
            · exact inner_step _ rfl rfl rfl rfl (by simp [Frame.familyInners]) (by simp)
            · exact inner_step _ rfl rfl rfl rfl (by simp [Frame.familyInners]) (by simp)
        · cases h
    | caseBranch =>
      simp only at h
      split at h
      · rename_i hte; cases h; exact .close _ _ rfl rfl (by simpa [Frame.endT] using hte)
      · split at h
        · rename_i hte; cases h
          have : t = nm "when" ∨ t = nm "else" := by simpa using hte
          rcases this with h | h <;> subst h
          · exact inner_step _ rfl rfl rfl rfl (by simp [Frame.familyInners]) (by simp)
          · exact inner_step _ rfl rfl rfl rfl (by simp [Frame.familyInners]) (by simp)
        · exact dispatchTok_kind hc h
    | forBody =>
      simp only at h
      split at h
      · rename_i hte; cases h; exact .close _ _ rfl rfl (by simpa [Frame.endT] using hte)
      · split at h
        · rename_i hte; cases h
          have : t = nm "else" := by simpa using hte
          subst this
          exact inner_step _ rfl rfl rfl rfl (by simp [Frame.familyInners]) (by simp)
        · exact dispatchTok_kind hc h
    | forElse =>
      simp only at h
      split at h
      · rename_i hte; cases h; exact .close _ _ rfl rfl (by simpa [Frame.endT] using hte)
      · exact dispatchTok_kind hc h
    | simple n e =>
      simp only at h
      split at h
      · rename_i hte; cases h; exact .close _ _ rfl rfl (by simpa [Frame.endT] using hte)
      · exact dispatchTok_kind hc h
    | transMsg =>
      simp only at h
      split at h
      · rename_i hte; cases h; exact .close _ _ rfl rfl (by simpa [Frame.endT] using hte)
      · split at h
        · rename_i hte; cases h
          have : t = nm "plural" := by simpa using hte
          subst this
          exact inner_step _ rfl rfl rfl rfl (by simp [Frame.familyInners]) (by simp)
        · cases h
    | transPlural =>
      simp only at h
      split at h
      · rename_i hte; cases h; exact .close _ _ rfl rfl (by simpa [Frame.endT] using hte)
      · cases h
    | skip n e noNest =>
      simp only at h
      split at h
      · cases h
      · split at h
        · rename_i hte; cases h; exact .close _ _ rfl rfl (by simpa [Frame.endT] using hte)
        · simp [Opts.restricted] at h

end LiquidVerif.TagAudit

namespace LiquidVerif.TagAudit

theorem stepKind_good {tbl : EnvTable} {pst pst' : List Frame} {t : TagName}
    (hk : StepKind tbl pst t pst') (hg : ∀ f ∈ pst, goodFrame tbl f = true) :
    ∀ f ∈ pst', goodFrame tbl f = true := by
  cases hk with
  | close f rest h1 h2 _ =>
    subst h1 h2; intro g hgm; exact hg g (List.mem_cons_of_mem _ hgm)
  | inner f f' rest h1 h2 _ hgood _ _ _ =>
    subst h1 h2; intro g hgm
    rcases List.mem_cons.mp hgm with h | h
    · subst h; exact hgood
    · exact hg g (List.mem_cons_of_mem _ h)
  | open_ f' h1 _ hgood _ _ =>
    subst h1; intro g hgm
    rcases List.mem_cons.mp hgm with h | h
    · subst h; exact hgood
    · exact hg g h
  | inline h1 _ _ _ => subst h1; exact hg

theorem good_name_ends {tbl : EnvTable} {f : Frame} (hg : goodFrame tbl f = true) : f.name.ends = 0 := by
  simp only [goodFrame, Bool.and_eq_true, beq_iff_eq] at hg
  exact hg.1.1.1.1.2

theorem good_endT {tbl : EnvTable} {f : Frame} (hg : goodFrame tbl f = true) : f.endT = f.name.endOf := by
  simp only [goodFrame, Bool.and_eq_true, beq_iff_eq] at hg
  exact hg.1.1.1.2

theorem good_regBlock {tbl : EnvTable} {f : Frame} (hg : goodFrame tbl f = true) :
    (registeredBlocks tbl).contains f.name = true := by
  simp only [goodFrame, Bool.and_eq_true] at hg
  exact hg.1.1.2

theorem good_regEnd {tbl : EnvTable} {f : Frame} (hg : goodFrame tbl f = true) :
    (registeredEnds tbl).contains f.endT = true := by
  simp only [goodFrame, Bool.and_eq_true] at hg
  exact hg.1.2

theorem unEnd_endOf (n : TagName) : n.endOf.unEnd = n := by
  cases n; simp [TagName.endOf, TagName.unEnd]

/-- an end tag the audit can fully explain: `"end" + b` for a registered block `b` whose registered end tag it is -/
def goodEnd (tbl : EnvTable) (e : TagName) : Prop :=
  e.ends = 1 ∧ (registeredBlocks tbl).contains e.unEnd = true ∧ (registeredEnds tbl).contains e = true

theorem good_goodEnd {tbl : EnvTable} {f : Frame} (hg : goodFrame tbl f = true) : goodEnd tbl f.endT := by
  refine ⟨?_, ?_, good_regEnd hg⟩
  · rw [good_endT hg]; simp [TagName.endOf, good_name_ends hg]
  · rw [good_endT hg, unEnd_endOf]; exact good_regBlock hg

theorem prun_cons {tbl : EnvTable} {o : Opts} {pst : List Frame} {t : TagName} {ts : List TagName}
    {res : List Frame} (h : prun tbl o pst (t :: ts) = some res) :
    ∃ pst', pstep tbl o pst t = some pst' ∧ prun tbl o pst' ts = some res := by
  unfold prun at h
  split at h
  · cases h
  · rename_i pst' hp; exact ⟨pst', hp, h⟩

/-- every end tag in a token list the restricted parser accepts closes a good frame -/
theorem run_ends_good {tbl : EnvTable} (hc : consistent tbl = true) :
    ∀ (ts : List TagName) (pst res : List Frame), (∀ f ∈ pst, goodFrame tbl f = true) →
      prun tbl Opts.restricted pst ts = some res → ∀ e ∈ ts, e.isEnd = true → goodEnd tbl e := by
  intro ts
  induction ts with
  | nil => intro _ _ _ _ e he; cases he
  | cons t ts ih =>
    intro pst res hg h e he hend
    obtain ⟨pst', hp, hr⟩ := prun_cons h
    have hk := pstep_kind hc hg hp
    rcases List.mem_cons.mp he with heq | hmem
    · subst heq
      have hne : e.ends ≠ 0 := by simpa [TagName.isEnd] using hend
      cases hk with
      | close f rest h1 _ h3 =>
        subst h1; rw [h3]; exact good_goodEnd (hg f (List.mem_cons_self ..))
      | inner _ _ _ _ _ _ _ h0 _ _ => exact absurd h0 hne
      | open_ f' _ hn hgood _ _ => exact absurd (hn ▸ good_name_ends hgood) hne
      | inline _ h0 _ _ => exact absurd h0 hne
    · exact ih pst' res (stepKind_good hk hg) hr e hmem hend

theorem check_clean {tbl : EnvTable} {t : TagName} {st : List TagName}
    (h : (registered tbl).contains t = true ∨
      ∃ b, (enclosing tbl t).contains b = true ∧ st.contains b = true) : check tbl t st {} = {} := by
  unfold check
  rcases h with h | ⟨b, hb, hs⟩
  · rw [if_pos h]
  · split
    · rfl
    · have hne : (enclosing tbl t).isEmpty = false := by
        cases hl : enclosing tbl t with
        | nil => rw [hl] at hb; simp at hb
        | cons _ _ => rfl
      have hany : ((enclosing tbl t).any fun b => st.contains b) = true :=
        List.any_eq_true.mpr ⟨b, List.contains_iff_mem.mp hb, hs⟩
      simp only [hne, hany, Bool.not_true, Bool.false_eq_true, if_false]

theorem registeredBlocks_ends {tbl : EnvTable} (hc : consistent tbl = true) {x : TagName}
    (h : (registeredBlocks tbl).contains x = true) : x.ends = 0 := by
  rw [List.contains_iff_mem] at h
  unfold registeredBlocks at h
  obtain ⟨i, hi, hn⟩ := List.mem_map.mp h
  obtain ⟨hi, hb⟩ := List.mem_filter.mp hi
  have hok := consistent_info hc hi
  unfold infoOK at hok
  split at hok
  · rename_i f hd
    simp only [Bool.and_eq_true, beq_iff_eq] at hok
    obtain ⟨⟨⟨⟨⟨⟨_, hname⟩, hfn⟩, _⟩, hgood⟩, _⟩, _⟩ := hok
    rw [← hn, hname, ← hfn]; exact good_name_ends hgood
  · simp [hb] at hok
  · simp [hb] at hok

/-- **Simulation**: while the restricted parser accepts, the audit's block stack is the list of the
parser's open frames and nothing is reported. -/
theorem sim {tbl : EnvTable} (hc : consistent tbl = true) (isB isE : TagName → Bool) :
    ∀ (ts : List TagName) (pst : List Frame), (∀ f ∈ pst, goodFrame tbl f = true) →
      (∀ t ∈ ts, isE t = t.isEnd ∧ isB t = (registeredBlocks tbl).contains t) →
      prun tbl Opts.restricted pst ts = some [] →
      loop tbl isB isE ts (pst.map Frame.name) {} = .ok ([], {}) := by
  intro ts
  induction ts with
  | nil =>
    intro pst _ _ h
    simp only [prun, Option.some.injEq] at h
    subst h; rfl
  | cons t ts ih =>
    intro pst hg hH h
    obtain ⟨pst', hp, hr⟩ := prun_cons h
    have hk := pstep_kind hc hg hp
    have hg' := stepKind_good hk hg
    obtain ⟨hE, hB⟩ := hH t (List.mem_cons_self ..)
    have hH' : ∀ t ∈ ts, isE t = t.isEnd ∧ isB t = (registeredBlocks tbl).contains t :=
      fun x hx => hH x (List.mem_cons_of_mem _ hx)
    have ih' := ih pst' hg' hH' hr
    unfold loop
    cases hk with
    | close f rest h1 h2 h3 =>
      subst h1 h2
      have hgf := hg f (List.mem_cons_self ..)
      have hge := good_goodEnd hgf
      have hB' : isB t = false := by
        rw [hB, Bool.eq_false_iff]; intro hc'
        have := registeredBlocks_ends hc hc'
        rw [h3, hge.1] at this; cases this
      have hE' : isE t = true := by rw [hE, h3]; simp [TagName.isEnd, hge.1]
      have hun : t.unEnd = f.name := by rw [h3, good_endT hgf, unEnd_endOf]
      simp only [hB', hE', List.map_cons, List.isEmpty_cons, pyPop, hun, bne_self_eq_false, if_true]
      simpa using ih'
    | inner f f' rest h1 h2 hn _ h0 hnb henc =>
      subst h1 h2
      have hE' : isE t = false := by rw [hE]; simp [TagName.isEnd, h0]
      have hB' : isB t = false := by rw [hB]; exact hnb
      have hck : check tbl t (List.map Frame.name (f :: rest)) {} = {} :=
        check_clean (Or.inr ⟨f.name, henc, by simp⟩)
      simp only [hB', hE', hck]
      simpa [hn] using ih'
    | open_ f' h1 hn _ hreg hblk =>
      subst h1
      have hB' : isB t = true := by rw [hB]; exact hblk
      have hck : check tbl t (t :: List.map Frame.name pst) {} = {} := check_clean (Or.inl hreg)
      simp only [hB', hck, if_true]
      simpa [hn] using ih'
    | inline h1 h0 hnb hor =>
      subst h1
      have hE' : isE t = false := by rw [hE]; simp [TagName.isEnd, h0]
      have hB' : isB t = false := by rw [hB]; exact hnb
      have hck : check tbl t (List.map Frame.name pst') {} = {} := by
        apply check_clean
        rcases hor with h | ⟨henc, f, hf, hfn⟩
        · exact Or.inl h
        · refine Or.inr ⟨nm "for", henc, ?_⟩
          rw [List.contains_iff_mem, ← hfn]
          exact List.mem_map_of_mem hf
      simp only [hB', hE', hck]
      simpa using ih'

end LiquidVerif.TagAudit

namespace LiquidVerif.TagAudit

/-! ## The final "bad end tags" pass and assembling `audit` -/

theorem mem_dedup {l : List TagName} {x : TagName} (h : x ∈ dedup l) : x ∈ l := by
  induction l with
  | nil => simp [dedup] at h
  | cons t ts ih =>
    simp only [dedup, List.mem_cons, List.mem_filter] at h
    rcases h with h | ⟨h, _⟩
    · exact h ▸ List.mem_cons_self ..
    · exact List.mem_cons_of_mem _ (ih h)

theorem mem_dedup_of_mem {l : List TagName} {x : TagName} (h : x ∈ l) : x ∈ dedup l := by
  induction l with
  | nil => cases h
  | cons t ts ih =>
    simp only [dedup, List.mem_cons, List.mem_filter]
    by_cases hx : x = t
    · exact Or.inl hx
    · rcases List.mem_cons.mp h with h | h
      · exact absurd h hx
      · exact Or.inr ⟨ih h, by simpa using hx⟩

theorem block_not_inline {tbl : EnvTable} (hc : consistent tbl = true) {x : TagName}
    (h : (registeredBlocks tbl).contains x = true) : (inlineTags tbl).contains x = false := by
  rw [Bool.eq_false_iff]; intro hi
  rw [List.contains_iff_mem] at h hi
  unfold registeredBlocks at h
  unfold inlineTags at hi
  obtain ⟨i, hi1, hin⟩ := List.mem_map.mp h
  obtain ⟨j, hj1, hjn⟩ := List.mem_map.mp hi
  obtain ⟨him, hib⟩ := List.mem_filter.mp hi1
  obtain ⟨hjm, hjb⟩ := List.mem_filter.mp hj1
  have := consistent_names hc him hjm (hin.trans hjn.symm)
  simp_all

theorem finalPass_clean {tbl : EnvTable} (hc : consistent tbl = true) :
    ∀ names : List TagName, (∀ e ∈ names, e.isEnd = true → goodEnd tbl e) → finalPass tbl names [] = [] := by
  intro names
  induction names with
  | nil => intro _; rfl
  | cons e es ih =>
    intro h
    have hstep : finalStep tbl [] e = [] := by
      unfold finalStep
      by_cases he : e.isEnd = true
      · obtain ⟨_, hb, hr⟩ := h e (List.mem_cons_self ..) he
        simp only [he, hr, block_not_inline hc hb, if_true, Bool.false_and, Bool.not_true, Bool.or_self,
          Bool.false_eq_true, if_false]
      · simp [he]
    simp only [finalPass, List.foldl_cons, hstep]
    exact ih (fun x hx => h x (List.mem_cons_of_mem _ hx))

/-- on the tokens of the list itself, `in end_tags` is `startswith("end")` -/
theorem endTags_contains {toks : List TagName} {t : TagName} (ht : t ∈ toks) :
    (endTagsOf toks).contains t = t.isEnd := by
  unfold endTagsOf
  cases he : t.isEnd with
  | true => rw [List.contains_iff_mem]; exact List.mem_filter.mpr ⟨ht, he⟩
  | false =>
    rw [Bool.eq_false_iff]; intro h
    rw [List.contains_iff_mem] at h
    have := (List.mem_filter.mp h).2
    simp [he] at this

/-- when every end tag present closes a registered block, the inferred block tags add nothing -/
theorem blockTags_contains {tbl : EnvTable} {toks : List TagName}
    (hG : ∀ e ∈ toks, e.isEnd = true → goodEnd tbl e) (t : TagName) :
    (blockTagsOf tbl toks).contains t = (registeredBlocks tbl).contains t := by
  unfold blockTagsOf
  cases hb : (registeredBlocks tbl).contains t with
  | true =>
    rw [List.contains_iff_mem] at hb ⊢
    exact List.mem_append_right _ hb
  | false =>
    rw [Bool.eq_false_iff]; intro h
    rw [List.contains_iff_mem] at h
    rcases List.mem_append.mp h with h | h
    · obtain ⟨e, he, hu⟩ := List.mem_map.mp h
      unfold endTagsOf at he
      obtain ⟨hm, hend⟩ := List.mem_filter.mp he
      have := (hG e hm hend).2.1
      rw [hu, hb] at this; cases this
    · rw [← List.contains_iff_mem, hb] at h; cases h

theorem parses_run {tbl : EnvTable} {o : Opts} {toks : List TagName} (h : parses tbl o toks = true) :
    prun tbl o [] toks = some [] := by
  unfold parses at h
  exact beq_iff_eq.mp h

/-- a token list accepted by the restricted grammar is audited clean (consistent table) -/
theorem restricted_clean {tbl : EnvTable} (hc : consistent tbl = true) {toks : List TagName}
    (h : parses tbl Opts.restricted toks = true) : audit tbl toks = .ok Report.clean := by
  have hrun := parses_run h
  have hG := run_ends_good hc toks [] [] (by intro f hf; cases hf) hrun
  have hsim := sim hc (fun t => (blockTagsOf tbl toks).contains t) (fun t => (endTagsOf toks).contains t)
    toks [] (by intro f hf; cases hf)
    (fun t ht => ⟨endTags_contains ht, blockTags_contains hG t⟩) hrun
  have hfin := finalPass_clean hc (dedup toks) (fun e he => hG e (mem_dedup he))
  unfold audit
  simp only [List.map_nil] at hsim
  simp only [hsim, hfin, Report.clean, List.reverse_nil, List.append_nil]

end LiquidVerif.TagAudit

namespace LiquidVerif.TagAudit

deriving instance DecidableEq for Except

/-! ## The restricted grammar is a sub-grammar of the real one -/

theorem dispatch_sub (tbl : EnvTable) (t : TagName) : ∀ s s',
    dispatchTok tbl Opts.restricted s t = some s' → dispatchTok tbl Opts.real s t = some s' := by
  intro s s' h
  unfold dispatchTok at h ⊢
  split at h
  · cases h
  · rename_i info hf
    try simp only [hf]
    split at h
    · cases h
    · split at h
      · cases h
      · cases h; simp [Opts.real]
    · exact h

theorem restricted_step_sub_strict (tbl : EnvTable) (st st' : List Frame) (t : TagName)
    (h : pstep tbl Opts.restricted st t = some st') : pstep tbl Opts.real st t = some st' := by
  have hd := dispatch_sub tbl t
  unfold pstep at h ⊢
  cases st with
  | nil => exact hd _ _ h
  | cons f rest =>
    cases f <;> simp only at h ⊢ <;> (repeat' split at h) <;>
      first
        | (cases h; done)
        | (simp only [*, if_true, if_false, Bool.false_eq_true]; done)
        | (simp only [*, if_true, if_false, Bool.false_eq_true]; first | exact h | exact hd _ _ h)
        | (simp [Opts.restricted] at *; done)

theorem restricted_run_sub_strict (tbl : EnvTable) : ∀ (ts : List TagName) (st res : List Frame),
    prun tbl Opts.restricted st ts = some res → prun tbl Opts.real st ts = some res := by
  intro ts
  induction ts with
  | nil => intro st res h; exact h
  | cons t ts ih =>
    intro st res h
    obtain ⟨st', hp, hr⟩ := prun_cons h
    unfold prun
    rw [restricted_step_sub_strict tbl st st' t hp]
    exact ih st' res hr

/-! ## Reporting: unknown names and unbalanced blocks -/

theorem check_unclosed (tbl : EnvTable) (t : TagName) (st : List TagName) (r : Report) :
    (check tbl t st r).unclosed = r.unclosed := by
  unfold check; split
  · rfl
  · simp only; split
    · rfl
    · split <;> rfl

theorem check_unknown_mono (tbl : EnvTable) (t : TagName) (st : List TagName) (r : Report) {x : TagName}
    (h : x ∈ r.unknown) : x ∈ (check tbl t st r).unknown := by
  unfold check; split
  · exact h
  · simp only; split
    · exact List.mem_append_left _ h
    · split <;> exact h

theorem check_reports_unknown (tbl : EnvTable) (t : TagName) (st : List TagName) (r : Report)
    (hr : (registered tbl).contains t = false) (he : enclosing tbl t = []) :
    t ∈ (check tbl t st r).unknown := by
  unfold check
  rw [if_neg (by rw [hr]; exact Bool.false_ne_true)]
  simp only [he, List.isEmpty_nil, if_true]
  exact List.mem_append_right _ (List.mem_singleton.mpr rfl)

/-- one iteration of the loop, whatever branch it takes, continues with *some* stack and report in
which nothing already reported has been dropped -/
theorem loop_cons (tbl : EnvTable) (isB isE : TagName → Bool) (t : TagName) (ts st : List TagName) (r : Report) :
    ∃ st1 r1, loop tbl isB isE (t :: ts) st r = loop tbl isB isE ts st1 r1 ∧
      (∀ x, x ∈ r.unknown → x ∈ r1.unknown) ∧ (∀ x, x ∈ r.unclosed → x ∈ r1.unclosed) ∧
      (isE t = false → (registered tbl).contains t = false → enclosing tbl t = [] → t ∈ r1.unknown) := by
  rw [loop]
  by_cases hB : isB t = true
  · simp only [hB, if_true]
    exact ⟨_, _, rfl, fun x hx => check_unknown_mono tbl t _ r hx, fun x hx => by rw [check_unclosed]; exact hx,
      fun _ hr he => check_reports_unknown tbl t _ r hr he⟩
  · simp only [hB]
    by_cases hE : isE t = true
    · simp only [hE, if_true]
      cases st with
      | nil =>
        simp only [List.isEmpty_nil, if_true]
        exact ⟨_, _, rfl, fun x hx => hx, fun x hx => hx, fun h => by cases h⟩
      | cons s st' =>
        simp only [List.isEmpty_cons, pyPop]
        refine ⟨_, _, rfl, ?_, ?_, fun h => by cases h⟩
        · intro x hx; split <;> exact hx
        · intro x hx; split
          · exact List.mem_append_left _ hx
          · exact hx
    · simp only [hE]
      exact ⟨_, _, rfl, fun x hx => check_unknown_mono tbl t _ r hx, fun x hx => by rw [check_unclosed]; exact hx,
        fun _ hr he => check_reports_unknown tbl t _ r hr he⟩

theorem loop_unknown_mono (tbl : EnvTable) (isB isE : TagName → Bool) :
    ∀ (ts st : List TagName) (r : Report) (st' : List TagName) (r' : Report),
      loop tbl isB isE ts st r = .ok (st', r') → ∀ x, x ∈ r.unknown → x ∈ r'.unknown := by
  intro ts
  induction ts with
  | nil => intro st r st' r' h x hx; simp only [loop, Except.ok.injEq, Prod.mk.injEq] at h; rw [← h.2]; exact hx
  | cons t ts ih =>
    intro st r st' r' h x hx
    obtain ⟨st1, r1, heq, hm, _, _⟩ := loop_cons tbl isB isE t ts st r
    rw [heq] at h
    exact ih st1 r1 st' r' h x (hm x hx)

/-- a name that is neither registered, nor an inner tag, nor an end tag is in `unknown_tags` after the loop -/
theorem loop_reports_unknown (tbl : EnvTable) (isB isE : TagName → Bool) (u : TagName)
    (hE : isE u = false) (hr : (registered tbl).contains u = false) (he : enclosing tbl u = []) :
    ∀ (ts st : List TagName) (r : Report) (st' : List TagName) (r' : Report), u ∈ ts →
      loop tbl isB isE ts st r = .ok (st', r') → u ∈ r'.unknown := by
  intro ts
  induction ts with
  | nil => intro _ _ _ _ hu; cases hu
  | cons t ts ih =>
    intro st r st' r' hu h
    obtain ⟨st1, r1, heq, _, _, hrep⟩ := loop_cons tbl isB isE t ts st r
    rw [heq] at h
    rcases List.mem_cons.mp hu with hut | hut
    · subst hut
      exact loop_unknown_mono tbl isB isE ts st1 r1 st' r' h u (hrep hE hr he)
    · exact ih st1 r1 st' r' hut h

theorem finalStep_mono (tbl : EnvTable) (unk : List TagName) (t : TagName) {x : TagName} (h : x ∈ unk) :
    x ∈ finalStep tbl unk t := by
  unfold finalStep
  split
  · simp only; split
    · exact List.mem_append_left _ h
    · exact h
  · exact h

theorem finalPass_mono (tbl : EnvTable) : ∀ (names unk : List TagName) {x : TagName}, x ∈ unk →
    x ∈ finalPass tbl names unk := by
  intro names
  induction names with
  | nil => intro unk x h; exact h
  | cons t ts ih =>
    intro unk x h
    simp only [finalPass, List.foldl_cons]
    exact ih _ (finalStep_mono tbl unk t h)

/-- an end tag that is not a registered end tag is reported unknown unless its start tag is -/
theorem finalPass_reports_end (tbl : EnvTable) (e : TagName) (he : e.isEnd = true)
    (hr : (registeredEnds tbl).contains e = false) :
    ∀ (names unk : List TagName), e ∈ names →
      e ∈ finalPass tbl names unk ∨ e.unEnd ∈ finalPass tbl names unk := by
  intro names
  induction names with
  | nil => intro _ h; cases h
  | cons t ts ih =>
    intro unk hmem
    simp only [finalPass, List.foldl_cons]
    rcases List.mem_cons.mp hmem with h | h
    · subst h
      have : e ∈ finalStep tbl unk e ∨ e.unEnd ∈ finalStep tbl unk e := by
        unfold finalStep
        simp only [he, if_true, hr, Bool.not_false, Bool.true_and]
        by_cases hs : unk.contains e.unEnd = true
        · right
          have hmem : e.unEnd ∈ unk := List.contains_iff_mem.mp hs
          split
          · exact List.mem_append_left _ hmem
          · exact hmem
        · left
          have : unk.contains e.unEnd = false := by simpa using hs
          simp only [this, Bool.not_false, Bool.and_true, Bool.or_true, if_true]
          exact List.mem_append_right _ (List.mem_singleton.mpr rfl)
      rcases this with h | h
      · exact Or.inl (finalPass_mono tbl ts _ h)
      · exact Or.inr (finalPass_mono tbl ts _ h)
    · exact ih _ h

/-- a pushed block is on the stack or already reported unclosed, as long as its own end tag does not occur -/
theorem loop_unclosed_inv (tbl : EnvTable) (isB isE : TagName → Bool) (b : TagName)
    (hEnd : ∀ t, isE t = true → t.isEnd = true) :
    ∀ (ts st : List TagName) (r : Report) (st' : List TagName) (r' : Report),
      (∀ t ∈ ts, t ≠ b.endOf) → (b ∈ st ∨ b ∈ r.unclosed) →
      loop tbl isB isE ts st r = .ok (st', r') → (b ∈ st' ∨ b ∈ r'.unclosed) := by
  intro ts
  induction ts with
  | nil =>
    intro st r st' r' _ hinv h
    simp only [loop, Except.ok.injEq, Prod.mk.injEq] at h
    rw [← h.1, ← h.2]; exact hinv
  | cons t ts ih =>
    intro st r st' r' hne hinv h
    have hne' : ∀ x ∈ ts, x ≠ b.endOf := fun x hx => hne x (List.mem_cons_of_mem _ hx)
    rw [loop] at h
    by_cases hB : isB t = true
    · simp only [hB, if_true] at h
      refine ih _ _ st' r' hne' ?_ h
      rcases hinv with hi | hi
      · exact Or.inl (List.mem_cons_of_mem _ hi)
      · exact Or.inr (by rw [check_unclosed]; exact hi)
    · simp only [hB] at h
      by_cases hE : isE t = true
      · simp only [hE, if_true] at h
        cases st with
        | nil =>
          simp only [List.isEmpty_nil, if_true] at h
          refine ih _ _ st' r' hne' ?_ h
          rcases hinv with hi | hi
          · cases hi
          · exact Or.inr hi
        | cons s rest =>
          simp only [List.isEmpty_cons, pyPop] at h
          refine ih _ _ st' r' hne' ?_ h
          rcases hinv with hi | hi
          · rcases List.mem_cons.mp hi with hbs | hbs
            · -- the popped block is `b`: the end tag is not `end b`, so it is reported
              right
              have hmis : (s != t.unEnd) = true := by
                rw [bne_iff_ne]; intro hs
                have htend := hEnd t hE
                have : t = b.endOf := by
                  have hne0 : t.ends ≠ 0 := by simpa [TagName.isEnd] using htend
                  rw [hbs, hs]
                  cases t with
                  | mk k stem =>
                    simp only [TagName.unEnd, TagName.endOf, TagName.mk.injEq, and_true]
                    simp only at hne0; omega
                exact hne t (List.mem_cons_self ..) this
              simp only [hmis, if_true]
              exact List.mem_append_right _ (by simp [hbs])
            · exact Or.inl hbs
          · right; split
            · exact List.mem_append_left _ hi
            · exact hi
      · simp only [hE] at h
        refine ih _ _ st' r' hne' ?_ h
        rcases hinv with hi | hi
        · exact Or.inl hi
        · exact Or.inr (by rw [check_unclosed]; exact hi)

theorem loop_reports_unclosed (tbl : EnvTable) (isB isE : TagName → Bool) (b : TagName)
    (hEnd : ∀ t, isE t = true → t.isEnd = true) (hB : isB b = true) :
    ∀ (ts st : List TagName) (r : Report) (st' : List TagName) (r' : Report),
      b ∈ ts → (∀ t ∈ ts, t ≠ b.endOf) →
      loop tbl isB isE ts st r = .ok (st', r') → (b ∈ st' ∨ b ∈ r'.unclosed) := by
  intro ts
  induction ts with
  | nil => intro _ _ _ _ hb; cases hb
  | cons t ts ih =>
    intro st r st' r' hb hne h
    have hne' : ∀ x ∈ ts, x ≠ b.endOf := fun x hx => hne x (List.mem_cons_of_mem _ hx)
    rcases List.mem_cons.mp hb with hbt | hbt
    · subst hbt
      rw [loop] at h
      simp only [hB, if_true] at h
      exact loop_unclosed_inv tbl isB isE b hEnd ts _ _ st' r' hne' (Or.inl (List.mem_cons_self ..)) h
    · obtain ⟨st1, r1, heq, _, _, _⟩ := loop_cons tbl isB isE t ts st r
      rw [heq] at h
      exact ih st1 r1 st' r' hbt hne' h

end LiquidVerif.TagAudit
